(* Sched_proofs.v — confluence of the completion-order semantics (model/Sched.v)
   to the sequential run (model/Workflow.v).

   Invariant [inv]: in every state reachable by any schedule, the map of
   completed steps is a RESTRICTION of the sequential result F, and every
   completed forEach item holds the result the sequential run computes for that
   index.  It holds because (Workflow_proofs.final_fix) F is a fixed point of the
   step function and a step can only complete after its dependencies. *)
From Koreo Require Import Json Outcome Outcome_proofs Workflow Workflow_proofs Sched.
From Coq Require Import Lia.
Local Open Scope list_scope.

(* ------------------------------------------------------------------ *)
(* small facts                                                          *)
(* ------------------------------------------------------------------ *)

Lemma item_eqb_eq a b : item_eqb a b = true <-> a = b.
Proof.
  destruct a as [l k], b as [l' k']. unfold item_eqb. cbn.
  rewrite Bool.andb_true_iff, String.eqb_eq, Nat.eqb_eq. split.
  - intros [-> ->]. reflexivity.
  - intros [= -> ->]. auto.
Qed.

Lemma lookup_item_in key items r : lookup_item key items = Some r -> In (key, r) items.
Proof.
  induction items as [|[k v] items IH]; cbn; [discriminate|].
  destruct (item_eqb key k) eqn:E.
  - apply item_eqb_eq in E. subst. intros [= ->]. now left.
  - intros H. right. auto.
Qed.

Lemma lookup_item_app_none key a b :
  lookup_item key a = None -> lookup_item key (a ++ b) = lookup_item key b.
Proof.
  induction a as [|[k v] a IH]; cbn; [reflexivity|].
  destruct (item_eqb key k); [discriminate|exact IH].
Qed.

Lemma lookup_item_app_some key a b r :
  lookup_item key a = Some r -> lookup_item key (a ++ b) = Some r.
Proof.
  induction a as [|[k v] a IH]; cbn; [discriminate|].
  destruct (item_eqb key k); [auto|exact IH].
Qed.

Lemma find_label_some steps l s :
  find (fun s => String.eqb (s_label s) l) steps = Some s -> In s steps /\ s_label s = l.
Proof.
  intros H. apply find_some in H. destruct H as [Hi He]. now apply String.eqb_eq in He.
Qed.

Lemma nodup_label_inj steps s s' :
  NoDup (map s_label steps) -> In s steps -> In s' steps -> s_label s = s_label s' -> s = s'.
Proof.
  induction steps as [|x steps IH]; cbn; [tauto|].
  intros Hn Hs Hs' He. inversion Hn as [|? ? Hnot Hn']; subst.
  destruct Hs as [<-|Hs], Hs' as [<-|Hs']; auto.
  - exfalso. apply Hnot. rewrite He. now apply in_map.
  - exfalso. apply Hnot. rewrite <- He. now apply in_map.
Qed.

Lemma find_label_in steps s :
  NoDup (map s_label steps) -> In s steps ->
  find (fun x => String.eqb (s_label x) (s_label s)) steps = Some s.
Proof.
  intros Hn Hs.
  destruct (find (fun x => String.eqb (s_label x) (s_label s)) steps) as [s'|] eqn:E.
  - apply find_label_some in E. destruct E as [Hi He]. f_equal.
    now apply (nodup_label_inj steps).
  - exfalso. apply (find_none _ _ E) in Hs. now rewrite String.eqb_refl in Hs.
Qed.

Lemma NoDup_app_snoc {A} (l : list A) x : NoDup l -> ~ In x l -> NoDup (l ++ [x]).
Proof.
  intros Hn Hx. induction Hn as [|y l Hy Hn IH]; cbn.
  - constructor; [tauto|constructor].
  - constructor.
    + intros H. apply in_app_or in H. destruct H as [H|[H|[]]]; [tauto|]. subst. apply Hx. now left.
    + apply IH. intros H. apply Hx. now right.
Qed.

(* reading a done-map back in listed order *)
Lemma listed_ext ss a b :
  (forall s, In s ss -> lookup (s_label s) a = lookup (s_label s) b) -> listed ss a = listed ss b.
Proof.
  induction ss as [|s ss IH]; cbn; intros H; [reflexivity|].
  rewrite (H s (or_introl eq_refl)), IH; auto.
Qed.

Lemma listed_self ss : forall (pre a : list (string * lres)),
  NoDup (map fst (pre ++ a)) -> map fst a = map s_label ss -> listed ss (pre ++ a) = Some a.
Proof.
  induction ss as [|s ss IH]; intros pre a Hn Hk.
  - destruct a; [reflexivity|discriminate].
  - destruct a as [|[l x] a]; [discriminate|]. cbn in Hk. injection Hk as Hl Hk. subst l.
    cbn [listed]. rewrite lookup_app_notin.
    2:{ rewrite map_app in Hn. cbn in Hn. apply NoDup_remove_2 in Hn.
        intros H. apply Hn. apply in_or_app. now left. }
    cbn. rewrite String.eqb_refl.
    replace (pre ++ (s_label s, x) :: a) with ((pre ++ [(s_label s, x)]) ++ a)
      by now rewrite <- app_assoc.
    rewrite IH; auto. now rewrite <- app_assoc.
Qed.

(* ------------------------------------------------------------------ *)
(* the invariant                                                        *)
(* ------------------------------------------------------------------ *)

Section Confluence.
  Variable rl : logic -> json -> env -> lres.
  Variable steps : list step.
  Variable parent : json.
  Hypothesis WF : well_formed steps.

  Let F := run_steps_g rl steps parent [].

  Definition item_ok (e : (string * nat) * lres) : Prop :=
    exists s its en inp,
      In s steps /\ s_label s = fst (fst e) /\ step_plan s parent F = PEach its en /\
      nth_error its (snd (fst e)) = Some inp /\
      snd e = push_l (fst (fst e), Some (snd (fst e))) (rl (s_logic s) inp en).

  Definition inv (st : sstate) : Prop :=
    NoDup (map fst (st_done st)) /\
    (forall l r, In (l, r) (st_done st) -> lookup l F = Some r) /\
    Forall item_ok (st_items st).

  Lemma inv_init : inv st_init.
  Proof. repeat split; cbn; [constructor|tauto|constructor]. Qed.

  Lemma done_lookup st d :
    inv st -> is_done d st = true -> lookup d (st_done st) = lookup d F.
  Proof.
    intros (Hn & Hd & _) H. apply mem_str_In in H.
    destruct (in_keys_lookup _ _ H) as [r Hr]. rewrite Hr. symmetry.
    apply Hd. now apply lookup_some_in.
  Qed.

  Lemma plan_agree st s :
    inv st -> deps_ready s st = true -> step_plan s parent (st_done st) = step_plan s parent F.
  Proof.
    intros Hi Hr. unfold deps_ready in Hr. destruct (is_error_step s) eqn:He.
    - unfold step_plan, is_error_step in *. destruct (s_logic s); try discriminate. reflexivity.
    - apply step_plan_ext. intros d Hd. rewrite forallb_forall in Hr. now apply done_lookup, Hr.
  Qed.

  Lemma F_entry s : In s steps -> lookup (s_label s) F = Some (run_step_g rl s parent F).
  Proof. destruct WF as [Hc Hn]. intros Hs. exact (final_fix rl parent steps Hc Hn s Hs). Qed.

  (* the items read back in source order are the sequential per-item results *)
  Lemma gather_spec s its en items :
    In s steps -> step_plan s parent F = PEach its en -> Forall item_ok items ->
    forall n k rs,
      gather_from (s_label s) k n items = Some rs -> (k + n = List.length its)%nat ->
      rs = mapi_from (fun j inp => push_l (s_label s, Some j) (rl (s_logic s) inp en)) k (skipn k its).
  Proof.
    intros Hs Hp Hok. induction n as [|n IH]; intros k rs; cbn.
    - intros [= <-] Hk. rewrite skipn_all2 by lia. reflexivity.
    - destruct (lookup_item (s_label s, k) items) as [r|] eqn:El; [|discriminate].
      destruct (gather_from (s_label s) (S k) n items) as [rs'|] eqn:Eg; [|discriminate].
      intros [= <-] Hk.
      apply lookup_item_in in El. rewrite Forall_forall in Hok. specialize (Hok _ El).
      destruct Hok as (s' & its' & en' & inp & Hs' & Hl' & Hp' & Hn' & Hr'). cbn in Hl', Hn', Hr'.
      assert (s' = s) as -> by (apply (nodup_label_inj steps); auto; apply WF).
      rewrite Hp in Hp'. injection Hp' as <- <-.
      assert (skipn k its = inp :: skipn (S k) its) as ->.
      { clear - Hn'. revert k Hn'. induction its as [|x its IH]; intros [|k]; cbn; try discriminate.
        - intros [= ->]. reflexivity.
        - intros H. now apply IH. }
      cbn. rewrite Hr'. f_equal. apply IH; [exact Eg|lia].
  Qed.

  Lemma exec_inv st e st' : inv st -> exec rl steps parent st e = Some st' -> inv st'.
  Proof.
    intros Hi. destruct e as [l|l k]; cbn [exec]; unfold find_step.
    - destruct (find _ steps) as [s|] eqn:Ef; [|discriminate].
      apply find_label_some in Ef. destruct Ef as [Hs <-].
      destruct (is_done (s_label s) st) eqn:Hd; [discriminate|].
      destruct (deps_ready s st) eqn:Hr; [|discriminate]. cbn.
      rewrite (plan_agree st s Hi Hr).
      assert (forall r, run_step_g rl s parent F = r -> inv (add_done (s_label s) r st)) as Hadd.
      { intros r Hr'. destruct Hi as (Hn & Hdn & Hit). unfold add_done. repeat split; cbn.
        - rewrite map_app. cbn. apply NoDup_app_snoc; [exact Hn|].
          intros H. apply mem_str_In in H. unfold is_done in Hd. congruence.
        - intros l r0 H. apply in_app_or in H. destruct H as [H|[H|[]]]; [auto|].
          injection H as <- <-. now rewrite F_entry, Hr'.
        - exact Hit. }
      unfold run_step_g in Hadd.
      destruct (step_plan s parent F) as [r|inputs en|its en] eqn:Hp.
      + intros [= <-]. now apply Hadd.
      + intros [= <-]. now apply Hadd.
      + destruct (gather (s_label s) (List.length its) (st_items st)) as [rs|] eqn:Eg; [|discriminate].
        intros [= <-]. apply Hadd. f_equal. symmetry.
        exact (gather_spec s its en (st_items st) Hs Hp (proj2 (proj2 Hi)) _ 0%nat rs Eg eq_refl).
    - destruct (find _ steps) as [s|] eqn:Ef; [|discriminate].
      apply find_label_some in Ef. destruct Ef as [Hs <-].
      destruct (is_done (s_label s) st) eqn:Hd; [discriminate|].
      destruct (deps_ready s st) eqn:Hr; [|discriminate]. cbn.
      destruct (lookup_item (s_label s, k) (st_items st)); [discriminate|].
      rewrite (plan_agree st s Hi Hr).
      destruct (step_plan s parent F) as [r|inputs en|its en] eqn:Hp; try discriminate.
      destruct (nth_error its k) as [inp|] eqn:Hn; [|discriminate].
      intros [= <-]. destruct Hi as (Hnd & Hdn & Hit). unfold add_item. repeat split; cbn; auto.
      apply Forall_app. split; [exact Hit|]. constructor; [|constructor].
      exists s, its, en, inp. cbn. auto.
  Qed.

  Lemma exec_all_inv sched : forall st st',
    inv st -> exec_all rl steps parent st sched = Some st' -> inv st'.
  Proof.
    induction sched as [|e sched IH]; cbn; intros st st' Hi.
    - intros [= <-]. exact Hi.
    - destruct (exec rl steps parent st e) as [st1|] eqn:E; [|discriminate].
      apply IH. exact (exec_inv st e st1 Hi E).
  Qed.

  (* every complete schedule ends with the done-map of the sequential run *)
  Theorem complete_unique_thm sched st :
    exec_all rl steps parent st_init sched = Some st -> complete steps st = true ->
    listed steps (st_done st) = Some F /\
    (forall s, In s steps -> lookup (s_label s) (st_done st) = Some (run_step_g rl s parent F)).
  Proof.
    intros He Hc. pose proof (exec_all_inv sched st_init st inv_init He) as Hi.
    unfold complete in Hc. rewrite forallb_forall in Hc.
    assert (forall s, In s steps -> lookup (s_label s) (st_done st) = lookup (s_label s) F) as Hl.
    { intros s Hs. apply done_lookup; auto. }
    split.
    - rewrite (listed_ext steps (st_done st) F Hl).
      apply (listed_self steps [] F).
      + cbn. unfold F. rewrite run_steps_keys. apply WF.
      + unfold F. now rewrite run_steps_keys.
    - intros s Hs. rewrite (Hl s Hs). now apply F_entry.
  Qed.

  (* ---------- a complete schedule always exists: listed order, items in source order ---------- *)

  Lemma exec_all_app a : forall b st,
    exec_all rl steps parent st (a ++ b) =
    match exec_all rl steps parent st a with
    | Some st1 => exec_all rl steps parent st1 b
    | None => None
    end.
  Proof.
    induction a as [|e a IH]; intros b st; cbn; [reflexivity|].
    destruct (exec rl steps parent st e); [apply IH|reflexivity].
  Qed.

  Definition present (l : string) (n : nat) (st : sstate) : Prop :=
    forall j, (j < n)%nat -> lookup_item (l, j) (st_items st) <> None.

  Lemma gather_total l items : forall n k,
    (forall j, (j < k + n)%nat -> lookup_item (l, j) items <> None) ->
    exists rs, gather_from l k n items = Some rs.
  Proof.
    induction n as [|n IH]; intros k H; cbn; [eauto|].
    destruct (lookup_item (l, k) items) as [r|] eqn:E; [|exfalso; apply (H k); [lia|exact E]].
    destruct (IH (S k)) as [rs ->]; [|eauto].
    intros j Hj. apply H. lia.
  Qed.

  Lemma exec_step_shape st l st1 :
    exec rl steps parent st (EvStep l) = Some st1 ->
    exists r, st_done st1 = st_done st ++ [(l, r)] /\ st_items st1 = st_items st.
  Proof.
    cbn [exec]. destruct (find_step steps l) as [s|]; [|discriminate].
    destruct (is_done l st || negb (deps_ready s st)); [discriminate|].
    destruct (step_plan s parent (st_done st)) as [r|inputs en|its en].
    - intros [= <-]. cbn. eauto.
    - intros [= <-]. cbn. eauto.
    - destruct (gather l (List.length its) (st_items st)); [|discriminate]. intros [= <-]. cbn. eauto.
  Qed.

  Lemma exec_step_enabled st s :
    find_step steps (s_label s) = Some s -> is_done (s_label s) st = false -> deps_ready s st = true ->
    (forall its en, step_plan s parent (st_done st) = PEach its en -> present (s_label s) (List.length its) st) ->
    exists st1, exec rl steps parent st (EvStep (s_label s)) = Some st1.
  Proof.
    intros Hf Hd Hr Hp. cbn [exec]. rewrite Hf, Hd, Hr. cbn.
    destruct (step_plan s parent (st_done st)) as [r|inputs en|its en] eqn:P; eauto.
    destruct (gather_total (s_label s) (st_items st) (List.length its) 0%nat) as [rs Hg].
    { intros j Hj. exact (Hp its en eq_refl j Hj). }
    unfold gather. rewrite Hg. eauto.
  Qed.

  Lemma skipn_cons_nth {A} (l : list A) k x rest :
    skipn k l = x :: rest -> nth_error l k = Some x /\ skipn (S k) l = rest.
  Proof.
    revert k. induction l as [|a l IH]; intros [|k]; cbn; try discriminate.
    - intros [= -> ->]. auto.
    - intros H. exact (IH k H).
  Qed.

  (* the items of a forEach step, in source order *)
  Lemma items_run s its en D :
    find_step steps (s_label s) = Some s ->
    forall rest k st,
      st_done st = D -> is_done (s_label s) st = false -> deps_ready s st = true ->
      step_plan s parent D = PEach its en -> skipn k its = rest ->
      (forall j, (k <= j)%nat -> lookup_item (s_label s, j) (st_items st) = None) ->
      present (s_label s) k st ->
      exists st',
        exec_all rl steps parent st (mapi_from (fun j (_ : json) => EvItem (s_label s) j) k rest) = Some st' /\
        st_done st' = D /\ present (s_label s) (k + List.length rest) st' /\
        (forall key r, In (key, r) (st_items st') -> In (key, r) (st_items st) \/ fst key = s_label s).
  Proof.
    intros Hf. induction rest as [|x rest IH]; intros k st HD Hd Hr Hp Hs Hnone Hpres.
    - exists st. cbn. rewrite Nat.add_0_r. auto.
    - destruct (skipn_cons_nth its k x rest Hs) as [Hn Hs'].
      cbn [mapi_from exec_all exec]. rewrite Hf, Hd, Hr. cbn.
      rewrite (Hnone k (le_n k)), HD, Hp, Hn.
      set (st1 := add_item (s_label s) k (push_l (s_label s, Some k) (rl (s_logic s) x en)) st).
      destruct (IH (S k) st1) as (st' & He & HD' & Hpr' & Hin'); auto.
      + intros j Hj. cbn. rewrite lookup_item_app_none by (apply Hnone; lia). cbn.
        unfold item_eqb. cbn. rewrite String.eqb_refl. cbn.
        destruct (Nat.eqb j k) eqn:E; [apply Nat.eqb_eq in E; lia|reflexivity].
      + intros j Hj. cbn. destruct (Nat.eq_dec j k) as [->|Hne].
        * rewrite lookup_item_app_none by (apply Hnone; lia). cbn.
          unfold item_eqb. cbn. now rewrite String.eqb_refl, Nat.eqb_refl.
        * destruct (lookup_item (s_label s, j) (st_items st)) as [r|] eqn:E.
          -- now rewrite (lookup_item_app_some _ _ _ _ E).
          -- exfalso. apply (Hpres j); [lia|exact E].
      + exists st'. split; [exact He|]. split; [exact HD'|]. split.
        * cbn [List.length]. replace (k + S (List.length rest))%nat with (S k + List.length rest)%nat by lia.
          exact Hpr'.
        * intros key r H. destruct (Hin' key r H) as [H1|H1]; [|now right].
          cbn in H1. apply in_app_or in H1. destruct H1 as [H1|[H1|[]]]; [now left|].
          injection H1 as <- _. now right.
  Qed.

  Lemma run_step_agree st s :
    inv st -> deps_ready s st = true ->
    run_step_g rl s parent (st_done st) = run_step_g rl s parent F.
  Proof. intros Hi Hr. unfold run_step_g. now rewrite (plan_agree st s Hi Hr). Qed.

  Lemma listed_schedule_runs : forall post pre st,
    steps = pre ++ post -> inv st -> st_done st = run_steps_g rl pre parent [] ->
    (forall key r, In (key, r) (st_items st) -> In (fst key) (map s_label pre)) ->
    exists st',
      exec_all rl steps parent st (listed_schedule rl parent post (st_done st)) = Some st' /\
      st_done st' = run_steps_g rl post parent (st_done st).
  Proof.
    destruct WF as [Hc Hn].
    induction post as [|s post IH]; intros pre st Hsteps Hi HD Hitems.
    - exists st. cbn. auto.
    - cbn [listed_schedule run_steps_g]. rewrite exec_all_app.
      assert (In s steps) as Hs by (rewrite Hsteps; apply in_or_app; right; now left).
      assert (find_step steps (s_label s) = Some s) as Hf by (apply find_label_in; auto).
      assert (~ In (s_label s) (map s_label pre)) as Hnot.
      { rewrite Hsteps, map_app in Hn. cbn in Hn. apply NoDup_remove_2 in Hn.
        intros H. apply Hn. apply in_or_app. now left. }
      assert (is_done (s_label s) st = false) as Hd.
      { unfold is_done. rewrite HD, run_steps_keys. cbn.
        destruct (mem_str (s_label s) (map s_label pre)) eqn:E; [|reflexivity].
        apply mem_str_In in E. tauto. }
      assert (deps_ready s st = true) as Hr.
      { unfold deps_ready. destruct (is_error_step s) eqn:He; [reflexivity|].
        apply forallb_forall. intros d Hdd. unfold is_done. rewrite HD, run_steps_keys. cbn.
        apply mem_str_In. rewrite Hsteps in Hc. exact (deps_closed_split pre s post Hc He d Hdd). }
      (* the events of step s lead to a state whose done-map has one more entry, that of s *)
      assert (exists st1,
                exec_all rl steps parent st (step_events parent s (st_done st)) = Some st1 /\
                (exists r, st_done st1 = st_done st ++ [(s_label s, r)]) /\
                (forall key r, In (key, r) (st_items st1) ->
                               In (key, r) (st_items st) \/ fst key = s_label s)) as (st1 & He1 & (r & Hd1) & Hit1).
      { unfold step_events.
        destruct (step_plan s parent (st_done st)) as [r0|inputs en|its en] eqn:P.
        - destruct (exec_step_enabled st s Hf Hd Hr) as [st1 E1]; [intros ? ? H; congruence|].
          exists st1. cbn [exec_all]. rewrite E1. split; [reflexivity|].
          destruct (exec_step_shape st _ st1 E1) as (r & H1 & H2). split; [eauto|].
          intros key r' H. left. now rewrite <- H2.
        - destruct (exec_step_enabled st s Hf Hd Hr) as [st1 E1]; [intros ? ? H; congruence|].
          exists st1. cbn [exec_all]. rewrite E1. split; [reflexivity|].
          destruct (exec_step_shape st _ st1 E1) as (r & H1 & H2). split; [eauto|].
          intros key r' H. left. now rewrite <- H2.
        - unfold mapi. rewrite exec_all_app.
          destruct (items_run s its en (st_done st) Hf its 0%nat st eq_refl Hd Hr P eq_refl)
            as (st0 & E0 & HD0 & Hpr0 & Hin0).
          { intros j _. destruct (lookup_item (s_label s, j) (st_items st)) as [x|] eqn:E; [|reflexivity].
            apply lookup_item_in in E. apply Hitems in E. cbn in E. tauto. }
          { intros j Hj. lia. }
          rewrite E0. cbn in Hpr0.
          assert (is_done (s_label s) st0 = false) as Hd0 by (unfold is_done; now rewrite HD0).
          assert (deps_ready s st0 = true) as Hr0.
          { unfold deps_ready, is_done in *. now rewrite HD0. }
          destruct (exec_step_enabled st0 s Hf Hd0 Hr0) as [st1 E1].
          { intros its' en' P'. rewrite HD0, P in P'. injection P' as <- <-. exact Hpr0. }
          exists st1. cbn [exec_all]. rewrite E1. split; [reflexivity|].
          destruct (exec_step_shape st0 _ st1 E1) as (r & H1 & H2). split.
          + exists r. now rewrite H1, HD0.
          + intros key r' H. rewrite H2 in H. exact (Hin0 key r' H). }
      rewrite He1.
      pose proof (exec_all_inv _ st st1 Hi He1) as Hi1.
      (* that entry is the sequential one *)
      assert (r = run_step_g rl s parent (st_done st)) as ->.
      { rewrite (run_step_agree st s Hi Hr).
        destruct Hi1 as (_ & Hl1 & _).
        assert (lookup (s_label s) F = Some r) as H1.
        { apply Hl1. rewrite Hd1. apply in_or_app. right. now left. }
        rewrite (F_entry s Hs) in H1. now injection H1. }
      destruct (IH (pre ++ [s]) st1) as (st' & He' & HD').
      + now rewrite <- app_assoc.
      + exact Hi1.
      + rewrite Hd1, HD. now rewrite run_steps_snoc.
      + intros key r' H. rewrite map_app. apply in_or_app. destruct (Hit1 key r' H) as [H1|H1].
        * left. exact (Hitems key r' H1).
        * right. cbn. now left.
      + exists st'. rewrite Hd1 in He', HD'. auto.
  Qed.

  Theorem listed_schedule_complete name :
    sched_result rl steps parent name (listed_schedule rl parent steps []) = Some (assemble name steps F).
  Proof.
    destruct (listed_schedule_runs steps [] st_init eq_refl inv_init eq_refl) as (st & He & HD).
    { intros key r []. }
    cbn in He, HD. unfold sched_result. rewrite He.
    assert (complete steps st = true) as Hcomp.
    { unfold complete. apply forallb_forall. intros s Hs. unfold is_done. rewrite HD, run_steps_keys.
      cbn. apply mem_str_In. now apply in_map. }
    rewrite Hcomp. destruct (complete_unique_thm _ st He Hcomp) as [Hl _].
    now rewrite Hl.
  Qed.
End Confluence.


(* ------------------------------------------------------------------ *)
(* the Result of a schedule                                             *)
(* ------------------------------------------------------------------ *)

Section Result.
  Variable fn_sem : fid -> json -> fres.
  Notation rl := (run_logic fn_sem).

  (* every complete schedule yields the sequential Result *)
  Theorem result_schedule_independent_thm name steps trigger sched w :
    well_formed steps ->
    sched_result rl steps trigger name sched = Some w ->
    w = run_workflow fn_sem name None steps trigger.
  Proof.
    intros WF. unfold sched_result.
    destruct (exec_all rl steps trigger st_init sched) as [st|] eqn:He; [|discriminate].
    destruct (complete steps st) eqn:Hc; [|discriminate].
    destruct (complete_unique_thm rl steps trigger WF sched st He Hc) as [-> _].
    intros [= <-]. symmetry. apply run_workflow_ready. apply WF.
  Qed.

  Corollary two_schedules_thm name steps trigger s1 s2 w1 w2 :
    well_formed steps ->
    sched_result rl steps trigger name s1 = Some w1 ->
    sched_result rl steps trigger name s2 = Some w2 -> w1 = w2.
  Proof.
    intros WF H1 H2.
    rewrite (result_schedule_independent_thm _ _ _ _ _ WF H1).
    now rewrite (result_schedule_independent_thm _ _ _ _ _ WF H2).
  Qed.
End Result.

(* ------------------------------------------------------------------ *)
(* forEach results                                                      *)
(* ------------------------------------------------------------------ *)

Lemma nonok_sev_error o : sout_error (SNon o) = true -> (3 <= sev (nonok_outcome o))%nat.
Proof. destruct o; cbn; try discriminate; lia. Qed.

(* no item failed: the list of the items' (encoded) outcomes, in source order *)
Lemma foreach_value_ok rs :
  Forall (fun r => sout_error (r_out r) = false) rs ->
  r_out (foreach_assemble rs) = SVal (JList (map (fun r => encode_outcome (r_out r)) rs)).
Proof.
  intros H. unfold foreach_assemble. cbn [r_out].
  assert (filter sout_error (map r_out rs) = []) as ->.
  { apply filter_none. apply Forall_forall. intros o Ho. apply in_map_iff in Ho.
    destruct Ho as (r & <- & Hr). rewrite Forall_forall in H. auto. }
  cbn. now rewrite map_map.
Qed.

(* some item failed: the step reports an error (the combination of the failed items) *)
Lemma foreach_value_err rs :
  Exists (fun r => sout_error (r_out r) = true) rs ->
  sout_error (r_out (foreach_assemble rs)) = true.
Proof.
  intros H. unfold foreach_assemble. cbn [r_out].
  set (errs := filter sout_error (map r_out rs)).
  set (os := map (fun s => match s with SNon o => nonok_outcome o | SVal v => Ok (Single v) None end) errs).
  assert (errs <> []) as Hne.
  { apply Exists_exists in H. destruct H as (r & Hr & He).
    assert (In (r_out r) errs) as Hin by (apply filter_In; split; [now apply in_map|exact He]).
    intros E. now rewrite E in Hin. }
  assert (Forall (fun o => raw o = true /\ (3 <= sev o)%nat) os) as Hos.
  { apply Forall_forall. intros o Ho. apply in_map_iff in Ho. destruct Ho as (s & <- & Hs).
    apply filter_In in Hs. destruct Hs as [_ Hs]. destruct s as [v|o]; [discriminate|].
    split; [destruct o; reflexivity|now apply nonok_sev_error]. }
  assert (os <> []) as Hne'. { unfold os. destruct errs; [congruence|discriminate]. }
  assert (3 <= sev (combine os))%nat as Hs.
  { rewrite combine_class; [| |exact Hne'].
    - destruct os as [|o os']; [congruence|]. inversion Hos as [|? ? [_ Ho] _]; subst.
      pose proof (maxsev_ge json (o :: os') o (or_introl eq_refl)). lia.
    - eapply Forall_impl; [|exact Hos]. now intros o [Hr _]. }
  destruct (combine os) as [| |d l| |] eqn:Ec; cbn in Hs; try lia; cbn; reflexivity.
Qed.

(* ------------------------------------------------------------------ *)
(* state: merged in listed step order                                   *)
(* ------------------------------------------------------------------ *)

(* what a step publishes: its `state` expression over its Ok value *)
Definition published (s : step) (r : lres) : option (list (string * json)) :=
  match s_state s, r_out r with
  | Some m, SVal v => match eval (EMap m) (value_env v) with
                      | Some (JMap kvs) => Some kvs
                      | _ => None
                      end
  | _, _ => None
  end.

Definition pubs (l : list (step * lres)) : list (list (string * json)) :=
  flat_map (fun sr => match published (fst sr) (snd sr) with Some m => [m] | None => [] end) l.

Lemma collect_state_fold l : forall st errs,
  fst (collect_state l st errs) = fold_left update_state (pubs l) st.
Proof.
  induction l as [|[s r] l IH]; intros st errs; cbn [collect_state pubs flat_map]; [reflexivity|].
  unfold published. cbn [fst snd].
  destruct (s_state s) as [m|]; [|apply IH].
  destruct (r_out r) as [v|o]; [|apply IH].
  destruct (eval (EMap m) (value_env v)) as [[| | | | | |kvs]|]; cbn; apply IH.
Qed.

Lemma lookup_set_key {A} k k' (v : A) st :
  lookup k (set_key k' v st) = if String.eqb k k' then Some v else lookup k st.
Proof.
  induction st as [|[k0 v0] st IH]; cbn.
  - destruct (String.eqb k k'); reflexivity.
  - destruct (String.eqb k' k0) eqn:E; cbn.
    + apply String.eqb_eq in E. subst k0. destruct (String.eqb k k'); reflexivity.
    + rewrite IH. destruct (String.eqb k k0) eqn:E2; [|reflexivity].
      apply String.eqb_eq in E2. subst k0. destruct (String.eqb k k') eqn:E3; [|reflexivity].
      apply String.eqb_eq in E3. subst. now rewrite String.eqb_refl in E.
Qed.

Lemma update_state_lookup k m : forall st,
  lookup k (update_state st m) =
  match lookup k (rev m) with Some v => Some v | None => lookup k st end.
Proof.
  unfold update_state. induction m as [|[k' v] m IH]; intros st; cbn; [reflexivity|].
  rewrite IH, lookup_set_key. destruct (lookup k (rev m)) as [x|] eqn:E.
  - now rewrite (lookup_app_in k (rev m) [(k', v)]) , E by (eapply lookup_in_keys; eauto).
  - rewrite lookup_app_notin by now apply lookup_none_notin. cbn.
    destruct (String.eqb k k'); reflexivity.
Qed.

Lemma fold_update_none k ms : forall st,
  Forall (fun m => lookup k (rev m) = None) ms ->
  lookup k (fold_left update_state ms st) = lookup k st.
Proof.
  induction ms as [|m ms IH]; intros st H; cbn; [reflexivity|].
  inversion H as [|? ? Hm Hms]; subst. rewrite IH by exact Hms.
  now rewrite update_state_lookup, Hm.
Qed.

(* if several steps publish the same key, the LAST LISTED one wins *)
Theorem state_last_listed_wins l1 s r l2 m k v st errs :
  published s r = Some m -> lookup k (rev m) = Some v ->
  Forall (fun m' => lookup k (rev m') = None) (pubs l2) ->
  lookup k (fst (collect_state (l1 ++ (s, r) :: l2) st errs)) = Some v.
Proof.
  intros Hp Hk Hl. rewrite collect_state_fold. unfold pubs. rewrite flat_map_app. cbn [flat_map fst snd].
  rewrite Hp. rewrite fold_left_app. cbn [app fold_left].
  fold (pubs l2). rewrite fold_update_none by exact Hl.
  now rewrite update_state_lookup, Hk.
Qed.

Lemma assemble_state name ss done :
  w_state (assemble name ss done) = fold_left update_state (pubs (List.combine ss (map snd done))) [].
Proof.
  unfold assemble. rewrite <- collect_state_fold with (errs := []).
  destruct (collect_state _ _ _). reflexivity.
Qed.

(* ------------------------------------------------------------------ *)
(* statements of P_C02.v                                                *)
(* ------------------------------------------------------------------ *)

Section Statements.
  Variable fn_sem : fid -> json -> fres.
  Notation rl := (run_logic fn_sem).

  Theorem complete_unique_run steps trigger sched st :
    well_formed steps ->
    exec_all rl steps trigger st_init sched = Some st -> complete steps st = true ->
    listed steps (st_done st) = Some (run_steps fn_sem steps trigger []) /\
    (forall s, In s steps ->
       lookup (s_label s) (st_done st) =
       Some (run_step fn_sem s trigger (run_steps fn_sem steps trigger []))).
  Proof. intros WF. exact (complete_unique_thm rl steps trigger WF sched st). Qed.

  (* forEach under any schedule: results in source order, item k evaluated on item k *)
  Theorem foreach_sched_thm name steps trigger sched w :
    well_formed steps -> sched_result rl steps trigger name sched = Some w ->
    forall s base it key items,
      In s steps -> gate_open_o s trigger (w_outcomes w) base -> s_foreach s = Some (it, key) ->
      eval it (step_env_o s trigger (w_outcomes w)) = Some (JList items) ->
      let en := step_env_o s trigger (w_outcomes w) in
      let rs := map (fun item => rl (s_logic s) (set_input key item base) en) items in
      lookup (s_label s) (w_outcomes w) =
        Some (match items with [] => SVal (JList []) | _ => r_out (foreach_assemble rs) end) /\
      filter (head_is (s_label s)) (w_trace w) =
        List.concat (mapi (fun k item =>
                             map (push (s_label s, Some k))
                                 (r_trace (rl (s_logic s) (set_input key item base) en))) items).
  Proof.
    intros WF Hw. rewrite (result_schedule_independent_thm fn_sem _ _ _ _ _ WF Hw).
    intros s base it key items. apply open_each. exact WF.
  Qed.

  Theorem state_sched_thm name steps trigger sched w :
    well_formed steps -> sched_result rl steps trigger name sched = Some w ->
    w_state w = fold_left update_state
                          (pubs (List.combine steps (map snd (run_steps fn_sem steps trigger [])))) [].
  Proof.
    intros WF Hw. rewrite (result_schedule_independent_thm fn_sem _ _ _ _ _ WF Hw).
    rewrite run_workflow_ready by apply WF. apply assemble_state.
  Qed.

  (* the semantics is not vacuous: every well-formed workflow has a complete schedule *)
  Theorem schedule_exists_thm name steps trigger :
    well_formed steps ->
    sched_result rl steps trigger name (listed_schedule rl trigger steps []) =
    Some (run_workflow fn_sem name None steps trigger).
  Proof.
    intros WF. rewrite (listed_schedule_complete rl steps trigger WF name).
    now rewrite run_workflow_ready by apply WF.
  Qed.
End Statements.

(* ------------------------------------------------------------------ *)
(* nested schedules: sub-workflows may themselves complete in any order *)
(* ------------------------------------------------------------------ *)

(* induction on logic INTO the steps of sub-workflows *)
Section LogicDeepInd.
  Variable P : logic -> Prop.
  Hypothesis Hfn : forall f, P (LFn f).
  Hypothesis Hsub : forall n r ss, Forall (fun s => P (s_logic s)) ss -> P (LSub n r ss).
  Hypothesis Hsw : forall on cases d,
      Forall (fun c => P (snd c)) cases -> (forall lg, d = Some lg -> P lg) -> P (LSwitch on cases d).
  Hypothesis Herr : forall o, P (LErr o).

  Fixpoint logic_deep_ind (lg : logic) : P lg :=
    match lg with
    | LFn f => Hfn f
    | LSub n r ss =>
        Hsub n r ss
             ((fix go (l : list step) : Forall (fun s => P (s_logic s)) l :=
                 match l with
                 | [] => Forall_nil _
                 | s :: r' =>
                     Forall_cons s
                       (match s as s0 return P (s_logic s0) with
                        | mkStep _ _ _ _ _ g _ _ => logic_deep_ind g
                        end) (go r')
                 end) ss)
    | LSwitch on cases d =>
        Hsw on cases d
            ((fix go (l : list (string * logic)) : Forall (fun c => P (snd c)) l :=
                match l with
                | [] => Forall_nil _
                | (k, x) :: r => Forall_cons (k, x) (logic_deep_ind x) (go r)
                end) cases)
            (match d as d0 return (forall lg, d0 = Some lg -> P lg) with
             | Some x => fun lg e => match e in (_ = y) return (match y with Some z => P z | None => True end)
                                     with eq_refl => logic_deep_ind x end
             | None => fun lg e => match e in (_ = y) return (match y with Some z => P z | None => True end)
                                   with eq_refl => I end
             end)
    | LErr o => Herr o
    end.
End LogicDeepInd.

(* labels pairwise distinct in every sub-workflow, at every depth *)
Fixpoint deep_nodup (lg : logic) : bool :=
  match lg with
  | LFn _ | LErr _ => true
  | LSub _ _ ss =>
      nodup_str (map s_label ss) &&
      (fix go (l : list step) : bool :=
         match l with
         | [] => true
         | s :: r => (match s with mkStep _ _ _ _ _ g _ _ => deep_nodup g end) && go r
         end) ss
  | LSwitch _ cases d =>
      (fix go (l : list (string * logic)) : bool :=
         match l with
         | [] => true
         | (_, g) :: r => deep_nodup g && go r
         end) cases &&
      match d with Some g => deep_nodup g | None => true end
  end.

Lemma nodup_str_NoDup l : nodup_str l = true -> NoDup l.
Proof.
  induction l as [|x l IH]; cbn; [constructor|].
  intros H. apply andb_prop in H. destruct H as [H1 H2]. constructor; [|auto].
  intros Hin. apply mem_str_In in Hin. rewrite Hin in H1. discriminate.
Qed.

Lemma deep_nodup_sub n r ss :
  deep_nodup (LSub n r ss) = true ->
  NoDup (map s_label ss) /\ Forall (fun s => deep_nodup (s_logic s) = true) ss.
Proof.
  cbn. intros H. apply andb_prop in H. destruct H as [H1 H2]. split; [now apply nodup_str_NoDup|].
  clear H1. induction ss as [|s ss IH]; [constructor|].
  apply andb_prop in H2. destruct H2 as [Hs Hr]. constructor; [|auto].
  destruct s. exact Hs.
Qed.

Lemma deep_nodup_switch on cases d :
  deep_nodup (LSwitch on cases d) = true ->
  Forall (fun c => deep_nodup (snd c) = true) cases /\ (forall lg, d = Some lg -> deep_nodup lg = true).
Proof.
  cbn. intros H. apply andb_prop in H. destruct H as [H1 H2]. split.
  - clear H2. induction cases as [|[k g] cases IH]; [constructor|].
    apply andb_prop in H1. destruct H1 as [Hg Hr]. constructor; auto.
  - intros lg ->. exact H2.
Qed.

Section Nested.
  Variable fn_sem : fid -> json -> fres.
  Notation rl := (run_logic fn_sem).

  (* what _reconcile_step_logic makes of a nested reconcile_workflow Result *)
  Definition wrap_sub (n : string) (inputs : json) (w : wres) : lres :=
    {| r_out := match w_result w with
                | UList _ => SVal (JMap (w_state w))
                | UNon o => of_outcome o
                end;
       r_rids := w_rids w;
       r_trace := {| i_path := []; i_tgt := TgSub n; i_inputs := inputs; i_calls := [] |} :: w_trace w |}.

  (* an evaluator of Logic that follows _reconcile_step_logic but whose
     sub-workflows complete THEIR steps in some order of their own (chosen per
     evaluation), using the same kind of evaluator one level down *)
  Definition sched_closed (rl' : logic -> json -> env -> lres) : Prop :=
    (forall f inputs en, rl' (LFn f) inputs en = rl (LFn f) inputs en) /\
    (forall o inputs en, rl' (LErr o) inputs en = mk (SNon o)) /\
    (forall on cases d inputs en,
        rl' (LSwitch on cases d) inputs en =
        match select_case on cases d inputs en with
        | Some lg => rl' lg inputs en
        | None => mk (SNon NPermFail)
        end) /\
    (forall n r ss inputs en,
        exists w, rl' (LSub n r ss) inputs en = wrap_sub n inputs w /\
                  match r with
                  | Some o => w = not_ready o
                  | None => if deps_closed ss
                            then NoDup (map s_label ss) ->
                                 exists sched, sched_result rl' ss inputs n sched = Some w
                            else w = aborted n ss
                  end).

  Lemma run_step_g_ext_rl (rl1 rl2 : logic -> json -> env -> lres) s parent done :
    (forall inputs en, rl1 (s_logic s) inputs en = rl2 (s_logic s) inputs en) ->
    run_step_g rl1 s parent done = run_step_g rl2 s parent done.
  Proof.
    intros H. unfold run_step_g. destruct (step_plan s parent done) as [r|inputs en|its en]; [reflexivity| |].
    - now rewrite H.
    - f_equal. unfold mapi. apply mapi_from_ext. intros k a. now rewrite H.
  Qed.

  Lemma run_steps_g_ext_rl (rl1 rl2 : logic -> json -> env -> lres) ss parent :
    Forall (fun s => forall inputs en, rl1 (s_logic s) inputs en = rl2 (s_logic s) inputs en) ss ->
    forall done, run_steps_g rl1 ss parent done = run_steps_g rl2 ss parent done.
  Proof.
    induction 1 as [|s ss Hs _ IH]; intros done; cbn; [reflexivity|].
    now rewrite (run_step_g_ext_rl rl1 rl2 s parent done Hs), IH.
  Qed.

  (* the generic form of result_schedule_independent_thm *)
  Lemma sched_result_generic (rl' : logic -> json -> env -> lres) name steps trigger sched w :
    well_formed steps -> sched_result rl' steps trigger name sched = Some w ->
    w = assemble name steps (run_steps_g rl' steps trigger []).
  Proof.
    intros WF. unfold sched_result.
    destruct (exec_all rl' steps trigger st_init sched) as [st|] eqn:He; [|discriminate].
    destruct (complete steps st) eqn:Hc; [|discriminate].
    destruct (complete_unique_thm rl' steps trigger WF sched st He Hc) as [-> _].
    now intros [= <-].
  Qed.

  (* however the steps of sub-workflows interleave, at whatever depth, every
     evaluation of Logic returns what the sequential model computes *)
  Theorem nested_schedules_thm rl' :
    sched_closed rl' ->
    forall lg, deep_nodup lg = true -> forall inputs en, rl' lg inputs en = rl lg inputs en.
  Proof.
    intros (Cfn & Cerr & Csw & Csub).
    induction lg as [f|n r ss IH|on cases d IHc IHd|o] using logic_deep_ind; intros Hd inputs en.
    - apply Cfn.
    - destruct (Csub n r ss inputs en) as (w & -> & Hw).
      destruct (deep_nodup_sub n r ss Hd) as [Hn Hss].
      cbn [run_logic]. fold (wrap_sub n inputs (run_wf_g rl n r ss inputs)). f_equal.
      unfold run_wf_g. destruct r as [o|]; [exact Hw|].
      destruct (deps_closed ss) eqn:Hc; [|exact Hw].
      destruct (Hw Hn) as [sched Hs].
      rewrite (sched_result_generic rl' n ss inputs sched w (conj Hc Hn) Hs). f_equal.
      apply run_steps_g_ext_rl. rewrite Forall_forall in *. intros s Hs' i e.
      apply IH; auto.
    - rewrite Csw, run_logic_switch.
      destruct (select_case on cases d inputs en) as [lg|] eqn:E; [|reflexivity].
      destruct (deep_nodup_switch on cases d Hd) as [Hcs Hdd].
      apply select_case_in in E. destruct E as [E|E].
      + apply in_map_iff in E. destruct E as ([k x] & <- & Hin).
        rewrite Forall_forall in IHc, Hcs. exact (IHc _ Hin (Hcs _ Hin) inputs en).
      + exact (IHd lg E (Hdd lg E) inputs en).
    - rewrite Cerr. reflexivity.
  Qed.

  (* not vacuous: the sequential evaluator is such an evaluator (its sub-workflows use the listed schedule) *)
  Lemma run_logic_sched_closed : sched_closed rl.
  Proof.
    repeat split.
    - intros on cases d inputs en. apply run_logic_switch.
    - intros n r ss inputs en. exists (run_wf_g rl n r ss inputs). split; [reflexivity|].
      unfold run_wf_g. destruct r as [o|]; [reflexivity|].
      destruct (deps_closed ss) eqn:Hc; [|reflexivity].
      intros Hn. exists (listed_schedule rl inputs ss []).
      exact (listed_schedule_complete rl ss inputs (conj Hc Hn) n).
  Qed.

  (* so for a whole pass: any schedule of the top-level steps, with any schedules inside *)
  Theorem nested_result_thm rl' name steps trigger sched w :
    sched_closed rl' -> well_formed steps ->
    Forall (fun s => deep_nodup (s_logic s) = true) steps ->
    sched_result rl' steps trigger name sched = Some w ->
    w = run_workflow fn_sem name None steps trigger.
  Proof.
    intros Hc WF Hd Hs. rewrite (sched_result_generic rl' name steps trigger sched w WF Hs).
    rewrite run_workflow_ready by apply WF. f_equal. unfold run_steps.
    apply run_steps_g_ext_rl. rewrite Forall_forall in *. intros s Hin i e.
    apply nested_schedules_thm; auto.
  Qed.
End Nested.
