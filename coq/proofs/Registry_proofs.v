(* Registry_proofs.v — lemmas about model/Registry.v (registry.py). *)
From Koreo Require Import Registry.
