(* Registry_proofs.v — lemmas about model/Registry.v (registry.py). *)
From Koreo Require Import Registry.
From Coq Require Import Lia Relations Relation_Operators Operators_Properties FinFun.

Local Open Scope nat_scope.
Local Open Scope list_scope.

(* ================================================================ sets *)

Lemma mem_In x l : mem x l = true <-> In x l.
Proof.
  unfold mem. rewrite existsb_exists. split.
  - intros (y & Hy & E). apply Nat.eqb_eq in E. now subst.
  - intros H. exists x. split; [assumption|apply Nat.eqb_refl].
Qed.

Lemma mem_false x l : mem x l = false <-> ~ In x l.
Proof.
  rewrite <- mem_In. destruct (mem x l); split; congruence.
Qed.

Lemma dedup_In x l : In x (dedup l) <-> In x l.
Proof.
  induction l as [|a l IH]; simpl; [tauto|].
  destruct (mem a l) eqn:M.
  - rewrite IH. apply mem_In in M. split; [tauto|]. intros [->|H]; assumption.
  - simpl. rewrite IH. tauto.
Qed.

Lemma dedup_NoDup l : NoDup (dedup l).
Proof.
  induction l as [|a l IH]; simpl; [constructor|].
  destruct (mem a l) eqn:M; [assumption|].
  constructor; [|assumption]. rewrite dedup_In. now apply mem_false.
Qed.

Lemma edge_eqb_eq a b : edge_eqb a b = true <-> a = b.
Proof.
  destruct a as [a1 a2], b as [b1 b2]. unfold edge_eqb. simpl.
  rewrite andb_true_iff, !Nat.eqb_eq. split; [intros [-> ->]; reflexivity|].
  intros H. injection H. auto.
Qed.

Lemma edge_eqb_neq a b : edge_eqb a b = false <-> a <> b.
Proof.
  rewrite <- edge_eqb_eq. destruct (edge_eqb a b); split; congruence.
Qed.

Lemma emem_In e d : emem e d = true <-> In e d.
Proof.
  unfold emem. rewrite existsb_exists. split.
  - intros (y & Hy & E). apply edge_eqb_eq in E. now subst.
  - intros H. exists e. split; [assumption|now apply edge_eqb_eq].
Qed.

Lemma emem_false e d : emem e d = false <-> ~ In e d.
Proof.
  rewrite <- emem_In. destruct (emem e d); split; congruence.
Qed.

Lemma dget_In k v d : In v (dget k d) <-> In (k, v) d.
Proof.
  unfold dget. rewrite in_map_iff. split.
  - intros ([a b] & <- & H). apply filter_In in H. simpl in H.
    destruct H as [H E]. apply Nat.eqb_eq in E. now subst.
  - intros H. exists (k, v). split; [reflexivity|]. apply filter_In. simpl.
    split; [assumption|apply Nat.eqb_refl].
Qed.

Lemma NoDup_filter {A} (f : A -> bool) l : NoDup l -> NoDup (filter f l).
Proof.
  induction 1 as [|a l Hn Hd IH]; simpl; [constructor|].
  destruct (f a); [|assumption]. constructor; [|assumption].
  rewrite filter_In. tauto.
Qed.

Lemma dget_NoDup k d : NoDup d -> NoDup (dget k d).
Proof.
  unfold dget. induction 1 as [|[a b] l Hn Hd IH]; simpl; [constructor|].
  destruct (Nat.eqb a k) eqn:E; simpl; [|assumption].
  constructor; [|assumption]. apply Nat.eqb_eq in E. subst.
  intros H. apply Hn. now apply (dget_In k b l).
Qed.

Lemma dadd_In k v d e : In e (dadd k v d) <-> e = (k, v) \/ In e d.
Proof.
  unfold dadd. destruct (emem (k, v) d) eqn:M; simpl.
  - apply emem_In in M. split; [tauto|]. intros [->|H]; assumption.
  - split; intros [H|H]; auto.
Qed.

Lemma dadd_NoDup k v d : NoDup d -> NoDup (dadd k v d).
Proof.
  unfold dadd. destruct (emem (k, v) d) eqn:M; [trivial|].
  intros H. constructor; [now apply emem_false|assumption].
Qed.

Lemma dremove_None k v d : dremove k v d = None <-> ~ In (k, v) d.
Proof.
  unfold dremove. rewrite <- emem_false. destruct (emem (k, v) d); split; congruence.
Qed.

Lemma dremove_Some k v d d' :
  dremove k v d = Some d' ->
  In (k, v) d /\ (forall e, In e d' <-> In e d /\ e <> (k, v)) /\ (NoDup d -> NoDup d').
Proof.
  unfold dremove. destruct (emem (k, v) d) eqn:M; [|discriminate].
  intros H. injection H as <-. apply emem_In in M. split; [assumption|]. split.
  - intros e. rewrite filter_In, negb_true_iff, edge_eqb_neq. intuition congruence.
  - apply NoDup_filter.
Qed.

Lemma dassign_In k vs d a b :
  In (a, b) (dassign k vs d) <-> (a = k /\ In b vs) \/ (a <> k /\ In (a, b) d).
Proof.
  unfold dassign. rewrite in_app_iff, in_map_iff, filter_In, negb_true_iff, Nat.eqb_neq. simpl.
  split.
  - intros [(v & E & H)|[H N]].
    + injection E as <- <-. left. split; [reflexivity|now apply dedup_In].
    + right. tauto.
  - intros [[-> H]|[N H]].
    + left. exists b. split; [reflexivity|now apply dedup_In].
    + right. tauto.
Qed.

Lemma NoDup_app_intro {A} (l1 l2 : list A) :
  NoDup l1 -> NoDup l2 -> (forall x, In x l1 -> In x l2 -> False) -> NoDup (l1 ++ l2).
Proof.
  induction 1 as [|a l Hn Hd IH]; simpl; intros H2 Hx; [assumption|].
  constructor.
  - rewrite in_app_iff. intros [H|H]; [now apply Hn|]. apply (Hx a); auto.
  - apply IH; [assumption|]. intros x H1 H3. apply (Hx x); auto.
Qed.

Lemma dassign_NoDup k vs d : NoDup d -> NoDup (dassign k vs d).
Proof.
  intros Hd. unfold dassign. apply NoDup_app_intro.
  - apply FinFun.Injective_map_NoDup; [|apply dedup_NoDup].
    intros x y H. now injection H.
  - now apply NoDup_filter.
  - intros [a b] H1 H2. apply in_map_iff in H1. destruct H1 as (v & E & _).
    injection E as <- <-. apply filter_In in H2. simpl in H2.
    rewrite Nat.eqb_refl in H2. destruct H2 as [_ H2]. discriminate.
Qed.

(* =============================================================== graphs *)

(* the watch graph: [E w a b] = a watches b *)
Definition E (w : dset) : relation nat := fun a b => In (a, b) w.
Notation ct := (clos_trans nat).
Notation rtc := (clos_refl_trans nat).
Definition acyclic (w : dset) : Prop := forall x, ~ ct (E w) x x.

Lemma ct_mono (R1 R2 : relation nat) :
  (forall a b, R1 a b -> R2 a b) -> forall a b, ct R1 a b -> ct R2 a b.
Proof.
  intros H a b C. induction C as [a b S|a b c _ IH1 _ IH2].
  - apply t_step. auto.
  - eapply t_trans; eassumption.
Qed.

Lemma rtc_mono (R1 R2 : relation nat) :
  (forall a b, R1 a b -> R2 a b) -> forall a b, rtc R1 a b -> rtc R2 a b.
Proof.
  intros H a b C. induction C as [a b S|a|a b c _ IH1 _ IH2].
  - apply rt_step. auto.
  - apply rt_refl.
  - eapply rt_trans; eassumption.
Qed.

Lemma ct_rtc (R : relation nat) a b : ct R a b -> rtc R a b.
Proof.
  induction 1 as [a b S|a b c _ IH1 _ IH2]; [now apply rt_step|eapply rt_trans; eassumption].
Qed.

Lemma rtc_cases (R : relation nat) a b : rtc R a b -> a = b \/ ct R a b.
Proof.
  induction 1 as [a b S|a|a b c _ IH1 _ IH2].
  - right. now apply t_step.
  - now left.
  - destruct IH1 as [->|H1]; [assumption|].
    destruct IH2 as [<-|H2]; [now right|]. right. eapply t_trans; eassumption.
Qed.

Lemma rtc_ct (R : relation nat) a b c : rtc R a b -> ct R b c -> ct R a c.
Proof.
  intros H1 H2. destruct (rtc_cases _ _ _ H1) as [->|H]; [assumption|].
  eapply t_trans; eassumption.
Qed.

Lemma ct_rtc_ct (R : relation nat) a b c : ct R a b -> rtc R b c -> ct R a c.
Proof.
  intros H1 H2. destruct (rtc_cases _ _ _ H2) as [<-|H]; [assumption|].
  eapply t_trans; eassumption.
Qed.

(* rtc, peeling the first step *)
Lemma rtc_first (R : relation nat) a b : rtc R a b -> a = b \/ exists y, R a y /\ rtc R y b.
Proof.
  intros H. apply clos_rt_rt1n in H. destruct H as [|y z S H]; [now left|].
  right. exists y. split; [assumption|]. now apply clos_rt1n_rt.
Qed.

(* Adding edges that all leave one node [s] (towards nodes in [R]) to a graph
   E0: every path of the new graph is an old path, or passes through s and a
   new edge, or some target already reached s in the old graph. *)
Lemma add_edges_ct (E0 E' : relation nat) (s : nat) (R : nat -> Prop) :
  (forall a b, E' a b -> E0 a b \/ (a = s /\ R b)) ->
  forall x y, ct E' x y ->
    ct E0 x y \/ (rtc E0 x s /\ exists r, R r /\ rtc E0 r y) \/ (exists r, R r /\ rtc E0 r s).
Proof.
  intros HE x y C. induction C as [x y S|x y z _ IH1 _ IH2].
  - destruct (HE _ _ S) as [H|[-> H]].
    + left. now apply t_step.
    + right. left. split; [apply rt_refl|]. exists y. split; [assumption|apply rt_refl].
  - destruct IH1 as [L1|[[X1 (r1 & R1 & Y1)]|H1]]; [| |right; right; assumption].
    + destruct IH2 as [L2|[[X2 (r2 & R2 & Y2)]|H2]]; [| |right; right; assumption].
      * left. eapply t_trans; eassumption.
      * right. left. split.
        -- eapply rt_trans; [apply ct_rtc; eassumption|assumption].
        -- exists r2. auto.
    + destruct IH2 as [L2|[[X2 (r2 & R2 & Y2)]|H2]]; [| |right; right; assumption].
      * right. left. split; [assumption|]. exists r1. split; [assumption|].
        eapply rt_trans; [eassumption|apply ct_rtc; assumption].
      * right. right. exists r1. split; [assumption|]. eapply rt_trans; eassumption.
Qed.

(* a cycle in the extended graph needs a target that already reached s *)
Lemma new_cycle_needs_reach (E0 E' : relation nat) (s : nat) (R : nat -> Prop) :
  (forall a b, E' a b -> E0 a b \/ (a = s /\ R b)) ->
  (forall x, ~ ct E0 x x) ->
  forall x, ct E' x x -> exists r, R r /\ rtc E0 r s.
Proof.
  intros HE Hac x C. destruct (add_edges_ct E0 E' s R HE x x C) as [L|[[X (r & Rr & Y)]|H]].
  - destruct (Hac x L).
  - exists r. split; [assumption|]. eapply rt_trans; eassumption.
  - assumption.
Qed.

(* ---- walks, and their length in an acyclic graph *)

Inductive walk (R : relation nat) : nat -> list nat -> Prop :=
| walk_nil x : walk R x []
| walk_cons x y l : R x y -> walk R y l -> walk R x (y :: l).

Lemma walk_ct R x l y : walk R x l -> In y l -> ct R x y.
Proof.
  induction 1 as [x|x z l S W IH]; simpl; [tauto|].
  intros [<-|H]; [now apply t_step|].
  eapply t_trans; [apply t_step; eassumption|auto].
Qed.

Lemma walk_NoDup R x l : (forall z, ~ ct R z z) -> walk R x l -> NoDup (x :: l).
Proof.
  intros Hac W. induction W as [x|x y l S W IH].
  - constructor; [simpl; tauto|constructor].
  - constructor; [|assumption].
    intros H. apply (Hac x). eapply walk_ct; [|eassumption]. now constructor.
Qed.

Lemma nodes_In w x : In x (nodes w) <-> (exists y, In (x, y) w) \/ (exists y, In (y, x) w).
Proof.
  unfold nodes. rewrite dedup_In, in_app_iff, !in_map_iff. split.
  - intros [([a b] & <- & H)|([a b] & <- & H)]; [left|right]; eauto.
  - intros [(y & H)|(y & H)]; [left; exists (x, y)|right; exists (y, x)]; auto.
Qed.

Lemma walk_in_nodes w x l : walk (E w) x l -> incl l (nodes w).
Proof.
  induction 1 as [x|x y l S W IH]; intros z; simpl; [tauto|].
  intros [<-|H]; [|auto]. apply nodes_In. right. exists x. exact S.
Qed.

Lemma walk_length w x l : acyclic w -> walk (E w) x l -> List.length l <= List.length (nodes w).
Proof.
  intros Hac W. apply NoDup_incl_length; [|eapply walk_in_nodes; eassumption].
  pose proof (walk_NoDup _ _ _ Hac W) as H. now inversion H.
Qed.

(* ---- the level-by-level search of _check_for_cycles *)

Lemma next_level_In w tc y : In y (next_level w tc) <-> exists c, In c tc /\ E w c y.
Proof.
  unfold next_level. rewrite dedup_In, in_flat_map. unfold E.
  split; intros (c & H1 & H2); exists c; (split; [assumption|]); now apply dget_In.
Qed.

(* the fuel is enough when walks are short *)
Lemma bfs_fuel w s : forall m fuel tc,
  (forall x l, In x tc -> walk (E w) x l -> List.length l <= m) ->
  m + 2 <= fuel -> bfs fuel w s tc <> OutOfFuel.
Proof.
  induction m as [|m IH]; intros fuel tc Hw Hf.
  - destruct fuel as [|[|f]]; try lia. simpl.
    destruct tc as [|c tc]; [discriminate|].
    destruct (mem s (c :: tc)); [discriminate|].
    assert (N : next_level w (c :: tc) = []).
    { destruct (next_level w (c :: tc)) as [|y r] eqn:Eq; [reflexivity|].
      assert (In y (next_level w (c :: tc))) as H by (rewrite Eq; now left).
      apply next_level_In in H. destruct H as (c' & Hc & Hy).
      specialize (Hw c' [y] Hc (walk_cons _ _ _ _ Hy (walk_nil _ _))). simpl in Hw. lia. }
    rewrite N. discriminate.
  - destruct fuel as [|f]; [lia|]. simpl.
    destruct tc as [|c tc]; [discriminate|].
    destruct (mem s (c :: tc)); [discriminate|].
    apply IH; [|lia]. intros y l Hy W.
    apply next_level_In in Hy. destruct Hy as (c' & Hc & Hy).
    specialize (Hw c' (y :: l) Hc (walk_cons _ _ _ _ Hy W)). simpl in Hw. lia.
Qed.

Lemma bfs_nocycle w s : forall fuel tc,
  bfs fuel w s tc = NoCycle -> forall r, In r tc -> ~ rtc (E w) r s.
Proof.
  induction fuel as [|f IH]; intros tc; simpl; [discriminate|].
  destruct tc as [|c tc]; [intros _ r []|].
  destruct (mem s (c :: tc)) eqn:M; [discriminate|].
  intros H r Hr C. apply mem_false in M.
  destruct (rtc_first _ _ _ C) as [->|(y & S & C')]; [tauto|].
  apply (IH _ H y); [|assumption]. apply next_level_In. eauto.
Qed.

Lemma bfs_cycle w s : forall fuel tc,
  bfs fuel w s tc = CycleFound -> exists r, In r tc /\ rtc (E w) r s.
Proof.
  induction fuel as [|f IH]; intros tc; simpl; [discriminate|].
  destruct tc as [|c tc]; [discriminate|].
  destruct (mem s (c :: tc)) eqn:M.
  - intros _. apply mem_In in M. exists s. split; [assumption|apply rt_refl].
  - intros H. destruct (IH _ H) as (y & Hy & C).
    apply next_level_In in Hy. destruct Hy as (c' & Hc & S).
    exists c'. split; [assumption|]. eapply rt_trans; [apply rt_step; eassumption|assumption].
Qed.

(* _check_for_cycles on an acyclic graph: terminates, and decides exactly
   "some requested resource already (transitively) watches the subscriber" *)
Lemma check_fuel w s rs : acyclic w -> check_for_cycles w s rs <> OutOfFuel.
Proof.
  intros Hac. unfold check_for_cycles, fuel_for.
  apply bfs_fuel with (m := List.length (nodes w)); [|lia].
  intros x l _ W. now apply walk_length with (x := x).
Qed.

Lemma check_nocycle w s rs :
  check_for_cycles w s rs = NoCycle -> forall r, In r rs -> ~ rtc (E w) r s.
Proof.
  intros H r Hr. eapply bfs_nocycle; [exact H|]. now apply dedup_In.
Qed.

Lemma check_cycle w s rs :
  check_for_cycles w s rs = CycleFound -> exists r, In r rs /\ rtc (E w) r s.
Proof.
  intros H. destruct (bfs_cycle _ _ _ _ H) as (r & Hr & C). exists r.
  split; [now apply dedup_In|assumption].
Qed.

Lemma check_nil w s : check_for_cycles w s [] = NoCycle.
Proof. reflexivity. Qed.

(* ======================================================== heap / queues *)

Definition accounted (q : queue) : Prop := List.length (items q) <= unfinished q.

Lemma upd_length i f h : List.length (upd i f h) = List.length h.
Proof.
  revert i. induction h as [|x h IH]; intros [|i]; simpl; auto.
Qed.

Lemma nth_error_upd i f h j :
  nth_error (upd i f h) j = if Nat.eqb i j then option_map f (nth_error h j) else nth_error h j.
Proof.
  revert i j. induction h as [|x h IH]; intros i j.
  - destruct i, j; simpl; try reflexivity. destruct (Nat.eqb i j); reflexivity.
  - destruct i, j; simpl; try reflexivity. apply IH.
Qed.

Lemma Forall_upd (P : queue -> Prop) i f h :
  (forall x, P x -> P (f x)) -> Forall P h -> Forall P (upd i f h).
Proof.
  intros Hf. revert i. induction h as [|x h IH]; intros [|i] H; simpl; auto;
    inversion H; subst; constructor; auto.
Qed.

Lemma accounted_put e q : accounted q -> accounted (put_quiet e q).
Proof.
  unfold accounted, put_quiet, push. destruct (shut q); [lia|]. destruct (full q); simpl; lia.
Qed.

Lemma accounted_kill q : accounted q -> accounted (kill_q q).
Proof.
  unfold accounted, kill_q. destruct (shut q); [lia|]. destruct (full q); simpl; lia.
Qed.

Lemma drain_ok its unf :
  List.length its <= unf -> drain its unf = ([], unf - List.length its, true).
Proof.
  revert unf. induction its as [|e its IH]; intros unf H; simpl in *.
  - now rewrite Nat.sub_0_r.
  - destruct unf as [|u]; [lia|]. rewrite IH by lia. reflexivity.
Qed.

Lemma fold_upd_length (f : queue -> queue) qs h :
  List.length (fold_left (fun h q => upd q f h) qs h) = List.length h.
Proof.
  revert h. induction qs as [|q qs IH]; intros h; simpl; [reflexivity|].
  now rewrite IH, upd_length.
Qed.

Lemma fold_upd_Forall (P : queue -> Prop) (f : queue -> queue) qs h :
  (forall x, P x -> P (f x)) -> Forall P h -> Forall P (fold_left (fun h q => upd q f h) qs h).
Proof.
  intros Hf. revert h. induction qs as [|q qs IH]; intros h H; simpl; [assumption|].
  apply IH. now apply Forall_upd.
Qed.

(* every queue index in [qs] is updated once, the others not at all *)
Lemma fold_upd_nth (f : queue -> queue) qs : NoDup qs -> forall h j,
  nth_error (fold_left (fun h q => upd q f h) qs h) j =
  if mem j qs then option_map f (nth_error h j) else nth_error h j.
Proof.
  induction 1 as [|q qs Hn Hd IH]; intros h j; simpl; [reflexivity|].
  rewrite IH, nth_error_upd. rewrite (Nat.eqb_sym j q).
  destruct (Nat.eqb q j) eqn:Eq; simpl.
  - apply Nat.eqb_eq in Eq. subst j.
    apply mem_false in Hn. rewrite Hn. reflexivity.
  - reflexivity.
Qed.

Lemma lookup_In k v m : lookup k m = Some v -> In (k, v) m.
Proof.
  induction m as [|[k' v'] m IH]; simpl; [discriminate|].
  destruct (Nat.eqb k k') eqn:Eq.
  - intros H. injection H as ->. apply Nat.eqb_eq in Eq. subst. now left.
  - auto.
Qed.

Lemma lookup_None k m : lookup k m = None -> ~ In k (map fst m).
Proof.
  induction m as [|[k' v'] m IH]; simpl; [tauto|].
  destruct (Nat.eqb k k') eqn:Eq; [discriminate|].
  apply Nat.eqb_neq in Eq. intros H [H1|H1]; [congruence|now apply IH].
Qed.

Lemma In_lookup k v m : NoDup (map fst m) -> In (k, v) m -> lookup k m = Some v.
Proof.
  induction m as [|[k' v'] m IH]; simpl; [tauto|].
  intros Hn [H|H].
  - injection H as -> ->. now rewrite Nat.eqb_refl.
  - inversion Hn as [|? ? Hk Hm]; subst.
    destruct (Nat.eqb k k') eqn:Eq; [|auto].
    apply Nat.eqb_eq in Eq. subst. destruct Hk. apply in_map_iff. exists (k', v). auto.
Qed.

Lemma NoDup_map_filter {A B} (g : A -> B) (f : A -> bool) l :
  NoDup (map g l) -> NoDup (map g (filter f l)).
Proof.
  induction l as [|a l IH]; simpl; [trivial|].
  intros H. inversion H as [|? ? Hn Hd]; subst.
  destruct (f a); simpl; [|auto]. constructor; [|auto].
  intros H1. apply Hn. apply in_map_iff in H1. destruct H1 as (x & <- & Hx).
  apply filter_In in Hx. apply in_map. tauto.
Qed.

Lemma remove_key_In k m r q : In (r, q) (remove_key k m) <-> In (r, q) m /\ r <> k.
Proof.
  unfold remove_key. rewrite filter_In, negb_true_iff, Nat.eqb_neq. simpl. tauto.
Qed.

Lemma lookup_remove_key k m : lookup k (remove_key k m) = None.
Proof.
  induction m as [|[k' v'] m IH]; simpl; [reflexivity|].
  destruct (Nat.eqb k' k) eqn:Eq; simpl; [assumption|].
  rewrite Nat.eqb_sym, Eq. assumption.
Qed.

(* ============================================================ invariant *)

Record inv_graph (s : state) : Prop := {
  inv_inverse : forall a b, In (a, b) (subs s) <-> In (b, a) (watches s);
  inv_acyclic : acyclic (watches s);
  inv_nd_subs : NoDup (subs s);
  inv_nd_watches : NoDup (watches s)
}.

Record inv_queues (s : state) : Prop := {
  inv_qkeys : NoDup (map fst (queues s));
  inv_qvals : NoDup (map snd (queues s));
  inv_qbound : forall r q, In (r, q) (queues s) -> q < List.length (heap s);
  inv_unf : Forall accounted (heap s)
}.

Definition inv (s : state) : Prop := inv_graph s /\ inv_queues s.

Lemma inv_empty : inv empty.
Proof.
  split; constructor; simpl; try constructor; try tauto.
  intros x C. apply clos_trans_tn1 in C. destruct C as [y []|y z [] _].
Qed.

(* ---- notify *)

Lemma notify_inv n t s : inv s -> inv (notify n t s).
Proof.
  intros [G [K V B U]]. split.
  - destruct G. constructor; assumption.
  - constructor; simpl; try assumption.
    + intros r q H. rewrite fold_upd_length. eauto.
    + apply fold_upd_Forall; [|assumption]. intros x. apply accounted_put.
Qed.

(* ---- subscribe *)

Lemma acyclic_add w sb rs (w' : dset) :
  acyclic w ->
  (forall a b, In (a, b) w' -> In (a, b) w \/ (a = sb /\ In b rs)) ->
  (forall r, In r rs -> ~ rtc (E w) r sb) ->
  acyclic w'.
Proof.
  intros Hac Hsub Hno x C.
  destruct (new_cycle_needs_reach (E w) (E w') sb (fun r => In r rs) Hsub Hac x C) as (r & Hr & Hc).
  exact (Hno r Hr Hc).
Qed.

Lemma subscribe_inv sb r s : inv s -> inv (fst (subscribe sb r s)).
Proof.
  intros [G Qi]. unfold subscribe.
  destruct (check_for_cycles (watches s) sb [r]) eqn:Ck; simpl; try (split; assumption).
  split; [|destruct Qi; constructor; assumption].
  destruct G as [I A N1 N2]. constructor; simpl.
  - intros a b. rewrite !dadd_In, I. split; (intros [H|H]; [left; congruence|now right]).
  - eapply acyclic_add with (rs := [r]); [exact A| |exact (check_nocycle _ _ _ Ck)].
    intros a b H. apply dadd_In in H. destruct H as [H|H]; [|now left].
    injection H as -> ->. right. simpl. auto.
  - now apply dadd_NoDup.
  - now apply dadd_NoDup.
Qed.

(* ---- subscribe_only_to *)

Lemma fold_dadd_In sb l : forall d e,
  In e (fold_left (fun d r => dadd r sb d) l d) <-> In e d \/ exists r, In r l /\ e = (r, sb).
Proof.
  induction l as [|x l IH]; intros d e; simpl.
  - split; [auto|]. intros [H|(r & [] & _)]. assumption.
  - rewrite IH, dadd_In. split.
    + intros [[->|H]|(r & Hr & ->)]; eauto.
    + intros [H|(r & [<-|Hr] & ->)]; eauto.
Qed.

Lemma fold_dadd_NoDup sb l : forall d,
  NoDup d -> NoDup (fold_left (fun d r => dadd r sb d) l d).
Proof.
  induction l as [|x l IH]; intros d H; simpl; [assumption|]. apply IH. now apply dadd_NoDup.
Qed.

Lemma remove_all_ok sb l : NoDup l -> forall d,
  (forall r, In r l -> In (r, sb) d) ->
  exists d', remove_all sb l d = (d', true) /\
             (forall a b, In (a, b) d' <-> In (a, b) d /\ ~ (b = sb /\ In a l)) /\
             (NoDup d -> NoDup d').
Proof.
  induction 1 as [|x l Hn Hd IH]; intros d Hin; simpl.
  - exists d. split; [reflexivity|]. split; [|trivial]. intros a b. tauto.
  - destruct (dremove x sb d) as [d1|] eqn:R.
    2:{ apply dremove_None in R. destruct R. apply Hin. now left. }
    destruct (dremove_Some _ _ _ _ R) as (_ & Hd1 & Hnd1).
    destruct (IH d1) as (d' & Eq & Hd' & Hnd').
    { intros r Hr. apply Hd1. split; [apply Hin; now right|].
      intros H. injection H as ->. contradiction. }
    exists d'. split; [assumption|]. split; [|auto].
    intros a b. rewrite Hd', Hd1. split.
    + intros [[H1 H2] H3]. split; [assumption|]. intros [-> [<-|H4]]; [now apply H2|apply H3; auto].
    + intros [H1 H2]. split; [split; [assumption|]|].
      * intros H. injection H as -> ->. apply H2. auto.
      * intros [-> H]. apply H2. auto.
Qed.

Lemma subscribe_only_inv sb rs s :
  inv s -> inv (fst (subscribe_only_to sb rs s)) /\
           snd (subscribe_only_to sb rs s) <> Raised KeyError /\
           snd (subscribe_only_to sb rs s) <> ROutOfFuel.
Proof.
  intros [G Qi]. unfold subscribe_only_to.
  destruct (check_for_cycles (watches s) sb rs) eqn:Ck; simpl.
  2:{ split; [split; assumption|split; discriminate]. }
  2:{ exfalso. eapply check_fuel; [apply (inv_acyclic _ G)|exact Ck]. }
  destruct G as [I A N1 N2].
  set (current := dget sb (watches s)).
  set (new := dedup rs).
  set (subs1 := fold_left _ _ (subs s)).
  destruct (remove_all_ok sb (filter (fun r => negb (mem r new)) current)) with (d := subs1)
    as (subs2 & Eq & H2 & Hnd2).
  { apply NoDup_filter. now apply dget_NoDup. }
  { intros r Hr. apply filter_In in Hr. destruct Hr as [Hr _].
    apply fold_dadd_In. left. apply I. now apply dget_In. }
  rewrite Eq. simpl. split; [|split; discriminate].
  split; [|destruct Qi; constructor; assumption].
  constructor; simpl.
  - intros a b. rewrite H2, dassign_In. unfold subs1. rewrite fold_dadd_In.
    destruct (Nat.eq_dec b sb) as [->|Nb].
    + assert (P1 : In (a, sb) (subs s) <-> In a current).
      { unfold current. rewrite dget_In. apply I. }
      assert (P2 : (exists r, In r (filter (fun r => negb (mem r current)) new) /\ (a, sb) = (r, sb))
                   <-> In a new /\ ~ In a current).
      { split.
        - intros (r & Hr & Er). injection Er as <-. apply filter_In in Hr.
          rewrite negb_true_iff, mem_false in Hr. exact Hr.
        - intros [Hn Hc]. exists a. split; [|reflexivity]. apply filter_In.
          rewrite negb_true_iff, mem_false. auto. }
      assert (P3 : In a (filter (fun r => negb (mem r new)) current) <-> In a current /\ ~ In a new).
      { rewrite filter_In, negb_true_iff, mem_false. tauto. }
      assert (Dc : In a current \/ ~ In a current).
      { destruct (mem a current) eqn:M; [left; now apply mem_In|right; now apply mem_false]. }
      assert (Dn : In a new \/ ~ In a new).
      { destruct (mem a new) eqn:M; [left; now apply mem_In|right; now apply mem_false]. }
      rewrite P1, P2, P3. tauto.
    + rewrite I. split.
      * intros [[H|(r & _ & Er)] _]; [right; auto|]. injection Er as _ Er. congruence.
      * intros [[H _]|[_ H]]; [congruence|]. split; [now left|]. intros [H3 _]. congruence.
  - eapply acyclic_add with (rs := rs); [exact A| |exact (check_nocycle _ _ _ Ck)].
    intros a b H. apply dassign_In in H. unfold new in H. rewrite dedup_In in H. tauto.
  - apply Hnd2. unfold subs1. now apply fold_dadd_NoDup.
  - now apply dassign_NoDup.
Qed.

(* ---- unsubscribe *)

Lemma acyclic_sub w w' : acyclic w -> (forall a b, In (a, b) w' -> In (a, b) w) -> acyclic w'.
Proof.
  intros Hac Hsub x C. apply (Hac x). eapply ct_mono; [|exact C]. exact Hsub.
Qed.

Lemma unsubscribe_inv u r s : inv s -> inv (fst (unsubscribe u r s)).
Proof.
  intros [G Qi]. unfold unsubscribe.
  destruct (dremove r u (subs s)) as [s'|] eqn:R1; simpl; [|split; assumption].
  destruct (dremove_Some _ _ _ _ R1) as (In1 & H1 & Hn1).
  destruct G as [I A N1 N2].
  destruct (dremove u r (watches s)) as [w'|] eqn:R2; simpl.
  2:{ apply dremove_None in R2. destruct R2. now apply I. }
  destruct (dremove_Some _ _ _ _ R2) as (In2 & H2 & Hn2).
  split; [|destruct Qi; constructor; assumption].
  constructor; simpl; auto.
  - intros a b. rewrite H1, H2, I. split; intros [H N]; (split; [assumption|]); congruence.
  - apply (acyclic_sub _ _ A). intros a b H. now apply H2.
Qed.

(* unsubscribe on a consistent registry either removes the edge from both
   views or raises KeyError and changes nothing *)
Lemma unsubscribe_result u r s : inv s ->
  (In (r, u) (subs s) /\ snd (unsubscribe u r s) = RNone) \/
  (~ In (r, u) (subs s) /\ unsubscribe u r s = (s, Raised KeyError)).
Proof.
  intros [[I _ _ _] _]. unfold unsubscribe.
  destruct (dremove r u (subs s)) as [s'|] eqn:R1.
  - destruct (dremove_Some _ _ _ _ R1) as (In1 & _).
    destruct (dremove u r (watches s)) as [w'|] eqn:R2; [left; auto|].
    apply dremove_None in R2. destruct R2. now apply I.
  - right. split; [now apply dremove_None|reflexivity].
Qed.

(* ---- register *)

Lemma register_inv r t c s : inv s -> inv (fst (register r t c s)).
Proof.
  intros Hi. unfold register. destruct (lookup r (queues s)) as [q|] eqn:L; simpl; [assumption|].
  apply notify_inv. destruct Hi as [G [K V B U]]. split.
  - destruct G. constructor; assumption.
  - constructor; simpl.
    + constructor; [now apply lookup_None|assumption].
    + constructor; [|assumption]. intros H. apply in_map_iff in H.
      destruct H as ([r' q'] & Eq & H). simpl in Eq. subst q'. apply B in H. lia.
    + intros r' q' [H|H]; rewrite app_length; simpl; [injection H as _ <-; lia|].
      apply B in H. lia.
    + apply Forall_app. split; [assumption|]. constructor; [|constructor].
      unfold accounted. simpl. lia.
Qed.

(* ---- kill_resource *)

Lemma kill_inv r s : inv s -> inv (fst (kill_resource r s)).
Proof.
  intros Hi. unfold kill_resource. destruct (lookup r (queues s)) as [q|]; simpl; [|assumption].
  destruct Hi as [G [K V B U]]. split.
  - destruct G. constructor; assumption.
  - constructor; simpl; try assumption.
    + intros r' q' H. rewrite upd_length. eauto.
    + apply Forall_upd; [|assumption]. apply accounted_kill.
Qed.

(* ---- deregister *)

Lemma subscribe_only_nil sb s : inv s ->
  exists s1, subscribe_only_to sb [] s = (s1, RNone) /\ inv s1 /\
             queues s1 = queues s /\ heap s1 = heap s /\
             (forall a b, In (a, b) (watches s1) <-> In (a, b) (watches s) /\ a <> sb).
Proof.
  intros Hi. pose proof (subscribe_only_inv sb [] s Hi) as (H1 & H2 & H3).
  unfold subscribe_only_to in *. rewrite check_nil in *.
  destruct (remove_all sb _ _) as [subs2 [|]]; simpl in *; [|congruence].
  eexists. split; [reflexivity|]. split; [assumption|]. simpl. split; [reflexivity|].
  split; [reflexivity|]. intros a b. rewrite dassign_In. simpl. tauto.
Qed.

Lemma drain_q_accounted qu : accounted qu ->
  drain_q qu = (Q [] (shut qu) (unfinished qu - List.length (items qu)) (cap qu), true).
Proof.
  intros H. unfold drain_q. now rewrite drain_ok.
Qed.

Lemma nth_error_Some_lt {A} (l : list A) n : n < List.length l -> exists x, nth_error l n = Some x.
Proof.
  intros H. destruct (nth_error l n) eqn:Eq; [eauto|]. apply nth_error_None in Eq. lia.
Qed.

Lemma Forall_nth_error {A} (P : A -> Prop) l n x : Forall P l -> nth_error l n = Some x -> P x.
Proof.
  intros H Eq. rewrite Forall_forall in H. apply H. eapply nth_error_In; eassumption.
Qed.

Lemma remove_key_absent k m : lookup k m = None -> remove_key k m = m.
Proof.
  induction m as [|[k' v'] m IH]; simpl; [reflexivity|].
  destruct (Nat.eqb k k') eqn:Eq; [discriminate|]. intros H.
  rewrite Nat.eqb_sym, Eq. simpl. now rewrite IH.
Qed.

Lemma lookup_remove_key_neq k x m : x <> k -> lookup x (remove_key k m) = lookup x m.
Proof.
  intros N. induction m as [|[k' v'] m IH]; simpl; [reflexivity|].
  destruct (Nat.eqb k' k) eqn:Eq; simpl.
  - apply Nat.eqb_eq in Eq. subst k'. apply Nat.eqb_neq in N. now rewrite N.
  - now rewrite IH.
Qed.

(* what the old queue object looks like after _kill_resource + the drain loop *)
Definition released (qu : queue) : queue :=
  Q [] true (unfinished qu - List.length (items qu)) (cap qu).

(* the shape of deregister on a consistent registry: drop own subscriptions
   ([s1]), kill + drain + forget the queue ([mid]), then notify *)
Lemma deregister_shape r t s : inv s ->
  exists s1 mid, subscribe_only_to r [] s = (s1, RNone) /\ inv s1 /\
    (forall a b, In (a, b) (watches s1) <-> In (a, b) (watches s) /\ a <> r) /\
    deregister r t s = (notify r t mid, RNone) /\ inv mid /\
    subs mid = subs s1 /\ watches mid = watches s1 /\
    queues mid = remove_key r (queues s) /\
    List.length (heap mid) = List.length (heap s) /\
    (forall j, nth_error (heap mid) j =
       match lookup r (queues s) with
       | Some q => if Nat.eqb q j then option_map released (nth_error (heap s) j)
                   else nth_error (heap s) j
       | None => nth_error (heap s) j
       end).
Proof.
  intros Hi. destruct (subscribe_only_nil r s Hi) as (s1 & Eq & Hi1 & Hq & Hh & Hw).
  exists s1. unfold deregister. rewrite Eq, Hq, Hh.
  destruct (lookup r (queues s)) as [q|] eqn:L.
  2:{ exists s1. repeat (split; [assumption || reflexivity|]).
      split; [rewrite Hq; symmetry; now apply remove_key_absent|].
      split; [now rewrite Hh|]. intros j. now rewrite Hh. }
  destruct Hi as [_ [K V B U]].
  assert (Hlt : q < List.length (heap s)) by (eapply B, lookup_In; eassumption).
  destruct (nth_error_Some_lt _ _ Hlt) as (qu & Hqu).
  rewrite nth_error_upd, Nat.eqb_refl, Hqu. simpl.
  assert (Aq : accounted qu) by (eapply Forall_nth_error; eassumption).
  assert (Ak : accounted (kill_q qu)) by now apply accounted_kill.
  rewrite (drain_q_accounted _ Ak).
  assert (Rel : Q [] (shut (kill_q qu)) (unfinished (kill_q qu) - List.length (items (kill_q qu)))
                  (cap (kill_q qu))
                = released qu).
  { unfold released, kill_q. destruct (shut qu) eqn:Sh; [simpl; rewrite ?Sh; reflexivity|].
    destruct (full qu); simpl; reflexivity. }
  rewrite Rel.
  eexists. repeat (split; [assumption || reflexivity|]). simpl.
  split; [|split; [reflexivity|split; [reflexivity|split; [reflexivity|split]]]].
  - destruct Hi1 as [G _]. split.
    + destruct G. constructor; assumption.
    + constructor; simpl.
      * now apply NoDup_map_filter.
      * now apply NoDup_map_filter.
      * intros r' q' H. apply remove_key_In in H. rewrite !upd_length. apply (B r'), H.
      * apply Forall_upd; [intros; unfold accounted, released; simpl; lia|].
        apply Forall_upd; [apply accounted_kill|assumption].
  - now rewrite !upd_length.
  - intros j. rewrite !nth_error_upd. destruct (Nat.eqb q j) eqn:Ej; [|reflexivity].
    apply Nat.eqb_eq in Ej. subst j. rewrite Hqu. reflexivity.
Qed.

Lemma deregister_inv r t s : inv s -> inv (fst (deregister r t s)).
Proof.
  intros Hi. destruct (deregister_shape r t s Hi) as (s1 & mid & _ & _ & _ & -> & Hm & _).
  simpl. now apply notify_inv.
Qed.

(* ---- consumers *)

Lemma get_nowait_inv d q s : inv s -> inv (fst (get_nowait d q s)).
Proof.
  intros Hi. unfold get_nowait.
  destruct (nth_error (heap s) q) as [qu|] eqn:Hq; [|assumption].
  destruct (items qu) as [|e rest] eqn:It; [assumption|].
  destruct Hi as [G [K V B U]].
  assert (Aq : accounted qu) by (eapply Forall_nth_error; eassumption).
  unfold accounted in Aq. rewrite It in Aq. simpl in Aq.
  assert (forall u, List.length rest <= u ->
            inv (St (subs s) (watches s) (queues s) (upd q (fun _ => Q rest (shut qu) u (cap qu)) (heap s)))) as Hgen.
  { intros u Hu. split; [destruct G; constructor; assumption|].
    constructor; simpl; try assumption.
    - intros r' q' H. rewrite upd_length. eauto.
    - apply Forall_upd; [|assumption]. intros. unfold accounted. simpl. exact Hu. }
  destruct d; [destruct (unfinished qu) as [|u] eqn:Un|]; simpl; apply Hgen; lia.
Qed.

(* ---- every operation preserves the invariant *)

Lemma step_inv o s : inv s -> inv (fst (step o s)).
Proof.
  intros Hi. destruct o; simpl.
  - now apply register_inv.
  - now apply subscribe_inv.
  - now apply subscribe_only_inv.
  - now apply unsubscribe_inv.
  - now apply notify_inv.
  - now apply kill_inv.
  - now apply deregister_inv.
  - assumption.
  - assumption.
  - now apply get_nowait_inv.
  - now apply get_nowait_inv.
Qed.

Lemma run_app ops1 ops2 s : run (ops1 ++ ops2) s = run ops2 (run ops1 s).
Proof. unfold run. apply fold_left_app. Qed.

Lemma run_inv ops : forall s, inv s -> inv (run ops s).
Proof.
  induction ops as [|o ops IH]; intros s Hi; simpl; [assumption|].
  apply IH. now apply step_inv.
Qed.

Lemma reachable_inv ops : inv (run ops empty).
Proof. apply run_inv, inv_empty. Qed.

(* ========================================================== the theorems *)

(* ---- inverse views, acyclic graph: every reachable state *)

Theorem views_inverse ops a b :
  In (a, b) (subs (run ops empty)) <-> In (b, a) (watches (run ops empty)).
Proof. apply (inv_inverse _ (proj1 (reachable_inv ops))). Qed.

Theorem graph_acyclic ops : acyclic (watches (run ops empty)).
Proof. apply (inv_acyclic _ (proj1 (reachable_inv ops))). Qed.

Theorem views_are_sets ops :
  NoDup (subs (run ops empty)) /\ NoDup (watches (run ops empty)).
Proof. destruct (reachable_inv ops) as [[_ _ N1 N2] _]. auto. Qed.

(* ---- the cycle check *)

(* a refused operation leaves the state exactly as it was (any state) *)
Theorem refused_unchanged o s s' : step o s = (s', Raised Cycle) -> s' = s.
Proof.
  destruct o; simpl.
  - unfold register. destruct (lookup r (queues s)); intros H; discriminate.
  - unfold subscribe. destruct (check_for_cycles _ _ _); intros H; try discriminate.
    now injection H.
  - unfold subscribe_only_to. destruct (check_for_cycles _ _ _); intros H; try discriminate.
    + destruct (remove_all _ _ _) as [? [|]]; discriminate.
    + now injection H.
  - unfold unsubscribe. destruct (dremove _ _ (subs s)); [destruct (dremove _ _ (watches s))|];
      intros H; discriminate.
  - discriminate.
  - unfold kill_resource. destruct (lookup r (queues s)); intros H; discriminate.
  - unfold deregister, subscribe_only_to. rewrite check_nil.
    destruct (remove_all _ _ _) as [? [|]]; [|intros H; discriminate].
    simpl. destruct (lookup r (queues s)); [|intros H; discriminate].
    destruct (nth_error _ _); [|intros H; discriminate].
    destruct (drain_q _) as [? [|]]; intros H; discriminate.
  - discriminate.
  - discriminate.
  - unfold get_nowait. destruct (nth_error _ _) as [qu|]; [|discriminate].
    destruct (items qu); [destruct (shut qu); discriminate|discriminate].
  - unfold get_nowait. destruct (nth_error _ _) as [qu|]; [|discriminate].
    destruct (items qu); [destruct (shut qu); discriminate|].
    destruct (unfinished qu); discriminate.
Qed.

(* the check never runs out of fuel on a reachable state: the Python loop terminates *)
Theorem check_terminates ops sb rs :
  check_for_cycles (watches (run ops empty)) sb rs <> OutOfFuel.
Proof. apply check_fuel, graph_acyclic. Qed.

(* subscribe: refused exactly when the new edge would close a cycle *)
Theorem subscribe_cycle_refused ops sb r x :
  let s := run ops empty in
  ct (E (dadd sb r (watches s))) x x -> step (OSubscribe sb r) s = (s, Raised Cycle).
Proof.
  intros s C. simpl. unfold subscribe.
  destruct (check_for_cycles (watches s) sb [r]) eqn:Ck; [|reflexivity|].
  - exfalso.
    destruct (new_cycle_needs_reach (E (watches s)) (E (dadd sb r (watches s))) sb (fun y => In y [r]))
      with (x := x) as (y & Hy & Hc); [|apply graph_acyclic|exact C|].
    + intros a b H. apply dadd_In in H. destruct H as [H|H]; [|now left].
      injection H as -> ->. right. simpl. auto.
    + exact (check_nocycle _ _ _ Ck y Hy Hc).
  - exfalso. exact (check_terminates ops sb [r] Ck).
Qed.

Theorem subscribe_refused_only_if_cycle sb r s s' :
  step (OSubscribe sb r) s = (s', Raised Cycle) -> ct (E (dadd sb r (watches s))) sb sb.
Proof.
  simpl. unfold subscribe. destruct (check_for_cycles (watches s) sb [r]) eqn:Ck; try discriminate.
  intros _. destruct (check_cycle _ _ _ Ck) as (y & [<-|[]] & Hc).
  eapply ct_rtc_ct.
  - apply t_step. unfold E. apply dadd_In. now left.
  - eapply rtc_mono; [|exact Hc]. intros a b H. unfold E. apply dadd_In. now right.
Qed.

(* subscribe_only_to: refused exactly when the replaced set of edges would close a cycle *)
Theorem subscribe_only_cycle_refused ops sb rs x :
  let s := run ops empty in
  ct (E (dassign sb rs (watches s))) x x -> step (OSubscribeOnly sb rs) s = (s, Raised Cycle).
Proof.
  intros s C. simpl. unfold subscribe_only_to.
  destruct (check_for_cycles (watches s) sb rs) eqn:Ck; [|reflexivity|].
  - exfalso.
    destruct (new_cycle_needs_reach (E (watches s)) (E (dassign sb rs (watches s))) sb (fun y => In y rs))
      with (x := x) as (y & Hy & Hc); [|apply graph_acyclic|exact C|].
    + intros a b H. apply dassign_In in H. tauto.
    + exact (check_nocycle _ _ _ Ck y Hy Hc).
  - exfalso. exact (check_terminates ops sb rs Ck).
Qed.

(* a path to [b] need not leave [b] *)
Lemma rtc_avoid (R : relation nat) a b : rtc R a b -> rtc (fun x y => x <> b /\ R x y) a b.
Proof.
  intros H. apply clos_rt_rt1n in H. induction H as [|x y z S H IH]; [apply rt_refl|].
  destruct (Nat.eq_dec x z) as [->|N]; [apply rt_refl|].
  eapply rt_trans; [apply rt_step; split; eassumption|exact IH].
Qed.

Theorem subscribe_only_refused_only_if_cycle sb rs s s' :
  step (OSubscribeOnly sb rs) s = (s', Raised Cycle) -> ct (E (dassign sb rs (watches s))) sb sb.
Proof.
  simpl. unfold subscribe_only_to. destruct (check_for_cycles (watches s) sb rs) eqn:Ck.
  - destruct (remove_all _ _ _) as [? [|]]; discriminate.
  - intros _. destruct (check_cycle _ _ _ Ck) as (y & Hy & Hc).
    eapply ct_rtc_ct.
    + apply t_step. unfold E. apply dassign_In. left. split; [reflexivity|exact Hy].
    + eapply rtc_mono; [|exact (rtc_avoid _ _ _ Hc)]. intros a b [N H]. unfold E.
      apply dassign_In. right. auto.
  - discriminate.
Qed.

(* ---- no spurious failures on reachable states *)

Theorem step_results ops o :
  let s := run ops empty in
  snd (step o s) <> ROutOfFuel /\ snd (step o s) <> Raised ValueError /\
  snd (step o s) <> Raised OtherExn /\
  (snd (step o s) = Raised KeyError ->
     exists u r, o = OUnsubscribe u r /\ ~ In (r, u) (subs s) /\ fst (step o s) = s).
Proof.
  intros s. pose proof (reachable_inv ops) as Hi. fold s in Hi.
  destruct o; simpl.
  - unfold register. destruct (lookup r (queues s)); simpl; repeat split; discriminate.
  - unfold subscribe. destruct (check_for_cycles (watches s) sb [r]) eqn:Ck; simpl;
      repeat split; try discriminate.
    intros _. exact (check_terminates ops sb [r] Ck).
  - pose proof (subscribe_only_inv sb rs s Hi) as (_ & H1 & H2).
    repeat split; try assumption; try (intros H; contradiction).
    + unfold subscribe_only_to. destruct (check_for_cycles _ _ _); try discriminate.
      destruct (remove_all _ _ _) as [? [|]]; discriminate.
    + unfold subscribe_only_to. destruct (check_for_cycles _ _ _); try discriminate.
      destruct (remove_all _ _ _) as [? [|]]; discriminate.
  - destruct (unsubscribe_result u r s Hi) as [[H1 H2]|[H1 H2]]; rewrite H2; simpl;
      repeat split; try discriminate.
    intros _. exists u, r. auto.
  - repeat split; discriminate.
  - unfold kill_resource. destruct (lookup r (queues s)); simpl; repeat split; discriminate.
  - destruct (deregister_shape r t s Hi) as (s1 & mid & _ & _ & _ & -> & _). simpl.
    repeat split; discriminate.
  - repeat split; discriminate.
  - repeat split; discriminate.
  - unfold get_nowait. destruct (nth_error (heap s) q) as [qu|]; [|repeat split; discriminate].
    destruct (items qu); [destruct (shut qu)|]; simpl; repeat split; discriminate.
  - unfold get_nowait. destruct (nth_error (heap s) q) as [qu|] eqn:Hq; [|repeat split; discriminate].
    destruct (items qu) as [|e rest] eqn:It; [destruct (shut qu); simpl; repeat split; discriminate|].
    destruct Hi as [_ [_ _ _ U]].
    assert (Aq : accounted qu) by (eapply Forall_nth_error; eassumption).
    unfold accounted in Aq. rewrite It in Aq. simpl in Aq.
    destruct (unfinished qu); [lia|]. simpl. repeat split; discriminate.
Qed.

(* ---- notify: exactly once to each live subscriber, nobody else *)

Lemma NoDup_map_snd_inj (m : list (nat * nat)) a b q :
  NoDup (map snd m) -> In (a, q) m -> In (b, q) m -> a = b.
Proof.
  induction m as [|[k v] m IH]; simpl; [tauto|].
  intros H. inversion H as [|? ? Hn Hd]; subst.
  intros [H1|H1] [H2|H2].
  - congruence.
  - injection H1 as -> ->. destruct Hn. apply in_map_iff. exists (b, q). auto.
  - injection H2 as -> ->. destruct Hn. apply in_map_iff. exists (a, q). auto.
  - auto.
Qed.

Lemma active_mem n s j :
  mem j (active_queues n s) = true <->
  exists r, In (n, r) (subs s) /\ lookup r (queues s) = Some j.
Proof.
  rewrite mem_In. unfold active_queues. rewrite in_flat_map. split.
  - intros (r & Hr & H). exists r. split; [now apply dget_In|].
    destruct (lookup r (queues s)) as [q|]; simpl in H; [|tauto]. destruct H as [->|[]]. reflexivity.
  - intros (r & Hr & L). exists r. split; [now apply dget_In|]. rewrite L. now left.
Qed.

Lemma active_NoDup n s :
  NoDup (subs s) -> NoDup (map snd (queues s)) -> NoDup (active_queues n s).
Proof.
  intros N1 N2. unfold active_queues.
  assert (Hl : NoDup (dget n (subs s))) by now apply dget_NoDup.
  induction Hl as [|r l Hn Hd IH]; simpl; [constructor|].
  destruct (lookup r (queues s)) as [q|] eqn:L; simpl; [|assumption].
  constructor; [|assumption]. intros H. apply in_flat_map in H. destruct H as (r' & Hr' & H).
  destruct (lookup r' (queues s)) as [q'|] eqn:L'; simpl in H; [|tauto].
  destruct H as [->|[]]. apply lookup_In in L, L'.
  assert (r = r') by (eapply NoDup_map_snd_inj; eassumption). subst. contradiction.
Qed.

Lemma notify_nth n t s j :
  NoDup (subs s) -> NoDup (map snd (queues s)) ->
  nth_error (heap (notify n t s)) j =
  if mem j (active_queues n s) then option_map (put_quiet (ERes n t)) (nth_error (heap s) j)
  else nth_error (heap s) j.
Proof.
  intros N1 N2. unfold notify. simpl. apply fold_upd_nth. now apply active_NoDup.
Qed.

(* queue object [q] belongs to a current subscriber of [n] and is not shut down *)
Definition live_target (s : state) (n q : nat) : Prop :=
  exists r qu, In (n, r) (subs s) /\ lookup r (queues s) = Some q /\
               nth_error (heap s) q = Some qu /\ shut qu = false /\ full qu = false.

Lemma notify_spec n t s : inv s ->
  let s' := notify n t s in
  subs s' = subs s /\ watches s' = watches s /\ queues s' = queues s /\
  List.length (heap s') = List.length (heap s) /\
  forall q qu, nth_error (heap s) q = Some qu ->
    (live_target s n q -> nth_error (heap s') q = Some (push (ERes n t) qu)) /\
    (~ live_target s n q -> nth_error (heap s') q = Some qu).
Proof.
  intros [[_ _ N1 _] [_ V _ _]] s'. repeat (split; [reflexivity|]).
  split; [apply fold_upd_length|].
  intros q qu Hq. unfold s'. rewrite notify_nth by assumption. rewrite Hq. split.
  - intros (r & qu' & Hr & L & Hq' & Sh & Fu). rewrite Hq in Hq'. injection Hq' as <-.
    assert (M : mem q (active_queues n s) = true) by (apply active_mem; eauto).
    rewrite M. simpl. unfold put_quiet. now rewrite Sh, Fu.
  - intros Hn. destruct (mem q (active_queues n s)) eqn:M; [|reflexivity].
    simpl. unfold put_quiet. destruct (shut qu) eqn:Sh; [reflexivity|].
    destruct (full qu) eqn:Fu; [reflexivity|].
    exfalso. apply Hn. apply active_mem in M. destruct M as (r & Hr & L).
    exists r, qu. auto.
Qed.

Theorem notify_exact ops n t :
  let s := run ops empty in
  let s' := fst (step (ONotify n t) s) in
  snd (step (ONotify n t) s) = RNone /\
  subs s' = subs s /\ watches s' = watches s /\ queues s' = queues s /\
  List.length (heap s') = List.length (heap s) /\
  forall q qu, nth_error (heap s) q = Some qu ->
    (live_target s n q -> nth_error (heap s') q = Some (push (ERes n t) qu)) /\
    (~ live_target s n q -> nth_error (heap s') q = Some qu).
Proof.
  intros s s'. split; [reflexivity|]. apply notify_spec, reachable_inv.
Qed.

(* ---- deregister *)

Local Arguments notify : simpl never.

Theorem deregister_releases ops r t :
  let s := run ops empty in
  let s' := fst (step (ODeregister r t) s) in
  snd (step (ODeregister r t) s) = RNone /\
  lookup r (queues s') = None /\
  (forall b, ~ In (r, b) (watches s')) /\ (forall a, ~ In (a, r) (subs s')) /\
  List.length (heap s') = List.length (heap s) /\
  (forall q qu, lookup r (queues s) = Some q -> nth_error (heap s) q = Some qu ->
     nth_error (heap s') q = Some (released qu)) /\
  (forall q qu, lookup r (queues s) <> Some q -> nth_error (heap s) q = Some qu ->
     (live_target s r q -> nth_error (heap s') q = Some (push (ERes r t) qu)) /\
     (~ live_target s r q -> nth_error (heap s') q = Some qu)).
Proof.
  intros s s'. pose proof (reachable_inv ops) as Hi. fold s in Hi.
  destruct (deregister_shape r t s Hi) as (s1 & mid & _ & Hi1 & Hw & Eq & Him & Hs & Hwm & Hqm & Hlen & Hnth).
  unfold s'. cbn [step]. rewrite Eq. cbn [fst snd].
  destruct (notify_spec r t mid Him) as (Es & Ew & Eqs & El & Hn).
  split; [reflexivity|]. split; [|split; [|split; [|split]]].
  - rewrite Eqs, Hqm. apply lookup_remove_key.
  - intros b H. rewrite Ew, Hwm in H. apply Hw in H. tauto.
  - intros a H. rewrite Es, Hs in H. apply (inv_inverse _ (proj1 Hi1)) in H. apply Hw in H. tauto.
  - now rewrite El.
  - (* subscribers of r, seen from [mid], are those seen from [s] *)
    assert (Hsub : forall x, In (r, x) (subs mid) <-> In (r, x) (subs s)).
    { intros x. rewrite Hs, (inv_inverse _ (proj1 Hi1)), Hw, <- (inv_inverse _ (proj1 Hi)).
      split; [tauto|]. intros H. split; [assumption|]. intros ->.
      apply (inv_acyclic _ (proj1 Hi) r). apply t_step. unfold E.
      now apply (inv_inverse _ (proj1 Hi)). }
    assert (Hself : ~ In (r, r) (subs s)).
    { intros H. apply (inv_acyclic _ (proj1 Hi) r). apply t_step. unfold E.
      now apply (inv_inverse _ (proj1 Hi)). }
    split.
    + intros q qu L Hq.
      assert (Hmid : nth_error (heap mid) q = Some (released qu)).
      { rewrite Hnth, L, Nat.eqb_refl, Hq. reflexivity. }
      apply (Hn q (released qu) Hmid). intros (x & qu' & Hx & Lx & _).
      rewrite Hqm in Lx. destruct (Nat.eq_dec x r) as [->|N].
      * rewrite lookup_remove_key in Lx. discriminate.
      * rewrite lookup_remove_key_neq in Lx by assumption.
        apply lookup_In in L, Lx. destruct Hi as [_ [_ V _ _]].
        apply N. eapply NoDup_map_snd_inj; eassumption.
    + intros q qu L Hq.
      assert (Hmid : nth_error (heap mid) q = Some qu).
      { rewrite Hnth. destruct (lookup r (queues s)) as [q0|]; [|assumption].
        destruct (Nat.eqb q0 q) eqn:Eqq; [|assumption]. apply Nat.eqb_eq in Eqq. congruence. }
      destruct (Hn q qu Hmid) as [H1 H2].
      assert (LT : live_target mid r q <-> live_target s r q).
      { split; intros (x & qu' & Hx & Lx & Hq' & Sh & Fu).
        - apply Hsub in Hx. exists x, qu'. rewrite Hmid in Hq'. injection Hq' as <-.
          assert (x <> r) by (intros ->; contradiction).
          rewrite Hqm, lookup_remove_key_neq in Lx by assumption. auto.
        - exists x, qu'. rewrite Hq in Hq'. injection Hq' as <-.
          assert (x <> r) by (intros ->; contradiction).
          rewrite Hqm, lookup_remove_key_neq by assumption. rewrite Hsub. auto. }
      split; intros H; [apply H1|apply H2]; now rewrite LT.
Qed.

(* anything still waiting to get from the old queue is woken: the queue is
   shut down and empty, so get raises QueueShutDown *)
Theorem released_get_raises s q qu (d : bool) :
  nth_error (heap s) q = Some (released qu) ->
  step (if d then OGetDone q else OGet q) s = (s, Raised QueueShutDown).
Proof.
  intros H. destruct d; simpl; unfold get_nowait; rewrite H; reflexivity.
Qed.

(* register of an already registered resource returns its queue, notifies nobody *)
Theorem register_again r t c s q :
  lookup r (queues s) = Some q -> step (ORegister r t c) s = (s, RQueue q).
Proof. intros H. simpl. unfold register. now rewrite H. Qed.

(* every resource has its own queue object *)
Theorem queues_private ops a b q :
  let s := run ops empty in
  lookup a (queues s) = Some q -> lookup b (queues s) = Some q -> a = b.
Proof.
  intros s La Lb. destruct (reachable_inv ops) as [_ [_ V _ _]].
  apply lookup_In in La, Lb. eapply NoDup_map_snd_inj; eassumption.
Qed.

(* ---- bounded (caller-supplied) queues: the full-queue cases spelled out *)

(* a subscriber whose queue is full gets nothing from this notification (the
   QueueFull is swallowed for that subscriber only) *)
Theorem notify_full_skipped ops n t q qu :
  let s := run ops empty in
  nth_error (heap s) q = Some qu -> full qu = true ->
  nth_error (heap (fst (step (ONotify n t) s))) q = Some qu.
Proof.
  intros s Hq Fu. destruct (notify_exact ops n t) as (_ & _ & _ & _ & _ & H).
  apply (H q qu Hq). intros (r & qu' & _ & _ & Hq' & _ & Fu'). fold s in Hq'.
  rewrite Hq in Hq'. injection Hq' as <-. congruence.
Qed.

(* kill_resource always leaves the resource's queue shut down — also when it is
   full and the Kill marker cannot be enqueued *)
Lemma kill_q_shut qu : shut (kill_q qu) = true.
Proof. unfold kill_q. destruct (shut qu) eqn:Sh; [assumption|]. destruct (full qu); reflexivity. Qed.

Lemma kill_q_items qu :
  items (kill_q qu) = if shut qu || full qu then items qu else EKill :: items qu.
Proof. unfold kill_q. destruct (shut qu); [reflexivity|]. destruct (full qu); reflexivity. Qed.

Theorem kill_shuts_down r s q qu :
  lookup r (queues s) = Some q -> nth_error (heap s) q = Some qu ->
  let s' := fst (step (OKill r) s) in
  snd (step (OKill r) s) = RNone /\
  nth_error (heap s') q = Some (kill_q qu) /\ shut (kill_q qu) = true /\
  items (kill_q qu) = (if shut qu || full qu then items qu else EKill :: items qu) /\
  (forall q', q' <> q -> nth_error (heap s') q' = nth_error (heap s) q') /\
  subs s' = subs s /\ watches s' = watches s /\ queues s' = queues s.
Proof.
  intros L Hq. simpl. unfold kill_resource. rewrite L. simpl.
  split; [reflexivity|]. split; [now rewrite nth_error_upd, Nat.eqb_refl, Hq|].
  split; [apply kill_q_shut|]. split; [apply kill_q_items|].
  split; [|auto]. intros q' N. rewrite nth_error_upd.
  destruct (Nat.eqb q q') eqn:E; [apply Nat.eqb_eq in E; congruence|reflexivity].
Qed.

(* deregister with a FULL own queue: still shut down, drained, and nothing left
   counted as unfinished on account of undelivered items *)
Theorem deregister_full_released ops r t q qu :
  let s := run ops empty in
  lookup r (queues s) = Some q -> nth_error (heap s) q = Some qu -> full qu = true ->
  let s' := fst (step (ODeregister r t) s) in
  nth_error (heap s') q = Some (Q [] true (unfinished qu - List.length (items qu)) (cap qu)) /\
  step (OGet q) s' = (s', Raised QueueShutDown).
Proof.
  intros s L Hq _ s'. destruct (deregister_releases ops r t) as (_ & _ & _ & _ & _ & H & _).
  fold s in H. specialize (H q qu L Hq). fold s' in H. split; [exact H|].
  exact (released_get_raises s' q qu false H).
Qed.

(* registering a new resource never fails, whatever state its subscribers' queues are in *)
Theorem register_fresh r t c s :
  lookup r (queues s) = None ->
  step (ORegister r t c) s =
  (notify r t (St (subs s) (watches s) ((r, List.length (heap s)) :: queues s) (heap s ++ [new_queue c])),
   RQueue (List.length (heap s))).
Proof. intros H. simpl. unfold register. now rewrite H. Qed.
