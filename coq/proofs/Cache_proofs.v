(* Cache_proofs.v — lemmas about model/Cache.v (cache.py, version-keyed prepare cache). *)
From Koreo Require Import Json Cache.
From Coq Require Import Lia.
Local Open Scope list_scope.
Local Open Scope nat_scope.

Lemma key_eqb_eq a b : key_eqb a b = true <-> a = b.
Proof.
  destruct a as [c n], b as [c' n']. unfold key_eqb. simpl.
  rewrite andb_true_iff, Nat.eqb_eq, String.eqb_eq. split; [intros [-> ->]; reflexivity|].
  intros H. injection H. auto.
Qed.

Lemma key_eqb_refl a : key_eqb a a = true.
Proof. now apply key_eqb_eq. Qed.

Lemma key_eqb_neq a b : key_eqb a b = false <-> a <> b.
Proof. rewrite <- key_eqb_eq. destruct (key_eqb a b); split; congruence. Qed.

(* ---- dict laws *)

Lemma lookup_set_same k e m : lookup k (set_entry k e m) = Some e.
Proof.
  induction m as [|[k' e'] m IH]; simpl; [now rewrite key_eqb_refl|].
  destruct (key_eqb k k') eqn:E; simpl; [now rewrite key_eqb_refl|]. now rewrite E.
Qed.

Lemma lookup_set_other k k' e m : k' <> k -> lookup k' (set_entry k e m) = lookup k' m.
Proof.
  intros N. induction m as [|[k2 e2] m IH]; simpl.
  - apply key_eqb_neq in N. now rewrite N.
  - destruct (key_eqb k k2) eqn:E; simpl.
    + apply key_eqb_eq in E. subst k2. apply key_eqb_neq in N. now rewrite N.
    + destruct (key_eqb k' k2); [reflexivity|assumption].
Qed.

Lemma lookup_del_same k m : lookup k (del_entry k m) = None.
Proof.
  induction m as [|[k' e'] m IH]; simpl; [reflexivity|].
  destruct (key_eqb k k') eqn:E; simpl; [assumption|]. now rewrite E.
Qed.

Lemma lookup_del_other k k' m : k' <> k -> lookup k' (del_entry k m) = lookup k' m.
Proof.
  intros N. induction m as [|[k2 e2] m IH]; simpl; [reflexivity|].
  destruct (key_eqb k k2) eqn:E; simpl.
  - apply key_eqb_eq in E. subst k2. apply key_eqb_neq in N. now rewrite N.
  - destruct (key_eqb k' k2); [reflexivity|assumption].
Qed.

Lemma lookup_In k e m : lookup k m = Some e -> In (k, e) m.
Proof.
  induction m as [|[k' e'] m IH]; simpl; [discriminate|].
  destruct (key_eqb k k') eqn:E; [|auto].
  intros H. injection H as ->. apply key_eqb_eq in E. subst. now left.
Qed.

Lemma lookup_None_notin k m : lookup k m = None -> ~ In k (map fst m).
Proof.
  induction m as [|[k' e'] m IH]; simpl; [tauto|].
  destruct (key_eqb k k') eqn:E; [discriminate|]. apply key_eqb_neq in E.
  intros H [H1|H1]; [congruence|now apply IH].
Qed.

Lemma set_entry_keys k e m x :
  In x (map fst (set_entry k e m)) <-> x = k \/ In x (map fst m).
Proof.
  induction m as [|[k' e'] m IH]; simpl; [intuition|].
  destruct (key_eqb k k') eqn:E; simpl.
  - apply key_eqb_eq in E. subst. intuition.
  - rewrite IH. intuition.
Qed.

Lemma set_entry_NoDup k e m : NoDup (map fst m) -> NoDup (map fst (set_entry k e m)).
Proof.
  induction m as [|[k' e'] m IH]; simpl; intros H.
  - constructor; [simpl; tauto|constructor].
  - inversion H as [|? ? Hn Hd]; subst. destruct (key_eqb k k') eqn:E; simpl.
    + apply key_eqb_eq in E. subst. now constructor.
    + constructor; [|auto]. rewrite set_entry_keys. apply key_eqb_neq in E.
      intros [H1|H1]; [congruence|contradiction].
Qed.

Lemma del_entry_keys k m x : In x (map fst (del_entry k m)) -> In x (map fst m).
Proof.
  induction m as [|[k' e'] m IH]; simpl; [tauto|].
  destruct (key_eqb k k'); simpl; intuition.
Qed.

Lemma del_entry_NoDup k m : NoDup (map fst m) -> NoDup (map fst (del_entry k m)).
Proof.
  induction m as [|[k' e'] m IH]; simpl; intros H; [constructor|].
  inversion H as [|? ? Hn Hd]; subst. destruct (key_eqb k k'); simpl; [auto|].
  constructor; [|auto]. intros H1. apply Hn. eapply del_entry_keys; eassumption.
Qed.

(* ---- metadata *)

Lemma nonempty_Some o s : nonempty o = Some s <-> o = Some s /\ s <> "".
Proof.
  unfold nonempty. destruct o as [x|]; [|split; [discriminate|intros [H _]; discriminate]].
  destruct (String.eqb x "") eqn:E.
  - apply String.eqb_eq in E. subst. split; [discriminate|]. intros [H N]. congruence.
  - apply String.eqb_neq in E. split.
    + intros H. injection H as <-. auto.
    + intros [H _]. exact H.
Qed.

(* well-formed metadata: name and resourceVersion present and non-empty, labels sane *)
Lemma extract_meta_ok m n v :
  extract_meta m = inl (n, v) <->
  m_name m = Some n /\ n <> "" /\ m_version m = Some v /\ v <> "" /\ m_labels_ok m = true.
Proof.
  unfold extract_meta.
  destruct (nonempty (m_name m)) as [n'|] eqn:En, (nonempty (m_version m)) as [v'|] eqn:Ev.
  - apply nonempty_Some in En, Ev. destruct En as [En Nn], Ev as [Ev Nv].
    destruct (m_labels_ok m); split.
    + intros H. injection H as <- <-. auto.
    + intros (H1 & _ & H2 & _). rewrite En in H1. rewrite Ev in H2. congruence.
    + discriminate.
    + intros (_ & _ & _ & _ & H). discriminate.
  - split; [discriminate|]. intros (_ & _ & H2 & Nv & _).
    assert (nonempty (m_version m) = Some v) by (apply nonempty_Some; auto). congruence.
  - split; [discriminate|]. intros (H1 & Nn & _).
    assert (nonempty (m_name m) = Some n) by (apply nonempty_Some; auto). congruence.
  - split; [discriminate|]. intros (H1 & Nn & _).
    assert (nonempty (m_name m) = Some n) by (apply nonempty_Some; auto). congruence.
Qed.

Section WithPreparer.
  Variable prep : key -> json -> nat -> presult.
  Notation step := (step prep).
  Notation run := (run prep).
  Notation offer := (offer prep).
  Notation prepare := (prepare prep).
  Notation astep := (astep prep).

  (* ---- offer *)

  (* bad metadata: TypeError / AttributeError, nothing happens *)
  Lemma offer_bad_meta cls m spec sys s x :
    extract_meta m = inr x -> step (Offer cls m spec sys) s = (s, Raised x).
  Proof. intros H. simpl. unfold Cache.offer. now rewrite H. Qed.

  (* same name, same version: the cached result, no preparation, state untouched *)
  Lemma offer_cached cls m spec sys s name ver e :
    extract_meta m = inl (name, ver) ->
    lookup (cls, name) (cache s) = Some e -> e_version e = ver ->
    step (Offer cls m spec sys) s = (s, RValue (e_value e)).
  Proof.
    intros Hm Hl Hv. simpl. unfold Cache.offer. rewrite Hm, Hl, Hv, String.eqb_refl. reflexivity.
  Qed.

  Lemma offer_fresh_is_prepare cls m spec sys s name ver :
    extract_meta m = inl (name, ver) ->
    (forall e, lookup (cls, name) (cache s) = Some e -> e_version e <> ver) ->
    step (Offer cls m spec sys) s = prepare (cls, name) ver spec sys s.
  Proof.
    intros Hm Hv. simpl. unfold Cache.offer. rewrite Hm.
    destruct (lookup (cls, name) (cache s)) as [e|] eqn:L; [|reflexivity].
    specialize (Hv e eq_refl). apply String.eqb_neq in Hv. now rewrite Hv.
  Qed.

  (* different version (or nothing cached): exactly one preparer call; the entry
     becomes (version, that result) whether Ok or a failure outcome; other keys
     are untouched.  A preparer that raises leaves the cache as it was. *)
  Lemma offer_prepares cls m spec sys s name ver :
    extract_meta m = inl (name, ver) ->
    (forall e, lookup (cls, name) (cache s) = Some e -> e_version e <> ver) ->
    let k := (cls, name) in
    let s' := fst (step (Offer cls m spec sys) s) in
    let r := snd (step (Offer cls m spec sys) s) in
    preps s' = k :: preps s /\
    (forall k', k' <> k -> lookup k' (cache s') = lookup k' (cache s)) /\
    match prep k spec (List.length (preps s)) with
    | POk id _ => r = RValue (VOk id) /\
                  lookup k (cache s') = Some (Entry spec (VOk id) ver (clock s) sys)
    | PErr id => r = RValue (VErr id) /\
                 lookup k (cache s') = Some (Entry spec (VErr id) ver (clock s) sys)
    | PRaise => r = Raised PreparerError /\ cache s' = cache s
    end.
  Proof.
    intros Hm Hv k s' r. unfold s', r. rewrite (offer_fresh_is_prepare _ _ _ _ _ _ _ Hm Hv).
    unfold Cache.prepare. fold k.
    destruct (prep k spec (List.length (preps s))) as [id d|id|]; simpl.
    - split; [reflexivity|]. split; [intros k' N; now apply lookup_set_other|].
      split; [reflexivity|apply lookup_set_same].
    - split; [reflexivity|]. split; [intros k' N; now apply lookup_set_other|].
      split; [reflexivity|apply lookup_set_same].
    - auto.
  Qed.

  (* after a successful offer (cached or freshly prepared) the cache holds
     exactly the offered version and the returned result *)
  Lemma offer_then_lookup cls m spec sys s name ver v :
    extract_meta m = inl (name, ver) ->
    snd (step (Offer cls m spec sys) s) = RValue v ->
    exists e, lookup (cls, name) (cache (fst (step (Offer cls m spec sys) s))) = Some e /\
              e_version e = ver /\ e_value e = v.
  Proof.
    intros Hm. simpl. unfold Cache.offer. rewrite Hm.
    assert (Hp : snd (prepare (cls, name) ver spec sys s) = RValue v ->
                 exists e, lookup (cls, name) (cache (fst (prepare (cls, name) ver spec sys s))) = Some e /\
                           e_version e = ver /\ e_value e = v).
    { unfold Cache.prepare. destruct (prep _ _ _) as [id d|id|]; simpl; intros H; try discriminate;
        injection H as <-; eexists; (split; [apply lookup_set_same|split; reflexivity]). }
    destruct (lookup (cls, name) (cache s)) as [e|] eqn:L; [|exact Hp].
    destruct (String.eqb (e_version e) ver) eqn:E; [|exact Hp].
    simpl. intros H. injection H as <-. exists e. apply String.eqb_eq in E. auto.
  Qed.

  (* ---- delete *)

  Lemma delete_absent cls name ver s :
    lookup (cls, name) (cache s) = None -> step (Delete cls name ver) s = (s, RNone).
  Proof. intros H. simpl. unfold delete. now rewrite H. Qed.

  (* a delete that names another (non-empty) version is the identity *)
  Lemma delete_stale cls name v s e :
    lookup (cls, name) (cache s) = Some e -> v <> "" -> v <> e_version e ->
    step (Delete cls name (Some v)) s = (s, RNone).
  Proof.
    intros Hl Nv Hv. simpl. unfold delete. rewrite Hl.
    assert (nonempty (Some v) = Some v) as -> by (apply nonempty_Some; auto).
    apply String.eqb_neq in Hv. now rewrite Hv.
  Qed.

  (* delete by name, or naming the cached version, removes the entry and nothing else *)
  Lemma delete_removes cls name ver s e :
    lookup (cls, name) (cache s) = Some e ->
    (ver = None \/ ver = Some "" \/ ver = Some (e_version e)) ->
    let s' := fst (step (Delete cls name ver) s) in
    snd (step (Delete cls name ver) s) = RNone /\
    lookup (cls, name) (cache s') = None /\
    (forall k', k' <> (cls, name) -> lookup k' (cache s') = lookup k' (cache s)) /\
    preps s' = preps s.
  Proof.
    intros Hl Hv. simpl. unfold delete. rewrite Hl.
    assert (Hdel : lookup (cls, name) (del_entry (cls, name) (cache s)) = None /\
              (forall k', k' <> (cls, name) ->
                 lookup k' (del_entry (cls, name) (cache s)) = lookup k' (cache s)) /\
              preps s = preps s).
    { split; [apply lookup_del_same|]. split; [|reflexivity].
      intros k' N. now apply lookup_del_other. }
    destruct Hv as [-> | [-> | ->]]; simpl.
    - split; [reflexivity|exact Hdel].
    - split; [reflexivity|exact Hdel].
    - destruct (String.eqb (e_version e) ""); [|rewrite String.eqb_refl]; simpl;
        (split; [reflexivity|exact Hdel]).
  Qed.

  Lemma delete_resource_is_delete cls m s name ver :
    extract_meta m = inl (name, ver) ->
    step (DeleteRes cls m) s = step (Delete cls name None) s.
  Proof. intros H. simpl. unfold delete_resource. now rewrite H. Qed.

  Lemma delete_resource_bad_meta cls m s x :
    extract_meta m = inr x -> step (DeleteRes cls m) s = (s, Raised x).
  Proof. intros H. simpl. unfold delete_resource. now rewrite H. Qed.

  (* ---- frame: an operation only affects the key it names *)

  Definition touches (o : op) (k : key) : bool :=
    match o with
    | Offer cls m _ _ | DeleteRes cls m =>
        match extract_meta m with inl (name, _) => key_eqb (cls, name) k | inr _ => false end
    | Delete cls name _ => key_eqb (cls, name) k
    | Lookup _ _ | LookupSys _ _ => false
    end.

  Lemma delete_frame cls name ver s k :
    k <> (cls, name) -> lookup k (cache (fst (delete cls name ver s))) = lookup k (cache s).
  Proof.
    intros N. unfold delete. destruct (lookup (cls, name) (cache s)); [|reflexivity].
    destruct (nonempty ver) as [v|]; [destruct (String.eqb v _)|]; simpl; try reflexivity;
      now apply lookup_del_other.
  Qed.

  Lemma step_frame o s k :
    touches o k = false -> lookup k (cache (fst (step o s))) = lookup k (cache s).
  Proof.
    destruct o as [cls m spec sys|cls name ver|cls m|cls name|cls name]; simpl; try reflexivity.
    - unfold Cache.offer. destruct (extract_meta m) as [[name ver]|x]; [|reflexivity].
      intros T. apply key_eqb_neq in T.
      assert (Hp : lookup k (cache (fst (prepare (cls, name) ver spec sys s))) = lookup k (cache s)).
      { unfold Cache.prepare. destruct (prep _ _ _); simpl; try reflexivity;
          apply lookup_set_other; congruence. }
      destruct (lookup (cls, name) (cache s)) as [e|]; [|exact Hp].
      destruct (String.eqb (e_version e) ver); [reflexivity|exact Hp].
    - intros T. apply key_eqb_neq in T. apply delete_frame. congruence.
    - unfold delete_resource. destruct (extract_meta m) as [[name ver]|x]; [|reflexivity].
      intros T. apply key_eqb_neq in T. apply delete_frame. congruence.
  Qed.

  Lemma run_frame ops : forall s k,
    (forall o, In o ops -> touches o k = false) ->
    lookup k (cache (run ops s)) = lookup k (cache s).
  Proof.
    induction ops as [|o ops IH]; intros s k H; simpl; [reflexivity|].
    rewrite IH by (intros o' Ho; apply H; now right).
    apply step_frame, H. now left.
  Qed.

  Lemma run_app ops1 ops2 s : run (ops1 ++ ops2) s = run ops2 (run ops1 s).
  Proof. unfold Cache.run. apply fold_left_app. Qed.

  (* "lookups then return the result for the most recently offered version":
     after any history, an offer that returns v, and any further operations that
     do not name that key, the cache holds (offered version, v) for it *)
  Theorem latest_wins before after cls m spec sys name ver v :
    extract_meta m = inl (name, ver) ->
    snd (step (Offer cls m spec sys) (run before init)) = RValue v ->
    (forall o, In o after -> touches o (cls, name) = false) ->
    let s := run (before ++ Offer cls m spec sys :: after) init in
    exists e, lookup (cls, name) (cache s) = Some e /\ e_version e = ver /\ e_value e = v /\
              step (Lookup cls name) s = (s, RValue v).
  Proof.
    intros Hm Hr Ha s. unfold s. rewrite run_app. simpl.
    rewrite run_frame by assumption.
    destruct (offer_then_lookup _ _ _ _ _ _ _ _ Hm Hr) as (e & Hl & Hv & He).
    simpl in Hl. exists e. repeat (split; [assumption|]).
    simpl in *. rewrite Hl, He. reflexivity.
  Qed.

  (* ---- the cache is a dict: one entry per key, in every reachable state *)

  Lemma step_keys_unique o s :
    NoDup (map fst (cache s)) -> NoDup (map fst (cache (fst (step o s)))).
  Proof.
    intros H.
    assert (Hp : forall k ver spec sys, NoDup (map fst (cache (fst (prepare k ver spec sys s))))).
    { intros. unfold Cache.prepare. destruct (prep _ _ _); simpl; auto using set_entry_NoDup. }
    assert (Hd : forall cls name ver, NoDup (map fst (cache (fst (delete cls name ver s))))).
    { intros. unfold delete. destruct (lookup _ _); [|assumption].
      destruct (nonempty ver) as [v|]; [destruct (String.eqb v _)|]; simpl; auto using del_entry_NoDup. }
    destruct o as [cls m spec sys|cls name ver|cls m|cls name|cls name]; simpl; auto.
    - unfold Cache.offer. destruct (extract_meta m) as [[name ver]|x]; [|assumption].
      destruct (lookup _ _) as [e|]; [destruct (String.eqb _ _)|]; auto.
    - unfold delete_resource. destruct (extract_meta m) as [[name ver]|x]; auto.
  Qed.

  Theorem keys_unique ops : NoDup (map fst (cache (run ops init))).
  Proof.
    assert (H : forall s, NoDup (map fst (cache s)) -> NoDup (map fst (cache (run ops s)))).
    { induction ops as [|o ops IH]; intros s Hs; simpl; [assumption|].
      apply IH. now apply step_keys_unique. }
    apply H. constructor.
  Qed.

  (* ---- refinement to the plain map  key -> (version, result) *)

  Definition proj (ke : key * entry) : key * (string * value) :=
    (fst ke, (e_version (snd ke), e_value (snd ke))).

  Lemma abs_lookup k m :
    alookup k (map proj m) = option_map (fun e => (e_version e, e_value e)) (lookup k m).
  Proof.
    induction m as [|[k' e'] m IH]; simpl; [reflexivity|].
    destruct (key_eqb k k'); [reflexivity|assumption].
  Qed.

  Lemma abs_set k e m :
    map proj (set_entry k e m) = aset k (e_version e, e_value e) (map proj m).
  Proof.
    induction m as [|[k' e'] m IH]; simpl; [reflexivity|].
    destruct (key_eqb k k'); simpl; [reflexivity|now rewrite IH].
  Qed.

  Lemma abs_del k m : map proj (del_entry k m) = adel k (map proj m).
  Proof.
    induction m as [|[k' e'] m IH]; simpl; [reflexivity|].
    destruct (key_eqb k k'); simpl; [assumption|now rewrite IH].
  Qed.

  Lemma adel_absent k a : alookup k a = None -> adel k a = a.
  Proof.
    induction a as [|[k' x] a IH]; simpl; [reflexivity|].
    destruct (key_eqb k k'); [discriminate|]. intros H. now rewrite IH.
  Qed.

  Lemma abs_delete cls name ver s :
    abs (fst (delete cls name ver s)) = adelete (cls, name) ver (abs s).
  Proof.
    unfold delete, adelete, abs. simpl. fold proj. rewrite abs_lookup.
    destruct (lookup (cls, name) (cache s)) as [e|] eqn:L; simpl.
    - destruct (nonempty ver) as [v|]; [destruct (String.eqb v (e_version e))|]; simpl;
        rewrite ?abs_del; reflexivity.
    - rewrite adel_absent; [destruct (nonempty ver); reflexivity|].
      rewrite abs_lookup, L. reflexivity.
  Qed.

  (* one step of the implementation model is one step of the map specification,
     with the same result *)
  Theorem step_refines o s :
    abs (fst (step o s)) = fst (astep o (abs s)) /\
    (match o with LookupSys _ _ => True | _ => snd (step o s) = snd (astep o (abs s)) end).
  Proof.
    destruct o as [cls m spec sys|cls name ver|cls m|cls name|cls name]; simpl.
    - unfold Cache.offer. destruct (extract_meta m) as [[name ver]|x]; [|auto].
      unfold aoffer. simpl. fold proj. rewrite abs_lookup.
      assert (Hp : abs (fst (prepare (cls, name) ver spec sys s)) =
                   fst (match value_of (prep (cls, name) spec (List.length (preps s))) with
                        | Some v => ((aset (cls, name) (ver, v) (map proj (cache s)), (cls, name) :: preps s), RValue v)
                        | None => ((map proj (cache s), (cls, name) :: preps s), Raised PreparerError)
                        end) /\
                   snd (prepare (cls, name) ver spec sys s) =
                   snd (match value_of (prep (cls, name) spec (List.length (preps s))) with
                        | Some v => ((aset (cls, name) (ver, v) (map proj (cache s)), (cls, name) :: preps s), RValue v)
                        | None => ((map proj (cache s), (cls, name) :: preps s), Raised PreparerError)
                        end)).
      { unfold Cache.prepare, abs. destruct (prep _ _ _); simpl; fold proj; rewrite ?abs_set; auto. }
      destruct (lookup (cls, name) (cache s)) as [e|]; simpl; [|exact Hp].
      destruct (String.eqb (e_version e) ver); [auto|exact Hp].
    - split; [apply abs_delete|].
      unfold delete. destruct (lookup _ _); [|reflexivity].
      destruct (nonempty ver) as [v|]; [destruct (String.eqb v _)|]; reflexivity.
    - unfold delete_resource. destruct (extract_meta m) as [[name ver]|x]; [|auto].
      split; [apply abs_delete|].
      unfold delete. destruct (lookup _ _); reflexivity.
    - split; [reflexivity|]. unfold abs. simpl. fold proj. rewrite abs_lookup.
      destruct (lookup _ _); reflexivity.
    - auto.
  Qed.

  Definition arun (ops : list op) (a : astate) : astate :=
    fold_left (fun st o => fst (astep o st)) ops a.

  (* after every history the cache agrees with the plain map (same keys, same
     versions, same results, same number of preparer calls per key) *)
  Theorem run_refines ops : forall s, abs (run ops s) = arun ops (abs s).
  Proof.
    induction ops as [|o ops IH]; intros s; simpl; [reflexivity|].
    rewrite IH. f_equal. apply step_refines.
  Qed.

  (* ... and every lookup / offer result along the way is the map's *)
  Theorem results_refine before o :
    match o with LookupSys _ _ => True
    | _ => snd (step o (run before init)) = snd (astep o (arun before (abs init))) end.
  Proof.
    rewrite <- run_refines. apply step_refines.
  Qed.
End WithPreparer.

(* ---- a background re-prepare that overlaps offers / deletes of its resource ---- *)

Section Reprepare.
  Variable prep : key -> json -> nat -> presult.
  Notation step := (step prep).
  Notation run := (run prep).

  (* every cached entry was stamped with a clock reading older than the clock *)
  Definition stamped (s : state) : Prop :=
    forall k e, lookup k (cache s) = Some e -> e_prepared_at e < clock s.

  (* relative to an earlier state s0: an entry is either the one s0 had for that key, or newer than s0's clock *)
  Definition since (s0 s : state) : Prop :=
    clock s0 <= clock s /\
    forall k e, lookup k (cache s) = Some e ->
                lookup k (cache s0) = Some e \/ clock s0 <= e_prepared_at e.

  Lemma lookup_set_cases k k' e m x :
    lookup k' (set_entry k e m) = Some x -> (k' = k /\ x = e) \/ (k' <> k /\ lookup k' m = Some x).
  Proof.
    destruct (key_eqb k' k) eqn:E.
    - apply key_eqb_eq in E. subst. rewrite lookup_set_same. intros H. injection H as <-. auto.
    - apply key_eqb_neq in E. rewrite lookup_set_other by assumption. auto.
  Qed.

  Lemma lookup_del_cases k k' m x :
    lookup k' (del_entry k m) = Some x -> k' <> k /\ lookup k' m = Some x.
  Proof.
    destruct (key_eqb k' k) eqn:E.
    - apply key_eqb_eq in E. subst. rewrite lookup_del_same. discriminate.
    - apply key_eqb_neq in E. rewrite lookup_del_other by assumption. auto.
  Qed.

  (* what one operation does to the clock and to the entries: the clock never goes back, and every entry
     afterwards is an entry from before or is stamped with a reading of the clock taken during the operation *)
  Lemma step_entries o s :
    clock s <= clock (fst (step o s)) /\
    forall k e, lookup k (cache (fst (step o s))) = Some e ->
                lookup k (cache s) = Some e \/ (clock s <= e_prepared_at e /\ e_prepared_at e < clock (fst (step o s))).
  Proof.
    assert (Hp : forall k ver spec sys,
              clock s <= clock (fst (prepare prep k ver spec sys s)) /\
              forall k' e, lookup k' (cache (fst (prepare prep k ver spec sys s))) = Some e ->
                lookup k' (cache s) = Some e \/
                (clock s <= e_prepared_at e /\ e_prepared_at e < clock (fst (prepare prep k ver spec sys s)))).
    { intros. unfold prepare. destruct (prep _ _ _); simpl; (split; [lia|]); intros k' e H; auto;
        apply lookup_set_cases in H; destruct H as [[-> ->]|[_ H]]; auto; right; simpl; lia. }
    assert (Hd : forall cls name ver,
              clock s <= clock (fst (delete cls name ver s)) /\
              forall k' e, lookup k' (cache (fst (delete cls name ver s))) = Some e -> lookup k' (cache s) = Some e).
    { intros. unfold delete. destruct (lookup (cls, name) (cache s)) as [e0|]; [|auto].
      destruct (nonempty ver) as [v|]; [destruct (String.eqb v _)|]; simpl; (split; [lia|]); auto;
        intros k' e H; apply lookup_del_cases in H; tauto. }
    destruct o as [cls m spec sys|cls name ver|cls m|cls name|cls name]; simpl; auto.
    - unfold offer. destruct (extract_meta m) as [[name ver]|x]; [|auto].
      destruct (lookup (cls, name) (cache s)) as [e0|]; [destruct (String.eqb _ _)|]; auto.
    - destruct (Hd cls name ver) as [H1 H2]. split; [assumption|]. intros. left. eauto.
    - unfold delete_resource. destruct (extract_meta m) as [[name ver]|x]; [|auto].
      destruct (Hd cls name None) as [H1 H2]. split; [assumption|]. intros. left. eauto.
  Qed.

  Lemma step_stamped o s : stamped s -> stamped (fst (step o s)).
  Proof.
    intros H k e L. destruct (step_entries o s) as [Hc He].
    destruct (He k e L) as [H1|[_ H1]]; [|assumption]. specialize (H k e H1). lia.
  Qed.

  Lemma run_stamped ops : forall s, stamped s -> stamped (run ops s).
  Proof.
    induction ops as [|o ops IH]; intros s H; simpl; [assumption|]. apply IH. now apply step_stamped.
  Qed.

  Lemma init_stamped : stamped init.
  Proof. intros k e H. discriminate. Qed.

  Lemma since_refl s : since s s.
  Proof. split; [lia|]. auto. Qed.

  Lemma step_since s0 o s : since s0 s -> since s0 (fst (step o s)).
  Proof.
    intros [Hc He]. destruct (step_entries o s) as [Hc' He']. split; [lia|].
    intros k e L. destruct (He' k e L) as [H1|[H1 _]]; [auto|]. right. lia.
  Qed.

  Lemma run_since ops : forall s0 s, since s0 s -> since s0 (run ops s).
  Proof.
    induction ops as [|o ops IH]; intros s0 s H; simpl; [assumption|]. apply IH. now apply step_since.
  Qed.

  (* rp_begin does not touch the cache; it reads the clock once and calls the preparer once *)
  Lemma rp_begin_spec k s read p started s1 :
    rp_begin prep k s = Some (read, p, started, s1) ->
    lookup k (cache s) = Some read /\ started = clock s /\ cache s1 = cache s /\
    clock s1 = S (clock s) /\ preps s1 = k :: preps s.
  Proof.
    unfold rp_begin. destruct (lookup k (cache s)) as [e|]; [|discriminate].
    intros H. injection H as <- <- <- <-. simpl. auto.
  Qed.

  (* THE REPAIRED BEHAVIOUR.  A re-prepare reads the entry of k in state s0; while its preparer is suspended
     any sequence [ops] of offers / deletes / lookups runs.  If afterwards the entry of k is not exactly the
     entry that was read — k was offered again (whatever the version) or deleted — finishing the re-prepare
     leaves the cache and the preparer log exactly as they are: the newer offer is not overwritten and a deleted
     entry is not resurrected. *)
  Theorem reprepare_respects_newer_state k s0 read p started s1 ops :
    stamped s0 ->
    rp_begin prep k s0 = Some (read, p, started, s1) ->
    let s2 := run ops s1 in
    lookup k (cache s2) <> Some read ->
    cache (rp_end k read p started s2) = cache s2 /\ preps (rp_end k read p started s2) = preps s2.
  Proof.
    intros St Hb s2 Hne. destruct (rp_begin_spec _ _ _ _ _ _ Hb) as (Lr & -> & Hc & Hk & _).
    unfold rp_end. destruct (value_of_presult p); [|auto].
    destruct (lookup k (cache s2)) as [cur|] eqn:L; [|auto].
    assert (Hs : since s1 s2) by (apply run_since, since_refl).
    destruct Hs as [_ Hs]. destruct (Hs k cur L) as [H|H].
    - rewrite Hc, Lr in H. congruence.
    - unfold same_object. specialize (St k read Lr).
      assert (N : Nat.eqb (e_prepared_at cur) (e_prepared_at read) = false) by (apply Nat.eqb_neq; lia).
      rewrite N. auto.
  Qed.

  (* ... in particular when a NEWER VERSION was offered meanwhile, or the entry was deleted *)
  Corollary reprepare_keeps_newer_version k s0 read p started s1 ops e :
    stamped s0 -> rp_begin prep k s0 = Some (read, p, started, s1) ->
    lookup k (cache (run ops s1)) = Some e -> e_version e <> e_version read ->
    lookup k (cache (rp_end k read p started (run ops s1))) = Some e.
  Proof.
    intros St Hb L Hv.
    destruct (reprepare_respects_newer_state k s0 read p started s1 ops St Hb) as [H _].
    - intros H. rewrite L in H. congruence.
    - now rewrite H.
  Qed.

  Corollary reprepare_does_not_resurrect k s0 read p started s1 ops :
    stamped s0 -> rp_begin prep k s0 = Some (read, p, started, s1) ->
    lookup k (cache (run ops s1)) = None ->
    lookup k (cache (rp_end k read p started (run ops s1))) = None.
  Proof.
    intros St Hb L.
    destruct (reprepare_respects_newer_state k s0 read p started s1 ops St Hb) as [H _].
    - rewrite L. discriminate.
    - now rewrite H.
  Qed.

  (* and when nothing replaced the entry, the re-prepared result is stored under the SAME version and spec *)
  Theorem reprepare_updates_same_version k s0 read p started s1 ops v :
    rp_begin prep k s0 = Some (read, p, started, s1) ->
    lookup k (cache (run ops s1)) = Some read -> value_of_presult p = Some v ->
    lookup k (cache (rp_end k read p started (run ops s1))) =
      Some (Entry (e_spec read) v (e_version read) started (e_sysdata read)).
  Proof.
    intros _ L Hv. unfold rp_end. rewrite Hv, L. unfold same_object. rewrite Nat.eqb_refl. simpl.
    apply lookup_set_same.
  Qed.
End Reprepare.

(* regression: the interleaving that used to lose the newer offer (commit 033ed5d repaired it): x cached at
   "1"; the re-preparer reads it; x is offered at "2" and that offer completes; the re-preparer finishes — the
   cache still says "2", built from the second spec *)
Example reprepare_race_regression :
  let prep := fun (_ : key) (_ : json) (n : nat) => POk n false in
  let m v := Meta (Some "x") (Some v) true in
  let s1 := fst (step prep (Offer 0 (m "1") (JStr "spec-v1") None) init) in
  exists read p started s2,
    rp_begin prep (0, "x") s1 = Some (read, p, started, s2) /\
    let s3 := fst (step prep (Offer 0 (m "2") (JStr "spec-v2") None) s2) in
    let s4 := rp_end (0, "x") read p started s3 in
    option_map e_version (lookup (0, "x") (cache s4)) = Some "2" /\
    option_map e_spec (lookup (0, "x") (cache s4)) = Some (JStr "spec-v2") /\
    (* ... and a delete in between is not undone *)
    let s3' := fst (step prep (Delete 0 "x" None) s2) in
    lookup (0, "x") (cache (rp_end (0, "x") read p started s3')) = None.
Proof. cbv zeta. eexists _, _, _, _. split; [vm_compute; reflexivity|]. vm_compute. auto. Qed.
