(* DeepOverlay_sync.v — the hand-written model of cel/functions._deep_overlay
   (ResourceFn.merge_val; proved equal to Overlay.deep_overlay_v and FnTestRun.deep_overlay in
   CrossModel_proofs.v) is EQUAL to the transcription regenerated from the current source on every run
   (gen/DeepOverlay_gen.v, by harness/translate_overlay.py), whenever the fuel covers the nesting depth
   of the overlay.  If functions.py changes the behaviour of `_deep_overlay`, this proof breaks. *)
From Coq Require Import Lia Arith Bool.
From Koreo Require Import Json DeepOverlay_gen.
From Koreo Require ResourceFn.
Local Open Scope nat_scope.
Local Open Scope list_scope.

(* nesting depth of maps (lists are opaque to _deep_overlay) *)
Fixpoint mdepth (j : json) : nat :=
  match j with
  | JMap kvs => S ((fix go (l : list (string * json)) : nat :=
                      match l with
                      | [] => 0
                      | (_, v) :: r => Nat.max (mdepth v) (go r)
                      end) kvs)
  | _ => 0
  end.

Definition kdepth (kvs : list (string * json)) : nat :=
  (fix go (l : list (string * json)) : nat :=
     match l with
     | [] => 0
     | (_, v) :: r => Nat.max (mdepth v) (go r)
     end) kvs.

Lemma mdepth_map kvs : mdepth (JMap kvs) = S (kdepth kvs).
Proof. reflexivity. Qed.

Lemma kdepth_cons k v r : kdepth ((k, v) :: r) = Nat.max (mdepth v) (kdepth r).
Proof. reflexivity. Qed.

(* what one loop iteration stores under the key *)
Definition new_val (acc : list (string * json)) (kv : string * json) : json :=
  match lookup (fst kv) acc, snd kv with
  | Some (JMap rm), JMap _ => ResourceFn.merge_val (JMap rm) (snd kv)
  | _, _ => snd kv
  end.

Definition merge_kvs (res ov : list (string * json)) : list (string * json) :=
  fold_left (fun acc kv => set_key (fst kv) (new_val acc kv) acc) ov res.

Lemma merge_val_map (res ov : list (string * json)) :
  ResourceFn.merge_val (JMap res) (JMap ov) = JMap (merge_kvs res ov).
Proof.
  cbn [ResourceFn.merge_val]. f_equal. unfold merge_kvs.
  revert res. induction ov as [|[k v] r IH]; intros acc; [reflexivity|].
  cbn [fold_left fst snd]. rewrite <- IH. reflexivity.
Qed.

Lemma mem_keys_lookup (k : string) (l : list (string * json)) :
  mem_str k (keys l) = match lookup k l with Some _ => true | None => false end.
Proof.
  induction l as [|[k' v] r IH]; [reflexivity|].
  cbn [keys map fst mem_str lookup]. destruct (String.eqb k k'); [reflexivity|]. exact IH.
Qed.

Theorem deep_overlay_gen_eq (fuel : nat) :
  forall res ov, mdepth (JMap ov) <= fuel ->
  deep_overlay_gen fuel res ov = Some (merge_kvs res ov).
Proof.
  induction fuel as [|fuel IH]; intros res ov Hd.
  - rewrite mdepth_map in Hd. lia.
  - cbn [deep_overlay_gen]. rewrite mdepth_map in Hd. apply le_S_n in Hd.
    unfold merge_kvs.
    match goal with
    | |- match fold_left ?F ov (Running res) with _ => _ end = _ =>
        assert (E : forall l acc, kdepth l <= fuel ->
                  fold_left F l (Running acc) =
                  Running (fold_left (fun a kv => set_key (fst kv) (new_val a kv) a) l acc))
    end.
    { induction l as [|[k v] r IHl]; intros acc Hl; [reflexivity|].
      rewrite kdepth_cons in Hl.
      assert (Hv : mdepth v <= fuel) by lia.
      assert (Hr : kdepth r <= fuel) by lia.
      cbn [fold_left fst snd]. rewrite <- (IHl _ Hr). f_equal.
      rewrite mem_keys_lookup. unfold new_val. cbn [fst snd].
      destruct (lookup k acc) as [rv|]; [|reflexivity].
      destruct v, rv; cbn [is_map andb as_map]; try reflexivity.
      match goal with
      | |- context [deep_overlay_gen fuel ?rm ?om] => rewrite (IH rm om Hv)
      end.
      rewrite merge_val_map. reflexivity. }
    rewrite (E ov res Hd). reflexivity.
Qed.

(* stated on values: with enough fuel the transcription computes the model *)
Corollary deep_overlay_gen_is_merge_val (res ov : list (string * json)) :
  option_map JMap (deep_overlay_gen (mdepth (JMap ov)) res ov) =
  Some (ResourceFn.merge_val (JMap res) (JMap ov)).
Proof.
  rewrite (deep_overlay_gen_eq _ res ov (le_n _)). cbn [option_map]. now rewrite merge_val_map.
Qed.
