(* Payload_proofs.v — lemmas and proofs about model/Payload.v (property C08). *)
From Koreo Require Import Json Payload.
From Coq Require Import Lia.
Local Open Scope list_scope.
Arguments is_directive : simpl never.

(* ------------------------------------------------------------------------ *)
(* association lists                                                         *)
(* ------------------------------------------------------------------------ *)

Lemma eqb_neq_sym (a b : string) : String.eqb a b = false -> String.eqb b a = false.
Proof. rewrite String.eqb_sym. auto. Qed.

Lemma lookup_set_key_eq {A} k (v : A) kvs : lookup k (set_key k v kvs) = Some v.
Proof.
  induction kvs as [|[k' v'] r IH]; cbn.
  - rewrite String.eqb_refl. reflexivity.
  - destruct (String.eqb k k') eqn:E; cbn; rewrite E; auto.
Qed.

Lemma lookup_set_key_neq {A} k k' (v : A) kvs :
  String.eqb k k' = false -> lookup k (set_key k' v kvs) = lookup k kvs.
Proof.
  intros N. induction kvs as [|[k2 v2] r IH]; cbn.
  - rewrite N. reflexivity.
  - destruct (String.eqb k' k2) eqn:E; cbn.
    + apply String.eqb_eq in E. subst k2. rewrite N. reflexivity.
    + destruct (String.eqb k k2); auto.
Qed.

Lemma lookup_del_key_eq {A} k (kvs : list (string * A)) : lookup k (del_key k kvs) = None.
Proof.
  induction kvs as [|[k' v'] r IH]; cbn; auto.
  destruct (String.eqb k k') eqn:E; cbn; auto. rewrite E. auto.
Qed.

Lemma lookup_del_key_neq {A} k k' (kvs : list (string * A)) :
  String.eqb k k' = false -> lookup k (del_key k' kvs) = lookup k kvs.
Proof.
  intros N. induction kvs as [|[k2 v2] r IH]; cbn; auto.
  destruct (String.eqb k' k2) eqn:E; cbn.
  - apply String.eqb_eq in E. subst k2. rewrite N. auto.
  - destruct (String.eqb k k2); auto.
Qed.

Lemma set_key_same {A} k (v : A) kvs : lookup k kvs = Some v -> set_key k v kvs = kvs.
Proof.
  induction kvs as [|[k' v'] r IH]; cbn; [discriminate|].
  destruct (String.eqb k k') eqn:E.
  - intros H. inversion H. reflexivity.
  - intros H. rewrite IH; auto.
Qed.

Lemma set_key_twice {A} k (v w : A) kvs : set_key k v (set_key k w kvs) = set_key k v kvs.
Proof.
  induction kvs as [|[k' v'] r IH]; cbn.
  - rewrite String.eqb_refl. reflexivity.
  - destruct (String.eqb k k') eqn:E; cbn; rewrite E; auto. rewrite IH. reflexivity.
Qed.

Lemma del_key_absent {A} k (kvs : list (string * A)) : lookup k kvs = None -> del_key k kvs = kvs.
Proof.
  induction kvs as [|[k' v'] r IH]; cbn; auto.
  destruct (String.eqb k k'); [discriminate|]. intros H. rewrite IH; auto.
Qed.

Lemma del_key_set_key {A} k (v : A) kvs : del_key k (set_key k v kvs) = del_key k kvs.
Proof.
  induction kvs as [|[k' v'] r IH]; cbn.
  - rewrite String.eqb_refl. reflexivity.
  - destruct (String.eqb k k') eqn:E; cbn; rewrite E; auto. rewrite IH. reflexivity.
Qed.

Lemma mem_str_In k l : mem_str k l = true <-> In k l.
Proof.
  induction l as [|x r IH]; cbn; [split; [discriminate|tauto]|].
  rewrite Bool.orb_true_iff, IH, String.eqb_eq. split; intros [H|H]; auto.
Qed.

Lemma mem_str_false k l : mem_str k l = false <-> ~ In k l.
Proof.
  rewrite <- mem_str_In. destruct (mem_str k l); split; intros H; congruence.
Qed.

Lemma lookup_None_notin {A} k (kvs : list (string * A)) : lookup k kvs = None <-> ~ In k (map fst kvs).
Proof.
  induction kvs as [|[k' v'] r IH]; cbn; [tauto|].
  destruct (String.eqb k k') eqn:E.
  - apply String.eqb_eq in E. subst. split; [discriminate|]. intros H. exfalso. auto.
  - rewrite IH. apply String.eqb_neq in E. split; intros H; [intros [C|C]; [congruence|auto]|auto].
Qed.

Lemma keys_set_key_present {A} k (v : A) kvs :
  In k (map fst kvs) -> map fst (set_key k v kvs) = map fst kvs.
Proof.
  induction kvs as [|[k' v'] r IH]; cbn; [tauto|].
  destruct (String.eqb k k') eqn:E; cbn; auto.
  intros [H|H]; [apply String.eqb_neq in E; congruence|]. rewrite IH; auto.
Qed.

Lemma keys_set_key_absent {A} k (v : A) kvs :
  ~ In k (map fst kvs) -> map fst (set_key k v kvs) = map fst kvs ++ [k].
Proof.
  induction kvs as [|[k' v'] r IH]; cbn; auto.
  intros H. destruct (String.eqb k k') eqn:E.
  - apply String.eqb_eq in E. subst. exfalso. auto.
  - cbn. rewrite IH; auto.
Qed.

Lemma nodup_str_app_one l k : nodup_str l = true -> ~ In k l -> nodup_str (l ++ [k]) = true.
Proof.
  induction l as [|x r IH]; cbn; auto.
  rewrite Bool.andb_true_iff, Bool.negb_true_iff. intros [H1 H2] N.
  rewrite Bool.andb_true_iff, Bool.negb_true_iff. split.
  - apply mem_str_false. apply mem_str_false in H1. rewrite in_app_iff. cbn.
    intros [C|[C|[]]]; auto.
  - apply IH; auto.
Qed.

Lemma nodup_set_key {A} k (v : A) kvs :
  nodup_str (map fst kvs) = true -> nodup_str (map fst (set_key k v kvs)) = true.
Proof.
  intros H. destruct (mem_str k (map fst kvs)) eqn:M.
  - rewrite keys_set_key_present; auto. apply mem_str_In; auto.
  - apply mem_str_false in M. rewrite keys_set_key_absent; auto. apply nodup_str_app_one; auto.
Qed.

(* ------------------------------------------------------------------------ *)
(* strip                                                                     *)
(* ------------------------------------------------------------------------ *)

Fixpoint strip_kvs (l : list (string * json)) : list (string * json) :=
  match l with
  | [] => []
  | (k, v) :: r => if is_directive k then strip_kvs r else (k, strip v) :: strip_kvs r
  end.

Fixpoint has_directive_kvs (l : list (string * json)) : bool :=
  match l with
  | [] => false
  | (k, v) :: r => is_directive k || has_directive v || has_directive_kvs r
  end.

Lemma strip_map kvs : strip (JMap kvs) = JMap (strip_kvs kvs).
Proof.
  reflexivity.
Qed.

Lemma has_directive_map kvs : has_directive (JMap kvs) = has_directive_kvs kvs.
Proof.
  reflexivity.
Qed.

Lemma strip_list l : strip (JList l) = JList (map strip l).
Proof. reflexivity. Qed.

Lemma has_directive_list l : has_directive (JList l) = existsb has_directive l.
Proof. reflexivity. Qed.

Global Opaque strip has_directive.

Lemma strip_scalar j :
  match j with JList _ | JMap _ => True | _ => strip j = j end.
Proof. destruct j; auto. Qed.

(* strip_no_directive *)
Lemma strip_no_directive j : has_directive (strip j) = false.
Proof.
  induction j using json_ind'; try reflexivity.
  - rewrite strip_list, has_directive_list.
    induction H as [|x r Hx Hr IH]; cbn; auto. rewrite Hx, IH. reflexivity.
  - rewrite strip_map, has_directive_map.
    induction H as [|[k v] r Hx Hr IH]; cbn; auto.
    destruct (is_directive k) eqn:D; auto.
    cbn. rewrite D. cbn in Hx. rewrite Hx, IH. reflexivity.
Qed.

Lemma strip_clean_id j : has_directive j = false -> strip j = j.
Proof.
  induction j using json_ind'; try reflexivity.
  - rewrite strip_list, has_directive_list. intros E. f_equal.
    induction H as [|x r Hx Hr IH]; cbn in *; auto.
    apply Bool.orb_false_iff in E. destruct E as [E1 E2]. rewrite Hx, IH; auto.
  - rewrite strip_map, has_directive_map. intros E. f_equal.
    induction H as [|[k v] r Hx Hr IH]; cbn in *; auto.
    apply Bool.orb_false_iff in E. destruct E as [E1 E3].
    apply Bool.orb_false_iff in E1. destruct E1 as [E1 E2].
    rewrite E1, Hx, IH; auto.
Qed.

Lemma strip_idempotent j : strip (strip j) = strip j.
Proof. apply strip_clean_id, strip_no_directive. Qed.

(* the relational specification: strip is exactly "prune the directive entries" *)
Lemma strip_prunes j : prunes j (strip j).
Proof.
  induction j using json_ind'; try constructor.
  - rewrite strip_list. constructor.
    induction H as [|x r Hx Hr IH]; cbn; constructor; auto.
  - rewrite strip_map. constructor.
    induction H as [|[k v] r Hx Hr IH]; cbn; [constructor|].
    destruct (is_directive k) eqn:D; [apply pk_drop|apply pk_keep]; auto.
Qed.

Scheme prunes_mind := Induction for prunes Sort Prop
  with prunes_list_mind := Induction for prunes_list Sort Prop
  with prunes_kvs_mind := Induction for prunes_kvs Sort Prop.

Lemma prunes_unique j j' : prunes j j' -> j' = strip j.
Proof.
  intros H.
  induction H using prunes_mind with
    (P0 := fun l l' _ => l' = map strip l)
    (P1 := fun kvs kvs' _ => kvs' = strip_kvs kvs); try reflexivity.
  - rewrite strip_list. congruence.
  - rewrite strip_map. congruence.
  - cbn. congruence.
  - cbn. rewrite e. auto.
  - cbn. rewrite e. congruence.
Qed.

Lemma strip_lookup_keep k kvs :
  is_directive k = false -> lookup k (strip_kvs kvs) = option_map strip (lookup k kvs).
Proof.
  intros D. induction kvs as [|[k' v] r IH]; cbn; auto.
  destruct (is_directive k') eqn:D'.
  - destruct (String.eqb k k') eqn:E; auto.
    apply String.eqb_eq in E. congruence.
  - cbn. destruct (String.eqb k k'); auto.
Qed.

Lemma strip_lookup_drop k kvs : is_directive k = true -> lookup k (strip_kvs kvs) = None.
Proof.
  intros D. induction kvs as [|[k' v] r IH]; cbn; auto.
  destruct (is_directive k') eqn:D'; auto.
  cbn. destruct (String.eqb k k') eqn:E; auto.
  apply String.eqb_eq in E. congruence.
Qed.

Lemma strip_keys kvs :
  map fst (strip_kvs kvs) = filter (fun k => negb (is_directive k)) (map fst kvs).
Proof.
  induction kvs as [|[k v] r IH]; cbn; auto.
  destruct (is_directive k); cbn; congruence.
Qed.

Lemma strip_list_shape l :
  List.length (map strip l) = List.length l /\
  forall n, nth_error (map strip l) n = option_map strip (nth_error l n).
Proof. split; [apply map_length|]. intros n. apply nth_error_map. Qed.

Lemma nodup_filter f l : nodup_str l = true -> nodup_str (filter f l) = true.
Proof.
  induction l as [|x r IH]; cbn; auto.
  rewrite Bool.andb_true_iff, Bool.negb_true_iff. intros [H1 H2].
  destruct (f x); cbn; auto.
  rewrite IH, Bool.andb_true_r, Bool.negb_true_iff; auto.
  apply mem_str_false. apply mem_str_false in H1. intros C. apply filter_In in C. tauto.
Qed.

Lemma nodup_strip_kvs kvs :
  nodup_str (map fst kvs) = true -> nodup_str (map fst (strip_kvs kvs)) = true.
Proof. rewrite strip_keys. apply nodup_filter. Qed.

Lemma strip_set_key k v kvs :
  is_directive k = false -> strip_kvs (set_key k v kvs) = set_key k (strip v) (strip_kvs kvs).
Proof.
  intros D. induction kvs as [|[k' v'] r IH]; cbn.
  - rewrite D. reflexivity.
  - destruct (String.eqb k k') eqn:E.
    + apply String.eqb_eq in E. subst k'. cbn. rewrite D. cbn. rewrite String.eqb_refl. reflexivity.
    + cbn. destruct (is_directive k'); auto. cbn. rewrite E, IH. reflexivity.
Qed.

(* well-formedness (unique keys) is preserved *)
Fixpoint wf_kvs (l : list (string * json)) : bool :=
  match l with [] => true | (_, v) :: r => wf v && wf_kvs r end.

Lemma wf_map kvs : wf (JMap kvs) = nodup_str (map fst kvs) && wf_kvs kvs.
Proof.
  reflexivity.
Qed.

Lemma wf_kvs_lookup k kvs v : wf_kvs kvs = true -> lookup k kvs = Some v -> wf v = true.
Proof.
  induction kvs as [|[k' v'] r IH]; cbn; [discriminate|].
  rewrite Bool.andb_true_iff. intros [H1 H2]. destruct (String.eqb k k'); auto.
  intros E. inversion E. subst. auto.
Qed.

Lemma wf_strip j : wf j = true -> wf (strip j) = true.
Proof.
  induction j using json_ind'; auto.
  - rewrite strip_list. cbn [wf].
    induction H as [|x r Hx Hr IH]; cbn; auto.
    rewrite !Bool.andb_true_iff. intros [A B]. auto.
  - rewrite strip_map, !wf_map, !Bool.andb_true_iff. intros [A B]. split.
    + apply nodup_strip_kvs; auto.
    + clear A. induction H as [|[k v] r Hx Hr IH]; cbn in *; auto.
      apply Bool.andb_true_iff in B. destruct B as [B1 B2].
      destruct (is_directive k); cbn; auto. rewrite Hx, IH; auto.
Qed.

(* ------------------------------------------------------------------------ *)
(* prepare_for_api                                                           *)
(* ------------------------------------------------------------------------ *)

Lemma has_directive_kvs_lookup k kvs v :
  has_directive_kvs kvs = false -> lookup k kvs = Some v -> has_directive v = false.
Proof.
  induction kvs as [|[k' v'] r IH]; cbn; [discriminate|].
  intros E. apply Bool.orb_false_iff in E. destruct E as [E1 E3].
  apply Bool.orb_false_iff in E1. destruct E1 as [E1 E2].
  destruct (String.eqb k k'); auto. intros H. inversion H. subst. auto.
Qed.

Lemma has_directive_kvs_set_key k v kvs :
  is_directive k = false -> has_directive v = false -> has_directive_kvs kvs = false ->
  has_directive_kvs (set_key k v kvs) = false.
Proof.
  intros D V. induction kvs as [|[k' v'] r IH]; cbn.
  - rewrite D, V. reflexivity.
  - intros E. apply Bool.orb_false_iff in E. destruct E as [E1 E3].
    apply Bool.orb_false_iff in E1. destruct E1 as [E1 E2].
    destruct (String.eqb k k'); cbn.
    + rewrite E1, V, E3. reflexivity.
    + rewrite E1, E2, IH; auto.
Qed.

Lemma has_directive_kvs_ensure_key k kvs :
  is_directive k = false -> has_directive_kvs kvs = false ->
  has_directive_kvs (ensure_key k kvs) = false.
Proof.
  intros D H. unfold ensure_key. destruct (lookup k kvs); auto.
  apply has_directive_kvs_set_key; auto.
Qed.

Lemma lookup_ensure_key_neq k k' kvs :
  String.eqb k k' = false -> lookup k (ensure_key k' kvs) = lookup k kvs.
Proof.
  intros N. unfold ensure_key. destruct (lookup k' kvs); auto. apply lookup_set_key_neq; auto.
Qed.

Lemma lookup_ensure_key_eq k kvs :
  lookup k (ensure_key k kvs) = match lookup k kvs with Some v => Some v | None => Some (JMap []) end.
Proof.
  unfold ensure_key. destruct (lookup k kvs) eqn:E; auto. apply lookup_set_key_eq.
Qed.

(* shape of a successful prepare_for_api *)
Lemma prepare_done obj p :
  prepare_for_api obj = Done p ->
  exists top md an,
    strip obj = JMap top /\
    lookup "metadata" (ensure_key "metadata" top) = Some (JMap md) /\
    lookup "annotations" (ensure_key "annotations" md) = Some (JMap an) /\
    body p = JMap (set_key "metadata"
               (JMap (set_key "annotations"
                  (JMap (set_key last_applied_key annotation_placeholder an))
                  (ensure_key "annotations" md)))
               (ensure_key "metadata" top)) /\
    recorded p = JMap top.
Proof.
  unfold prepare_for_api. destruct (strip obj) as [| | | | | |top]; try discriminate.
  destruct (lookup "metadata" (ensure_key "metadata" top)) as [[| | | | | |md]|] eqn:M; try discriminate.
  destruct (lookup "annotations" (ensure_key "annotations" md)) as [[| | | | | |an]|] eqn:A; try discriminate.
  intros H. inversion H. subst p. cbn [body recorded]. exists top, md, an. auto.
Qed.

Lemma prepare_raises_only_TypeError obj e : prepare_for_api obj = Raised e -> e = ExTypeError.
Proof.
  unfold prepare_for_api. destruct (strip obj) as [| | | | | |top]; try (intros H; inversion H; auto; fail).
  destruct (lookup "metadata" (ensure_key "metadata" top)) as [[| | | | | |md]|];
    try (intros H; inversion H; auto; fail).
  destruct (lookup "annotations" (ensure_key "annotations" md)) as [[| | | | | |an]|];
    try (intros H; inversion H; auto; fail).
Qed.

(* when does it succeed: the object is a map and metadata / metadata.annotations,
   if present, are maps *)
Definition holders_ok (j : json) : bool :=
  match j with
  | JMap top =>
      match lookup "metadata" top with
      | None => true
      | Some (JMap md) => match lookup "annotations" md with
                          | None | Some (JMap _) => true
                          | _ => false
                          end
      | _ => false
      end
  | _ => false
  end.

Lemma prepare_total obj :
  holders_ok (strip obj) = true <-> exists p, prepare_for_api obj = Done p.
Proof.
  unfold holders_ok, prepare_for_api.
  destruct (strip obj) as [| | | | | |top]; try (split; [discriminate|intros [p H]; discriminate]).
  rewrite lookup_ensure_key_eq.
  destruct (lookup "metadata" top) as [[| | | | | |md]|];
    try (split; [discriminate|intros [p H]; discriminate]).
  - rewrite lookup_ensure_key_eq.
    destruct (lookup "annotations" md) as [[| | | | | |an]|];
      try (split; [discriminate|intros [p H]; discriminate]); split; eauto.
  - cbn. split; eauto.
Qed.

Lemma strip_is_map j kvs : strip j = JMap kvs -> exists kvs0, j = JMap kvs0 /\ kvs = strip_kvs kvs0.
Proof.
  pose proof (strip_scalar j) as Sc. destruct j; try (rewrite Sc; discriminate).
  - rewrite strip_list. discriminate.
  - rewrite strip_map. intros H. inversion H. eauto.
Qed.

Lemma recorded_is_strip obj p : prepare_for_api obj = Done p -> recorded p = strip obj.
Proof. intros H. destruct (prepare_done _ _ H) as (top & md & an & S & _ & _ & _ & R). congruence. Qed.

Lemma body_no_directive obj p : prepare_for_api obj = Done p -> has_directive (body p) = false.
Proof.
  intros H. destruct (prepare_done _ _ H) as (top & md & an & S & M & A & B & R).
  pose proof (strip_no_directive obj) as C. rewrite S, has_directive_map in C.
  assert (Ct : has_directive_kvs (ensure_key "metadata" top) = false)
    by (apply has_directive_kvs_ensure_key; auto).
  assert (Cm : has_directive_kvs md = false).
  { pose proof (has_directive_kvs_lookup _ _ _ Ct M) as X. rewrite has_directive_map in X. auto. }
  assert (Cm1 : has_directive_kvs (ensure_key "annotations" md) = false)
    by (apply has_directive_kvs_ensure_key; auto).
  assert (Ca : has_directive_kvs an = false).
  { pose proof (has_directive_kvs_lookup _ _ _ Cm1 A) as X. rewrite has_directive_map in X. auto. }
  rewrite B, has_directive_map.
  apply has_directive_kvs_set_key; auto. rewrite has_directive_map.
  apply has_directive_kvs_set_key; auto. rewrite has_directive_map.
  apply has_directive_kvs_set_key; auto.
Qed.

Lemma annotation_present obj p :
  prepare_for_api obj = Done p -> annotation_of (body p) = Some annotation_placeholder.
Proof.
  intros H. destruct (prepare_done _ _ H) as (top & md & an & S & M & A & B & R).
  rewrite B. unfold annotation_of, sub_map. rewrite lookup_set_key_eq, lookup_set_key_eq.
  apply lookup_set_key_eq.
Qed.

(* the target's own annotation entry, seen through the prepared pieces *)
Lemma annotation_of_pieces top md an :
  lookup "metadata" (ensure_key "metadata" top) = Some (JMap md) ->
  lookup "annotations" (ensure_key "annotations" md) = Some (JMap an) ->
  annotation_of (JMap top) = lookup last_applied_key an.
Proof.
  rewrite !lookup_ensure_key_eq. unfold annotation_of, sub_map.
  destruct (lookup "metadata" top) as [m|] eqn:M.
  - intros E. inversion E. subst m.
    destruct (lookup "annotations" md) as [a|] eqn:A.
    + intros E2. inversion E2. subst a. reflexivity.
    + intros E2. inversion E2. reflexivity.
  - intros E. inversion E. subst md. cbn. intros E2. inversion E2. reflexivity.
Qed.

Lemma ensure_holders_pieces top md :
  lookup "metadata" (ensure_key "metadata" top) = Some (JMap md) ->
  ensure_holders (JMap top) =
  JMap (set_key "metadata" (JMap (ensure_key "annotations" md)) (ensure_key "metadata" top)).
Proof. intros M. unfold ensure_holders, sub_map. rewrite M. reflexivity. Qed.

(* the body without the annotation is the stripped object with the holder maps
   defaulted — provided the target does not itself carry the annotation *)
Lemma remove_annotation_body obj p :
  prepare_for_api obj = Done p ->
  annotation_of (strip obj) = None ->
  remove_annotation (body p) = ensure_holders (strip obj).
Proof.
  intros H N. destruct (prepare_done _ _ H) as (top & md & an & S & M & A & B & R).
  rewrite S in *. rewrite (annotation_of_pieces _ _ _ M A) in N.
  rewrite (ensure_holders_pieces _ _ M), B.
  unfold remove_annotation, sub_map. rewrite lookup_set_key_eq, lookup_set_key_eq.
  rewrite !set_key_twice, del_key_set_key, (del_key_absent _ _ N).
  rewrite (set_key_same _ _ _ A). reflexivity.
Qed.

(* ... and the holder maps it adds are empty maps only *)
Lemma ensure_holders_id top md a :
  lookup "metadata" top = Some (JMap md) -> lookup "annotations" md = Some a ->
  ensure_holders (JMap top) = JMap top.
Proof.
  intros M A. unfold ensure_holders, sub_map, ensure_key. rewrite M, M, A.
  rewrite set_key_same; auto.
Qed.

Lemma drop_ensure_holders j : drop_empty_holders (ensure_holders j) = drop_empty_holders j.
Proof.
  destruct j as [| | | | | |top]; auto.
  unfold ensure_holders, sub_map. rewrite lookup_ensure_key_eq.
  destruct (lookup "metadata" top) as [m|] eqn:M.
  - destruct m as [| | | | | |md]; auto.
    unfold drop_empty_holders, sub_map. rewrite lookup_set_key_eq, M.
    rewrite lookup_ensure_key_eq.
    assert (E : ensure_key "metadata" top = top) by (unfold ensure_key; rewrite M; auto).
    rewrite E.
    destruct (lookup "annotations" md) as [a|] eqn:A.
    + assert (E2 : ensure_key "annotations" md = md) by (unfold ensure_key; rewrite A; auto).
      rewrite E2. destruct a as [| | | | | |[|x y]];
        rewrite ?set_key_twice, ?del_key_set_key; reflexivity.
    + unfold ensure_key. rewrite A, del_key_set_key, (del_key_absent _ _ A).
      rewrite ?set_key_twice, ?del_key_set_key. reflexivity.
  - unfold drop_empty_holders, sub_map. rewrite lookup_set_key_eq. cbn [ensure_key lookup set_key].
    rewrite String.eqb_refl. cbn [del_key]. rewrite String.eqb_refl. cbn [del_key].
    rewrite M, del_key_set_key. unfold ensure_key. rewrite M, del_key_set_key, del_key_absent; auto.
Qed.

Lemma drop_remove_annotation_body obj p :
  prepare_for_api obj = Done p ->
  annotation_of (strip obj) = None ->
  drop_empty_holders (remove_annotation (body p)) = drop_empty_holders (recorded p).
Proof.
  intros H N. rewrite (remove_annotation_body _ _ H N), (recorded_is_strip _ _ H).
  apply drop_ensure_holders.
Qed.

(* every other top-level / metadata field passes through (stripped) *)
Lemma prepare_top_lookup obj p k :
  prepare_for_api obj = Done p -> String.eqb k "metadata" = false ->
  top_lookup k (body p) = top_lookup k (strip obj).
Proof.
  intros H N. destruct (prepare_done _ _ H) as (top & md & an & S & M & A & B & R).
  rewrite B, S. cbn [top_lookup]. rewrite lookup_set_key_neq, lookup_ensure_key_neq; auto.
Qed.

Lemma prepare_meta_lookup obj p k :
  prepare_for_api obj = Done p -> String.eqb k "annotations" = false ->
  meta_lookup k (body p) = meta_lookup k (strip obj).
Proof.
  intros H N. destruct (prepare_done _ _ H) as (top & md & an & S & M & A & B & R).
  rewrite B, S. unfold meta_lookup, sub_map. rewrite lookup_set_key_eq.
  rewrite lookup_set_key_neq, lookup_ensure_key_neq; auto.
  rewrite lookup_ensure_key_eq in M.
  destruct (lookup "metadata" top) as [m|]; inversion M; subst; reflexivity.
Qed.

Lemma strip_sub_map k top :
  is_directive k = false ->
  sub_map k (strip_kvs top) = option_map strip_kvs (sub_map k top).
Proof.
  intros D. unfold sub_map. rewrite strip_lookup_keep; auto.
  destruct (lookup k top) as [[| | | | | |m]|]; cbn; auto.
Qed.

Lemma strip_meta_lookup k j :
  is_directive k = false -> meta_lookup k (strip j) = option_map strip (meta_lookup k j).
Proof.
  intros D. destruct j; try reflexivity.
  rewrite strip_map. unfold meta_lookup. rewrite strip_sub_map; auto.
  destruct (sub_map "metadata" kvs); cbn; auto. apply strip_lookup_keep; auto.
Qed.

Lemma strip_top_lookup k j :
  is_directive k = false -> top_lookup k (strip j) = option_map strip (top_lookup k j).
Proof.
  intros D. destruct j; try reflexivity.
  rewrite strip_map. cbn [top_lookup]. apply strip_lookup_keep; auto.
Qed.

(* ------------------------------------------------------------------------ *)
(* owner references                                                          *)
(* ------------------------------------------------------------------------ *)

Lemma find_ref_r_done okvs l b :
  find_ref_r (lookup "uid" okvs) l = Done b ->
  existsb (fun r => same_uid r (JMap okvs)) l = b.
Proof.
  induction l as [|r rest IH]; cbn; [intros H; inversion H; auto|].
  destruct r as [| | | | | |kvs]; try discriminate.
  unfold same_uid at 1. cbn [uid_of].
  destruct (uid_eq (lookup "uid" kvs) (lookup "uid" okvs)); cbn.
  - intros H. inversion H. reflexivity.
  - auto.
Qed.

Lemma has_owner_r_done o l b :
  has_owner_r o l = Done b -> existsb (fun r => same_uid r o) l = b.
Proof. destruct o; try discriminate. apply find_ref_r_done. Qed.

Lemma updated_owner_refs_r_done view o r :
  updated_owner_refs_r view o = Done r -> updated_owner_refs view o = r.
Proof.
  unfold updated_owner_refs_r, updated_owner_refs.
  destruct (live_refs view) as [[l|]|]; try (intros H; inversion H; auto; fail).
  destruct (has_owner_r o l) as [b|e] eqn:E; cbn; [|discriminate].
  rewrite (has_owner_r_done _ _ _ E). intros H. inversion H. destruct b; auto.
Qed.

Lemma validate_owner_reffed_r_done view o r :
  validate_owner_reffed_r view o = Done r -> validate_owner_reffed view o = r.
Proof.
  unfold validate_owner_reffed_r, validate_owner_reffed.
  destruct (live_refs view) as [[l|]|]; try (intros H; inversion H; auto; fail).
  destruct (has_owner_r o l) as [b|e] eqn:E; cbn; [|discriminate].
  rewrite (has_owner_r_done _ _ _ E). intros H. inversion H. auto.
Qed.

Lemma extract_last_applied_r_done live ann o :
  extract_last_applied_r live ann = Done o -> extract_last_applied live ann = o.
Proof. unfold extract_last_applied. intros ->. reflexivity. Qed.

(* the only exception the owner helpers raise is AttributeError *)
Lemma find_ref_r_raises t l e : find_ref_r t l = Raised e -> e = ExAttributeError.
Proof.
  induction l as [|r rest IH]; cbn; [discriminate|].
  destruct r; try (intros H; inversion H; auto; fail).
  destruct (uid_eq _ _); [discriminate|auto].
Qed.

Lemma has_owner_r_raises o l e : has_owner_r o l = Raised e -> e = ExAttributeError.
Proof. destruct o; cbn; try (intros H; inversion H; auto; fail). apply find_ref_r_raises. Qed.

(* ... and it cannot happen when the owner and every reference are maps *)
Definition is_map (j : json) : bool := match j with JMap _ => true | _ => false end.

Lemma find_ref_r_total t l : forallb is_map l = true -> exists b, find_ref_r t l = Done b.
Proof.
  induction l as [|r rest IH]; cbn; eauto.
  destruct r; try discriminate. cbn. intros H. destruct (uid_eq _ _); eauto.
Qed.

Lemma has_owner_r_total o l :
  is_map o = true -> forallb is_map l = true -> exists b, has_owner_r o l = Done b.
Proof. destruct o; try discriminate. intros _. apply find_ref_r_total. Qed.

Lemma live_refs_owner_refs_of view x :
  live_refs view = Some x -> owner_refs_of view = match x with Some l => l | None => [] end.
Proof.
  unfold live_refs, owner_refs_of, sub_map.
  destruct view as [| | | | | |top]; try discriminate.
  destruct (lookup "metadata" top) as [[| | | | | |md]|]; try discriminate.
  destruct (lookup "ownerReferences" md) as [refs|]; [|intros H; inversion H; auto].
  destruct (py_truthy refs) eqn:T; cbn.
  - destruct refs; try discriminate. intros H. inversion H. auto.
  - intros H. inversion H. destruct refs as [| | | | |[|a b]|]; auto. discriminate.
Qed.

Lemma meta_lookup_live_refs view L :
  meta_lookup "ownerReferences" view = Some (JList L) ->
  live_refs view = Some (match L with [] => None | _ => Some L end).
Proof.
  unfold meta_lookup, live_refs, sub_map.
  destruct view as [| | | | | |top]; try discriminate.
  destruct (lookup "metadata" top) as [[| | | | | |md]|]; try discriminate.
  intros ->. destruct L; reflexivity.
Qed.

Definition has_meta_map (j : json) : bool :=
  match j with
  | JMap top => match sub_map "metadata" top with Some _ => true | None => false end
  | _ => false
  end.

Lemma no_refs_live_refs view :
  has_meta_map view = true -> meta_lookup "ownerReferences" view = None ->
  live_refs view = Some None.
Proof.
  unfold has_meta_map, meta_lookup, live_refs, sub_map.
  destruct view as [| | | | | |top]; try discriminate.
  destruct (lookup "metadata" top) as [[| | | | | |md]|]; try discriminate.
  intros _ ->. reflexivity.
Qed.

(* a lacking reference is appended to the live list *)
Lemma validate_false_updated view o :
  validate_owner_reffed_r view o = Done (Reffed false) ->
  updated_owner_refs_r view o = Done (OwnerRefs (owner_refs_of view ++ [o])).
Proof.
  unfold validate_owner_reffed_r, updated_owner_refs_r.
  destruct (live_refs view) as [[l|]|] eqn:E; try discriminate.
  - rewrite (live_refs_owner_refs_of _ _ E).
    destruct (has_owner_r o l) as [[|]|]; cbn; try discriminate. reflexivity.
  - rewrite (live_refs_owner_refs_of _ _ E). reflexivity.
Qed.

(* a present reference leaves the list alone *)
Lemma validate_true_updated view o :
  validate_owner_reffed_r view o = Done (Reffed true) ->
  updated_owner_refs_r view o = Done (OwnerRefs (owner_refs_of view)) /\
  exists r, In r (owner_refs_of view) /\ same_uid r o = true.
Proof.
  unfold validate_owner_reffed_r, updated_owner_refs_r.
  destruct (live_refs view) as [[l|]|] eqn:E; try discriminate.
  rewrite (live_refs_owner_refs_of _ _ E).
  destruct (has_owner_r o l) as [[|]|] eqn:F; cbn; try discriminate.
  intros _. split; auto. apply has_owner_r_done in F. apply existsb_exists in F. auto.
Qed.

(* whatever it returns keeps every existing reference *)
Lemma updated_owner_refs_incl view o l' :
  updated_owner_refs_r view o = Done (OwnerRefs l') ->
  incl (owner_refs_of view) l' /\
  (In o l' \/ exists r, In r (owner_refs_of view) /\ same_uid r o = true).
Proof.
  unfold updated_owner_refs_r.
  destruct (live_refs view) as [[l|]|] eqn:E; try discriminate;
    rewrite (live_refs_owner_refs_of _ _ E).
  - destruct (has_owner_r o l) as [[|]|] eqn:F; cbn; try discriminate; intros H; inversion H; subst.
    + split; [apply incl_refl|]. right. apply has_owner_r_done in F. apply existsb_exists in F. auto.
    + split; [apply incl_appl, incl_refl|]. left. apply in_or_app. right. cbn. auto.
  - intros H. inversion H. split; [intros x []|]. left. cbn. auto.
Qed.

Lemma set_owner_refs_spec obj l obj' :
  set_owner_refs obj l = Done obj' ->
  has_meta_map obj = true /\
  meta_lookup "ownerReferences" obj' = Some (JList l) /\
  (forall k, String.eqb k "ownerReferences" = false -> meta_lookup k obj' = meta_lookup k obj) /\
  (forall k, String.eqb k "metadata" = false -> top_lookup k obj' = top_lookup k obj).
Proof.
  unfold set_owner_refs, has_meta_map, meta_lookup, sub_map.
  destruct obj as [| | | | | |top]; try discriminate.
  destruct (lookup "metadata" top) as [[| | | | | |md]|] eqn:M; try discriminate.
  intros H. inversion H. subst obj'. clear H. rewrite lookup_set_key_eq.
  repeat split.
  - apply lookup_set_key_eq.
  - intros k N. apply lookup_set_key_neq; auto.
  - intros k N. cbn [top_lookup]. apply lookup_set_key_neq; auto.
Qed.

Lemma set_owner_refs_total obj l :
  has_meta_map obj = true -> exists obj', set_owner_refs obj l = Done obj'.
Proof.
  unfold set_owner_refs, has_meta_map, sub_map.
  destruct obj as [| | | | | |top]; try discriminate.
  destruct (lookup "metadata" top) as [[| | | | | |md]|]; try discriminate. eauto.
Qed.

Lemma send_done obj s : send obj = Done s -> exists p, s = Sent p /\ prepare_for_api obj = Done p.
Proof.
  unfold send. destruct (prepare_for_api obj); cbn; [|discriminate].
  intros H. inversion H. eauto.
Qed.

(* metadata.ownerReferences of the body = the stripped one of the object prepared *)
Lemma body_owner_refs obj p :
  prepare_for_api obj = Done p ->
  meta_lookup "ownerReferences" (body p) = option_map strip (meta_lookup "ownerReferences" obj).
Proof.
  intros H. rewrite (prepare_meta_lookup _ _ "ownerReferences" H); auto.
  apply strip_meta_lookup. reflexivity.
Qed.

(* create ------------------------------------------------------------------ *)

Lemma create_owner_iff owned owner_ns ns view o p :
  has_meta_map view = true ->
  meta_lookup "ownerReferences" view = None ->
  create_payload owned owner_ns ns view o = Done (Sent p) ->
  meta_lookup "ownerReferences" (body p) =
    if should_own owned owner_ns ns then Some (JList [strip o]) else None.
Proof.
  intros HM HN. unfold create_payload.
  destruct (should_own owned owner_ns ns).
  - unfold updated_owner_refs_r. rewrite (no_refs_live_refs _ HM HN). cbn [bind].
    destruct (set_owner_refs view [o]) as [v'|] eqn:S; cbn [bind]; [|discriminate].
    intros H. apply send_done in H. destruct H as (p' & E & P). inversion E. subst p'.
    rewrite (body_owner_refs _ _ P).
    destruct (set_owner_refs_spec _ _ _ S) as (_ & R & _). rewrite R. cbn.
    rewrite strip_list. reflexivity.
  - intros H. apply send_done in H. destruct H as (p' & E & P). inversion E. subst p'.
    rewrite (body_owner_refs _ _ P), HN. reflexivity.
Qed.

Lemma create_keeps_existing owned owner_ns ns view o p :
  create_payload owned owner_ns ns view o = Done (Sent p) ->
  if should_own owned owner_ns ns then
    exists L', meta_lookup "ownerReferences" (body p) = Some (JList (map strip L')) /\
               incl (owner_refs_of view) L' /\
               (In o L' \/ exists r, In r (owner_refs_of view) /\ same_uid r o = true)
  else meta_lookup "ownerReferences" (body p) =
       option_map strip (meta_lookup "ownerReferences" view).
Proof.
  unfold create_payload. destruct (should_own owned owner_ns ns).
  - destruct (updated_owner_refs_r view o) as [[l'|]|] eqn:U; cbn [bind]; try discriminate.
    destruct (set_owner_refs view l') as [v'|] eqn:S; cbn [bind]; [|discriminate].
    intros H. apply send_done in H. destruct H as (p' & E & P). inversion E. subst p'.
    exists l'. rewrite (body_owner_refs _ _ P).
    destruct (set_owner_refs_spec _ _ _ S) as (_ & R & _). rewrite R. cbn. rewrite strip_list.
    split; auto. apply updated_owner_refs_incl; auto.
  - intros H. apply send_done in H. destruct H as (p' & E & P). inversion E. subst p'.
    apply body_owner_refs; auto.
Qed.

(* holders_ok is insensitive to set_owner_refs *)
Lemma holders_ok_set_owner_refs obj l obj' :
  set_owner_refs obj l = Done obj' -> holders_ok (strip obj') = holders_ok (strip obj).
Proof.
  unfold set_owner_refs.
  destruct obj as [| | | | | |top]; try discriminate.
  destruct (lookup "metadata" top) as [[| | | | | |md]|] eqn:M; try discriminate.
  intros H. inversion H. subst obj'. clear H.
  rewrite !strip_map. unfold holders_ok.
  rewrite !strip_lookup_keep by reflexivity. rewrite lookup_set_key_eq, M. cbn [option_map].
  rewrite !strip_map, !strip_lookup_keep by reflexivity.
  rewrite lookup_set_key_neq by reflexivity. reflexivity.
Qed.

Lemma create_total owned owner_ns ns view o :
  has_meta_map view = true ->
  meta_lookup "ownerReferences" view = None ->
  holders_ok (strip view) = true ->
  exists p, create_payload owned owner_ns ns view o = Done (Sent p).
Proof.
  intros HM HN HO. unfold create_payload. destruct (should_own owned owner_ns ns).
  - unfold updated_owner_refs_r. rewrite (no_refs_live_refs _ HM HN). cbn [bind].
    destruct (set_owner_refs_total view [o] HM) as [v' S]. rewrite S. cbn [bind].
    rewrite <- (holders_ok_set_owner_refs _ _ _ S) in HO.
    apply prepare_total in HO. destruct HO as [p P]. exists p. unfold send. rewrite P. reflexivity.
  - apply prepare_total in HO. destruct HO as [p P]. exists p. unfold send. rewrite P. reflexivity.
Qed.

(* patch ------------------------------------------------------------------- *)

Lemma needs_update_when_lacking matched : needs_update matched (Reffed false) = true.
Proof. unfold needs_update. cbn. rewrite Bool.andb_false_r. reflexivity. Qed.

Lemma needs_update_spec matched rr :
  needs_update matched rr = false <-> matched = true /\ reffed_truthy rr = true.
Proof.
  unfold needs_update. rewrite Bool.negb_false_iff, Bool.andb_true_iff. tauto.
Qed.

Lemma patch_owner_added owned owner_ns ns live target o p :
  should_own owned owner_ns ns = true ->
  validate_owner_reffed_r live o = Done (Reffed false) ->
  patch_payload owned owner_ns ns live target o = Done (Sent p) ->
  meta_lookup "ownerReferences" (body p) =
    Some (JList (map strip (owner_refs_of live ++ [o]))).
Proof.
  intros SO V. unfold patch_payload, owner_reffed_r. rewrite SO, V. cbn [bind reffed_truthy negb andb].
  rewrite (validate_false_updated _ _ V). cbn [bind].
  destruct (set_owner_refs target (owner_refs_of live ++ [o])) as [t'|] eqn:S; cbn [bind]; [|discriminate].
  intros H. apply send_done in H. destruct H as (p' & E & P). inversion E. subst p'.
  rewrite (body_owner_refs _ _ P).
  destruct (set_owner_refs_spec _ _ _ S) as (_ & R & _). rewrite R. cbn. rewrite strip_list. reflexivity.
Qed.

Lemma patch_owner_untouched owned owner_ns ns live target o rr p :
  owner_reffed_r owned owner_ns ns live o = Done rr ->
  should_own owned owner_ns ns && negb (reffed_truthy rr) = false ->
  patch_payload owned owner_ns ns live target o = Done (Sent p) ->
  prepare_for_api target = Done p /\
  meta_lookup "ownerReferences" (body p) = option_map strip (meta_lookup "ownerReferences" target).
Proof.
  intros R C. unfold patch_payload. rewrite R. cbn [bind]. rewrite C.
  intros H. apply send_done in H. destruct H as (p' & E & P). inversion E. subst p'.
  split; auto. apply body_owner_refs; auto.
Qed.

(* the three ways through patch_payload *)
Lemma patch_payload_cases owned owner_ns ns live target o s :
  patch_payload owned owner_ns ns live target o = Done s ->
  (should_own owned owner_ns ns = true /\
   validate_owner_reffed_r live o = Done (Reffed false) /\
   exists t', set_owner_refs target (owner_refs_of live ++ [o]) = Done t' /\ send t' = Done s)
  \/
  (exists rr, owner_reffed_r owned owner_ns ns live o = Done rr /\
              should_own owned owner_ns ns && negb (reffed_truthy rr) = false /\
              send target = Done s).
Proof.
  unfold patch_payload.
  destruct (owner_reffed_r owned owner_ns ns live o) as [rr|] eqn:R; cbn [bind]; [|discriminate].
  destruct (should_own owned owner_ns ns && negb (reffed_truthy rr)) eqn:C.
  - apply Bool.andb_true_iff in C. destruct C as [SO NR].
    unfold owner_reffed_r in R. rewrite SO in R.
    destruct rr as [[|]|]; try discriminate.
    rewrite (validate_false_updated _ _ R). cbn [bind].
    destruct (set_owner_refs target (owner_refs_of live ++ [o])) as [t'|] eqn:S; cbn [bind]; [|discriminate].
    intros H. left. repeat split; auto. eauto.
  - intros H. right. exists rr. auto.
Qed.

(* ------------------------------------------------------------------------ *)
(* RFC 7386 merge patch                                                      *)
(* ------------------------------------------------------------------------ *)

Fixpoint mp_go (l acc : list (string * json)) : list (string * json) :=
  match l with
  | [] => acc
  | (k, v) :: r =>
      match v with
      | JNull => mp_go r (del_key k acc)
      | _ => mp_go r (set_key k (merge_patch (match lookup k acc with Some o => o | None => JNull end) v) acc)
      end
  end.

Lemma merge_patch_map target pkvs :
  merge_patch target (JMap pkvs) = JMap (mp_go pkvs (match target with JMap t => t | _ => [] end)).
Proof. reflexivity. Qed.

Lemma merge_patch_nonmap target patch : is_map patch = false -> merge_patch target patch = patch.
Proof. destruct patch; try reflexivity. discriminate. Qed.

Global Opaque merge_patch.

Lemma mp_go_notin k l : forall acc, ~ In k (map fst l) -> lookup k (mp_go l acc) = lookup k acc.
Proof.
  induction l as [|[k' v] r IH]; intros acc N; cbn; auto.
  cbn in N. assert (K : String.eqb k k' = false) by (apply String.eqb_neq; intros C; subst; auto).
  assert (N' : ~ In k (map fst r)) by auto.
  destruct v; rewrite IH by auto;
    try (apply lookup_set_key_neq; auto); apply lookup_del_key_neq; auto.
Qed.

Lemma mp_go_in k v l : forall acc,
  nodup_str (map fst l) = true -> lookup k l = Some v -> v <> JNull ->
  lookup k (mp_go l acc) =
  Some (merge_patch (match lookup k acc with Some o => o | None => JNull end) v).
Proof.
  induction l as [|[k' v'] r IH]; intros acc ND L NN; [discriminate|].
  cbn in ND. apply Bool.andb_true_iff in ND. destruct ND as [ND1 ND2].
  apply Bool.negb_true_iff, mem_str_false in ND1.
  cbn in L. destruct (String.eqb k k') eqn:E.
  - apply String.eqb_eq in E. subst k'. inversion L. subst v'.
    cbn. destruct v; try congruence; rewrite mp_go_notin by auto; apply lookup_set_key_eq.
  - cbn. destruct v'; rewrite IH by auto;
      try (rewrite lookup_set_key_neq by auto; reflexivity).
    rewrite lookup_del_key_neq by auto. reflexivity.
Qed.

(* keys unique at the top level and inside metadata *)
Definition nodup2 (j : json) : bool :=
  match j with
  | JMap top =>
      nodup_str (map fst top) &&
      match sub_map "metadata" top with Some md => nodup_str (map fst md) | None => true end
  | _ => true
  end.

Lemma wf_nodup2 j : wf j = true -> nodup2 j = true.
Proof.
  destruct j as [| | | | | |top]; auto. rewrite wf_map. unfold nodup2, sub_map.
  intros H. apply Bool.andb_true_iff in H. destruct H as [A B]. rewrite A. cbn.
  destruct (lookup "metadata" top) as [[| | | | | |md]|] eqn:M; auto.
  pose proof (wf_kvs_lookup _ _ _ B M) as W. rewrite wf_map in W.
  apply Bool.andb_true_iff in W. tauto.
Qed.

Lemma nodup2_strip j : nodup2 j = true -> nodup2 (strip j) = true.
Proof.
  destruct j as [| | | | | |top]; auto. rewrite strip_map. unfold nodup2.
  rewrite strip_sub_map by reflexivity. intros H. apply Bool.andb_true_iff in H. destruct H as [A B].
  rewrite nodup_strip_kvs by auto. cbn.
  destruct (sub_map "metadata" top); cbn; auto. apply nodup_strip_kvs; auto.
Qed.

Lemma nodup2_set_owner_refs obj l obj' :
  nodup2 obj = true -> set_owner_refs obj l = Done obj' -> nodup2 obj' = true.
Proof.
  unfold set_owner_refs, nodup2, sub_map.
  destruct obj as [| | | | | |top]; try discriminate.
  destruct (lookup "metadata" top) as [[| | | | | |md]|] eqn:M; try discriminate.
  intros H E. inversion E. subst obj'. apply Bool.andb_true_iff in H. destruct H as [A B].
  rewrite lookup_set_key_eq, !nodup_set_key; auto.
Qed.

Lemma nodup2_body obj p : nodup2 obj = true -> prepare_for_api obj = Done p -> nodup2 (body p) = true.
Proof.
  intros N H. destruct (prepare_done _ _ H) as (top & md & an & S & M & A & B & R).
  apply nodup2_strip in N. rewrite S in N. rewrite B. unfold nodup2, sub_map in *.
  apply Bool.andb_true_iff in N. destruct N as [N1 N2].
  rewrite lookup_set_key_eq. apply Bool.andb_true_iff. split.
  - apply nodup_set_key. unfold ensure_key. destruct (lookup "metadata" top); auto.
    apply nodup_set_key; auto.
  - apply nodup_set_key. rewrite lookup_ensure_key_eq in M.
    assert (NM : nodup_str (map fst md) = true).
    { destruct (lookup "metadata" top) as [m|]; inversion M; subst; auto. }
    unfold ensure_key. destruct (lookup "annotations" md); auto. apply nodup_set_key; auto.
Qed.

(* what a PATCH body does to metadata.ownerReferences of the stored object *)
Lemma merge_owner_refs live b L :
  nodup2 b = true -> has_meta_map b = true ->
  meta_lookup "ownerReferences" live = Some (JList L) ->
  owner_refs_of (merge_patch live b) =
    match meta_lookup "ownerReferences" b with
    | None => L
    | Some (JList X) => X
    | Some _ => owner_refs_of (merge_patch live b)
    end.
Proof.
  unfold nodup2, has_meta_map, meta_lookup, sub_map.
  destruct b as [| | | | | |btop]; try discriminate.
  destruct (lookup "metadata" btop) as [[| | | | | |bmd]|] eqn:BM; try discriminate.
  intros ND _. apply Bool.andb_true_iff in ND. destruct ND as [ND1 ND2].
  destruct live as [| | | | | |ltop]; try discriminate.
  destruct (lookup "metadata" ltop) as [[| | | | | |lmd]|] eqn:LM; try discriminate.
  intros LR.
  rewrite merge_patch_map. unfold owner_refs_of, sub_map.
  rewrite (mp_go_in "metadata" (JMap bmd) btop ltop ND1 BM) by discriminate.
  rewrite LM, merge_patch_map.
  destruct (lookup "ownerReferences" bmd) as [x|] eqn:BO.
  - destruct x; try reflexivity.
    rewrite (mp_go_in "ownerReferences" (JList l) bmd lmd ND2 BO) by discriminate.
    rewrite merge_patch_nonmap by reflexivity. reflexivity.
  - rewrite mp_go_notin by (apply lookup_None_notin; auto). rewrite LR. reflexivity.
Qed.

Lemma body_has_meta_map obj p : prepare_for_api obj = Done p -> has_meta_map (body p) = true.
Proof.
  intros H. destruct (prepare_done _ _ H) as (top & md & an & S & M & A & B & R).
  rewrite B. unfold has_meta_map, sub_map. rewrite lookup_set_key_eq. reflexivity.
Qed.

Lemma strip_clean_list L : has_directive (JList L) = false -> map strip L = L.
Proof.
  intros H. pose proof (strip_clean_id _ H) as E. rewrite strip_list in E. inversion E.
  rewrite H1. auto.
Qed.

(* patch_preserves_owners, general form: each pre-existing reference is still
   there, as it was or (only if it carried koreo directive keys and the owner
   was being added) with those keys stripped *)
Lemma patch_preserves_owners_gen owned owner_ns ns live target o s L :
  wf target = true ->
  meta_lookup "ownerReferences" live = Some (JList L) ->
  meta_lookup "ownerReferences" target = None ->
  patch_payload owned owner_ns ns live target o = Done s ->
  exists p, s = Sent p /\
    (owner_refs_of (apply_patch live s) = L \/
     owner_refs_of (apply_patch live s) = map strip L ++ [strip o]).
Proof.
  intros W LR TN H. apply wf_nodup2 in W.
  assert (OL : owner_refs_of live = L).
  { rewrite (live_refs_owner_refs_of _ _ (meta_lookup_live_refs _ _ LR)). destruct L; auto. }
  destruct (patch_payload_cases _ _ _ _ _ _ _ H) as [(SO & V & t' & S & SD)|(rr & R & C & SD)].
  - apply send_done in SD. destruct SD as (p & E & P). subst s. exists p. split; auto. right.
    cbn [apply_patch].
    rewrite (merge_owner_refs live (body p) L); auto.
    + rewrite (body_owner_refs _ _ P).
      destruct (set_owner_refs_spec _ _ _ S) as (_ & RR & _). rewrite RR. cbn.
      rewrite strip_list, OL, map_app. reflexivity.
    + apply (nodup2_body t'); auto. apply (nodup2_set_owner_refs target _ _ W S).
    + apply (body_has_meta_map _ _ P).
  - apply send_done in SD. destruct SD as (p & E & P). subst s. exists p. split; auto. left.
    cbn [apply_patch].
    rewrite (merge_owner_refs live (body p) L); auto.
    + rewrite (body_owner_refs _ _ P), TN. reflexivity.
    + apply (nodup2_body target); auto.
    + apply (body_has_meta_map _ _ P).
Qed.

Lemma patch_preserves_owners owned owner_ns ns live target o s L :
  wf target = true ->
  meta_lookup "ownerReferences" live = Some (JList L) ->
  meta_lookup "ownerReferences" target = None ->
  has_directive (JList L) = false ->
  patch_payload owned owner_ns ns live target o = Done s ->
  incl L (owner_refs_of (apply_patch live s)).
Proof.
  intros W LR TN C H.
  destruct (patch_preserves_owners_gen _ _ _ _ _ _ _ _ W LR TN H) as (p & E & [R|R]); rewrite R.
  - apply incl_refl.
  - rewrite (strip_clean_list _ C). apply incl_appl, incl_refl.
Qed.

(* and the patch adds exactly the parent when it was lacking *)
Lemma patch_result_refs owned owner_ns ns live target o s L :
  wf target = true ->
  meta_lookup "ownerReferences" live = Some (JList L) ->
  meta_lookup "ownerReferences" target = None ->
  has_directive (JList L) = false -> has_directive o = false ->
  patch_payload owned owner_ns ns live target o = Done s ->
  owner_refs_of (apply_patch live s) =
    match owner_reffed_r owned owner_ns ns live o with
    | Done (Reffed false) => L ++ [o]
    | _ => L
    end.
Proof.
  intros W LR TN C CO H. apply wf_nodup2 in W.
  assert (OL : owner_refs_of live = L).
  { rewrite (live_refs_owner_refs_of _ _ (meta_lookup_live_refs _ _ LR)). destruct L; auto. }
  destruct (patch_payload_cases _ _ _ _ _ _ _ H) as [(SO & V & t' & S & SD)|(rr & R & CC & SD)].
  - unfold owner_reffed_r. rewrite SO, V.
    apply send_done in SD. destruct SD as (p & E & P). subst s. cbn [apply_patch].
    rewrite (merge_owner_refs live (body p) L); auto.
    + rewrite (body_owner_refs _ _ P).
      destruct (set_owner_refs_spec _ _ _ S) as (_ & RR & _). rewrite RR. cbn.
      rewrite strip_list, OL, map_app, (strip_clean_list _ C). cbn. rewrite (strip_clean_id _ CO). reflexivity.
    + apply (nodup2_body t'); auto. apply (nodup2_set_owner_refs target _ _ W S).
    + apply (body_has_meta_map _ _ P).
  - rewrite R.
    apply send_done in SD. destruct SD as (p & E & P). subst s. cbn [apply_patch].
    rewrite (merge_owner_refs live (body p) L); auto.
    + rewrite (body_owner_refs _ _ P), TN. cbn.
      destruct rr as [[|]|]; auto.
      unfold owner_reffed_r in R. destruct (should_own owned owner_ns ns); [|inversion R].
      cbn in CC. discriminate.
    + apply (nodup2_body target); auto.
    + apply (body_has_meta_map _ _ P).
Qed.

(* kr8s leaves a body alone that already names its kind/version/namespace *)
Lemma kr8s_post_id ns kind version b :
  top_lookup "kind" b = Some (JStr kind) ->
  top_lookup "apiVersion" b = Some (JStr version) ->
  (forall n, ns = Some n -> meta_lookup "namespace" b = Some (JStr n)) ->
  kr8s_post ns kind version b = b.
Proof.
  destruct b as [| | | | | |top]; auto. cbn [top_lookup]. unfold meta_lookup, kr8s_post.
  intros K V N.
  assert (E : match ns, sub_map "metadata" top with
              | Some n, Some md => set_key "metadata" (JMap (set_key "namespace" (JStr n) md)) top
              | _, _ => top
              end = top).
  { destruct ns as [n|]; auto. specialize (N n eq_refl). unfold sub_map in *.
    destruct (lookup "metadata" top) as [[| | | | | |md]|] eqn:M; auto.
    rewrite (set_key_same _ _ _ N), (set_key_same _ _ _ M). reflexivity. }
  rewrite E, (set_key_same _ _ _ K), (set_key_same _ _ _ V). reflexivity.
Qed.

(* what ensure_holders changes: nothing but the two holder maps, and those
   only by creating them empty *)
Lemma ensure_holders_spec j :
  (forall k, String.eqb k "metadata" = false ->
             top_lookup k (ensure_holders j) = top_lookup k j) /\
  (forall k, String.eqb k "annotations" = false ->
             meta_lookup k (ensure_holders j) = meta_lookup k j) /\
  (forall a, meta_lookup "annotations" j = Some a ->
             meta_lookup "annotations" (ensure_holders j) = Some a) /\
  (meta_lookup "annotations" j = None ->
             ensure_holders j = j \/ meta_lookup "annotations" (ensure_holders j) = Some (JMap [])).
Proof.
  destruct j as [| | | | | |top]; try (repeat split; auto; fail).
  unfold ensure_holders, sub_map. rewrite lookup_ensure_key_eq.
  destruct (lookup "metadata" top) as [m|] eqn:M.
  - destruct m as [| | | | | |md]; try (repeat split; auto; fail).
    assert (E : ensure_key "metadata" top = top) by (unfold ensure_key; rewrite M; auto).
    rewrite E. unfold meta_lookup, sub_map. cbn [top_lookup]. rewrite lookup_set_key_eq, M.
    repeat split.
    + intros k N. apply lookup_set_key_neq; auto.
    + intros k N. apply lookup_ensure_key_neq; auto.
    + intros a A. rewrite lookup_ensure_key_eq, A. reflexivity.
    + intros A. right. rewrite lookup_ensure_key_eq, A. reflexivity.
  - unfold meta_lookup, sub_map. cbn [top_lookup]. rewrite lookup_set_key_eq, M.
    repeat split.
    + intros k N. rewrite lookup_set_key_neq, lookup_ensure_key_neq; auto.
    + intros k N. rewrite lookup_ensure_key_neq; auto.
    + discriminate.
    + intros _. right. reflexivity.
Qed.

(* ------------------------------------------------------------------------ *)
(* the statements of props/P_C08.v that combine several lemmas               *)
(* ------------------------------------------------------------------------ *)

Lemma body_recorded_no_directive obj p :
  prepare_for_api obj = Done p ->
  has_directive (body p) = false /\ has_directive (recorded p) = false.
Proof.
  intros H. split; [exact (body_no_directive obj p H)|].
  rewrite (recorded_is_strip obj p H). apply strip_no_directive.
Qed.

Lemma strip_only_removes j j' : prunes j j' <-> j' = strip j.
Proof. split; [apply prunes_unique|]. intros ->. apply strip_prunes. Qed.

Lemma strip_map_entries kvs :
  exists kvs', strip (JMap kvs) = JMap kvs' /\
    map fst kvs' = filter (fun k => negb (is_directive k)) (map fst kvs) /\
    forall k, lookup k kvs' =
              if is_directive k then None else option_map strip (lookup k kvs).
Proof.
  exists (strip_kvs kvs). split; [apply strip_map|]. split; [apply strip_keys|].
  intros k. destruct (is_directive k) eqn:D; [apply strip_lookup_drop|apply strip_lookup_keep]; auto.
Qed.

Lemma strip_list_items l :
  exists l', strip (JList l) = JList l' /\ List.length l' = List.length l /\
    forall n, nth_error l' n = option_map strip (nth_error l n).
Proof. exists (map strip l). split; [apply strip_list|]. apply strip_list_shape. Qed.

Lemma last_applied_truthful obj p :
  prepare_for_api obj = Done p ->
  annotation_of (strip obj) = None ->
  recorded p = strip obj /\
  annotation_of (body p) = Some annotation_placeholder /\
  remove_annotation (body p) = ensure_holders (recorded p) /\
  drop_empty_holders (remove_annotation (body p)) = drop_empty_holders (recorded p).
Proof.
  intros H N. pose proof (recorded_is_strip obj p H) as R.
  split; [exact R|]. split; [exact (annotation_present obj p H)|]. split.
  - rewrite R. apply (remove_annotation_body obj p); auto.
  - apply (drop_remove_annotation_body obj p); auto.
Qed.

Lemma views_agree view o :
  (forall r, updated_owner_refs_r view o = Done r -> updated_owner_refs view o = r) /\
  (forall r, validate_owner_reffed_r view o = Done r -> validate_owner_reffed view o = r) /\
  (forall ann r, extract_last_applied_r view ann = Done r -> extract_last_applied view ann = r) /\
  (forall e, updated_owner_refs_r view o = Raised e -> e = ExAttributeError) /\
  (forall e, validate_owner_reffed_r view o = Raised e -> e = ExAttributeError).
Proof.
  repeat split.
  - intros r. apply updated_owner_refs_r_done.
  - intros r. apply validate_owner_reffed_r_done.
  - intros ann r. apply extract_last_applied_r_done.
  - intros e. unfold updated_owner_refs_r. destruct (live_refs view) as [[l|]|]; try discriminate.
    destruct (has_owner_r o l) eqn:E; cbn; [discriminate|]. intros H. inversion H. subst.
    apply (has_owner_r_raises _ _ _ E).
  - intros e. unfold validate_owner_reffed_r. destruct (live_refs view) as [[l|]|]; try discriminate.
    destruct (has_owner_r o l) eqn:E; cbn; [discriminate|]. intros H. inversion H. subst.
    apply (has_owner_r_raises _ _ _ E).
Qed.

(* _extract_last_applied after /repo commit 69b5a7d: on a live object that is a
   map nothing is raised by the holders — only json.loads can raise (TypeError on
   a non-str annotation, ValueError on text that does not parse); a non-map
   metadata / annotations reads as "no last-applied" *)
Lemma extract_raises_cases live ann e :
  extract_last_applied_r live ann = Raised e ->
  (is_map live = false /\ e = ExAttributeError) \/
  (is_map live = true /\ (e = ExTypeError \/ (e = ExValueError /\ ann = None))).
Proof.
  unfold extract_last_applied_r.
  destruct (negb (py_truthy live)); [discriminate|].
  destruct live as [| | | | | |top]; cbn [get_r bind];
    try (intros H; inversion H; left; split; reflexivity).
  intros H. right. split; [reflexivity|]. revert H.
  destruct (lookup "metadata" top) as [md|]; [|discriminate].
  destruct (negb (py_truthy md)); [discriminate|].
  destruct md as [| | | | | |mkvs]; try discriminate. cbn [get_r bind].
  destruct (lookup "annotations" mkvs) as [an|]; [|discriminate].
  destruct (negb (py_truthy an)); [discriminate|].
  destruct an as [| | | | | |akvs]; try discriminate. cbn [get_r bind].
  destruct (lookup last_applied_key akvs) as [la|]; [|discriminate].
  destruct (negb (py_truthy la)); [discriminate|].
  destruct la; try (intros H; inversion H; left; reflexivity).
  destruct ann as [[| | | | | |]|]; try discriminate.
  intros H. inversion H. right. split; reflexivity.
Qed.

Lemma extract_nonmap_holder_none top ann :
  (forall md, lookup "metadata" top = Some md -> is_map md = false \/
     exists mkvs, md = JMap mkvs /\
       forall an, lookup "annotations" mkvs = Some an -> is_map an = false) ->
  extract_last_applied_r (JMap top) ann = Done None.
Proof.
  intros H. unfold extract_last_applied_r.
  destruct (negb (py_truthy (JMap top))); [reflexivity|]. cbn [get_r bind].
  destruct (lookup "metadata" top) as [md|] eqn:M; [|reflexivity].
  destruct (negb (py_truthy md)); [reflexivity|].
  destruct (H md eq_refl) as [N|(mkvs & -> & A)].
  - destruct md; try reflexivity. discriminate.
  - cbn [get_r bind]. destruct (lookup "annotations" mkvs) as [an|] eqn:L; [|reflexivity].
    destruct (negb (py_truthy an)); [reflexivity|].
    specialize (A an eq_refl). destruct an; try reflexivity. discriminate.
Qed.
