(* Payload_proofs.v — lemmas and proofs about model/Payload.v (property C08). *)
From Koreo Require Import Json Payload.
From Coq Require Import Lia.
Local Open Scope list_scope.
Arguments is_directive : simpl never.

(* ------------------------------------------------------------------------ *)
(* association lists                                                         *)
(* ------------------------------------------------------------------------ *)

Lemma eqb_neq_sym (a b : string) : String.eqb a b = false -> String.eqb b a = false.
Proof. rewrite String.eqb_sym. auto. Qed.

Lemma lookup_set_key_eq {A} k (v : A) kvs : lookup k (set_key k v kvs) = Some v.
Proof.
  induction kvs as [|[k' v'] r IH]; cbn.
  - rewrite String.eqb_refl. reflexivity.
  - destruct (String.eqb k k') eqn:E; cbn; rewrite E; auto.
Qed.

Lemma lookup_set_key_neq {A} k k' (v : A) kvs :
  String.eqb k k' = false -> lookup k (set_key k' v kvs) = lookup k kvs.
Proof.
  intros N. induction kvs as [|[k2 v2] r IH]; cbn.
  - rewrite N. reflexivity.
  - destruct (String.eqb k' k2) eqn:E; cbn.
    + apply String.eqb_eq in E. subst k2. rewrite N. reflexivity.
    + destruct (String.eqb k k2); auto.
Qed.

Lemma lookup_del_key_eq {A} k (kvs : list (string * A)) : lookup k (del_key k kvs) = None.
Proof.
  induction kvs as [|[k' v'] r IH]; cbn; auto.
  destruct (String.eqb k k') eqn:E; cbn; auto. rewrite E. auto.
Qed.

Lemma lookup_del_key_neq {A} k k' (kvs : list (string * A)) :
  String.eqb k k' = false -> lookup k (del_key k' kvs) = lookup k kvs.
Proof.
  intros N. induction kvs as [|[k2 v2] r IH]; cbn; auto.
  destruct (String.eqb k' k2) eqn:E; cbn.
  - apply String.eqb_eq in E. subst k2. rewrite N. auto.
  - destruct (String.eqb k k2); auto.
Qed.

Lemma set_key_same {A} k (v : A) kvs : lookup k kvs = Some v -> set_key k v kvs = kvs.
Proof.
  induction kvs as [|[k' v'] r IH]; cbn; [discriminate|].
  destruct (String.eqb k k') eqn:E.
  - intros H. inversion H. reflexivity.
  - intros H. rewrite IH; auto.
Qed.

Lemma set_key_twice {A} k (v w : A) kvs : set_key k v (set_key k w kvs) = set_key k v kvs.
Proof.
  induction kvs as [|[k' v'] r IH]; cbn.
  - rewrite String.eqb_refl. reflexivity.
  - destruct (String.eqb k k') eqn:E; cbn; rewrite E; auto. rewrite IH. reflexivity.
Qed.

Lemma del_key_absent {A} k (kvs : list (string * A)) : lookup k kvs = None -> del_key k kvs = kvs.
Proof.
  induction kvs as [|[k' v'] r IH]; cbn; auto.
  destruct (String.eqb k k'); [discriminate|]. intros H. rewrite IH; auto.
Qed.

Lemma del_key_set_key {A} k (v : A) kvs : del_key k (set_key k v kvs) = del_key k kvs.
Proof.
  induction kvs as [|[k' v'] r IH]; cbn.
  - rewrite String.eqb_refl. reflexivity.
  - destruct (String.eqb k k') eqn:E; cbn; rewrite E; auto. rewrite IH. reflexivity.
Qed.

Lemma mem_str_In k l : mem_str k l = true <-> In k l.
Proof.
  induction l as [|x r IH]; cbn; [split; [discriminate|tauto]|].
  rewrite Bool.orb_true_iff, IH, String.eqb_eq. split; intros [H|H]; auto.
Qed.

Lemma mem_str_false k l : mem_str k l = false <-> ~ In k l.
Proof.
  rewrite <- mem_str_In. destruct (mem_str k l); split; intros H; congruence.
Qed.

Lemma lookup_None_notin {A} k (kvs : list (string * A)) : lookup k kvs = None <-> ~ In k (map fst kvs).
Proof.
  induction kvs as [|[k' v'] r IH]; cbn; [tauto|].
  destruct (String.eqb k k') eqn:E.
  - apply String.eqb_eq in E. subst. split; [discriminate|]. intros H. exfalso. auto.
  - rewrite IH. apply String.eqb_neq in E. split; intros H; [intros [C|C]; [congruence|auto]|auto].
Qed.

Lemma keys_set_key_present {A} k (v : A) kvs :
  In k (map fst kvs) -> map fst (set_key k v kvs) = map fst kvs.
Proof.
  induction kvs as [|[k' v'] r IH]; cbn; [tauto|].
  destruct (String.eqb k k') eqn:E; cbn; auto.
  intros [H|H]; [apply String.eqb_neq in E; congruence|]. rewrite IH; auto.
Qed.

Lemma keys_set_key_absent {A} k (v : A) kvs :
  ~ In k (map fst kvs) -> map fst (set_key k v kvs) = map fst kvs ++ [k].
Proof.
  induction kvs as [|[k' v'] r IH]; cbn; auto.
  intros H. destruct (String.eqb k k') eqn:E.
  - apply String.eqb_eq in E. subst. exfalso. auto.
  - cbn. rewrite IH; auto.
Qed.

Lemma nodup_str_app_one l k : nodup_str l = true -> ~ In k l -> nodup_str (l ++ [k]) = true.
Proof.
  induction l as [|x r IH]; cbn; auto.
  rewrite Bool.andb_true_iff, Bool.negb_true_iff. intros [H1 H2] N.
  rewrite Bool.andb_true_iff, Bool.negb_true_iff. split.
  - apply mem_str_false. apply mem_str_false in H1. rewrite in_app_iff. cbn.
    intros [C|[C|[]]]; auto.
  - apply IH; auto.
Qed.

Lemma nodup_set_key {A} k (v : A) kvs :
  nodup_str (map fst kvs) = true -> nodup_str (map fst (set_key k v kvs)) = true.
Proof.
  intros H. destruct (mem_str k (map fst kvs)) eqn:M.
  - rewrite keys_set_key_present; auto. apply mem_str_In; auto.
  - apply mem_str_false in M. rewrite keys_set_key_absent; auto. apply nodup_str_app_one; auto.
Qed.

(* ------------------------------------------------------------------------ *)
(* strip                                                                     *)
(* ------------------------------------------------------------------------ *)

Fixpoint strip_kvs (l : list (string * json)) : list (string * json) :=
  match l with
  | [] => []
  | (k, v) :: r => if is_directive k then strip_kvs r else (k, strip v) :: strip_kvs r
  end.

Fixpoint has_directive_kvs (l : list (string * json)) : bool :=
  match l with
  | [] => false
  | (k, v) :: r => is_directive k || has_directive v || has_directive_kvs r
  end.

Lemma strip_map kvs : strip (JMap kvs) = JMap (strip_kvs kvs).
Proof.
  reflexivity.
Qed.

Lemma has_directive_map kvs : has_directive (JMap kvs) = has_directive_kvs kvs.
Proof.
  reflexivity.
Qed.

Lemma strip_list l : strip (JList l) = JList (map strip l).
Proof. reflexivity. Qed.

Lemma has_directive_list l : has_directive (JList l) = existsb has_directive l.
Proof. reflexivity. Qed.

Global Opaque strip has_directive.

Lemma strip_scalar j :
  match j with JList _ | JMap _ => True | _ => strip j = j end.
Proof. destruct j; auto. Qed.

(* strip_no_directive *)
Lemma strip_no_directive j : has_directive (strip j) = false.
Proof.
  induction j using json_ind'; try reflexivity.
  - rewrite strip_list, has_directive_list.
    induction H as [|x r Hx Hr IH]; cbn; auto. rewrite Hx, IH. reflexivity.
  - rewrite strip_map, has_directive_map.
    induction H as [|[k v] r Hx Hr IH]; cbn; auto.
    destruct (is_directive k) eqn:D; auto.
    cbn. rewrite D. cbn in Hx. rewrite Hx, IH. reflexivity.
Qed.

Lemma strip_clean_id j : has_directive j = false -> strip j = j.
Proof.
  induction j using json_ind'; try reflexivity.
  - rewrite strip_list, has_directive_list. intros E. f_equal.
    induction H as [|x r Hx Hr IH]; cbn in *; auto.
    apply Bool.orb_false_iff in E. destruct E as [E1 E2]. rewrite Hx, IH; auto.
  - rewrite strip_map, has_directive_map. intros E. f_equal.
    induction H as [|[k v] r Hx Hr IH]; cbn in *; auto.
    apply Bool.orb_false_iff in E. destruct E as [E1 E3].
    apply Bool.orb_false_iff in E1. destruct E1 as [E1 E2].
    rewrite E1, Hx, IH; auto.
Qed.

Lemma strip_idempotent j : strip (strip j) = strip j.
Proof. apply strip_clean_id, strip_no_directive. Qed.

(* the relational specification: strip is exactly "prune the directive entries" *)
Lemma strip_prunes j : prunes j (strip j).
Proof.
  induction j using json_ind'; try constructor.
  - rewrite strip_list. constructor.
    induction H as [|x r Hx Hr IH]; cbn; constructor; auto.
  - rewrite strip_map. constructor.
    induction H as [|[k v] r Hx Hr IH]; cbn; [constructor|].
    destruct (is_directive k) eqn:D; [apply pk_drop|apply pk_keep]; auto.
Qed.

Scheme prunes_mind := Induction for prunes Sort Prop
  with prunes_list_mind := Induction for prunes_list Sort Prop
  with prunes_kvs_mind := Induction for prunes_kvs Sort Prop.

Lemma prunes_unique j j' : prunes j j' -> j' = strip j.
Proof.
  intros H.
  induction H using prunes_mind with
    (P0 := fun l l' _ => l' = map strip l)
    (P1 := fun kvs kvs' _ => kvs' = strip_kvs kvs); try reflexivity.
  - rewrite strip_list. congruence.
  - rewrite strip_map. congruence.
  - cbn. congruence.
  - cbn. rewrite e. auto.
  - cbn. rewrite e. congruence.
Qed.

Lemma strip_lookup_keep k kvs :
  is_directive k = false -> lookup k (strip_kvs kvs) = option_map strip (lookup k kvs).
Proof.
  intros D. induction kvs as [|[k' v] r IH]; cbn; auto.
  destruct (is_directive k') eqn:D'.
  - destruct (String.eqb k k') eqn:E; auto.
    apply String.eqb_eq in E. congruence.
  - cbn. destruct (String.eqb k k'); auto.
Qed.

Lemma strip_lookup_drop k kvs : is_directive k = true -> lookup k (strip_kvs kvs) = None.
Proof.
  intros D. induction kvs as [|[k' v] r IH]; cbn; auto.
  destruct (is_directive k') eqn:D'; auto.
  cbn. destruct (String.eqb k k') eqn:E; auto.
  apply String.eqb_eq in E. congruence.
Qed.

Lemma strip_keys kvs :
  map fst (strip_kvs kvs) = filter (fun k => negb (is_directive k)) (map fst kvs).
Proof.
  induction kvs as [|[k v] r IH]; cbn; auto.
  destruct (is_directive k); cbn; congruence.
Qed.

Lemma strip_list_shape l :
  List.length (map strip l) = List.length l /\
  forall n, nth_error (map strip l) n = option_map strip (nth_error l n).
Proof. split; [apply map_length|]. intros n. apply nth_error_map. Qed.

Lemma nodup_filter f l : nodup_str l = true -> nodup_str (filter f l) = true.
Proof.
  induction l as [|x r IH]; cbn; auto.
  rewrite Bool.andb_true_iff, Bool.negb_true_iff. intros [H1 H2].
  destruct (f x); cbn; auto.
  rewrite IH, Bool.andb_true_r, Bool.negb_true_iff; auto.
  apply mem_str_false. apply mem_str_false in H1. intros C. apply filter_In in C. tauto.
Qed.

Lemma nodup_strip_kvs kvs :
  nodup_str (map fst kvs) = true -> nodup_str (map fst (strip_kvs kvs)) = true.
Proof. rewrite strip_keys. apply nodup_filter. Qed.

Lemma strip_set_key k v kvs :
  is_directive k = false -> strip_kvs (set_key k v kvs) = set_key k (strip v) (strip_kvs kvs).
Proof.
  intros D. induction kvs as [|[k' v'] r IH]; cbn.
  - rewrite D. reflexivity.
  - destruct (String.eqb k k') eqn:E.
    + apply String.eqb_eq in E. subst k'. cbn. rewrite D. cbn. rewrite String.eqb_refl. reflexivity.
    + cbn. destruct (is_directive k'); auto. cbn. rewrite E, IH. reflexivity.
Qed.

(* well-formedness (unique keys) is preserved *)
Fixpoint wf_kvs (l : list (string * json)) : bool :=
  match l with [] => true | (_, v) :: r => wf v && wf_kvs r end.

Lemma wf_map kvs : wf (JMap kvs) = nodup_str (map fst kvs) && wf_kvs kvs.
Proof.
  reflexivity.
Qed.

Lemma wf_kvs_lookup k kvs v : wf_kvs kvs = true -> lookup k kvs = Some v -> wf v = true.
Proof.
  induction kvs as [|[k' v'] r IH]; cbn; [discriminate|].
  rewrite Bool.andb_true_iff. intros [H1 H2]. destruct (String.eqb k k'); auto.
  intros E. inversion E. subst. auto.
Qed.

Lemma wf_strip j : wf j = true -> wf (strip j) = true.
Proof.
  induction j using json_ind'; auto.
  - rewrite strip_list. cbn [wf].
    induction H as [|x r Hx Hr IH]; cbn; auto.
    rewrite !Bool.andb_true_iff. intros [A B]. auto.
  - rewrite strip_map, !wf_map, !Bool.andb_true_iff. intros [A B]. split.
    + apply nodup_strip_kvs; auto.
    + clear A. induction H as [|[k v] r Hx Hr IH]; cbn in *; auto.
      apply Bool.andb_true_iff in B. destruct B as [B1 B2].
      destruct (is_directive k); cbn; auto. rewrite Hx, IH; auto.
Qed.

(* ------------------------------------------------------------------------ *)
(* prepare_for_api                                                           *)
(* ------------------------------------------------------------------------ *)

Lemma has_directive_kvs_lookup k kvs v :
  has_directive_kvs kvs = false -> lookup k kvs = Some v -> has_directive v = false.
Proof.
  induction kvs as [|[k' v'] r IH]; cbn; [discriminate|].
  intros E. apply Bool.orb_false_iff in E. destruct E as [E1 E3].
  apply Bool.orb_false_iff in E1. destruct E1 as [E1 E2].
  destruct (String.eqb k k'); auto. intros H. inversion H. subst. auto.
Qed.

Lemma has_directive_kvs_set_key k v kvs :
  is_directive k = false -> has_directive v = false -> has_directive_kvs kvs = false ->
  has_directive_kvs (set_key k v kvs) = false.
Proof.
  intros D V. induction kvs as [|[k' v'] r IH]; cbn.
  - rewrite D, V. reflexivity.
  - intros E. apply Bool.orb_false_iff in E. destruct E as [E1 E3].
    apply Bool.orb_false_iff in E1. destruct E1 as [E1 E2].
    destruct (String.eqb k k'); cbn.
    + rewrite E1, V, E3. reflexivity.
    + rewrite E1, E2, IH; auto.
Qed.

Lemma has_directive_kvs_ensure_key k kvs :
  is_directive k = false -> has_directive_kvs kvs = false ->
  has_directive_kvs (ensure_key k kvs) = false.
Proof.
  intros D H. unfold ensure_key. destruct (lookup k kvs); auto.
  apply has_directive_kvs_set_key; auto.
Qed.

Lemma lookup_ensure_key_neq k k' kvs :
  String.eqb k k' = false -> lookup k (ensure_key k' kvs) = lookup k kvs.
Proof.
  intros N. unfold ensure_key. destruct (lookup k' kvs); auto. apply lookup_set_key_neq; auto.
Qed.

Lemma lookup_ensure_key_eq k kvs :
  lookup k (ensure_key k kvs) = match lookup k kvs with Some v => Some v | None => Some (JMap []) end.
Proof.
  unfold ensure_key. destruct (lookup k kvs) eqn:E; auto. apply lookup_set_key_eq.
Qed.

(* shape of a successful prepare_for_api *)
Lemma prepare_done obj p :
  prepare_for_api obj = Done p ->
  exists top md an,
    strip obj = JMap top /\
    lookup "metadata" (ensure_key "metadata" top) = Some (JMap md) /\
    lookup "annotations" (ensure_key "annotations" md) = Some (JMap an) /\
    body p = JMap (set_key "metadata"
               (JMap (set_key "annotations"
                  (JMap (set_key last_applied_key annotation_placeholder an))
                  (ensure_key "annotations" md)))
               (ensure_key "metadata" top)) /\
    recorded p = JMap top.
Proof.
  unfold prepare_for_api. destruct (strip obj) as [| | | | | |top]; try discriminate.
  destruct (lookup "metadata" (ensure_key "metadata" top)) as [[| | | | | |md]|] eqn:M; try discriminate.
  destruct (lookup "annotations" (ensure_key "annotations" md)) as [[| | | | | |an]|] eqn:A; try discriminate.
  intros H. inversion H. subst p. cbn [body recorded]. exists top, md, an. auto.
Qed.

Lemma prepare_raises_only_TypeError obj e : prepare_for_api obj = Raised e -> e = ExTypeError.
Proof.
  unfold prepare_for_api. destruct (strip obj) as [| | | | | |top]; try (intros H; inversion H; auto; fail).
  destruct (lookup "metadata" (ensure_key "metadata" top)) as [[| | | | | |md]|];
    try (intros H; inversion H; auto; fail).
  destruct (lookup "annotations" (ensure_key "annotations" md)) as [[| | | | | |an]|];
    try (intros H; inversion H; auto; fail).
Qed.

(* when does it succeed: the object is a map and metadata / metadata.annotations,
   if present, are maps *)
Definition holders_ok (j : json) : bool :=
  match j with
  | JMap top =>
      match lookup "metadata" top with
      | None => true
      | Some (JMap md) => match lookup "annotations" md with
                          | None | Some (JMap _) => true
                          | _ => false
                          end
      | _ => false
      end
  | _ => false
  end.

Lemma prepare_total obj :
  holders_ok (strip obj) = true <-> exists p, prepare_for_api obj = Done p.
Proof.
  unfold holders_ok, prepare_for_api.
  destruct (strip obj) as [| | | | | |top]; try (split; [discriminate|intros [p H]; discriminate]).
  rewrite lookup_ensure_key_eq.
  destruct (lookup "metadata" top) as [[| | | | | |md]|];
    try (split; [discriminate|intros [p H]; discriminate]).
  - rewrite lookup_ensure_key_eq.
    destruct (lookup "annotations" md) as [[| | | | | |an]|];
      try (split; [discriminate|intros [p H]; discriminate]); split; eauto.
  - cbn. split; eauto.
Qed.

Lemma strip_is_map j kvs : strip j = JMap kvs -> exists kvs0, j = JMap kvs0 /\ kvs = strip_kvs kvs0.
Proof.
  pose proof (strip_scalar j) as Sc. destruct j; try (rewrite Sc; discriminate).
  - rewrite strip_list. discriminate.
  - rewrite strip_map. intros H. inversion H. eauto.
Qed.

Lemma recorded_is_strip obj p : prepare_for_api obj = Done p -> recorded p = strip obj.
Proof. intros H. destruct (prepare_done _ _ H) as (top & md & an & S & _ & _ & _ & R). congruence. Qed.

Lemma body_no_directive obj p : prepare_for_api obj = Done p -> has_directive (body p) = false.
Proof.
  intros H. destruct (prepare_done _ _ H) as (top & md & an & S & M & A & B & R).
  pose proof (strip_no_directive obj) as C. rewrite S, has_directive_map in C.
  assert (Ct : has_directive_kvs (ensure_key "metadata" top) = false)
    by (apply has_directive_kvs_ensure_key; auto).
  assert (Cm : has_directive_kvs md = false).
  { pose proof (has_directive_kvs_lookup _ _ _ Ct M) as X. rewrite has_directive_map in X. auto. }
  assert (Cm1 : has_directive_kvs (ensure_key "annotations" md) = false)
    by (apply has_directive_kvs_ensure_key; auto).
  assert (Ca : has_directive_kvs an = false).
  { pose proof (has_directive_kvs_lookup _ _ _ Cm1 A) as X. rewrite has_directive_map in X. auto. }
  rewrite B, has_directive_map.
  apply has_directive_kvs_set_key; auto. rewrite has_directive_map.
  apply has_directive_kvs_set_key; auto. rewrite has_directive_map.
  apply has_directive_kvs_set_key; auto.
Qed.

Lemma annotation_present obj p :
  prepare_for_api obj = Done p -> annotation_of (body p) = Some annotation_placeholder.
Proof.
  intros H. destruct (prepare_done _ _ H) as (top & md & an & S & M & A & B & R).
  rewrite B. unfold annotation_of, sub_map. rewrite lookup_set_key_eq, lookup_set_key_eq.
  apply lookup_set_key_eq.
Qed.

(* the target's own annotation entry, seen through the prepared pieces *)
Lemma annotation_of_pieces top md an :
  lookup "metadata" (ensure_key "metadata" top) = Some (JMap md) ->
  lookup "annotations" (ensure_key "annotations" md) = Some (JMap an) ->
  annotation_of (JMap top) = lookup last_applied_key an.
Proof.
  rewrite !lookup_ensure_key_eq. unfold annotation_of, sub_map.
  destruct (lookup "metadata" top) as [m|] eqn:M.
  - intros E. inversion E. subst m.
    destruct (lookup "annotations" md) as [a|] eqn:A.
    + intros E2. inversion E2. subst a. reflexivity.
    + intros E2. inversion E2. reflexivity.
  - intros E. inversion E. subst md. cbn. intros E2. inversion E2. reflexivity.
Qed.

Lemma ensure_holders_pieces top md :
  lookup "metadata" (ensure_key "metadata" top) = Some (JMap md) ->
  ensure_holders (JMap top) =
  JMap (set_key "metadata" (JMap (ensure_key "annotations" md)) (ensure_key "metadata" top)).
Proof. intros M. unfold ensure_holders, sub_map. rewrite M. reflexivity. Qed.

(* the body without the annotation is the stripped object with the holder maps
   defaulted — provided the target does not itself carry the annotation *)
Lemma remove_annotation_body obj p :
  prepare_for_api obj = Done p ->
  annotation_of (strip obj) = None ->
  remove_annotation (body p) = ensure_holders (strip obj).
Proof.
  intros H N. destruct (prepare_done _ _ H) as (top & md & an & S & M & A & B & R).
  rewrite S in *. rewrite (annotation_of_pieces _ _ _ M A) in N.
  rewrite (ensure_holders_pieces _ _ M), B.
  unfold remove_annotation, sub_map. rewrite lookup_set_key_eq, lookup_set_key_eq.
  rewrite !set_key_twice, del_key_set_key, (del_key_absent _ _ N).
  rewrite (set_key_same _ _ _ A). reflexivity.
Qed.

(* ... and the holder maps it adds are empty maps only *)
Lemma ensure_holders_id top md a :
  lookup "metadata" top = Some (JMap md) -> lookup "annotations" md = Some a ->
  ensure_holders (JMap top) = JMap top.
Proof.
  intros M A. unfold ensure_holders, sub_map, ensure_key. rewrite M, M, A.
  rewrite set_key_same; auto.
Qed.

Lemma drop_ensure_holders j : drop_empty_holders (ensure_holders j) = drop_empty_holders j.
Proof.
  destruct j as [| | | | | |top]; auto.
  unfold ensure_holders, sub_map. rewrite lookup_ensure_key_eq.
  destruct (lookup "metadata" top) as [m|] eqn:M.
  - destruct m as [| | | | | |md]; auto.
    unfold drop_empty_holders, sub_map. rewrite lookup_set_key_eq, M.
    rewrite lookup_ensure_key_eq.
    assert (E : ensure_key "metadata" top = top) by (unfold ensure_key; rewrite M; auto).
    rewrite E.
    destruct (lookup "annotations" md) as [a|] eqn:A.
    + assert (E2 : ensure_key "annotations" md = md) by (unfold ensure_key; rewrite A; auto).
      rewrite E2. destruct a as [| | | | | |[|x y]];
        rewrite ?set_key_twice, ?del_key_set_key; reflexivity.
    + unfold ensure_key. rewrite A, del_key_set_key, (del_key_absent _ _ A).
      rewrite ?set_key_twice, ?del_key_set_key. reflexivity.
  - unfold drop_empty_holders, sub_map. rewrite lookup_set_key_eq. cbn [ensure_key lookup set_key].
    rewrite String.eqb_refl. cbn [del_key]. rewrite String.eqb_refl. cbn [del_key].
    rewrite M, del_key_set_key. unfold ensure_key. rewrite M, del_key_set_key, del_key_absent; auto.
Qed.

Lemma drop_remove_annotation_body obj p :
  prepare_for_api obj = Done p ->
  annotation_of (strip obj) = None ->
  drop_empty_holders (remove_annotation (body p)) = drop_empty_holders (recorded p).
Proof.
  intros H N. rewrite (remove_annotation_body _ _ H N), (recorded_is_strip _ _ H).
  apply drop_ensure_holders.
Qed.

(* every other top-level / metadata field passes through (stripped) *)
Lemma prepare_top_lookup obj p k :
  prepare_for_api obj = Done p -> String.eqb k "metadata" = false ->
  top_lookup k (body p) = top_lookup k (strip obj).
Proof.
  intros H N. destruct (prepare_done _ _ H) as (top & md & an & S & M & A & B & R).
  rewrite B, S. cbn [top_lookup]. rewrite lookup_set_key_neq, lookup_ensure_key_neq; auto.
Qed.

Lemma prepare_meta_lookup obj p k :
  prepare_for_api obj = Done p -> String.eqb k "annotations" = false ->
  meta_lookup k (body p) = meta_lookup k (strip obj).
Proof.
  intros H N. destruct (prepare_done _ _ H) as (top & md & an & S & M & A & B & R).
  rewrite B, S. unfold meta_lookup, sub_map. rewrite lookup_set_key_eq.
  rewrite lookup_set_key_neq, lookup_ensure_key_neq; auto.
  rewrite lookup_ensure_key_eq in M.
  destruct (lookup "metadata" top) as [m|]; inversion M; subst; reflexivity.
Qed.

Lemma strip_sub_map k top :
  is_directive k = false ->
  sub_map k (strip_kvs top) = option_map strip_kvs (sub_map k top).
Proof.
  intros D. unfold sub_map. rewrite strip_lookup_keep; auto.
  destruct (lookup k top) as [[| | | | | |m]|]; cbn; auto.
Qed.

Lemma strip_meta_lookup k j :
  is_directive k = false -> meta_lookup k (strip j) = option_map strip (meta_lookup k j).
Proof.
  intros D. destruct j; try reflexivity.
  rewrite strip_map. unfold meta_lookup. rewrite strip_sub_map; auto.
  destruct (sub_map "metadata" kvs); cbn; auto. apply strip_lookup_keep; auto.
Qed.

Lemma strip_top_lookup k j :
  is_directive k = false -> top_lookup k (strip j) = option_map strip (top_lookup k j).
Proof.
  intros D. destruct j; try reflexivity.
  rewrite strip_map. cbn [top_lookup]. apply strip_lookup_keep; auto.
Qed.
