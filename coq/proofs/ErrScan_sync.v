(* ErrScan_sync.v — the hand-written model of cel/evaluation.check_for_celevalerror (ErrScan.scan, on which
   the "no leaked error" theorems of C10 and C13 rest) is EQUAL to the transcription regenerated from the
   current source on every run (gen/ErrScan_gen.v, by harness/translate_errscan.py): for every value there
   is a fuel from which on the transcription returns exactly [scan v].  If evaluation.py changes what the
   scan descends into, this proof breaks. *)
From Coq Require Import Lia Arith Bool.
From Koreo Require Import Json ErrScan ErrScan_gen.
Local Open Scope nat_scope.
Local Open Scope list_scope.

Lemma scan_map_cons k x r :
  scan (VMap ((k, x) :: r)) = scan k || scan x || scan (VMap r).
Proof. reflexivity. Qed.

Lemma list_loop_spec (rec : vtree -> option bool) l :
  (forall x, In x l -> rec x = Some (scan x)) ->
  list_loop rec l = Some (existsb scan l).
Proof.
  induction l as [|a l IH]; intros H; [reflexivity|].
  cbn [list_loop existsb]. rewrite (H a (or_introl eq_refl)).
  destruct (scan a); [reflexivity|].
  apply IH. intros x Hx. apply H. right. exact Hx.
Qed.

Lemma map_loop_spec (rec : vtree -> option bool) kvs :
  (forall k x, In (k, x) kvs -> rec k = Some (scan k) /\ rec x = Some (scan x)) ->
  map_loop rec kvs = Some (scan (VMap kvs)).
Proof.
  induction kvs as [|[k x] r IH]; intros H; [reflexivity|].
  rewrite scan_map_cons. cbn [map_loop].
  destruct (H k x (or_introl eq_refl)) as [Hk Hx]. rewrite Hk, Hx.
  destruct (scan k); [reflexivity|].
  destruct (scan x); [reflexivity|].
  apply IH. intros k' x' Hin. apply H. right. exact Hin.
Qed.

Definition enough (v : vtree) : Prop :=
  exists n0, forall n, n0 <= n -> scan_gen n v = Some (scan v).

Lemma bound_list l :
  Forall enough l ->
  exists N, forall x, In x l -> forall n, N <= n -> scan_gen n x = Some (scan x).
Proof.
  induction 1 as [|a l [na Ha] _ [N HN]].
  - exists 0. intros x [].
  - exists (Nat.max na N). intros x [<-|Hx] n Hn.
    + apply Ha. lia.
    + apply HN; [exact Hx | lia].
Qed.

Lemma bound_map kvs :
  Forall (fun kv => enough (fst kv) /\ enough (snd kv)) kvs ->
  exists N, forall k x, In (k, x) kvs -> forall n, N <= n ->
    scan_gen n k = Some (scan k) /\ scan_gen n x = Some (scan x).
Proof.
  induction 1 as [|[a b] l [[na Ha] [nb Hb]] _ [N HN]].
  - exists 0. intros k x [].
  - exists (Nat.max (Nat.max na nb) N). intros k x [E|Hx] n Hn.
    + inversion E; subst. cbn [fst snd] in *. split; [apply Ha | apply Hb]; lia.
    + apply HN; [exact Hx | lia].
Qed.

Lemma leaf_enough v :
  (forall n, scan_gen (S n) v = Some (scan v)) -> enough v.
Proof. intros H. exists 1. intros [|n] Hn; [lia | apply H]. Qed.

Theorem scan_is_transcription : forall v, enough v.
Proof.
  induction v using vtree_ind'; try (apply leaf_enough; reflexivity).
  - destruct (bound_list l H) as [N HN].
    exists (S N). intros [|n] Hn; [lia|].
    cbn [scan_gen scan]. apply list_loop_spec. intros x Hx. apply HN; [exact Hx | lia].
  - destruct (bound_map kvs H) as [N HN].
    exists (S N). intros [|n] Hn; [lia|].
    cbn [scan_gen]. apply map_loop_spec. intros k x Hin. apply HN; [exact Hin | lia].
Qed.

(* fuel never changes an answer: once the transcription answers, it answers [scan v] *)
Lemma scan_gen_mono : forall n v b, scan_gen n v = Some b -> forall m, n <= m -> scan_gen m v = Some b.
Proof.
  induction n as [|n IH]; intros v b H m Hm; [discriminate|].
  destruct m as [|m]; [lia|]. assert (Hnm : n <= m) by lia.
  destruct v; cbn [scan_gen] in *; try exact H.
  - (* list *) revert H. induction l as [|a l IHl]; cbn [list_loop]; [auto|].
    destruct (scan_gen n a) as [[|]|] eqn:Ea; try discriminate.
    + intros H. rewrite (IH _ _ Ea m Hnm). exact H.
    + intros H. rewrite (IH _ _ Ea m Hnm). apply IHl. exact H.
  - (* map *) revert H. induction kvs as [|[k x] r IHr]; cbn [map_loop]; [auto|].
    destruct (scan_gen n k) as [[|]|] eqn:Ek; try discriminate.
    + intros H. rewrite (IH _ _ Ek m Hnm). exact H.
    + rewrite (IH _ _ Ek m Hnm).
      destruct (scan_gen n x) as [[|]|] eqn:Ex; try discriminate.
      * intros H. rewrite (IH _ _ Ex m Hnm). exact H.
      * intros H. rewrite (IH _ _ Ex m Hnm). apply IHr. exact H.
Qed.

Theorem scan_gen_sound : forall n v b, scan_gen n v = Some b -> b = scan v.
Proof.
  intros n v b H. destruct (scan_is_transcription v) as [n0 H0].
  pose proof (scan_gen_mono n v b H (Nat.max n n0) (Nat.le_max_l _ _)) as H1.
  rewrite (H0 (Nat.max n n0) (Nat.le_max_r _ _)) in H1. congruence.
Qed.
