(* ResourceFn_proofs.v — lemmas about model/ResourceFn.v used by C07 (modes
   bound the API calls), C04 (mutation => Retry), C13 (precondition stop =>
   no call).  All statements quantify over EVERY scenario: every configuration,
   every evaluation result at every site, every cluster content. *)
From Koreo Require Import Json Payload ResourceFn.
From Coq Require Import Lia.
Local Open Scope list_scope.

(* calls made by create_resource: nothing, or exactly one POST *)
Lemma create_calls (s : scenario) plural ns view forced :
  let '(r, calls) := create_resource s plural ns view forced in
  calls = [] \/
  (exists p nsx, calls = [CPost plural nsx p] /\
                 r = KStop (StopRetry (c_create_delay (s_cfg s)) "spec.create")).
Proof.
  unfold create_resource.
  destruct (s_create_overlay s); cbn [fst snd];
    try (left; reflexivity);
    destruct (c_owned (s_cfg s) && opt_str_eqb (s_owner_ns s) ns);
    try destruct (updated_owner_refs _ _);
    try (left; reflexivity);
    destruct (prepare_for_api _); try (left; reflexivity);
    right; eexists; eexists; split; reflexivity.
Qed.

(* the shape of every call list reconcile_krm can produce *)
Inductive krm_shape (s : scenario) : kres * list call -> Prop :=
| ShNoCall r : (forall o, r <> KObj o) -> krm_shape s (r, [])
| ShGetOnly r plural ns name : krm_shape s (r, [CGet plural ns name])
| ShGetPost plural ns name nsx p :
    c_delete_if_exists (s_cfg s) = false -> c_readonly (s_cfg s) = false ->
    c_create_enabled (s_cfg s) = true -> s_live s = None ->
    krm_shape s (KStop (StopRetry (c_create_delay (s_cfg s)) "spec.create"),
                 [CGet plural ns name; CPost plural nsx p])
| ShGetDeleteIfExists plural ns name nsx live :
    c_delete_if_exists (s_cfg s) = true -> s_live s = Some live ->
    krm_shape s (KStop (StopRetry DEFAULT_LOAD_RETRY_DELAY "deleting"),
                 [CGet plural ns name; CDelete plural nsx name])
| ShGetRecreate plural ns name nsx d live :
    c_delete_if_exists (s_cfg s) = false -> c_readonly (s_cfg s) = false ->
    c_update (s_cfg s) = URecreate d -> s_live s = Some live ->
    krm_shape s (KStop (StopRetry d "spec.update.recreate"),
                 [CGet plural ns name; CDelete plural nsx name])
| ShGetPatch plural ns name nsx d p live :
    c_delete_if_exists (s_cfg s) = false -> c_readonly (s_cfg s) = false ->
    c_update (s_cfg s) = UPatch d -> s_live s = Some live ->
    krm_shape s (KStop (StopRetry d "spec.update.patch"),
                 [CGet plural ns name; CPatch plural nsx name p]).

Lemma krm_has_shape (s : scenario) : krm_shape s (reconcile_krm s).
Proof.
  unfold reconcile_krm.
  destruct (s_name s) as [| | |name ns];
    try (apply ShNoCall; discriminate).
  destruct ((match ns with None => true | Some _ => false end) && c_namespaced (s_cfg s));
    [apply ShNoCall; discriminate|].
  destruct (match c_plural (s_cfg s) with Some p => Some p | None => s_lookup s end) as [plural|];
    [|apply ShNoCall; discriminate].
  destruct (c_delete_if_exists (s_cfg s)) eqn:Hdie.
  { destruct (s_live s) as [live|] eqn:Hl.
    - eapply ShGetDeleteIfExists; eauto.
    - apply ShGetOnly. }
  destruct (s_live s) as [live|] eqn:Hl.
  - (* present *)
    destruct (c_readonly (s_cfg s)) eqn:Hro; [apply ShGetOnly|].
    destruct (materialize s _) as [expected|st]; [|apply ShGetOnly].
    destruct (s_match s && _); [apply ShGetOnly|].
    destruct (c_update (s_cfg s)) as [d|d|] eqn:Hu.
    + destruct (c_owned (s_cfg s) && opt_str_eqb (s_owner_ns s) ns &&
                negb _);
        [destruct (updated_owner_refs _ _); [|apply ShGetOnly]|];
        (destruct (prepare_for_api _); [|apply ShGetOnly]);
        eapply ShGetPatch; eauto.
    + eapply ShGetRecreate; eauto.
    + apply ShGetOnly.
  - (* absent *)
    destruct (c_readonly (s_cfg s) || negb (c_create_enabled (s_cfg s))) eqn:Hc;
      [apply ShGetOnly|].
    apply Bool.orb_false_iff in Hc as [Hro Hce].
    apply Bool.negb_false_iff in Hce.
    destruct (materialize s _) as [expected|st]; [|apply ShGetOnly].
    pose proof (create_calls s plural ns expected (forced_overlay (s_cfg s) name ns)) as Hcc.
    destruct (create_resource s plural ns expected _) as [r calls].
    destruct Hcc as [->|(p & nsx & -> & ->)].
    + apply ShGetOnly.
    + eapply ShGetPost; eauto.
Qed.

(* ---------- consequences (each by inspection of the six shapes) ---------- *)

Ltac shapes s :=
  let H := fresh "H" in
  pose proof (krm_has_shape s) as H;
  destruct (reconcile_krm s) as [r calls];
  inversion H; subst; clear H; cbn [fst snd filter existsb is_mutation is_post is_patch is_delete List.length].

Definition calls_of (s : scenario) : list call := snd (reconcile_krm s).

Lemma at_most_one_mutation s : (List.length (filter is_mutation (calls_of s)) <= 1)%nat.
Proof. unfold calls_of. shapes s; lia. Qed.

Lemma readonly_no_create_no_patch s :
  c_readonly (s_cfg s) = true ->
  existsb is_post (calls_of s) = false /\ existsb is_patch (calls_of s) = false.
Proof. unfold calls_of. intros Hro. shapes s; split; try reflexivity; congruence. Qed.

Lemma readonly_no_mutation_unless_die s :
  c_readonly (s_cfg s) = true -> c_delete_if_exists (s_cfg s) = false ->
  filter is_mutation (calls_of s) = [].
Proof. unfold calls_of. intros Hro Hd. shapes s; try reflexivity; congruence. Qed.

Lemma create_disabled_no_post s :
  c_create_enabled (s_cfg s) = false -> existsb is_post (calls_of s) = false.
Proof. unfold calls_of. intros Hc. shapes s; try reflexivity; congruence. Qed.

Lemma never_no_patch_no_delete s :
  c_update (s_cfg s) = UNever -> c_delete_if_exists (s_cfg s) = false ->
  existsb is_patch (calls_of s) = false /\ existsb is_delete (calls_of s) = false.
Proof. unfold calls_of. intros Hu Hd. shapes s; split; try reflexivity; congruence. Qed.

Lemma patch_policy_no_delete s d :
  c_update (s_cfg s) = UPatch d -> c_delete_if_exists (s_cfg s) = false ->
  existsb is_delete (calls_of s) = false.
Proof. unfold calls_of. intros Hu Hd. shapes s; try reflexivity; congruence. Qed.

Lemma recreate_policy_no_patch s d :
  c_update (s_cfg s) = URecreate d -> existsb is_patch (calls_of s) = false.
Proof. unfold calls_of. intros Hu. shapes s; try reflexivity; congruence. Qed.

Lemma delete_if_exists_only_deletes s :
  c_delete_if_exists (s_cfg s) = true ->
  existsb is_post (calls_of s) = false /\ existsb is_patch (calls_of s) = false.
Proof. unfold calls_of. intros Hd. shapes s; split; try reflexivity; congruence. Qed.

(* absent and (readonly or may not create): no mutating call, and the result
   is a stop outcome (Retry "not found", or the PermFail of an unevaluable
   name / namespace / plural) — never an object or a value *)
Lemma absent_cannot_create s :
  s_live s = None -> c_delete_if_exists (s_cfg s) = false ->
  c_readonly (s_cfg s) || negb (c_create_enabled (s_cfg s)) = true ->
  filter is_mutation (calls_of s) = [] /\
  exists st, fst (reconcile_krm s) = KStop st /\
             match st with
             | StopRetry d _ => d = DEFAULT_LOAD_RETRY_DELAY
             | StopPermFail _ => snd (reconcile_krm s) = []
             | _ => False
             end.
Proof.
  unfold calls_of, reconcile_krm. intros Hl Hd Hc. rewrite Hl, Hd, Hc.
  destruct (s_name s) as [| | |name ns]; cbn [fst snd filter];
    try (split; [reflexivity|eexists; split; [reflexivity|reflexivity]]).
  destruct (_ && c_namespaced (s_cfg s)); cbn [fst snd filter];
    try (split; [reflexivity|eexists; split; [reflexivity|reflexivity]]).
  destruct (match c_plural (s_cfg s) with Some p => Some p | None => s_lookup s end);
    cbn [fst snd filter is_mutation];
    split; try reflexivity; eexists; split; reflexivity.
Qed.

(* a pass that mutates returns Retry with the configured delay, never a value *)
Lemma mutation_is_retry s :
  filter is_mutation (calls_of s) <> [] ->
  exists d tag, fst (reconcile_krm s) = KStop (StopRetry d tag) /\
    (existsb is_post (calls_of s) = true -> d = c_create_delay (s_cfg s)) /\
    (existsb is_patch (calls_of s) = true -> c_update (s_cfg s) = UPatch d) /\
    (existsb is_delete (calls_of s) = true ->
       c_delete_if_exists (s_cfg s) = true /\ d = DEFAULT_LOAD_RETRY_DELAY \/
       c_update (s_cfg s) = URecreate d).
Proof.
  unfold calls_of. intros Hm.
  pose proof (krm_has_shape s) as H. destruct (reconcile_krm s) as [r calls].
  inversion H; subst; clear H;
    cbn [fst snd filter existsb is_mutation is_post is_patch is_delete orb] in Hm |- *;
    try (exfalso; apply Hm; reflexivity);
    eexists; eexists; (split; [reflexivity|]); repeat split; intros; try discriminate; auto.
Qed.

(* preconditions that do not pass: no API call at all (reads included) *)
Lemma precondition_stop_no_calls s st :
  s_pre s = Some st -> reconcile_rf s = (FStop st, []).
Proof. unfold reconcile_rf. intros ->. reflexivity. Qed.

Lemma locals_error_no_calls s :
  s_pre s = None -> s_locals_err s = true ->
  reconcile_rf s = (FStop (StopPermFail "spec.locals"), []).
Proof. unfold reconcile_rf. intros -> ->. reflexivity. Qed.

(* the function-level call list is the krm call list when preconditions pass *)
Lemma rf_calls s :
  s_pre s = None -> s_locals_err s = false -> snd (reconcile_rf s) = calls_of s.
Proof.
  unfold reconcile_rf, calls_of. intros -> ->.
  destruct (reconcile_krm s) as [[st|o|] calls]; cbn [snd]; try reflexivity.
  destruct (s_post s); reflexivity.
Qed.

Lemma rf_calls_sub s : snd (reconcile_rf s) = [] \/ snd (reconcile_rf s) = calls_of s.
Proof.
  unfold reconcile_rf, calls_of.
  destruct (s_pre s); [left; reflexivity|].
  destruct (s_locals_err s); [left; reflexivity|]. right.
  destruct (reconcile_krm s) as [[st|o|] calls]; cbn [snd]; try reflexivity.
  destruct (s_post s); reflexivity.
Qed.

(* a value is returned only when no mutating call was made in the pass *)
Lemma value_only_without_mutation s v :
  fst (reconcile_rf s) = FValue v -> filter is_mutation (snd (reconcile_rf s)) = [].
Proof.
  unfold reconcile_rf.
  destruct (s_pre s); [discriminate|]. destruct (s_locals_err s); [discriminate|].
  pose proof (krm_has_shape s) as H.
  destruct (reconcile_krm s) as [[st|o|] calls]; cbn [fst snd]; try discriminate.
  destruct (s_post s); [discriminate|]. intros _.
  inversion H; subst; reflexivity.
Qed.
