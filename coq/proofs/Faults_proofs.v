(* Faults_proofs.v — lemmas about model/Faults.v (property C09). *)
From Koreo Require Import Json Outcome Outcome_proofs Payload ResourceFn ResourceFn_proofs Faults.
From Coq Require Import Lia Arith.
Local Open Scope nat_scope.
Local Open Scope list_scope.

(* ================================================================== *)
(* PART 1 — workflow layer                                            *)
(* ================================================================== *)

(* hypothesis on exception objects: bool(exc) is True (no __bool__/__len__
   override) — true of every exception class in kr8s, httpx, asyncio, builtins *)
Definition truthy_end (e : tend) : Prop := forall t, e = Excepted t -> t = true.

(* a step result is never a result.Ok INSTANCE (functions return bare values) *)
Definition raw_end (e : tend) : Prop :=
  match e with Finished r => uraw json r = true | _ => True end.

Definition end_ok (e : tend) : bool :=
  match e with Finished r => sres_ok r | _ => false end.

Definition is_fault_end (e : tend) : bool :=
  match e with Cancelled | Excepted true => true | _ => false end.

Definition retry_with (d : Z) (o : sres) : Prop := exists m l, o = UOut (Retry d m l).

(* ---------- classification ---------- *)

Lemma classify_total e : truthy_end e -> exists o, classify e = WDone o.
Proof.
  intros H. destruct e as [r| |t]; cbn; try (eexists; reflexivity).
  rewrite (H t eq_refl). cbn. eexists; reflexivity.
Qed.

Lemma classify_falsy_raises : classify (Excepted false) = WRaised.
Proof. reflexivity. Qed.

Lemma classify_fault e :
  is_fault_end e = true ->
  (e = Cancelled /\ classify e = WDone timeout_outcome) \/
  (e = Excepted true /\ classify e = WDone error_outcome).
Proof. destruct e as [r| |[|]]; cbn; intros H; try discriminate; auto. Qed.

Lemma classify_finished r : classify (Finished r) = WDone r.
Proof. reflexivity. Qed.

(* every task state is covered by one of the three arms *)
Lemma classify_cases e o :
  classify e = WDone o ->
  (e = Cancelled /\ o = timeout_outcome) \/ (e = Excepted true /\ o = error_outcome) \/ e = Finished o.
Proof.
  destruct e as [r| |[|]]; cbn; intros H; inversion H; subst; auto.
Qed.

Lemma reason_ready_ok o : reason_of o = "Ready"%string -> sres_ok o = true.
Proof. destruct o as [v|[]]; cbn; intros H; try reflexivity; discriminate H. Qed.

Lemma timeout_not_ok : sres_ok timeout_outcome = false /\ reason_of timeout_outcome = "Wait"%string.
Proof. split; reflexivity. Qed.
Lemma error_not_ok : sres_ok error_outcome = false /\ reason_of error_outcome = "Wait"%string.
Proof. split; reflexivity. Qed.

(* ---------- the loop ---------- *)

Lemma steps_loop_spec ws : forall i ends outs cs,
  List.length ends = List.length ws ->
  steps_loop i ws ends = WDone (outs, cs) ->
  List.length outs = List.length ws /\
  (forall k e, nth_error ends k = Some e -> exists o, nth_error outs k = Some o /\ classify e = WDone o) /\
  (forall src c, In (src, c) cs -> cd_reason c = "Ready"%string ->
     exists k o, src = CStep (i + k) /\ nth_error outs k = Some o /\ sres_ok o = true).
Proof.
  induction ws as [|w wr IH]; intros i ends outs cs Hlen H.
  - destruct ends; [|discriminate Hlen]. cbn in H. inversion H; subst.
    repeat split; intros; try (destruct k; discriminate); contradiction.
  - destruct ends as [|e er]; [discriminate Hlen|]. cbn [steps_loop] in H.
    unfold step_entry in H.
    destruct (classify e) as [o|] eqn:Ec; [|discriminate H].
    destruct (steps_loop (S i) wr er) as [[os css]|] eqn:El; [|discriminate H].
    inversion H; subst; clear H.
    cbn [List.length] in Hlen. injection Hlen as Hlen.
    destruct (IH (S i) er os css Hlen El) as (Ho & Hk & Hc).
    split; [cbn; now rewrite Ho|]. split.
    + intros [|k] e' He'; cbn in He' |- *.
      * inversion He'; subst. eexists; split; [reflexivity|exact Ec].
      * apply Hk, He'.
    + intros src c Hin Hr. apply in_app_or in Hin as [Hin|Hin].
      * exists 0, o. rewrite Nat.add_0_r.
        destruct (task_cancelled e || task_exception_truthy e) eqn:Ef.
        -- destruct Hin as [Hin|[]]. inversion Hin; subst. cbn in Hr.
           destruct (classify_cases _ _ Ec) as [[-> ->]|[[-> ->]| ->]]; cbn in Hr; try discriminate Hr.
           cbn in Ef. discriminate Ef.
        -- destruct (w_cond w); [|contradiction]. destruct Hin as [Hin|[]].
           inversion Hin; subst. cbn in Hr. split; [reflexivity|]. split; [reflexivity|].
           now apply reason_ready_ok.
      * destruct (Hc src c Hin Hr) as (k & o' & -> & Hn & Hok).
        exists (S k), o'. split; [f_equal; lia|]. split; [exact Hn|exact Hok].
Qed.

Lemma steps_loop_total ws : forall i ends,
  Forall truthy_end ends -> exists r, steps_loop i ws ends = WDone r.
Proof.
  induction ws as [|w wr IH]; intros i ends HF; [eexists; reflexivity|].
  destruct ends as [|e er]; [eexists; reflexivity|].
  inversion HF as [|? ? He Her]; subst. cbn [steps_loop]. unfold step_entry.
  destruct (classify_total e He) as [o ->].
  destruct (IH (S i) er Her) as [[os css] ->]. eexists; reflexivity.
Qed.

(* pass_total: nothing is raised out of reconcile_workflow, whatever the
   end states of the step tasks *)
Lemma reconcile_workflow_total ws ends :
  Forall truthy_end ends -> exists r, reconcile_workflow_m ws ends = WDone r.
Proof.
  intros HF. unfold reconcile_workflow_m, reconcile_steps.
  destruct (steps_loop_total ws 0 ends HF) as [[outs cs] ->]. eexists; reflexivity.
Qed.

(* ... and the one way it can be: an exception object that is falsy *)
Lemma reconcile_workflow_falsy_raises :
  reconcile_workflow_m [{| w_deps := []; w_cond := None |}] [Excepted false] = WRaised.
Proof. reflexivity. Qed.

Lemma workflow_outcomes ws ends r :
  List.length ends = List.length ws ->
  reconcile_workflow_m ws ends = WDone r ->
  List.length (wr_outcomes r) = List.length ws /\
  forall k e, nth_error ends k = Some e ->
    exists o, nth_error (wr_outcomes r) k = Some o /\ classify e = WDone o.
Proof.
  intros Hlen H. unfold reconcile_workflow_m, reconcile_steps in H.
  destruct (steps_loop 0 ws ends) as [[outs cs]|] eqn:El; [|discriminate H].
  inversion H; subst; clear H. cbn [wr_outcomes].
  destruct (steps_loop_spec ws 0 ends outs cs Hlen El) as (Ho & Hk & _). split; assumption.
Qed.

(* faulted_step_error *)
Lemma faulted_step_error ws ends r k e :
  List.length ends = List.length ws ->
  reconcile_workflow_m ws ends = WDone r ->
  nth_error ends k = Some e -> is_fault_end e = true ->
  exists d m l, nth_error (wr_outcomes r) k = Some (UOut (Retry d m l)) /\
                (e = Cancelled -> d = TIMEOUT_RETRY_DELAY) /\
                (e = Excepted true -> d = UNKNOWN_ERROR_RETRY_DELAY).
Proof.
  intros Hlen H Hk Hf.
  destruct (workflow_outcomes ws ends r Hlen H) as (_ & Ho).
  destruct (Ho k e Hk) as (o & Hn & Hc).
  destruct (classify_fault e Hf) as [[-> Hc']|[-> Hc']]; rewrite Hc' in Hc; inversion Hc; subst;
    do 3 eexists; (split; [exact Hn|]); split; intros E; try reflexivity; discriminate E.
Qed.

(* conditions_truthful *)
Lemma conditions_truthful ws ends r :
  List.length ends = List.length ws ->
  reconcile_workflow_m ws ends = WDone r ->
  forall src c, In (src, c) (wr_conditions r) -> cd_reason c = "Ready"%string ->
  match src with
  | CStep i => exists o, nth_error (wr_outcomes r) i = Some o /\ sres_ok o = true
  | CWorkflow => sres_ok (wr_overall r) = true
  end.
Proof.
  intros Hlen H src c Hin Hr. unfold reconcile_workflow_m, reconcile_steps in H.
  destruct (steps_loop 0 ws ends) as [[outs cs]|] eqn:El; [|discriminate H].
  inversion H; subst; clear H. cbn [wr_outcomes wr_conditions wr_overall] in *.
  destruct (steps_loop_spec ws 0 ends outs cs Hlen El) as (_ & _ & Hc).
  apply in_app_or in Hin as [Hin|[Hin|[]]].
  - destruct (Hc src c Hin Hr) as (k & o & -> & Hn & Hok). cbn. eauto.
  - inversion Hin; subst. cbn in Hr. now apply reason_ready_ok.
Qed.

(* a condition about a cancelled / crashed step is never "Ready" — for every
   outcome class, through condition_helper *)
Lemma condition_helper_ready_iff ty o :
  cd_reason (condition_helper ty o) = "Ready"%string <-> sres_ok o = true.
Proof.
  split; [apply reason_ready_ok|]. destruct o as [v|[]]; cbn; intros H; try reflexivity; discriminate H.
Qed.

(* overall_not_ok *)
Lemma sev_wrap_retry d m l : sev (wrap (@UOut json (Retry d m l))) = 3.
Proof. reflexivity. Qed.

Lemma overall_not_ok ws ends r k e :
  List.length ends = List.length ws ->
  Forall raw_end ends ->
  reconcile_workflow_m ws ends = WDone r ->
  nth_error ends k = Some e -> is_fault_end e = true ->
  exists o, wr_overall r = UOut o /\ is_error o = true.
Proof.
  intros Hlen Hraw H Hk Hf.
  destruct (faulted_step_error ws ends r k e Hlen H Hk Hf) as (d & m & l & Hn & _).
  destruct (workflow_outcomes ws ends r Hlen H) as (Hlo & Ho).
  assert (Forall (fun u => uraw json u = true) (wr_outcomes r)) as HR.
  { apply Forall_forall. intros o Hin. apply In_nth_error in Hin as [j Hj].
    assert (j < List.length ends) as Hjl.
    { rewrite Hlen, <- Hlo. apply nth_error_Some. congruence. }
    destruct (nth_error ends j) as [ej|] eqn:Ej; [|apply nth_error_None in Ej; lia].
    destruct (Ho j ej Ej) as (o' & Hn' & Hc). rewrite Hj in Hn'. inversion Hn'; subst o'.
    destruct (classify_cases _ _ Hc) as [[_ ->]|[[_ ->]| ->]]; try reflexivity.
    rewrite Forall_forall in Hraw. apply (Hraw (Finished o)). eapply nth_error_In; eauto. }
  unfold reconcile_workflow_m, reconcile_steps in H.
  destruct (steps_loop 0 ws ends) as [[outs cs]|] eqn:El; [|discriminate H].
  inversion H; subst; clear H. cbn [wr_outcomes wr_overall] in *.
  assert (outs <> []) as Hne by (intros ->; destruct k; discriminate Hn).
  destruct (unwrapped_combine_class json outs HR Hne) as (Hsev & _ & Hnon).
  assert (3 <= maxsev json (map wrap outs)) as Hge.
  { rewrite <- (sev_wrap_retry d m l). apply maxsev_ge. apply in_map.
    eapply nth_error_In; eauto. }
  rewrite Hnon by lia. cbn [sres_of_uresult]. eexists; split; [reflexivity|].
  rewrite Hnon in Hsev by lia. cbn [usev] in Hsev.
  destruct (Outcome.combine (map wrap outs)); cbn in *; try reflexivity; lia.
Qed.

(* ---------- the dependency gate ---------- *)

Lemma gate_invoke_all_ok l : gate_of l = GInvoke -> Forall (fun e => end_ok e = true) l.
Proof.
  induction l as [|e l IH]; [constructor|]. destruct e as [r| |t]; cbn; try discriminate.
  destruct (sres_ok r) eqn:E; [|discriminate]. intros H. constructor; [exact E|now apply IH].
Qed.

Lemma gate_excepted_in l t : gate_of l = GExcepted t -> In (Excepted t) l.
Proof.
  induction l as [|e l IH]; [discriminate|]. destruct e as [r| |t']; cbn; try discriminate.
  - destruct (sres_ok r); [|discriminate]. intros H. right. now apply IH.
  - intros H. inversion H. now left.
Qed.

Lemma step_end_not_invoked deps p :
  snd (step_end deps p) = false ->
  end_ok (fst (step_end deps p)) = false.
Proof.
  unfold step_end. destruct (p_abort p); [reflexivity|].
  destruct (gate_of deps); cbn; intros H; try reflexivity. discriminate H.
Qed.

Lemma step_end_invoked deps p :
  snd (step_end deps p) = true ->
  p_abort p = false /\ Forall (fun e => end_ok e = true) deps /\ fst (step_end deps p) = p_logic p.
Proof.
  unfold step_end. destruct (p_abort p); [discriminate|].
  destruct (gate_of deps) eqn:G; cbn; intros H; try discriminate H.
  repeat split. now apply gate_invoke_all_ok.
Qed.

Lemma step_end_truthy deps p :
  Forall truthy_end deps -> truthy_end (p_logic p) -> truthy_end (fst (step_end deps p)).
Proof.
  intros Hd Hp. unfold step_end. destruct (p_abort p); [intros t E; discriminate E|].
  destruct (gate_of deps) eqn:G; cbn; try (intros t E; discriminate E); [exact Hp|].
  apply gate_excepted_in in G. rewrite Forall_forall in Hd. intros t E. inversion E; subst.
  exact (Hd _ G t eq_refl).
Qed.

Definition wf_steps (ws : list wstep) : Prop :=
  forall i w d, nth_error ws i = Some w -> In d (w_deps w) -> d < i.

Lemma dep_ends_prefix pre post deps :
  (forall d, In d deps -> d < List.length pre) ->
  dep_ends (pre ++ post) deps = dep_ends pre deps.
Proof.
  intros H. unfold dep_ends. apply map_ext_in. intros d Hd. apply app_nth1. now apply H.
Qed.

Lemma run_from_inv ws : forall ps ends0 tr0 ends tr,
  List.length ps = List.length ws ->
  run_from ws ps ends0 tr0 = (ends, tr) ->
  (exists new, ends = ends0 ++ new /\ List.length new = List.length ws) /\
  (forall i, In i tr -> In i tr0 \/ List.length ends0 <= i) /\
  (forall k w p, nth_error ws k = Some w -> nth_error ps k = Some p ->
     (forall d, In d (w_deps w) -> d < List.length ends0 + k) ->
     let se := step_end (dep_ends ends (w_deps w)) p in
     nth_error ends (List.length ends0 + k) = Some (fst se) /\
     (In (List.length ends0 + k) tr -> snd se = true \/ In (List.length ends0 + k) tr0)).
Proof.
  induction ws as [|w wr IH]; intros ps ends0 tr0 ends tr Hlen H.
  - destruct ps; [|discriminate Hlen]. cbn in H; inversion H; subst.
    split; [exists []; now rewrite app_nil_r|]. split; [auto|].
    intros k w p Hk. destruct k; discriminate Hk.
  - destruct ps as [|p pr]; [discriminate Hlen|]. cbn [run_from] in H.
    destruct (step_end (dep_ends ends0 (w_deps w)) p) as [e inv] eqn:Ese.
    cbn [List.length] in Hlen. injection Hlen as Hlen.
    specialize (IH pr (ends0 ++ [e]) (if inv then tr0 ++ [List.length ends0] else tr0) ends tr Hlen H).
    destruct IH as ((new & -> & Hnew) & Htr & Hk).
    rewrite app_length in Htr, Hk. cbn [List.length] in Htr, Hk.
    split; [exists (e :: new); split; [now rewrite <- app_assoc|cbn; now rewrite Hnew]|].
    split.
    + intros i Hi. destruct (Htr i Hi) as [Hin|Hge]; [|right; lia].
      destruct inv; [|now left]. apply in_app_or in Hin as [Hin|[<-|[]]]; [now left|right; lia].
    + intros [|k] w' p' Hw Hp Hd; cbn in Hw, Hp.
      * inversion Hw; inversion Hp; subst w' p'. rewrite Nat.add_0_r in *.
        rewrite <- app_assoc. rewrite dep_ends_prefix by exact Hd. rewrite Ese. cbn [fst snd].
        split.
        -- rewrite nth_error_app2 by lia. now rewrite Nat.sub_diag.
        -- intros Hi. destruct (Htr _ Hi) as [Hin|Hge]; [|lia].
           destruct inv; [now left|now right].
      * specialize (Hk k w' p' Hw Hp).
        replace (List.length ends0 + 1 + k) with (List.length ends0 + S k) in Hk by lia.
        destruct (Hk Hd) as [Hn Hi]. split; [exact Hn|].
        intros Hin. destruct (Hi Hin) as [Ht|Ht]; [now left|].
        destruct inv; [|now right]. apply in_app_or in Ht as [Ht|[Ht|[]]]; [now right|lia].
Qed.

(* the end states and the invocation trace of a pass, step by step *)
Lemma run_steps_spec ws ps ends tr :
  wf_steps ws -> List.length ps = List.length ws ->
  run_steps ws ps = (ends, tr) ->
  List.length ends = List.length ws /\
  forall k w p, nth_error ws k = Some w -> nth_error ps k = Some p ->
    let se := step_end (dep_ends ends (w_deps w)) p in
    nth_error ends k = Some (fst se) /\ (In k tr -> snd se = true).
Proof.
  intros Hwf Hlen H. unfold run_steps in H.
  destruct (run_from_inv ws ps [] [] ends tr Hlen H) as ((new & -> & Hnew) & _ & Hk).
  split; [exact Hnew|]. intros k w p Hw Hp.
  destruct (Hk k w p Hw Hp) as [Hn Hi].
  { intros d Hd. cbn. eapply Hwf; eauto. }
  cbn in Hn, Hi |- *. split; [exact Hn|]. intros Hin. destruct (Hi Hin) as [?|[]]. assumption.
Qed.

Lemma nth_error_nth_default {A} (l : list A) k x d : nth_error l k = Some x -> nth k l d = x.
Proof. revert k; induction l; intros [|k]; cbn; intros H; try discriminate; [now inversion H|auto]. Qed.

(* dependents_not_run (direct dependency) *)
Lemma dependent_not_run ws ps ends tr i w j :
  wf_steps ws -> List.length ps = List.length ws ->
  run_steps ws ps = (ends, tr) ->
  nth_error ws i = Some w -> In j (w_deps w) ->
  end_ok (nth j ends Cancelled) = false ->
  ~ In i tr /\ end_ok (nth i ends Cancelled) = false.
Proof.
  intros Hwf Hlen H Hw Hj Hbad.
  destruct (run_steps_spec ws ps ends tr Hwf Hlen H) as (Hl & Hk).
  assert (exists p, nth_error ps i = Some p) as [p Hp].
  { destruct (nth_error ps i) eqn:E; [eauto|]. apply nth_error_None in E.
    assert (i < List.length ws) by (apply nth_error_Some; congruence). lia. }
  destruct (Hk i w p Hw Hp) as [Hn Hi].
  assert (snd (step_end (dep_ends ends (w_deps w)) p) = false) as Hs.
  { destruct (snd (step_end (dep_ends ends (w_deps w)) p)) eqn:E; [|reflexivity].
    apply step_end_invoked in E as (_ & Hall & _). rewrite Forall_forall in Hall.
    specialize (Hall (nth j ends Cancelled)). rewrite Hall in Hbad; [discriminate|].
    unfold dep_ends. apply in_map_iff. eauto. }
  split.
  - intros Hin. rewrite (Hi Hin) in Hs. discriminate.
  - rewrite (nth_error_nth_default _ _ _ Cancelled Hn). now apply step_end_not_invoked.
Qed.

(* i needs j, directly or through other steps *)
Inductive needs (ws : list wstep) : nat -> nat -> Prop :=
| needs_direct i w j : nth_error ws i = Some w -> In j (w_deps w) -> needs ws i j
| needs_trans i k j : needs ws i k -> needs ws k j -> needs ws i j.

Lemma dependents_not_run ws ps ends tr :
  wf_steps ws -> List.length ps = List.length ws ->
  run_steps ws ps = (ends, tr) ->
  forall i j, needs ws i j -> end_ok (nth j ends Cancelled) = false ->
  ~ In i tr /\ end_ok (nth i ends Cancelled) = false.
Proof.
  intros Hwf Hlen H i j Hn. induction Hn as [i w j Hw Hj|i k j _ IH1 _ IH2]; intros Hbad.
  - eapply dependent_not_run; eauto.
  - apply IH1. apply IH2. exact Hbad.
Qed.

(* an invoked step had all its dependencies Ok, and was not aborted *)
Lemma invoked_deps_ok ws ps ends tr i w :
  wf_steps ws -> List.length ps = List.length ws ->
  run_steps ws ps = (ends, tr) ->
  nth_error ws i = Some w -> In i tr ->
  forall j, In j (w_deps w) -> end_ok (nth j ends Cancelled) = true.
Proof.
  intros Hwf Hlen H Hw Hin j Hj.
  destruct (end_ok (nth j ends Cancelled)) eqn:E; [reflexivity|].
  destruct (dependent_not_run ws ps ends tr i w j Hwf Hlen H Hw Hj E) as [Hn _]. contradiction.
Qed.

Lemma run_from_truthy ws : forall ps ends0 tr0,
  Forall truthy_end ends0 -> Forall (fun p => truthy_end (p_logic p)) ps ->
  Forall truthy_end (fst (run_from ws ps ends0 tr0)).
Proof.
  induction ws as [|w wr IH]; intros ps ends0 tr0 H0 Hp; [destruct ps; exact H0|].
  destruct ps as [|p pr]; [exact H0|]. cbn [run_from].
  destruct (step_end (dep_ends ends0 (w_deps w)) p) as [e inv] eqn:Ese.
  inversion Hp as [|? ? Hp1 Hpr]; subst. apply IH; [|exact Hpr].
  apply Forall_app. split; [exact H0|]. constructor; [|constructor].
  change e with (fst (e, inv)). rewrite <- Ese. apply step_end_truthy; [|exact Hp1].
  unfold dep_ends. apply Forall_forall. intros x Hx. apply in_map_iff in Hx as (d & <- & _).
  destruct (nth_in_or_default d ends0 Cancelled) as [Hin| ->].
  - rewrite Forall_forall in H0. now apply H0.
  - intros t E; discriminate E.
Qed.

(* pass_total for a whole pass under any plan *)
Lemma run_workflow_total ws ps :
  Forall (fun p => truthy_end (p_logic p)) ps ->
  exists r, fst (run_workflow ws ps) = WDone r.
Proof.
  intros Hp. unfold run_workflow.
  pose proof (run_from_truthy ws ps [] [] (Forall_nil _) Hp) as Ht.
  unfold run_steps. destruct (run_from ws ps [] []) as [ends tr]. cbn [fst] in *.
  now apply reconcile_workflow_total.
Qed.

(* ---------- forEach ---------- *)

Lemma classify_all_spec ends outs :
  classify_all ends = WDone outs -> Forall2 (fun e o => classify e = WDone o) ends outs.
Proof.
  revert outs. induction ends as [|e er IH]; intros outs H; cbn in H.
  - inversion H. constructor.
  - destruct (classify e) as [o|] eqn:Ec; [|discriminate H].
    destruct (classify_all er) as [os|]; [|discriminate H]. inversion H; subst.
    constructor; [exact Ec|now apply IH].
Qed.

Lemma classify_all_total ends :
  Forall truthy_end ends -> exists outs, classify_all ends = WDone outs.
Proof.
  induction 1 as [|e er He _ [os IH]]; [eexists; reflexivity|]. cbn.
  destruct (classify_total e He) as [o ->]. rewrite IH. eexists; reflexivity.
Qed.

Lemma error_part_raw os : Forall (fun o : outcome json => raw o = true) (error_part os).
Proof.
  unfold error_part. apply Forall_forall. intros o Hin. apply in_flat_map in Hin as (x & _ & Hx).
  destruct x as [v|[]]; cbn in Hx; try contradiction; destruct Hx as [<-|[]]; reflexivity.
Qed.

Lemma error_part_sev os o : In o (error_part os) -> 3 <= sev o.
Proof.
  unfold error_part. intros Hin. apply in_flat_map in Hin as (x & _ & Hx).
  destruct x as [v|[]]; cbn in Hx; try contradiction; destruct Hx as [<-|[]]; cbn; lia.
Qed.

Lemma foreach_total ends : Forall truthy_end ends -> exists o, foreach_result ends = WDone o.
Proof.
  intros H. unfold foreach_result. destruct (classify_all_total ends H) as [outs ->].
  destruct (is_error _); eexists; reflexivity.
Qed.

(* a cancelled / crashed iteration makes the whole forEach step an error *)
Lemma foreach_fault_error ends e :
  Forall truthy_end ends -> In e ends -> is_fault_end e = true ->
  exists o, foreach_result ends = WDone (UOut o) /\ is_error o = true.
Proof.
  intros Ht Hin Hf. unfold foreach_result.
  destruct (classify_all_total ends Ht) as [outs Hc]. rewrite Hc.
  apply classify_all_spec in Hc.
  assert (exists d m l, In (UOut (Retry d m l)) outs) as (d & m & l & Ho).
  { clear Ht. induction Hc as [|e' o' er os Hc1 _ IH]; [contradiction|].
    destruct Hin as [->|Hin].
    - destruct (classify_fault e Hf) as [[_ Hc']|[_ Hc']]; rewrite Hc' in Hc1; inversion Hc1;
        do 3 eexists; left; reflexivity.
    - destruct (IH Hin) as (d & m & l & H). do 3 eexists. right. exact H. }
  assert (In (Retry d m l) (error_part outs)) as Hep.
  { unfold error_part. apply in_flat_map. eexists; split; [exact Ho|]. now left. }
  assert (error_part outs <> []) as Hne by (intros E; rewrite E in Hep; contradiction).
  pose proof (combine_class json (error_part outs) (error_part_raw outs) Hne) as Hs.
  pose proof (maxsev_ge json _ _ Hep) as Hge. cbn [sev] in Hge.
  assert (is_error (Outcome.combine (error_part outs)) = true) as He.
  { destruct (Outcome.combine (error_part outs)); cbn in *; try reflexivity; lia. }
  rewrite He. eexists; split; [reflexivity|exact He].
Qed.

(* ... and so does an iteration that reports Retry / PermFail itself *)
Lemma foreach_error_item ends r :
  Forall truthy_end ends -> In (Finished r) ends -> sres_error r = true ->
  exists o, foreach_result ends = WDone (UOut o) /\ is_error o = true.
Proof.
  intros Ht Hin Hf. unfold foreach_result.
  destruct (classify_all_total ends Ht) as [outs Hc]. rewrite Hc.
  apply classify_all_spec in Hc.
  assert (In r outs) as Ho.
  { clear Ht. induction Hc as [|e' o' er os Hc1 _ IH]; [contradiction|].
    destruct Hin as [->|Hin]; [cbn in Hc1; inversion Hc1; now left|right; auto]. }
  assert (exists x, In x (error_part outs)) as [x Hep].
  { destruct r as [v|[]]; try discriminate Hf; eexists; unfold error_part; apply in_flat_map;
      (eexists; split; [exact Ho|]); left; reflexivity. }
  assert (error_part outs <> []) as Hne by (intros E; rewrite E in Hep; contradiction).
  pose proof (combine_class json (error_part outs) (error_part_raw outs) Hne) as Hs.
  pose proof (maxsev_ge json _ _ Hep) as Hge. pose proof (error_part_sev _ _ Hep) as H3.
  assert (is_error (Outcome.combine (error_part outs)) = true) as He.
  { destruct (Outcome.combine (error_part outs)); cbn in *; try reflexivity; lia. }
  rewrite He. eexists; split; [reflexivity|exact He].
Qed.

(* a sub-workflow whose pass is not Ok hands its outcome to the parent step *)
Lemma subworkflow_not_ok r st :
  sres_ok (wr_overall r) = false -> subworkflow_result (WDone r) st = Finished (wr_overall r).
Proof. intros H. unfold subworkflow_result. now rewrite H. Qed.
