(* Faults_proofs.v — lemmas about model/Faults.v (property C09). *)
From Koreo Require Import Json Outcome Outcome_proofs Payload ResourceFn ResourceFn_proofs Faults.
From Coq Require Import Lia Arith.
Local Open Scope nat_scope.
Local Open Scope list_scope.

(* ================================================================== *)
(* PART 1 — workflow layer                                            *)
(* ================================================================== *)

(* a step result is never a result.Ok INSTANCE (functions return bare values) *)
Definition raw_end (e : tend) : Prop :=
  match e with Finished r => uraw json r = true | _ => True end.

Definition end_ok (e : tend) : bool :=
  match e with Finished r => sres_ok r | _ => false end.

Definition is_fault_end (e : tend) : bool :=
  match e with Cancelled | Excepted => true | _ => false end.

Definition retry_with (d : Z) (o : sres) : Prop := exists m l, o = UOut (Retry d m l).

(* ---------- classification ---------- *)

(* the three arms cover every task state: task.result() is only reached for a
   task that returned, so it never raises *)
Lemma classify_total e : exists o, classify e = WDone o.
Proof. destruct e as [r| |]; cbn; eexists; reflexivity. Qed.

Lemma classify_fault e :
  is_fault_end e = true ->
  (e = Cancelled /\ classify e = WDone timeout_outcome) \/
  (e = Excepted /\ classify e = WDone error_outcome).
Proof. destruct e as [r| |]; cbn; intros H; try discriminate; auto. Qed.

Lemma classify_finished r : classify (Finished r) = WDone r.
Proof. reflexivity. Qed.

(* every task state is covered by one of the three arms *)
Lemma classify_cases e o :
  classify e = WDone o ->
  (e = Cancelled /\ o = timeout_outcome) \/ (e = Excepted /\ o = error_outcome) \/ e = Finished o.
Proof.
  destruct e as [r| |]; cbn; intros H; inversion H; subst; auto.
Qed.

Lemma reason_ready_ok o : reason_of o = "Ready"%string -> sres_ok o = true.
Proof. destruct o as [v|[]]; cbn; intros H; try reflexivity; discriminate H. Qed.

Lemma timeout_not_ok : sres_ok timeout_outcome = false /\ reason_of timeout_outcome = "Wait"%string.
Proof. split; reflexivity. Qed.
Lemma error_not_ok : sres_ok error_outcome = false /\ reason_of error_outcome = "Wait"%string.
Proof. split; reflexivity. Qed.

(* ---------- the loop ---------- *)

Lemma steps_loop_spec ws : forall i ends outs cs,
  List.length ends = List.length ws ->
  steps_loop i ws ends = WDone (outs, cs) ->
  List.length outs = List.length ws /\
  (forall k e, nth_error ends k = Some e -> exists o, nth_error outs k = Some o /\ classify e = WDone o) /\
  (forall src c, In (src, c) cs -> cd_reason c = "Ready"%string ->
     exists k o, src = CStep (i + k) /\ nth_error outs k = Some o /\ sres_ok o = true).
Proof.
  induction ws as [|w wr IH]; intros i ends outs cs Hlen H.
  - destruct ends; [|discriminate Hlen]. cbn in H. inversion H; subst.
    repeat split; intros; try (destruct k; discriminate); contradiction.
  - destruct ends as [|e er]; [discriminate Hlen|]. cbn [steps_loop] in H.
    unfold step_entry in H.
    destruct (classify e) as [o|] eqn:Ec; [|discriminate H].
    destruct (steps_loop (S i) wr er) as [[os css]|] eqn:El; [|discriminate H].
    inversion H; subst; clear H.
    cbn [List.length] in Hlen. injection Hlen as Hlen.
    destruct (IH (S i) er os css Hlen El) as (Ho & Hk & Hc).
    split; [cbn; now rewrite Ho|]. split.
    + intros [|k] e' He'; cbn in He' |- *.
      * inversion He'; subst. eexists; split; [reflexivity|exact Ec].
      * apply Hk, He'.
    + intros src c Hin Hr. apply in_app_or in Hin as [Hin|Hin].
      * exists 0, o. rewrite Nat.add_0_r.
        destruct (task_cancelled e || task_has_exception e) eqn:Ef.
        -- destruct Hin as [Hin|[]]. inversion Hin; subst. cbn in Hr.
           destruct (classify_cases _ _ Ec) as [[-> ->]|[[-> ->]| ->]]; cbn in Hr; try discriminate Hr.
           cbn in Ef. discriminate Ef.
        -- destruct (w_cond w); [|contradiction]. destruct Hin as [Hin|[]].
           inversion Hin; subst. cbn in Hr. split; [reflexivity|]. split; [reflexivity|].
           now apply reason_ready_ok.
      * destruct (Hc src c Hin Hr) as (k & o' & -> & Hn & Hok).
        exists (S k), o'. split; [f_equal; lia|]. split; [exact Hn|exact Hok].
Qed.

Lemma steps_loop_total ws : forall i ends, exists r, steps_loop i ws ends = WDone r.
Proof.
  induction ws as [|w wr IH]; intros i ends; [eexists; reflexivity|].
  destruct ends as [|e er]; [eexists; reflexivity|].
  cbn [steps_loop]. unfold step_entry.
  destruct (classify_total e) as [o ->].
  destruct (IH (S i) er) as [[os css] ->]. eexists; reflexivity.
Qed.

(* pass_total: nothing is raised out of reconcile_workflow, whatever the
   end states of the step tasks *)
Lemma reconcile_workflow_total ws ends : exists r, reconcile_workflow_m ws ends = WDone r.
Proof.
  unfold reconcile_workflow_m, reconcile_steps.
  destruct (steps_loop_total ws 0 ends) as [[outs cs] ->]. eexists; reflexivity.
Qed.

Lemma workflow_outcomes ws ends r :
  List.length ends = List.length ws ->
  reconcile_workflow_m ws ends = WDone r ->
  List.length (wr_outcomes r) = List.length ws /\
  forall k e, nth_error ends k = Some e ->
    exists o, nth_error (wr_outcomes r) k = Some o /\ classify e = WDone o.
Proof.
  intros Hlen H. unfold reconcile_workflow_m, reconcile_steps in H.
  destruct (steps_loop 0 ws ends) as [[outs cs]|] eqn:El; [|discriminate H].
  inversion H; subst; clear H. cbn [wr_outcomes].
  destruct (steps_loop_spec ws 0 ends outs cs Hlen El) as (Ho & Hk & _). split; assumption.
Qed.

(* faulted_step_error *)
Lemma faulted_step_error ws ends r k e :
  List.length ends = List.length ws ->
  reconcile_workflow_m ws ends = WDone r ->
  nth_error ends k = Some e -> is_fault_end e = true ->
  exists d m l, nth_error (wr_outcomes r) k = Some (UOut (Retry d m l)) /\
                (e = Cancelled -> d = TIMEOUT_RETRY_DELAY) /\
                (e = Excepted -> d = UNKNOWN_ERROR_RETRY_DELAY).
Proof.
  intros Hlen H Hk Hf.
  destruct (workflow_outcomes ws ends r Hlen H) as (_ & Ho).
  destruct (Ho k e Hk) as (o & Hn & Hc).
  destruct (classify_fault e Hf) as [[-> Hc']|[-> Hc']]; rewrite Hc' in Hc; inversion Hc; subst;
    do 3 eexists; (split; [exact Hn|]); split; intros E; try reflexivity; discriminate E.
Qed.

(* conditions_truthful *)
Lemma conditions_truthful ws ends r :
  List.length ends = List.length ws ->
  reconcile_workflow_m ws ends = WDone r ->
  forall src c, In (src, c) (wr_conditions r) -> cd_reason c = "Ready"%string ->
  match src with
  | CStep i => exists o, nth_error (wr_outcomes r) i = Some o /\ sres_ok o = true
  | CWorkflow => sres_ok (wr_overall r) = true
  end.
Proof.
  intros Hlen H src c Hin Hr. unfold reconcile_workflow_m, reconcile_steps in H.
  destruct (steps_loop 0 ws ends) as [[outs cs]|] eqn:El; [|discriminate H].
  inversion H; subst; clear H. cbn [wr_outcomes wr_conditions wr_overall] in *.
  destruct (steps_loop_spec ws 0 ends outs cs Hlen El) as (_ & _ & Hc).
  apply in_app_or in Hin as [Hin|[Hin|[]]].
  - destruct (Hc src c Hin Hr) as (k & o & -> & Hn & Hok). cbn. eauto.
  - inversion Hin; subst. cbn in Hr. now apply reason_ready_ok.
Qed.

(* a condition about a cancelled / crashed step is never "Ready" — for every
   outcome class, through condition_helper *)
Lemma condition_helper_ready_iff ty o :
  cd_reason (condition_helper ty o) = "Ready"%string <-> sres_ok o = true.
Proof.
  split; [apply reason_ready_ok|]. destruct o as [v|[]]; cbn; intros H; try reflexivity; discriminate H.
Qed.

(* overall_not_ok *)
Lemma sev_wrap_retry d m l : sev (wrap (@UOut json (Retry d m l))) = 3.
Proof. reflexivity. Qed.

Lemma overall_not_ok ws ends r k e :
  List.length ends = List.length ws ->
  Forall raw_end ends ->
  reconcile_workflow_m ws ends = WDone r ->
  nth_error ends k = Some e -> is_fault_end e = true ->
  exists o, wr_overall r = UOut o /\ is_error o = true.
Proof.
  intros Hlen Hraw H Hk Hf.
  destruct (faulted_step_error ws ends r k e Hlen H Hk Hf) as (d & m & l & Hn & _).
  destruct (workflow_outcomes ws ends r Hlen H) as (Hlo & Ho).
  assert (Forall (fun u => uraw json u = true) (wr_outcomes r)) as HR.
  { apply Forall_forall. intros o Hin. apply In_nth_error in Hin as [j Hj].
    assert (j < List.length ends) as Hjl.
    { rewrite Hlen, <- Hlo. apply nth_error_Some. congruence. }
    destruct (nth_error ends j) as [ej|] eqn:Ej; [|apply nth_error_None in Ej; lia].
    destruct (Ho j ej Ej) as (o' & Hn' & Hc). rewrite Hj in Hn'. inversion Hn'; subst o'.
    destruct (classify_cases _ _ Hc) as [[_ ->]|[[_ ->]| ->]]; try reflexivity.
    rewrite Forall_forall in Hraw. apply (Hraw (Finished o)). eapply nth_error_In; eauto. }
  unfold reconcile_workflow_m, reconcile_steps in H.
  destruct (steps_loop 0 ws ends) as [[outs cs]|] eqn:El; [|discriminate H].
  inversion H; subst; clear H. cbn [wr_outcomes wr_overall] in *.
  assert (outs <> []) as Hne by (intros ->; destruct k; discriminate Hn).
  destruct (unwrapped_combine_class json outs HR Hne) as (Hsev & _ & Hnon).
  assert (3 <= maxsev json (map wrap outs)) as Hge.
  { rewrite <- (sev_wrap_retry d m l). apply maxsev_ge. apply in_map.
    eapply nth_error_In; eauto. }
  rewrite Hnon by lia. cbn [sres_of_uresult]. eexists; split; [reflexivity|].
  rewrite Hnon in Hsev by lia. cbn [usev] in Hsev.
  destruct (Outcome.combine (map wrap outs)); cbn in *; try reflexivity; lia.
Qed.

(* ---------- the dependency gate ---------- *)

Lemma gate_invoke_all_ok l : gate_of l = GInvoke -> Forall (fun e => end_ok e = true) l.
Proof.
  induction l as [|e l IH]; [constructor|]. destruct e as [r| |]; cbn; try discriminate.
  destruct (sres_ok r) eqn:E; [|discriminate]. intros H. constructor; [exact E|now apply IH].
Qed.

Lemma step_end_not_invoked deps p :
  snd (step_end deps p) = false ->
  end_ok (fst (step_end deps p)) = false.
Proof.
  unfold step_end. destruct (p_abort p); [reflexivity|].
  destruct (gate_of deps); cbn; intros H; try reflexivity. discriminate H.
Qed.

Lemma step_end_invoked deps p :
  snd (step_end deps p) = true ->
  p_abort p = false /\ Forall (fun e => end_ok e = true) deps /\ fst (step_end deps p) = p_logic p.
Proof.
  unfold step_end. destruct (p_abort p); [discriminate|].
  destruct (gate_of deps) eqn:G; cbn; intros H; try discriminate H.
  repeat split. now apply gate_invoke_all_ok.
Qed.

Definition wf_steps (ws : list wstep) : Prop :=
  forall i w d, nth_error ws i = Some w -> In d (w_deps w) -> d < i.

Lemma dep_ends_prefix pre post deps :
  (forall d, In d deps -> d < List.length pre) ->
  dep_ends (pre ++ post) deps = dep_ends pre deps.
Proof.
  intros H. unfold dep_ends. apply map_ext_in. intros d Hd. apply app_nth1. now apply H.
Qed.

Lemma run_from_inv ws : forall ps ends0 tr0 ends tr,
  List.length ps = List.length ws ->
  run_from ws ps ends0 tr0 = (ends, tr) ->
  (exists new, ends = ends0 ++ new /\ List.length new = List.length ws) /\
  (forall i, In i tr -> In i tr0 \/ List.length ends0 <= i) /\
  (forall k w p, nth_error ws k = Some w -> nth_error ps k = Some p ->
     (forall d, In d (w_deps w) -> d < List.length ends0 + k) ->
     let se := step_end (dep_ends ends (w_deps w)) p in
     nth_error ends (List.length ends0 + k) = Some (fst se) /\
     (In (List.length ends0 + k) tr -> snd se = true \/ In (List.length ends0 + k) tr0)).
Proof.
  induction ws as [|w wr IH]; intros ps ends0 tr0 ends tr Hlen H.
  - destruct ps; [|discriminate Hlen]. cbn in H; inversion H; subst.
    split; [exists []; now rewrite app_nil_r|]. split; [auto|].
    intros k w p Hk. destruct k; discriminate Hk.
  - destruct ps as [|p pr]; [discriminate Hlen|]. cbn [run_from] in H.
    destruct (step_end (dep_ends ends0 (w_deps w)) p) as [e inv] eqn:Ese.
    cbn [List.length] in Hlen. injection Hlen as Hlen.
    specialize (IH pr (ends0 ++ [e]) (if inv then tr0 ++ [List.length ends0] else tr0) ends tr Hlen H).
    destruct IH as ((new & -> & Hnew) & Htr & Hk).
    rewrite app_length in Htr, Hk. cbn [List.length] in Htr, Hk.
    split; [exists (e :: new); split; [now rewrite <- app_assoc|cbn; now rewrite Hnew]|].
    split.
    + intros i Hi. destruct (Htr i Hi) as [Hin|Hge]; [|right; lia].
      destruct inv; [|now left]. apply in_app_or in Hin as [Hin|[<-|[]]]; [now left|right; lia].
    + intros [|k] w' p' Hw Hp Hd; cbn in Hw, Hp.
      * inversion Hw; inversion Hp; subst w' p'. rewrite Nat.add_0_r in *.
        rewrite <- app_assoc. rewrite dep_ends_prefix by exact Hd. rewrite Ese. cbn [fst snd].
        split.
        -- rewrite nth_error_app2 by lia. now rewrite Nat.sub_diag.
        -- intros Hi. destruct (Htr _ Hi) as [Hin|Hge]; [|lia].
           destruct inv; [now left|now right].
      * specialize (Hk k w' p' Hw Hp).
        replace (List.length ends0 + 1 + k) with (List.length ends0 + S k) in Hk by lia.
        destruct (Hk Hd) as [Hn Hi]. split; [exact Hn|].
        intros Hin. destruct (Hi Hin) as [Ht|Ht]; [now left|].
        destruct inv; [|now right]. apply in_app_or in Ht as [Ht|[Ht|[]]]; [now right|lia].
Qed.

(* the end states and the invocation trace of a pass, step by step *)
Lemma run_steps_spec ws ps ends tr :
  wf_steps ws -> List.length ps = List.length ws ->
  run_steps ws ps = (ends, tr) ->
  List.length ends = List.length ws /\
  forall k w p, nth_error ws k = Some w -> nth_error ps k = Some p ->
    let se := step_end (dep_ends ends (w_deps w)) p in
    nth_error ends k = Some (fst se) /\ (In k tr -> snd se = true).
Proof.
  intros Hwf Hlen H. unfold run_steps in H.
  destruct (run_from_inv ws ps [] [] ends tr Hlen H) as ((new & -> & Hnew) & _ & Hk).
  split; [exact Hnew|]. intros k w p Hw Hp.
  destruct (Hk k w p Hw Hp) as [Hn Hi].
  { intros d Hd. cbn. eapply Hwf; eauto. }
  cbn in Hn, Hi |- *. split; [exact Hn|]. intros Hin. destruct (Hi Hin) as [?|[]]. assumption.
Qed.

Lemma nth_error_nth_default {A} (l : list A) k x d : nth_error l k = Some x -> nth k l d = x.
Proof. revert k; induction l; intros [|k]; cbn; intros H; try discriminate; [now inversion H|auto]. Qed.

(* dependents_not_run (direct dependency) *)
Lemma dependent_not_run ws ps ends tr i w j :
  wf_steps ws -> List.length ps = List.length ws ->
  run_steps ws ps = (ends, tr) ->
  nth_error ws i = Some w -> In j (w_deps w) ->
  end_ok (nth j ends Cancelled) = false ->
  ~ In i tr /\ end_ok (nth i ends Cancelled) = false.
Proof.
  intros Hwf Hlen H Hw Hj Hbad.
  destruct (run_steps_spec ws ps ends tr Hwf Hlen H) as (Hl & Hk).
  assert (exists p, nth_error ps i = Some p) as [p Hp].
  { destruct (nth_error ps i) eqn:E; [eauto|]. apply nth_error_None in E.
    assert (i < List.length ws) by (apply nth_error_Some; congruence). lia. }
  destruct (Hk i w p Hw Hp) as [Hn Hi].
  assert (snd (step_end (dep_ends ends (w_deps w)) p) = false) as Hs.
  { destruct (snd (step_end (dep_ends ends (w_deps w)) p)) eqn:E; [|reflexivity].
    apply step_end_invoked in E as (_ & Hall & _). rewrite Forall_forall in Hall.
    specialize (Hall (nth j ends Cancelled)). rewrite Hall in Hbad; [discriminate|].
    unfold dep_ends. apply in_map_iff. eauto. }
  split.
  - intros Hin. rewrite (Hi Hin) in Hs. discriminate.
  - rewrite (nth_error_nth_default _ _ _ Cancelled Hn). now apply step_end_not_invoked.
Qed.

(* i needs j, directly or through other steps *)
Inductive needs (ws : list wstep) : nat -> nat -> Prop :=
| needs_direct i w j : nth_error ws i = Some w -> In j (w_deps w) -> needs ws i j
| needs_trans i k j : needs ws i k -> needs ws k j -> needs ws i j.

Lemma dependents_not_run ws ps ends tr :
  wf_steps ws -> List.length ps = List.length ws ->
  run_steps ws ps = (ends, tr) ->
  forall i j, needs ws i j -> end_ok (nth j ends Cancelled) = false ->
  ~ In i tr /\ end_ok (nth i ends Cancelled) = false.
Proof.
  intros Hwf Hlen H i j Hn. induction Hn as [i w j Hw Hj|i k j _ IH1 _ IH2]; intros Hbad.
  - eapply dependent_not_run; eauto.
  - apply IH1. apply IH2. exact Hbad.
Qed.

(* an invoked step had all its dependencies Ok, and was not aborted *)
Lemma invoked_deps_ok ws ps ends tr i w :
  wf_steps ws -> List.length ps = List.length ws ->
  run_steps ws ps = (ends, tr) ->
  nth_error ws i = Some w -> In i tr ->
  forall j, In j (w_deps w) -> end_ok (nth j ends Cancelled) = true.
Proof.
  intros Hwf Hlen H Hw Hin j Hj.
  destruct (end_ok (nth j ends Cancelled)) eqn:E; [reflexivity|].
  destruct (dependent_not_run ws ps ends tr i w j Hwf Hlen H Hw Hj E) as [Hn _]. contradiction.
Qed.

(* pass_total for a whole pass under any plan *)
Lemma run_workflow_total ws ps : exists r, fst (run_workflow ws ps) = WDone r.
Proof.
  unfold run_workflow. destruct (run_steps ws ps) as [ends tr]. cbn [fst].
  apply reconcile_workflow_total.
Qed.

(* ---------- forEach ---------- *)

Lemma classify_all_spec ends outs :
  classify_all ends = WDone outs -> Forall2 (fun e o => classify e = WDone o) ends outs.
Proof.
  revert outs. induction ends as [|e er IH]; intros outs H; cbn in H.
  - inversion H. constructor.
  - destruct (classify e) as [o|] eqn:Ec; [|discriminate H].
    destruct (classify_all er) as [os|]; [|discriminate H]. inversion H; subst.
    constructor; [exact Ec|now apply IH].
Qed.

Lemma classify_all_total ends : exists outs, classify_all ends = WDone outs.
Proof.
  induction ends as [|e er [os IH]]; [eexists; reflexivity|]. cbn.
  destruct (classify_total e) as [o ->]. rewrite IH. eexists; reflexivity.
Qed.

Lemma error_part_raw os : Forall (fun o : outcome json => raw o = true) (error_part os).
Proof.
  unfold error_part. apply Forall_forall. intros o Hin. apply in_flat_map in Hin as (x & _ & Hx).
  destruct x as [v|[]]; cbn in Hx; try contradiction; destruct Hx as [<-|[]]; reflexivity.
Qed.

Lemma error_part_sev os o : In o (error_part os) -> 3 <= sev o.
Proof.
  unfold error_part. intros Hin. apply in_flat_map in Hin as (x & _ & Hx).
  destruct x as [v|[]]; cbn in Hx; try contradiction; destruct Hx as [<-|[]]; cbn; lia.
Qed.

Lemma foreach_total ends : exists o, foreach_result ends = WDone o.
Proof.
  unfold foreach_result. destruct (classify_all_total ends) as [outs ->].
  destruct (is_error _); eexists; reflexivity.
Qed.

(* a cancelled / crashed iteration makes the whole forEach step an error *)
Lemma foreach_fault_error ends e :
  In e ends -> is_fault_end e = true ->
  exists o, foreach_result ends = WDone (UOut o) /\ is_error o = true.
Proof.
  intros Hin Hf. unfold foreach_result.
  destruct (classify_all_total ends) as [outs Hc]. rewrite Hc.
  apply classify_all_spec in Hc.
  assert (exists d m l, In (UOut (Retry d m l)) outs) as (d & m & l & Ho).
  { induction Hc as [|e' o' er os Hc1 _ IH]; [contradiction|].
    destruct Hin as [->|Hin].
    - destruct (classify_fault e Hf) as [[_ Hc']|[_ Hc']]; rewrite Hc' in Hc1; inversion Hc1;
        do 3 eexists; left; reflexivity.
    - destruct (IH Hin) as (d & m & l & H). do 3 eexists. right. exact H. }
  assert (In (Retry d m l) (error_part outs)) as Hep.
  { unfold error_part. apply in_flat_map. eexists; split; [exact Ho|]. now left. }
  assert (error_part outs <> []) as Hne by (intros E; rewrite E in Hep; contradiction).
  pose proof (combine_class json (error_part outs) (error_part_raw outs) Hne) as Hs.
  pose proof (maxsev_ge json _ _ Hep) as Hge. cbn [sev] in Hge.
  assert (is_error (Outcome.combine (error_part outs)) = true) as He.
  { destruct (Outcome.combine (error_part outs)); cbn in *; try reflexivity; lia. }
  rewrite He. eexists; split; [reflexivity|exact He].
Qed.

(* ... and so does an iteration that reports Retry / PermFail itself *)
Lemma foreach_error_item ends r :
  In (Finished r) ends -> sres_error r = true ->
  exists o, foreach_result ends = WDone (UOut o) /\ is_error o = true.
Proof.
  intros Hin Hf. unfold foreach_result.
  destruct (classify_all_total ends) as [outs Hc]. rewrite Hc.
  apply classify_all_spec in Hc.
  assert (In r outs) as Ho.
  { induction Hc as [|e' o' er os Hc1 _ IH]; [contradiction|].
    destruct Hin as [->|Hin]; [cbn in Hc1; inversion Hc1; now left|right; auto]. }
  assert (exists x, In x (error_part outs)) as [x Hep].
  { destruct r as [v|[]]; try discriminate Hf; eexists; unfold error_part; apply in_flat_map;
      (eexists; split; [exact Ho|]); left; reflexivity. }
  assert (error_part outs <> []) as Hne by (intros E; rewrite E in Hep; contradiction).
  pose proof (combine_class json (error_part outs) (error_part_raw outs) Hne) as Hs.
  pose proof (maxsev_ge json _ _ Hep) as Hge. pose proof (error_part_sev _ _ Hep) as H3.
  assert (is_error (Outcome.combine (error_part outs)) = true) as He.
  { destruct (Outcome.combine (error_part outs)); cbn in *; try reflexivity; lia. }
  rewrite He. eexists; split; [reflexivity|exact He].
Qed.

(* a sub-workflow whose pass is not Ok hands its outcome to the parent step *)
Lemma subworkflow_not_ok r st :
  sres_ok (wr_overall r) = false -> subworkflow_result (WDone r) st = Finished (wr_overall r).
Proof. intros H. unfold subworkflow_result. now rewrite H. Qed.

(* ================================================================== *)
(* PART 2 — one ResourceFunction against a faulty API                  *)
(* ================================================================== *)

Lemma with_live_same s : with_live s (s_live s) = s.
Proof. destruct s; reflexivity. Qed.

Lemma with_live_live s v : s_live (with_live s v) = v.
Proof. reflexivity. Qed.

(* the call lists of a fault-free pass: nothing, the GET, or the GET and one mutation *)
Lemma rf_calls_shape s r calls :
  reconcile_rf s = (r, calls) ->
  calls = [] \/
  (exists pl ns nm, calls = [CGet pl ns nm]) \/
  (exists pl ns nm m, calls = [CGet pl ns nm; m] /\
     ((exists nsx p, m = CPost pl nsx p /\ s_live s = None) \/
      (exists nsx l, m = CDelete pl nsx nm /\ s_live s = Some l) \/
      (exists nsx p l, m = CPatch pl nsx nm p /\ s_live s = Some l))).
Proof.
  intros E. pose proof (rf_calls_sub s) as Hs. rewrite E in Hs. cbn [snd] in Hs.
  destruct Hs as [->| ->]; [now left|].
  unfold calls_of. pose proof (krm_has_shape s) as Hsh.
  destruct (reconcile_krm s) as [rk ck]. cbn [snd].
  inversion Hsh; subst; [now left|right; left; eauto|right; right..];
    do 4 eexists; (split; [reflexivity|]).
  - left. eauto.
  - right; left. eauto.
  - right; left. eauto.
  - right; right. eauto.
Qed.

Lemma get_view_sees f actual v :
  get_view f actual = VSees v -> v = actual \/ v = None.
Proof.
  destruct f as [|a|code a| |]; cbn; intros H; try discriminate H.
  - inversion H; now left.
  - destruct (code =? 404)%Z; [inversion H; now right|discriminate H].
Qed.

Definition cluster_after (s : scenario) (fp : fplan) : option json := snd (reconcile_rf_faulty s fp).
Definition result_of (s : scenario) (fp : fplan) : ffres := fst (fst (reconcile_rf_faulty s fp)).
Definition calls_made (s : scenario) (fp : fplan) : list call := snd (fst (reconcile_rf_faulty s fp)).

Lemma post_effect_exists c r f a obj : snd (post_effect c r f (Some a) obj) = Some a.
Proof. destruct f as [|[|]|code [|]| |]; cbn; try reflexivity; destruct (code =? 409)%Z; reflexivity. Qed.

Lemma post_effect_absent c r f obj :
  snd (post_effect c r f None obj) = None \/ snd (post_effect c r f None obj) = Some obj.
Proof. destruct f as [|[|]|code [|]| |]; cbn; auto. Qed.

Lemma mut_effect_cases r f a m :
  snd (mut_effect r f (Some a) m) = Some a \/ snd (mut_effect r f (Some a) m) = apply_call (Some a) m.
Proof. destruct f as [|[|]|code [|]| |]; cbn; auto. Qed.

(* every cluster content a faulty pass can leave is the content before the
   pass or the content the fault-free pass would have produced: each call is
   applied fully or not at all, and a pass makes at most one mutating call *)
Lemma faulty_state_cases s fp :
  cluster_after s fp = s_live s \/ cluster_after s fp = snd (pass_ok s).
Proof.
  unfold cluster_after, reconcile_rf_faulty, pass_ok.
  destruct (reconcile_rf s) as [r0 calls0] eqn:E0.
  destruct calls0 as [|g rest0]; [now left|].
  destruct (get_view (fp_get fp) (s_live s)) as [v| | |] eqn:Ev; try (now left).
  apply get_view_sees in Ev.
  assert (v = s_live s \/ (v = None /\ exists a, s_live s = Some a)) as [->|[-> [a Ha]]].
  { destruct Ev as [->| ->]; [now left|]. destruct (s_live s) eqn:El; [right; eauto|now left]. }
  - rewrite with_live_same, E0.
    destruct (rf_calls_shape s r0 _ E0) as [H|[(pl & ns & nm & H)|(pl & ns & nm & m & H & Hm)]];
      try discriminate H; inversion H; subst; [now left|].
    destruct Hm as [(nsx & p & -> & Hl)|[(nsx & l & -> & Hl)|(nsx & p & l & -> & Hl)]]; rewrite Hl.
    + destruct (post_effect (s_cfg s) r0 (fp_mut fp) None (body p)) as [fr after] eqn:Ep.
      pose proof (post_effect_absent (s_cfg s) r0 (fp_mut fp) (body p)) as Hc. rewrite Ep in Hc.
      cbn [snd apply_calls fold_left apply_call] in *. destruct Hc as [->| ->]; auto.
    + destruct (mut_effect r0 (fp_mut fp) (Some l) (CDelete pl nsx nm)) as [fr after] eqn:Ep.
      pose proof (mut_effect_cases r0 (fp_mut fp) l (CDelete pl nsx nm)) as Hc. rewrite Ep in Hc.
      cbn [snd apply_calls fold_left apply_call] in *. destruct Hc as [->| ->]; auto.
    + destruct (mut_effect r0 (fp_mut fp) (Some l) (CPatch pl nsx nm p)) as [fr after] eqn:Ep.
      pose proof (mut_effect_cases r0 (fp_mut fp) l (CPatch pl nsx nm p)) as Hc. rewrite Ep in Hc.
      cbn [snd apply_calls fold_left apply_call] in *. destruct Hc as [->| ->]; auto.
  - (* the GET was answered 404 although the object exists: a POST follows and is refused *)
    destruct (reconcile_rf (with_live s None)) as [r calls] eqn:E1.
    destruct (rf_calls_shape _ r calls E1) as [->|[(pl & ns & nm & ->)|(pl & ns & nm & m & -> & Hm)]];
      try (now left).
    rewrite with_live_live in Hm.
    destruct Hm as [(nsx & p & -> & _)|[(nsx & l & _ & Hl)|(nsx & p & l & _ & Hl)]]; try discriminate Hl.
    rewrite Ha.
    destruct (post_effect (s_cfg s) r (fp_mut fp) (Some a) (body p)) as [fr after] eqn:Ep.
    pose proof (post_effect_exists (s_cfg s) r (fp_mut fp) a (body p)) as Hc. rewrite Ep in Hc.
    cbn [snd] in *. left. exact Hc.
Qed.

(* "an exception / HTTP error BEFORE the effect leaves the cluster unchanged" *)
Definition before_fault (f : fault) : bool :=
  match f with FExc false | FSrv _ false | FHang | FCancelled => true | _ => false end.
(* "an exception AFTER the effect" *)
Definition after_fault (f : fault) : bool :=
  match f with FExc true | FSrv _ true => true | _ => false end.

Lemma fault_before_unchanged s fp :
  before_fault (fp_mut fp) = true -> cluster_after s fp = s_live s.
Proof.
  intros Hb. unfold cluster_after, reconcile_rf_faulty.
  destruct (reconcile_rf s) as [r0 calls0] eqn:E0.
  destruct calls0 as [|g rest0]; [reflexivity|].
  destruct (get_view (fp_get fp) (s_live s)) as [v| | |] eqn:Ev; try reflexivity.
  destruct (reconcile_rf (with_live s v)) as [r calls] eqn:E1.
  destruct calls as [|g' [|m rest]]; try reflexivity.
  destruct m; destruct (fp_mut fp) as [|[|]|code [|]| |]; try discriminate Hb; cbn; try reflexivity;
    destruct (code =? 409)%Z; reflexivity.
Qed.

(* any fault on the GET alone: nothing is mutated unless the pass goes on to
   a mutation (only after a 404, i.e. "absent") *)
Lemma get_fault_unchanged s fp :
  (forall a, fp_get fp <> FSrv 404 a) -> fp_get fp <> FNone -> cluster_after s fp = s_live s.
Proof.
  intros H404 Hn. unfold cluster_after, reconcile_rf_faulty.
  destruct (reconcile_rf s) as [r0 calls0] eqn:E0.
  destruct calls0 as [|g rest0]; [reflexivity|].
  destruct (fp_get fp) as [|a|code a| |] eqn:Eg; cbn; try reflexivity; [congruence|].
  destruct (code =? 404)%Z eqn:Ec; [|reflexivity].
  apply Z.eqb_eq in Ec. subst. exfalso. eapply H404. reflexivity.
Qed.

(* "an exception after the effect = the effect happened": the cluster is
   exactly where the fault-free pass would have left it *)
Lemma fault_after_applied s fp :
  fp_get fp = FNone -> after_fault (fp_mut fp) = true ->
  cluster_after s fp = snd (pass_ok s).
Proof.
  intros Hg Ha. unfold cluster_after, reconcile_rf_faulty, pass_ok.
  destruct (reconcile_rf s) as [r0 calls0] eqn:E0.
  destruct calls0 as [|g rest0]; [reflexivity|].
  rewrite Hg. cbn [get_view]. rewrite with_live_same, E0.
  destruct (rf_calls_shape s r0 _ E0) as [H|[(pl & ns & nm & H)|(pl & ns & nm & m & H & Hm)]];
    try discriminate H; inversion H; subst; [reflexivity|].
  destruct Hm as [(nsx & p & -> & Hl)|[(nsx & l & -> & Hl)|(nsx & p & l & -> & Hl)]]; rewrite Hl;
    destruct (fp_mut fp) as [|[|]|code [|]| |]; try discriminate Ha; reflexivity.
Qed.

(* a fault-free plan is the fault-free pass *)
Lemma no_fault_same s :
  reconcile_rf_faulty s {| fp_get := FNone; fp_mut := FNone |} =
  (FRes (fst (reconcile_rf s)), snd (reconcile_rf s), snd (pass_ok s)).
Proof.
  unfold reconcile_rf_faulty, pass_ok. cbn [fp_get fp_mut get_view].
  destruct (reconcile_rf s) as [r0 calls0] eqn:E0. cbn [fst snd].
  destruct calls0 as [|g rest0]; [reflexivity|].
  rewrite with_live_same, E0.
  destruct (rf_calls_shape s r0 _ E0) as [H|[(pl & ns & nm & H)|(pl & ns & nm & m & H & Hm)]];
    try discriminate H; inversion H; subst; [reflexivity|].
  destruct Hm as [(nsx & p & -> & Hl)|[(nsx & l & -> & Hl)|(nsx & p & l & -> & Hl)]]; rewrite Hl;
    reflexivity.
Qed.

(* ---------- the result of a pass that hit a fault ---------- *)

Definition is_fault_error (r : ffres) : bool :=
  match r with
  | FRes (FStop (StopRetry _ _)) | FRes (FStop (StopPermFail _)) | FRes FRaise
  | FHung | FCancelRaised => true
  | _ => false
  end.

Lemma post_effect_fault_error c r f actual obj :
  f <> FNone -> is_fault_error (fst (post_effect c r f actual obj)) = true.
Proof.
  intros Hf. destruct f as [|[|]|code [|]| |]; try congruence; destruct actual; cbn;
    try reflexivity; destruct (code =? 409)%Z; reflexivity.
Qed.

Lemma mut_effect_fault_error r f actual m :
  f <> FNone -> is_fault_error (fst (mut_effect r f actual m)) = true.
Proof.
  intros Hf. destruct f as [|[|]|code [|]| |]; try congruence; destruct actual; reflexivity.
Qed.

(* a pass that consumed a fault never returns a value (or a skip): it is Retry,
   PermFail, an escaping exception, or stuck — the one exception being a 404
   on the GET, which IS the API's way of saying "absent" *)
Lemma fault_is_error s fp :
  fault_fired s fp = true -> (forall a, fp_get fp <> FSrv 404 a) ->
  is_fault_error (result_of s fp) = true.
Proof.
  unfold fault_fired, result_of, reconcile_rf_faulty. intros Hf H404.
  destruct (reconcile_rf s) as [r0 calls0] eqn:E0.
  destruct calls0 as [|g rest0]; [discriminate Hf|].
  destruct (fp_get fp) as [|a|code a| |] eqn:Eg; cbn [get_view] in *; try reflexivity.
  - rewrite with_live_same, E0 in *.
    destruct (rf_calls_shape s r0 _ E0) as [H|[(pl & ns & nm & H)|(pl & ns & nm & m & H & Hm)]];
      try discriminate H; inversion H; subst; [discriminate Hf|].
    assert (fp_mut fp <> FNone) as Hm'.
    { intros E. destruct Hm as [(nsx & p & -> & _)|[(nsx & l & -> & _)|(nsx & p & l & -> & _)]];
        [destruct (post_effect _ _ _ _ _)|destruct (mut_effect _ _ _ _)..]; cbn in Hf; rewrite E in Hf;
        discriminate Hf. }
    destruct Hm as [(nsx & p & -> & _)|[(nsx & l & -> & _)|(nsx & p & l & -> & _)]].
    + pose proof (post_effect_fault_error (s_cfg s) r0 _ (s_live s) (body p) Hm') as He.
      destruct (post_effect _ _ _ _ _); exact He.
    + pose proof (mut_effect_fault_error r0 _ (s_live s) (CDelete pl nsx nm) Hm') as He.
      destruct (mut_effect _ _ _ _); exact He.
    + pose proof (mut_effect_fault_error r0 _ (s_live s) (CPatch pl nsx nm p) Hm') as He.
      destruct (mut_effect _ _ _ _); exact He.
  - destruct (code =? 404)%Z eqn:Ec; [|reflexivity].
    apply Z.eqb_eq in Ec. subst. exfalso. eapply H404. reflexivity.
Qed.

(* ... and the workflow layer reports such a step as Retry or PermFail *)
Lemma fault_error_classified r :
  is_fault_error r = true ->
  exists o, classify (tend_of r) = WDone (UOut o) /\ is_error o = true.
Proof.
  destruct r as [[[t|d t|t|t]|v|]| |]; cbn; intros H; try discriminate H;
    try (eexists; split; reflexivity);
    try (destruct v; discriminate H).
Qed.

(* ---------- several passes ---------- *)

Lemma state_after_add s mf n k c :
  state_after s mf n (state_after s mf k c) = state_after s mf (k + n) c.
Proof. revert c; induction k as [|k IH]; intros c; cbn; [reflexivity|apply IH]. Qed.

Lemma faulty_pass_at_cases s mf fp c :
  snd (faulty_pass_at s mf fp c) = c \/ snd (faulty_pass_at s mf fp c) = state_after s mf 1 c.
Proof.
  unfold faulty_pass_at. cbn [state_after]. unfold pass_at.
  pose proof (faulty_state_cases (at_state s mf c) fp) as H. unfold cluster_after in H.
  destruct (reconcile_rf_faulty (at_state s mf c) fp) as [[r calls] c']. cbn [snd] in *. exact H.
Qed.

(* after any prefix of passes in which faults occur the cluster is ON the
   trajectory of the run that never saw a fault, not further than one step per pass *)
Lemma faulty_prefix_on_trajectory s mf fps : forall c,
  exists k, k <= List.length fps /\ faulty_prefix s mf fps c = state_after s mf k c.
Proof.
  induction fps as [|fp r IH]; intros c; [exists 0; split; [lia|reflexivity]|].
  cbn [faulty_prefix List.length].
  destruct (faulty_pass_at_cases s mf fp c) as [->| ->].
  - destruct (IH c) as (k & Hk & ->). exists k. split; [lia|reflexivity].
  - destruct (IH (state_after s mf 1 c)) as (k & Hk & ->). exists (S k). split; [lia|].
    rewrite state_after_add. reflexivity.
Qed.

(* the fault-free run from c0 is quiescent from pass N on: content c*, result r* *)
Definition quiescent (s : scenario) (mf : option json -> bool) (c0 : option json) (N : nat)
           (cstar : option json) (rstar : fres) : Prop :=
  forall n, N <= n -> state_after s mf n c0 = cstar /\ result_at s mf n c0 = rstar.

(* recover_rf_partial *)
Lemma recover_rf s mf c0 N cstar rstar :
  quiescent s mf c0 N cstar rstar ->
  forall fps n, N <= n ->
    state_after s mf n (faulty_prefix s mf fps c0) = cstar /\
    result_at s mf n (faulty_prefix s mf fps c0) = rstar.
Proof.
  intros Hq fps n Hn. destruct (faulty_prefix_on_trajectory s mf fps c0) as (k & _ & ->).
  unfold result_at. rewrite state_after_add. apply (Hq (k + n)). lia.
Qed.

Lemma fixpoint_forever s mf c :
  snd (pass_at s mf c) = c -> forall n, state_after s mf n c = c.
Proof. intros H n. induction n as [|n IH]; cbn; [reflexivity|]. now rewrite H. Qed.

Lemma quiescent_from_fixpoint s mf c0 N :
  snd (pass_at s mf (state_after s mf N c0)) = state_after s mf N c0 ->
  quiescent s mf c0 N (state_after s mf N c0) (fst (pass_at s mf (state_after s mf N c0))).
Proof.
  intros Hfix n Hn. replace n with (N + (n - N)) by lia.
  unfold result_at. rewrite <- state_after_add. rewrite (fixpoint_forever s mf _ Hfix). split; reflexivity.
Qed.

(* C04's met_no_mutation, re-proved here for the fault model: an object that
   meets the target (comparator says match) and carries the owner reference is
   left alone, so it is a fixpoint of fault-free reconciliation *)
Lemma met_is_fixpoint s mf l :
  c_delete_if_exists (s_cfg s) = false ->
  mf (Some l) = true -> owner_ok s l = true ->
  snd (pass_at s mf (Some l)) = Some l.
Proof.
  intros Hd Hm Ho. unfold pass_at, pass_ok.
  destruct (reconcile_rf (at_state s mf (Some l))) as [r calls] eqn:E.
  cbn [s_live at_state snd].
  destruct (rf_calls_shape _ r calls E) as [->|[(pl & ns & nm & ->)|(pl & ns & nm & m & -> & Hx)]];
    try reflexivity.
  exfalso.
  (* a second call would need: no match, or no owner reference *)
  unfold reconcile_rf in E. cbn [at_state s_pre s_locals_err s_post s_return] in E.
  destruct (s_pre s); [inversion E|]. destruct (s_locals_err s); [inversion E|].
  assert (snd (reconcile_krm (at_state s mf (Some l))) = [CGet pl ns nm; m]) as Hk.
  { destruct (reconcile_krm (at_state s mf (Some l))) as [[st|o|] ck]; cbn [snd];
      [inversion E; reflexivity| |inversion E; reflexivity].
    destruct (s_post s); inversion E; reflexivity. }
  clear E. unfold reconcile_krm in Hk. cbn [at_state s_cfg s_name s_lookup s_live s_match s_owner_ns s_owner_ref] in Hk.
  unfold owner_ok in Ho.
  destruct (s_name s) as [| | |name nsv]; try discriminate Hk.
  destruct ((match nsv with None => true | Some _ => false end) && c_namespaced (s_cfg s)); [discriminate Hk|].
  destruct (match c_plural (s_cfg s) with Some p => Some p | None => s_lookup s end); [|discriminate Hk].
  rewrite Hd in Hk.
  destruct (c_readonly (s_cfg s)); [discriminate Hk|].
  match type of Hk with context [materialize ?a ?b] => destruct (materialize a b) end; [|discriminate Hk].
  rewrite Hm in Hk. cbn [andb] in Hk.
  destruct (c_owned (s_cfg s) && opt_str_eqb (s_owner_ns s) nsv); [rewrite Ho in Hk|]; discriminate Hk.
Qed.

(* recovery, explicit form: if the fault-free run from c0 reaches, after N
   passes, an object that meets the target (C04: N = 1 for update policy
   `patch` from every start, N = 1 for a creation), then after ANY prefix of
   faulty passes every run of at least N further fault-free passes ends at that
   same object with that same result *)
Lemma recover_rf_met s mf c0 N l :
  c_delete_if_exists (s_cfg s) = false ->
  state_after s mf N c0 = Some l -> mf (Some l) = true -> owner_ok s l = true ->
  forall fps n, N <= n ->
    state_after s mf n (faulty_prefix s mf fps c0) = Some l /\
    result_at s mf n (faulty_prefix s mf fps c0) = fst (pass_at s mf (Some l)).
Proof.
  intros Hd Hs Hm Ho fps n Hn.
  pose proof (met_is_fixpoint s mf l Hd Hm Ho) as Hfix.
  pose proof (quiescent_from_fixpoint s mf c0 N) as Hq. rewrite Hs in Hq.
  exact (recover_rf s mf c0 N (Some l) _ (Hq Hfix) fps n Hn).
Qed.
