(* RfFaults_proofs.v — the management-mode bounds (C07) hold under EVERY answer of the API to the
   read and to the write, and the faulted model refines the fault-free one. *)
From Koreo Require Import Json Payload ResourceFn ResourceFn_proofs RfFaults.
From Coq Require Import Lia Bool.
Local Open Scope list_scope.

Lemma faultfree (s : scenario) : reconcile_krm_f s AOk AOk = reconcile_krm s.
Proof.
  unfold reconcile_krm_f, seen. cbn [get_fails].
  destruct (reconcile_krm s) as [r [|g [|m [|x l]]]] eqn:E; reflexivity.
Qed.

Lemma faultfree_rf (s : scenario) : reconcile_rf_f s AOk AOk = reconcile_rf s.
Proof. unfold reconcile_rf_f, reconcile_rf. now rewrite faultfree. Qed.

Lemma seen_cfg s a : s_cfg (seen s a) = s_cfg s.
Proof. destruct a; reflexivity. Qed.

(* the calls of a faulted pass: none, only the read, or the fault-free calls of the scenario as
   the code saw it after the read *)
Lemma calls_f_cases (s : scenario) (ag am : answer) :
  calls_f s ag am = [] \/
  (exists p ns n, calls_f s ag am = [CGet p ns n]) \/
  calls_f s ag am = calls_of (seen s ag).
Proof.
  unfold calls_f, reconcile_krm_f, calls_of.
  pose proof (krm_has_shape s) as Hs.
  destruct (reconcile_krm s) as [r calls]. inversion Hs; subst; clear Hs; cbn [snd];
    try (left; reflexivity);
    (destruct (get_fails ag); [right; left; eexists; eexists; eexists; reflexivity|]);
    right; right;
    pose proof (krm_has_shape (seen s ag)) as Hs';
    destruct (reconcile_krm (seen s ag)) as [r' calls']; inversion Hs'; subst; reflexivity.
Qed.

Ltac by_cases s ag am L :=
  destruct (calls_f_cases s ag am) as [E|[[p [ns [n E]]]|E]]; rewrite E;
  [ cbn; auto | cbn; auto | apply L; rewrite ?seen_cfg; assumption ].

Lemma f_readonly_no_create_no_patch s ag am :
  c_readonly (s_cfg s) = true ->
  existsb is_post (calls_f s ag am) = false /\ existsb is_patch (calls_f s ag am) = false.
Proof. intros H. by_cases s ag am readonly_no_create_no_patch. Qed.

Lemma f_readonly_no_mutation_unless_die s ag am :
  c_readonly (s_cfg s) = true -> c_delete_if_exists (s_cfg s) = false ->
  filter is_mutation (calls_f s ag am) = [].
Proof.
  intros H1 H2. destruct (calls_f_cases s ag am) as [E|[[p [ns [n E]]]|E]]; rewrite E; try reflexivity.
  apply readonly_no_mutation_unless_die; rewrite seen_cfg; assumption.
Qed.

Lemma f_create_disabled_no_post s ag am :
  c_create_enabled (s_cfg s) = false -> existsb is_post (calls_f s ag am) = false.
Proof. intros H. by_cases s ag am create_disabled_no_post. Qed.

Lemma f_never_no_patch_no_delete s ag am :
  c_update (s_cfg s) = UNever -> c_delete_if_exists (s_cfg s) = false ->
  existsb is_patch (calls_f s ag am) = false /\ existsb is_delete (calls_f s ag am) = false.
Proof.
  intros H1 H2. destruct (calls_f_cases s ag am) as [E|[[p [ns [n E]]]|E]]; rewrite E; try (split; reflexivity).
  apply never_no_patch_no_delete; rewrite seen_cfg; assumption.
Qed.

Lemma f_patch_policy_no_delete s ag am d :
  c_update (s_cfg s) = UPatch d -> c_delete_if_exists (s_cfg s) = false ->
  existsb is_delete (calls_f s ag am) = false.
Proof.
  intros H1 H2. destruct (calls_f_cases s ag am) as [E|[[p [ns [n E]]]|E]]; rewrite E; try reflexivity.
  apply (patch_policy_no_delete _ d); rewrite seen_cfg; assumption.
Qed.

Lemma f_recreate_policy_no_patch s ag am d :
  c_update (s_cfg s) = URecreate d -> existsb is_patch (calls_f s ag am) = false.
Proof.
  intros H1. destruct (calls_f_cases s ag am) as [E|[[p [ns [n E]]]|E]]; rewrite E; try reflexivity.
  apply (recreate_policy_no_patch _ d); rewrite seen_cfg; assumption.
Qed.

Lemma f_delete_if_exists_only_deletes s ag am :
  c_delete_if_exists (s_cfg s) = true ->
  existsb is_post (calls_f s ag am) = false /\ existsb is_patch (calls_f s ag am) = false.
Proof. intros H. by_cases s ag am delete_if_exists_only_deletes. Qed.

Lemma f_at_most_one_mutation s ag am :
  (List.length (filter is_mutation (calls_f s ag am)) <= 1)%nat.
Proof.
  destruct (calls_f_cases s ag am) as [E|[[p [ns [n E]]]|E]]; rewrite E; cbn; try lia.
  apply at_most_one_mutation.
Qed.

(* what stops reconcile_krm before the read: does not depend on the cluster *)
Definition pre_read (s : scenario) : option kres :=
  match s_name s with
  | NameErr => Some (KStop (StopPermFail "spec.apiConfig.name"))
  | NameNull => Some (KStop (StopPermFail "spec.apiConfig.name<null>"))
  | NameBad => Some (KStop (StopPermFail "spec.apiConfig.name<type>"))
  | NameOk name ns =>
      if (match ns with None => true | Some _ => false end) && c_namespaced (s_cfg s)
      then Some (KStop (StopPermFail "spec.apiConfig.namespace"))
      else match (match c_plural (s_cfg s) with Some p => Some p | None => s_lookup s end) with
           | None => Some (KStop (StopPermFail "spec.apiConfig.plural"))
           | Some _ => None
           end
  end.

Lemma pre_read_some s r : pre_read s = Some r -> reconcile_krm s = (r, []).
Proof.
  unfold pre_read, reconcile_krm.
  destruct (s_name s) as [| | |name ns]; try (intros [= <-]; reflexivity).
  destruct (_ && c_namespaced (s_cfg s)); try (intros [= <-]; reflexivity).
  destruct (match c_plural (s_cfg s) with Some p => Some p | None => s_lookup s end);
    [discriminate|intros [= <-]; reflexivity].
Qed.

Lemma first_call_is_get s r g rest :
  reconcile_krm s = (r, g :: rest) -> exists p ns n, g = CGet p ns n.
Proof.
  intros E. pose proof (krm_has_shape s) as Hs. rewrite E in Hs.
  inversion Hs; subst; eexists; eexists; eexists; reflexivity.
Qed.

Lemma pre_read_none s : pre_read s = None -> snd (reconcile_krm s) <> [].
Proof.
  unfold pre_read, reconcile_krm.
  destruct (s_name s) as [| | |name ns]; try discriminate.
  destruct (_ && c_namespaced (s_cfg s)); try discriminate.
  destruct (match c_plural (s_cfg s) with Some p => Some p | None => s_lookup s end) as [plural|];
    [intros _|discriminate].
  destruct (c_delete_if_exists (s_cfg s)); [destruct (s_live s); discriminate|].
  destruct (s_live s) as [live|].
  - destruct (c_readonly (s_cfg s)); [discriminate|].
    destruct (materialize s _); [|discriminate].
    destruct (s_match s && _); [discriminate|].
    destruct (c_update (s_cfg s)); try discriminate.
    repeat match goal with
           | |- context [match ?x with _ => _ end] => destruct x
           end; discriminate.
  - destruct (c_readonly (s_cfg s) || negb (c_create_enabled (s_cfg s))); [discriminate|].
    destruct (materialize s _); [|discriminate].
    destruct (create_resource _ _ _ _ _); discriminate.
Qed.

Lemma no_call_indep_live s l :
  snd (reconcile_krm s) = [] -> reconcile_krm (set_live s l) = reconcile_krm s.
Proof.
  intros H. destruct (pre_read s) as [r|] eqn:E.
  - rewrite (pre_read_some s r E). apply pre_read_some. exact E.
  - exfalso. exact (pre_read_none s E H).
Qed.

Lemma no_mut_passthrough s' c am :
  filter is_mutation (calls_of s') = [] ->
  match reconcile_krm s' with
  | (r, [g'; m]) => (mut_result c r m am, [g'; m])
  | other => other
  end = reconcile_krm s'.
Proof.
  unfold calls_of. intros Hm. pose proof (krm_has_shape s') as Hs.
  destruct (reconcile_krm s') as [r calls]. inversion Hs; subst; cbn [snd filter is_mutation] in Hm;
    try discriminate Hm; reflexivity.
Qed.

(* the object is absent — or the read SAYS it is — and the function is readonly or may not
   create: no mutating call, and never an object or a value *)
Lemma f_absent_cannot_create s ag am :
  s_live (seen s ag) = None -> c_delete_if_exists (s_cfg s) = false ->
  c_readonly (s_cfg s) || negb (c_create_enabled (s_cfg s)) = true ->
  filter is_mutation (calls_f s ag am) = [] /\
  exists st, fst (reconcile_krm_f s ag am) = KStop st /\
             match st with
             | StopRetry d _ => d = DEFAULT_LOAD_RETRY_DELAY
             | StopPermFail _ => calls_f s ag am = []
             | _ => False
             end.
Proof.
  intros Hl Hd Hc.
  assert (Habs := absent_cannot_create (seen s ag) Hl).
  rewrite seen_cfg in Habs. destruct (Habs Hd Hc) as [Hm [st [Hst Hk]]]. clear Habs.
  unfold calls_f, reconcile_krm_f.
  destruct (reconcile_krm s) as [r [|g rest]] eqn:E.
  - assert (E' : reconcile_krm (seen s ag) = (r, [])).
    { destruct ag; cbn [seen]; try exact E.
      rewrite no_call_indep_live; [exact E|now rewrite E]. }
    unfold calls_of in Hm. rewrite E' in *. cbn [fst snd] in *. split; [reflexivity|].
    exists st. split; [exact Hst|]. destruct st; auto.
  - destruct (first_call_is_get _ _ _ _ E) as [p [ns [n ->]]].
    destruct (get_fails ag).
    + cbn [fst snd filter is_mutation]. split; [reflexivity|]. eexists. split; reflexivity.
    + rewrite (no_mut_passthrough _ _ _ Hm). split; [exact Hm|].
      exists st. split; [exact Hst|]. destruct st; auto.
Qed.

(* preconditions that do not pass: no API call at all, whatever the API would answer *)
Lemma f_precondition_stop_no_calls s st ag am :
  s_pre s = Some st -> reconcile_rf_f s ag am = (FStop st, []).
Proof. unfold reconcile_rf_f. intros ->. reflexivity. Qed.

Lemma f_rf_calls_sub s ag am :
  snd (reconcile_rf_f s ag am) = [] \/ snd (reconcile_rf_f s ag am) = calls_f s ag am.
Proof.
  unfold reconcile_rf_f, calls_f. destruct (s_pre s); [left; reflexivity|].
  destruct (s_locals_err s); [left; reflexivity|].
  destruct (reconcile_krm_f s ag am) as [[st|o|] calls]; cbn [snd]; try (right; reflexivity).
  destruct (s_post s); right; reflexivity.
Qed.

(* a failed write never looks like a success: the result is a stop outcome or an exception *)
Lemma f_failed_write_is_not_ok s ag am :
  am <> AOk -> filter is_mutation (calls_f s ag am) <> [] ->
  match fst (reconcile_krm_f s ag am) with KObj _ => False | _ => True end.
Proof.
  intros Ha Hm. unfold calls_f, reconcile_krm_f in *.
  pose proof (krm_has_shape s) as Hs.
  destruct (reconcile_krm s) as [r calls]. inversion Hs; subst; clear Hs; cbn [fst snd] in *;
    try (exfalso; apply Hm; reflexivity);
    (destruct (get_fails ag); [exact I|]);
    pose proof (krm_has_shape (seen s ag)) as Hs';
    destruct (reconcile_krm (seen s ag)) as [r' calls']; inversion Hs'; subst; clear Hs';
    cbn [fst snd filter is_mutation] in *; try (exfalso; apply Hm; reflexivity);
    destruct am; try (exfalso; apply Ha; reflexivity); exact I.
Qed.

(* every call of a faulted pass is a call of the fault-free pass on the scenario itself or on the
   scenario as seen after the read: what the fault-free theorems say about each call carries over *)
Lemma calls_f_incl (s : scenario) (ag am : answer) (c : call) :
  In c (calls_f s ag am) -> In c (calls_of s) \/ In c (calls_of (seen s ag)).
Proof.
  unfold calls_f, reconcile_krm_f, calls_of.
  destruct (reconcile_krm s) as [r [|g rest]] eqn:E; cbn [snd]; [intros []|].
  destruct (get_fails ag).
  - cbn [snd]. intros [<-|[]]. left. left. reflexivity.
  - intros H. right.
    destruct (reconcile_krm (seen s ag)) as [r' [|g' [|m [|x l]]]]; exact H.
Qed.
