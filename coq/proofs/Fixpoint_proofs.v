(* Fixpoint_proofs.v — C04 (and C05's "after a patch the object meets the
   target again"): an object that contains what was sent for a well-formed
   target matches it; RFC 7386 merge-patch of the payload produces such an
   object; matching is stable under server-side decoration; the dispatch tail
   does not mutate at the fixpoint and a second pass after a patch is quiet. *)
From Koreo Require Import Json Payload Validate Validate_proofs.
From Coq Require Import Lia.
Local Open Scope list_scope.
Local Open Scope nat_scope.

Arguments is_directive : simpl never.
Arguments dyadic_eqb : simpl never.

(* ------------------------------------------------------------------ *)
(* scalars                                                             *)
(* ------------------------------------------------------------------ *)

Lemma dyadic_eqb_refl x : dyadic_eqb x x = true.
Proof.
  destruct x as [m e]. unfold dyadic_eqb. rewrite Z.min_id, Z.sub_diag. apply Z.eqb_refl.
Qed.

Lemma py_eq_scalar_refl t : is_container t = false -> py_eq t t = true.
Proof.
  destruct t; cbn; intros H; try discriminate H; try reflexivity.
  - apply dyadic_eqb_refl.
  - apply dyadic_eqb_refl.
  - apply dyadic_eqb_refl.
  - apply String.eqb_refl.
Qed.

Lemma set_elem_eq_refl t : is_container t = false -> set_elem_eq t t = true.
Proof.
  intros C. destruct t; try discriminate C; cbn; try apply dyadic_eqb_refl; auto.
  - apply Bool.eqb_reflx.
  - apply String.eqb_refl.
Qed.

Lemma vmatch_scalar_refl n t la s : is_container t = false -> vmatch_f n t t la s = O_match.
Proof.
  intros C. pose proof (py_eq_scalar_refl t C) as E.
  destruct t; try discriminate C; destruct n; cbn in *; try reflexivity;
    try (rewrite E; reflexivity).
  - rewrite Bool.eqb_reflx. reflexivity.
  - rewrite Bool.eqb_reflx. reflexivity.
Qed.

Lemma sup_scalar_inv t x : is_container t = false -> sup t x -> x = t.
Proof. intros C H. inversion H; subst; auto; discriminate C. Qed.

(* ------------------------------------------------------------------ *)
(* depth                                                               *)
(* ------------------------------------------------------------------ *)

Fixpoint kvs_depth (l : list (string * json)) : nat :=
  match l with
  | [] => O
  | (_, v) :: r => Nat.max (jdepth v) (kvs_depth r)
  end.

Lemma jdepth_map kvs : jdepth (JMap kvs) = S (kvs_depth kvs).
Proof.
  cbn. reflexivity.
Qed.

Lemma jdepth_list l : jdepth (JList l) = S (fold_right (fun x m => Nat.max (jdepth x) m) O l).
Proof. reflexivity. Qed.

Lemma jdepth_in_map k v kvs : In (k, v) kvs -> jdepth v < jdepth (JMap kvs).
Proof.
  rewrite jdepth_map. induction kvs as [|[k' v'] r IH]; cbn; [tauto|].
  intros [E|I]; [inversion E; subst; lia | specialize (IH I); lia].
Qed.

Lemma jdepth_in_list x l : In x l -> jdepth x < jdepth (JList l).
Proof.
  rewrite jdepth_list. induction l as [|y r IH]; cbn; [tauto|].
  intros [E|I]; [subst; lia | specialize (IH I); lia].
Qed.

Lemma jdepth_map_le kvs d :
  (forall k v, In (k, v) kvs -> jdepth v < d) -> 0 < d -> jdepth (JMap kvs) <= d.
Proof.
  rewrite jdepth_map. intros A P.
  assert (kvs_depth kvs < d); [|lia].
  induction kvs as [|[k v] r IH]; cbn; [lia|].
  assert (jdepth v < d) by (eapply A; left; eauto).
  assert (kvs_depth r < d) by (apply IH; intros; eapply A; right; eauto). lia.
Qed.

(* ------------------------------------------------------------------ *)
(* good targets                                                        *)
(* ------------------------------------------------------------------ *)

Definition set_ok (t : json) : Prop :=
  match t with JList xs => forallb hashable xs = true | _ => True end.

Definition key_good (sk : list string) (cfg : list (string * list json)) (k : string) (v : json) : bool :=
  if plain_key k then
    match lookup k cfg with
    | Some fields =>
        match v with
        | JList objs => forallb (fun o => elem_ok fields o && good o) objs
        | _ => false
        end
    | None =>
        (if mem_str k sk
         then match v with JList xs => forallb hashable xs | _ => true end
         else true) && good v
    end
  else true.

Lemma good_map_eq tk :
  good (JMap tk) =
  nodup_str (map fst tk) &&
  match dirs_of tk with
  | None => false
  | Some (sk, _, cfg) => forallb (fun kv => key_good sk cfg (fst kv) (snd kv)) tk
  end.
Proof.
  cbn [good]. f_equal. destruct (dirs_of tk) as [[[sk lk] cfg]|]; auto.
  induction tk as [|[k v] r IH]; auto.
  cbn [forallb fst snd]. rewrite <- IH. unfold key_good. reflexivity.
Qed.

Lemma good_list_eq l : good (JList l) = forallb good l.
Proof. reflexivity. Qed.

Lemma good_map_inv tk :
  good (JMap tk) = true ->
  nodup_str (map fst tk) = true /\
  exists sk lk cfg, dirs_of tk = Some (sk, lk, cfg) /\
    forall k v, In (k, v) tk -> key_good sk cfg k v = true.
Proof.
  rewrite good_map_eq. intros H. apply Bool.andb_true_iff in H. destruct H as [ND H].
  split; auto. destruct (dirs_of tk) as [[[sk lk] cfg]|]; [|discriminate H].
  exists sk, lk, cfg. split; auto. intros k v I.
  rewrite forallb_forall in H. exact (H (k, v) I).
Qed.

(* ------------------------------------------------------------------ *)
(* keyed views of corresponding lists                                  *)
(* ------------------------------------------------------------------ *)

Definition aligned (T A : list (string * json)) : Prop :=
  Forall2 (fun p q => fst p = fst q /\ sup (snd p) (snd q)) T A.

Lemma aligned_set_key k o x T A :
  aligned T A -> sup o x -> aligned (set_key k o T) (set_key k x A).
Proof.
  intros H S. induction H as [|[k1 v1] [k2 v2] T' A' [E1 E2] H IH]; cbn.
  - constructor; [split; auto|constructor].
  - cbn in E1, E2. subst k2. destruct (String.eqb k k1); constructor; auto; split; auto.
Qed.

Lemma aligned_lookup T A :
  aligned T A -> nodup_str (map fst T) = true ->
  forall k tv, In (k, tv) T -> exists xv, lookup k A = Some xv /\ sup tv xv.
Proof.
  intros H. induction H as [|[k1 v1] [k2 v2] T' A' [E1 E2] H IH]; intros ND k tv I; [destruct I|].
  cbn in E1, E2, ND. subst k2. apply Bool.andb_true_iff in ND. destruct ND as [N1 N2].
  destruct I as [E|I].
  - inversion E. subst. cbn. rewrite String.eqb_refl. eauto.
  - cbn. destruct (String.eqb k k1) eqn:E.
    + apply String.eqb_eq in E. subst k1. exfalso.
      apply Bool.negb_true_iff in N1.
      assert (mem_str k (map fst T') = true) by (apply v_mem_str_In, (in_map fst _ _ I)).
      congruence.
    + eauto.
Qed.

Lemma key_parts_sup okvs xkvs fields :
  (forall k tv, In (k, tv) okvs -> plain_key k = true ->
       exists xv, lookup k xkvs = Some xv /\ sup tv xv) ->
  forallb (fun f => match f with
                    | JStr s => plain_key s &&
                                match lookup s okvs with
                                | Some v => negb (is_container v)
                                | None => false
                                end
                    | _ => false
                    end) fields = true ->
  key_parts xkvs fields = key_parts okvs fields.
Proof.
  intros S. induction fields as [|f r IH]; cbn; auto.
  intros H. apply Bool.andb_true_iff in H. destruct H as [Hf Hr].
  destruct f; try discriminate Hf. cbn.
  apply Bool.andb_true_iff in Hf. destruct Hf as [Pk Hf].
  destruct (lookup s okvs) as [v|] eqn:L; [|discriminate Hf].
  apply Bool.negb_true_iff in Hf.
  destruct (S s v (v_lookup_In _ _ _ L) Pk) as [xv [Lx Sx]].
  apply sup_scalar_inv in Sx; auto. subst xv. rewrite Lx, IH by auto. reflexivity.
Qed.

Lemma obj_key_sup fields o x :
  elem_ok fields o = true -> sup o x -> obj_key x fields = obj_key o fields.
Proof.
  unfold elem_ok. destruct o as [| | | | | |okvs]; try discriminate.
  intros H S. apply Bool.andb_true_iff in H. destruct H as [Hf _].
  inversion S as [? C| |tk xk Sm]; subst; [discriminate C|].
  unfold obj_key. destruct fields as [|f r]; auto.
  rewrite (key_parts_sup okvs xk (f :: r) Sm Hf). reflexivity.
Qed.

Lemma elem_ok_key fields o :
  elem_ok fields o = true -> exists ke, obj_key o fields = Ret ke /\ plain_key ke = true.
Proof.
  unfold elem_ok. destruct o; try discriminate.
  intros H. apply Bool.andb_true_iff in H. destruct H as [_ H].
  destruct (obj_key (JMap kvs) fields) as [ke| |]; try discriminate H. eauto.
Qed.

Lemma l2o_items_aligned fields objs : forall xobjs acc acc',
  Forall2 sup objs xobjs -> (forall o, In o objs -> elem_ok fields o = true) ->
  aligned acc acc' ->
  exists T A, l2o_items objs fields acc = Ret T /\ l2o_items xobjs fields acc' = Ret A /\
              aligned T A.
Proof.
  induction objs as [|o r IH]; intros xobjs acc acc' F E Al.
  - inversion F. subst. cbn. eauto.
  - inversion F as [|? x ? xr So Fr]. subst. cbn.
    assert (Eo : elem_ok fields o = true) by (apply E; left; auto).
    destruct (elem_ok_key _ _ Eo) as [ke [K _]].
    rewrite (obj_key_sup _ _ _ Eo So), K.
    apply IH; auto. intros; apply E; right; auto. apply aligned_set_key; auto.
Qed.

(* the entries of a keyed view come from the accumulator or from the list *)
Lemma l2o_items_entries fields objs : forall acc T,
  l2o_items objs fields acc = Ret T ->
  forall k o, In (k, o) T -> In (k, o) acc \/ (In o objs /\ obj_key o fields = Ret k).
Proof.
  induction objs as [|o0 r IH]; cbn; intros acc T H k o I.
  - inversion H. subst. auto.
  - destruct (obj_key o0 fields) as [ke| |] eqn:K; try discriminate H.
    destruct (IH _ _ H k o I) as [X|[X Y]].
    + apply v_In_set_key in X. destruct X as [[E1 E2]|X]; auto. subst. right. auto.
    + right. auto.
Qed.

Lemma l2o_items_nodup fields objs : forall acc T,
  l2o_items objs fields acc = Ret T -> nodup_str (map fst acc) = true ->
  nodup_str (map fst T) = true.
Proof.
  induction objs as [|o0 r IH]; cbn; intros acc T H ND.
  - inversion H. subst. auto.
  - destruct (obj_key o0 fields) as [ke| |]; try discriminate H.
    eapply IH; eauto. apply v_nodup_set_key. auto.
Qed.

(* a map without directive keys has no directives *)
Lemma lookup_notin {A} k (kvs : list (string * A)) :
  (forall k' v, In (k', v) kvs -> String.eqb k k' = false) -> lookup k kvs = None.
Proof.
  induction kvs as [|[k' v] r IH]; cbn; auto. intros H.
  rewrite (H k' v) by auto. apply IH. intros; eapply H; right; eauto.
Qed.

Lemma plain_key_inv k : plain_key k = true -> is_directive k = false /\ String.eqb k K_OWNERS = false.
Proof.
  unfold plain_key. intros H. apply Bool.andb_true_iff in H. destruct H as [A B].
  apply Bool.negb_true_iff in A, B. auto.
Qed.

Lemma directive_not_plain d k : is_directive d = true -> plain_key k = true -> String.eqb d k = false.
Proof.
  intros D P. apply plain_key_inv in P. destruct P as [P _].
  apply String.eqb_neq. intros E. subst. congruence.
Qed.

Lemma dirs_of_plain T :
  (forall k v, In (k, v) T -> plain_key k = true) -> dirs_of T = Some ([], [], []).
Proof.
  intros P. unfold dirs_of.
  rewrite !lookup_notin; try reflexivity;
    intros k v I; eapply directive_not_plain; eauto; reflexivity.
Qed.

(* ------------------------------------------------------------------ *)
(* lists                                                               *)
(* ------------------------------------------------------------------ *)

Lemma Forall2_nth_error {A B} (R : A -> B -> Prop) l1 l2 :
  Forall2 R l1 l2 -> forall i a, nth_error l1 i = Some a ->
  exists b, nth_error l2 i = Some b /\ R a b.
Proof.
  induction 1 as [|a0 b0 r1 r2 H F IH]; intros i a N; [destruct i; discriminate N|].
  destruct i as [|i]; cbn in *.
  - inversion N. subst. eauto.
  - eauto.
Qed.

Lemma Forall2_len {A B} (R : A -> B -> Prop) l1 l2 : Forall2 R l1 l2 -> List.length l1 = List.length l2.
Proof. induction 1; cbn; auto. Qed.

Lemma Forall2_in_r {A B} (R : A -> B -> Prop) l1 l2 :
  Forall2 R l1 l2 -> forall b, In b l2 -> exists a, In a l1 /\ R a b.
Proof.
  induction 1 as [|a0 b0 r1 r2 H F IH]; intros b; cbn; [tauto|].
  intros [E|I]; [subst; eauto | destruct (IH b I) as [a [Ia Ra]]; eauto].
Qed.

Lemma nth_error_nth' {A} (l : list A) i a d : nth_error l i = Some a -> nth i l d = a.
Proof.
  revert i. induction l as [|x r IH]; intros [|i] H; cbn in *; try discriminate H.
  - inversion H. auto.
  - auto.
Qed.

Lemma list_loop_match rec : forall tl xl las,
  List.length tl = List.length xl ->
  (forall i t x, nth_error tl i = Some t -> nth_error xl i = Some x ->
                 rec t x (nth i las JNull) false = O_match) ->
  list_loop rec tl xl las = O_match.
Proof.
  induction tl as [|t0 tr IH]; intros xl las Len A; destruct xl as [|x0 xr];
    try discriminate Len; cbn; auto.
  assert (H0 : rec t0 x0 (match las with [] => JNull | x :: _ => x end) false = O_match).
  { specialize (A 0 t0 x0 eq_refl eq_refl). destruct las; exact A. }
  rewrite H0. cbn. apply IH; [cbn in Len; lia|].
  intros i t x Nt Nx. specialize (A (S i) t x Nt Nx). destruct las; cbn in A |- *; auto.
  destruct i; exact A.
Qed.

Lemma set_match_refl tl : forallb hashable tl = true -> set_match tl tl = O_match.
Proof.
  intros H. unfold set_match. destruct tl as [|t0 tr]; auto.
  rewrite H. cbn [negb andb].
  assert (E : forallb (fun x => set_mem x (t0 :: tr)) (t0 :: tr) = true).
  { apply forallb_forall. intros x I. unfold set_mem. apply existsb_exists.
    exists x. split; auto. apply set_elem_eq_refl.
    rewrite forallb_forall in H. specialize (H x I). destruct x; auto; discriminate H. }
  rewrite E. reflexivity.
Qed.

Lemma Forall2_sup_scalars tl xl :
  forallb hashable tl = true -> Forall2 sup tl xl -> xl = tl.
Proof.
  intros H F. induction F as [|t x tr xr S F IH]; auto.
  cbn in H. apply Bool.andb_true_iff in H. destruct H as [H1 H2].
  f_equal; auto. apply sup_scalar_inv; auto. destruct t; auto; discriminate H1.
Qed.

(* ------------------------------------------------------------------ *)
(* the engine: an object that contains what the target specifies       *)
(* (and a last-applied document that does) matches                     *)
(* ------------------------------------------------------------------ *)

Lemma probe_la_sup tk lkv k tv :
  sup (JMap tk) (JMap lkv) -> In (k, tv) tk -> plain_key k = true ->
  exists lav, probe_la (JMap lkv) k = LaVal lav /\ sup tv lav.
Proof.
  intros S I P. inversion S as [? C| |? ? Sm]; subst; [discriminate C|].
  destruct (Sm k tv I P) as [lav [L Sl]].
  exists lav. split; auto. unfold probe_la.
  destruct lkv as [|p r]; [discriminate L|]. cbn [py_truthy negb]. rewrite L. reflexivity.
Qed.

Lemma vmatch_null_null n la s : vmatch_f n JNull JNull la s = O_match.
Proof. destruct n; reflexivity. Qed.

Theorem sup_match : forall n t x la s,
  jdepth t < n -> good t = true -> sup t x -> sup t la -> (s = true -> set_ok t) ->
  vmatch_f n t x la s = O_match.
Proof.
  induction n as [|n IH]; intros t x la s Dn G Sx Sl Ss; [lia|].
  destruct t as [| b | z | m e | str | tl | tk].
  1-5: (apply sup_scalar_inv in Sx; [subst x; apply vmatch_scalar_refl|]; reflexivity).
  - (* list *)
    inversion Sx as [? C|? xl Fx|]; subst; [discriminate C|].
    inversion Sl as [? C|? ll Fl|]; subst; [discriminate C|].
    destruct s.
    + rewrite vmatch_set_unfold. specialize (Ss eq_refl). cbn in Ss.
      rewrite (Forall2_sup_scalars _ _ Ss Fx). apply set_match_refl. auto.
    + rewrite vmatch_list_unfold. unfold list_match.
      pose proof (Forall2_len _ _ _ Fx) as Lx. pose proof (Forall2_len _ _ _ Fl) as Ll.
      destruct tl as [|t0 tr]; destruct xl as [|x0 xr]; try discriminate Lx; auto.
      rewrite Lx, Nat.eqb_refl. cbn [negb].
      destruct ll as [|l0 lr]; [discriminate Ll|]. cbn [py_truthy negb].
      apply list_loop_match; auto.
      intros i t x Nt Nx.
      destruct (Forall2_nth_error _ _ _ Fx i t Nt) as [x' [Nx' Sx']].
      rewrite Nx in Nx'. inversion Nx'. subst x'.
      destruct (Forall2_nth_error _ _ _ Fl i t Nt) as [lav [Nl Sl']].
      rewrite (nth_error_nth' _ _ _ JNull Nl).
      apply IH; auto.
      * pose proof (jdepth_in_list t (t0 :: tr) (nth_error_In _ _ Nt)). lia.
      * rewrite good_list_eq in G. rewrite forallb_forall in G. apply G. eapply nth_error_In; eauto.
      * discriminate.
  - (* map *)
    inversion Sx as [? C| |? xk Smx]; subst; [discriminate C|].
    inversion Sl as [? C| |? lkv Sml]; subst; [discriminate C|].
    rewrite vmatch_map_unfold.
    destruct (good_map_inv _ G) as [ND [sk [lk [cfg [D KG]]]]].
    rewrite (dict_match_dirs _ _ _ _ _ _ _ D).
    apply keys_loop_match. intros k tv I Dk.
    unfold key_match.
    destruct (String.eqb k K_OWNERS) eqn:Ok; auto.
    assert (P : plain_key k = true) by (unfold plain_key; rewrite Dk, Ok; reflexivity).
    destruct (probe_la_sup _ _ _ _ Sl I P) as [lav [Pr Slav]]. rewrite Pr.
    destruct (Smx k tv I P) as [xv [Lx Sxv]].
    (* the compare value: from last-applied or from the live object; both contain tv *)
    assert (CV : exists cv, (if mem_str k lk then inl (read_la (LaVal lav))
                             else match lookup k xk with
                                  | Some v => inl (Ret v)
                                  | None => inr O_false
                                  end) = inl (Ret cv) /\ sup tv cv).
    { destruct (mem_str k lk); [exists lav | exists xv; rewrite Lx]; auto. }
    destruct CV as [cv [Ecv Scv]]. rewrite Ecv. clear Ecv.
    pose proof (KG k tv I) as Kg. unfold key_good in Kg. rewrite P in Kg.
    pose proof (jdepth_in_map _ _ _ I) as Dtv.
    destruct (lookup k cfg) as [fields|] eqn:C.
    + (* keyed collection *)
      destruct tv as [| | | | |objs|]; try discriminate Kg.
      inversion Scv as [? C0|? cobjs Fc|]; subst; [discriminate C0|].
      inversion Slav as [? C0|? lobjs Fl|]; subst; [discriminate C0|].
      assert (Eo : forall o, In o objs -> elem_ok fields o = true /\ good o = true).
      { intros o Io. rewrite forallb_forall in Kg. specialize (Kg o Io).
        apply Bool.andb_true_iff in Kg. exact Kg. }
      destruct objs as [|o0 orest].
      * inversion Fc. inversion Fl. subst. cbn. apply vmatch_null_null.
      * assert (Eo1 : forall o, In o (o0 :: orest) -> elem_ok fields o = true)
          by (intros; apply Eo; auto).
        destruct (l2o_items_aligned fields _ _ [] [] Fc Eo1 (Forall2_nil _)) as [T [A [HT [HA Al]]]].
        destruct (l2o_items_aligned fields _ _ [] [] Fl Eo1 (Forall2_nil _)) as [T' [L [HT' [HL All]]]].
        rewrite HT in HT'. inversion HT'. subst T'.
        inversion Fc as [|? c0 ? crest]. inversion Fl as [|? l0 ? lrest]. subst.
        assert (Shc : shape_ok (JList (c0 :: crest)) = true).
        { cbn [shape_ok]. apply forallb_forall. intros cx Icx.
          destruct (Forall2_in_r _ _ _ Fc cx Icx) as [ox [Iox Sox]].
          destruct (Eo _ Iox) as [Eok _]. unfold elem_ok in Eok.
          destruct ox; try discriminate Eok. inversion Sox; subst; [discriminate|reflexivity]. }
        rewrite Shc. cbn [negb].
        assert (Shl : la_items (JList (l0 :: lrest)) = JList (l0 :: lrest)).
        { unfold la_items.
          replace (forallb is_jmap (l0 :: lrest)) with true; [reflexivity|]. symmetry.
          apply forallb_forall. intros lx Ilx.
          destruct (Forall2_in_r _ _ _ Fl lx Ilx) as [ox [Iox Sox]].
          destruct (Eo _ Iox) as [Eok _]. unfold elem_ok in Eok.
          destruct ox; try discriminate Eok. inversion Sox; subst; [discriminate|reflexivity]. }
        cbn [read_la]. rewrite Shl. unfold list_to_object. cbn [py_truthy negb py_iter]. rewrite HT, HA, HL.
        pose proof (l2o_items_nodup _ _ _ _ HT eq_refl) as NDT.
        pose proof (l2o_items_entries _ _ _ _ HT) as Ent.
        assert (PK : forall k0 v0, In (k0, v0) T -> plain_key k0 = true).
        { intros k0 v0 I0. destruct (Ent _ _ I0) as [[]|[Io Ko]].
          destruct (elem_ok_key _ _ (Eo1 _ Io)) as [ke [K1 K2]]. congruence. }
        apply IH.
        -- assert (jdepth (JMap T) <= jdepth (JList (o0 :: orest))); [|lia].
           apply jdepth_map_le; [|rewrite jdepth_list; lia].
           intros k0 v0 I0. destruct (Ent _ _ I0) as [[]|[Io _]]. apply jdepth_in_list; auto.
        -- rewrite good_map_eq, NDT, (dirs_of_plain _ PK). cbn [andb].
           apply forallb_forall. intros [k0 v0] I0. cbn [fst snd]. unfold key_good.
           rewrite (PK _ _ I0). cbn [lookup mem_str andb].
           destruct (Ent _ _ I0) as [[]|[Io _]]. apply Eo; auto.
        -- constructor. intros k0 v0 I0 _. eapply aligned_lookup; eauto.
        -- constructor. intros k0 v0 I0 _. eapply aligned_lookup; eauto.
        -- discriminate.
    + apply Bool.andb_true_iff in Kg. destruct Kg as [Ks Kg]. cbn [read_la].
      apply IH; auto; try lia.
      intros Es. rewrite Es in Ks. destruct tv; cbn; auto.
Qed.

(* ------------------------------------------------------------------ *)
(* strip                                                               *)
(* ------------------------------------------------------------------ *)

Fixpoint strip_kvs (l : list (string * json)) : list (string * json) :=
  match l with
  | [] => []
  | (k, v) :: r => if is_directive k then strip_kvs r else (k, strip v) :: strip_kvs r
  end.

Lemma strip_map_eq kvs : strip (JMap kvs) = JMap (strip_kvs kvs).
Proof. reflexivity. Qed.

Lemma strip_list_eq l : strip (JList l) = JList (map strip l).
Proof. reflexivity. Qed.

Lemma strip_kvs_keys kvs k : In k (map fst (strip_kvs kvs)) -> In k (map fst kvs).
Proof.
  induction kvs as [|[k' v] r IH]; cbn; auto.
  destruct (is_directive k'); cbn; intros H; [auto|]. destruct H; auto.
Qed.

Lemma strip_kvs_nodup kvs : nodup_str (map fst kvs) = true -> nodup_str (map fst (strip_kvs kvs)) = true.
Proof.
  induction kvs as [|[k v] r IH]; cbn; auto. intros H.
  apply Bool.andb_true_iff in H. destruct H as [H1 H2].
  destruct (is_directive k); cbn; auto. rewrite IH by auto. rewrite Bool.andb_true_r.
  apply Bool.negb_true_iff. apply Bool.negb_true_iff in H1.
  destruct (mem_str k (map fst (strip_kvs r))) eqn:M; auto.
  apply v_mem_str_In, strip_kvs_keys, v_mem_str_In in M. congruence.
Qed.

Lemma strip_kvs_lookup kvs k v :
  nodup_str (map fst kvs) = true -> In (k, v) kvs -> is_directive k = false ->
  lookup k (strip_kvs kvs) = Some (strip v).
Proof.
  induction kvs as [|[k' v'] r IH]; cbn; [tauto|]. intros ND I D.
  apply Bool.andb_true_iff in ND. destruct ND as [N1 N2].
  destruct I as [E|I].
  - inversion E. subst. rewrite D. cbn. rewrite String.eqb_refl. reflexivity.
  - assert (Ne : String.eqb k k' = false).
    { apply String.eqb_neq. intros C. subst k'. apply Bool.negb_true_iff in N1.
      assert (mem_str k (map fst r) = true) by (apply v_mem_str_In, (in_map fst _ _ I)). congruence. }
    destruct (is_directive k'); cbn; [|rewrite Ne]; auto.
Qed.

(* [supn]: [sup] plus unique keys in every map of x the comparison walks
   through (needed to read what RFC 7386 does to x key by key) *)
Inductive supn : json -> json -> Prop :=
| supn_scalar t : is_container t = false -> supn t t
| supn_list tl xl : Forall2 sup tl xl -> supn (JList tl) (JList xl)
| supn_map tk xk :
    nodup_str (map fst xk) = true ->
    (forall k tv, In (k, tv) tk -> plain_key k = true ->
       exists xv, lookup k xk = Some xv /\ supn tv xv) ->
    supn (JMap tk) (JMap xk).

Lemma key_good_good sk cfg k v : plain_key k = true -> key_good sk cfg k v = true -> good v = true.
Proof.
  unfold key_good. intros P. rewrite P. destruct (lookup k cfg).
  - destruct v; try discriminate. intros H. rewrite good_list_eq.
    apply forallb_forall. intros o I. rewrite forallb_forall in H. specialize (H o I).
    apply Bool.andb_true_iff in H. tauto.
  - intros H. apply Bool.andb_true_iff in H. tauto.
Qed.

Lemma sup_strip_list l :
  Forall (fun t => good t = true -> supn t (strip t)) l -> forallb good l = true ->
  Forall2 supn l (map strip l).
Proof.
  induction 1 as [|t r H F IH]; cbn; intros G; constructor;
    apply Bool.andb_true_iff in G; destruct G; auto.
Qed.

Lemma supn_sup t x : supn t x -> sup t x.
Proof.
  revert x. induction t using json_ind'; intros x S; inversion S; subst;
    try (constructor; auto; fail).
  constructor. intros k tv I P.
  match goal with Hs : forall k tv, In (k, tv) kvs -> _ |- _ => destruct (Hs k tv I P) as [xv [L Sx]] end.
  exists xv. split; auto.
  rewrite Forall_forall in H. exact (H (k, tv) I xv Sx).
Qed.

Theorem supn_strip t : good t = true -> supn t (strip t).
Proof.
  induction t using json_ind'; intros G; try (constructor; reflexivity).
  - rewrite strip_list_eq. constructor. rewrite good_list_eq in G.
    clear -H G. induction H as [|t r Ht F IH]; cbn in *; constructor;
      apply Bool.andb_true_iff in G; destruct G; auto. apply supn_sup; auto.
  - rewrite strip_map_eq. destruct (good_map_inv _ G) as [ND [sk [lk [cfg [D KG]]]]].
    constructor; [apply strip_kvs_nodup; auto|].
    intros k tv I P. exists (strip tv). split.
    + apply strip_kvs_lookup; auto. apply plain_key_inv in P. tauto.
    + rewrite Forall_forall in H. apply (H (k, tv) I).
      eapply key_good_good; eauto.
Qed.

(* C04 match_refl_sent: the object as sent matches its own target *)
Theorem match_refl_sent_thm t :
  good t = true -> vmatch t (strip t) (Some (strip t)) false = O_match.
Proof.
  intros G. unfold vmatch. cbn [la_arg].
  apply sup_match; auto; try (apply supn_sup, supn_strip; auto). discriminate.
Qed.

(* ------------------------------------------------------------------ *)
(* RFC 7386 merge-patch                                                *)
(* ------------------------------------------------------------------ *)

Fixpoint mp_go (l acc : list (string * json)) : list (string * json) :=
  match l with
  | [] => acc
  | (k, v) :: r =>
      match v with
      | JNull => mp_go r (del_key k acc)
      | _ => mp_go r (set_key k (merge_patch (match lookup k acc with Some o => o | None => JNull end) v) acc)
      end
  end.

Lemma merge_patch_map_eq target pkvs :
  merge_patch target (JMap pkvs) = JMap (mp_go pkvs (match target with JMap t => t | _ => [] end)).
Proof. reflexivity. Qed.

Lemma merge_patch_nonmap_eq target patch :
  (forall kvs, patch <> JMap kvs) -> merge_patch target patch = patch.
Proof. destruct patch; try reflexivity. intros H. exfalso. eapply H; eauto. Qed.

Lemma mp_go_notin k l : forall acc, ~ In k (map fst l) -> lookup k (mp_go l acc) = lookup k acc.
Proof.
  induction l as [|[k' v] r IH]; intros acc N; cbn [mp_go]; auto.
  cbn in N. assert (K : String.eqb k k' = false) by (apply String.eqb_neq; intros C; subst; auto).
  assert (N' : ~ In k (map fst r)) by auto.
  destruct v; rewrite IH by auto;
    try (apply v_lookup_set_key_neq; auto); apply v_lookup_del_key_neq; auto.
Qed.

Lemma mp_go_in k v l : forall acc,
  nodup_str (map fst l) = true -> lookup k l = Some v -> v <> JNull ->
  lookup k (mp_go l acc) =
  Some (merge_patch (match lookup k acc with Some o => o | None => JNull end) v).
Proof.
  induction l as [|[k' v'] r IH]; intros acc ND L NN; [discriminate|].
  cbn in ND. apply Bool.andb_true_iff in ND. destruct ND as [ND1 ND2].
  apply Bool.negb_true_iff in ND1.
  assert (NI : ~ In k' (map fst r)).
  { intros C. apply v_mem_str_In in C. congruence. }
  cbn in L. destruct (String.eqb k k') eqn:E.
  - apply String.eqb_eq in E. subst k'. inversion L. subst v'.
    cbn [mp_go]. destruct v; try congruence; rewrite mp_go_notin by auto; apply v_lookup_set_key_eq.
  - cbn [mp_go]. destruct v'; rewrite IH by auto;
      try (rewrite v_lookup_set_key_neq by auto; reflexivity).
    rewrite v_lookup_del_key_neq by auto. reflexivity.
Qed.

Lemma supn_not_null t x : no_nulls t = true -> supn t x -> x <> JNull.
Proof.
  intros N S. destruct S as [t C| |]; try discriminate.
  destruct t; try discriminate; discriminate.
Qed.

Lemma no_nulls_map_in kvs k v : no_nulls (JMap kvs) = true -> In (k, v) kvs -> no_nulls v = true.
Proof.
  cbn. induction kvs as [|[k' v'] r IH]; [intros _ []|].
  intros H I. apply Bool.andb_true_iff in H. destruct H as [H1 H2].
  destruct I as [E|I]; [inversion E; subst; auto | auto].
Qed.

(* what the API server holds after the PATCH still contains the target *)
Theorem supn_merge_patch t : forall pb l,
  no_nulls t = true -> supn t pb -> sup t (merge_patch l pb).
Proof.
  induction t using json_ind'; intros pb l0 N S; inversion S; subst;
    try (rewrite merge_patch_nonmap_eq by discriminate; constructor; auto; fail).
  rewrite merge_patch_map_eq. constructor. intros k tv I P.
  match goal with Hs : forall k tv, In (k, tv) kvs -> _ |- _ => destruct (Hs k tv I P) as [xv [L Sx]] end.
  pose proof (no_nulls_map_in _ _ _ N I) as Nv.
  eexists. split.
  - apply mp_go_in; eauto. eapply supn_not_null; eauto.
  - rewrite Forall_forall in H. apply (H (k, tv) I); auto.
Qed.

(* ------------------------------------------------------------------ *)
(* the payload: strip + owner references + last-applied annotation     *)
(* ------------------------------------------------------------------ *)

Lemma supn_map_update tk xk k0 v0 :
  supn (JMap tk) (JMap xk) ->
  (forall tv, In (k0, tv) tk -> plain_key k0 = true -> supn tv v0) ->
  supn (JMap tk) (JMap (set_key k0 v0 xk)).
Proof.
  intros S U. inversion S as [? C| |? ? ND Hs]; subst; [discriminate C|].
  constructor; [apply v_nodup_set_key; auto|].
  intros k tv I P. destruct (String.eqb k k0) eqn:E.
  - apply String.eqb_eq in E. subst k0. exists v0. split; [apply v_lookup_set_key_eq | auto].
  - destruct (Hs k tv I P) as [xv [L Sx]]. exists xv. split; auto.
    rewrite v_lookup_set_key_neq; auto.
Qed.

Lemma set_key_twice {A} k (v w : A) kvs : set_key k v (set_key k w kvs) = set_key k v kvs.
Proof.
  induction kvs as [|[k' v'] r IH]; cbn.
  - rewrite String.eqb_refl. reflexivity.
  - destruct (String.eqb k k') eqn:E; cbn; rewrite E; [reflexivity | rewrite IH; reflexivity].
Qed.

Lemma set_key_ensure_key k v kvs : set_key k v (ensure_key k kvs) = set_key k v kvs.
Proof.
  unfold ensure_key. destruct (lookup k kvs); auto. apply set_key_twice.
Qed.

Lemma lookup_ensure_key k kvs :
  lookup k (ensure_key k kvs) = match lookup k kvs with Some v => Some v | None => Some (JMap []) end.
Proof.
  unfold ensure_key. destruct (lookup k kvs) eqn:E; auto. apply v_lookup_set_key_eq.
Qed.

Lemma supn_is_map tk x : supn (JMap tk) x -> exists xk, x = JMap xk.
Proof. intros S. inversion S; subst; eauto. Qed.

Lemma supn_map_inv tk xk :
  supn (JMap tk) (JMap xk) ->
  nodup_str (map fst xk) = true /\
  (forall k tv, In (k, tv) tk -> plain_key k = true -> exists xv, lookup k xk = Some xv /\ supn tv xv).
Proof. intros S. inversion S; subst; auto. discriminate. Qed.

Lemma supn_to_map t xk : supn t (JMap xk) -> exists tk, t = JMap tk.
Proof. intros S. inversion S; subst; eauto. Qed.

Lemma plain_metadata : plain_key "metadata" = true. Proof. reflexivity. Qed.
Lemma plain_annotations : plain_key "annotations" = true. Proof. reflexivity. Qed.

(* adding the last-applied annotation keeps everything the target specifies *)
Lemma supn_add_annotation t top md an :
  good t = true -> ann_free t = true -> supn t (JMap top) ->
  lookup "metadata" (ensure_key "metadata" top) = Some (JMap md) ->
  lookup "annotations" (ensure_key "annotations" md) = Some (JMap an) ->
  supn t (JMap (set_key "metadata"
                  (JMap (set_key "annotations"
                           (JMap (set_key last_applied_key annotation_placeholder an))
                           (ensure_key "annotations" md)))
                  (ensure_key "metadata" top))).
Proof.
  intros G AF S Lm La.
  rewrite !set_key_ensure_key.
  destruct (supn_to_map _ _ S) as [tk Et]. subst t.
  destruct (good_map_inv _ G) as [ND [sk [lk [cfg [D KG]]]]].
  apply supn_map_update; auto.
  intros tvm Im _.
  (* the target has a metadata entry: the sent object has it too *)
  destruct (supn_map_inv _ _ S) as [NDx Hs].
  destruct (Hs _ _ Im plain_metadata) as [xm [Lxm Sm]].
  rewrite lookup_ensure_key, Lxm in Lm. inversion Lm. subst xm.
  destruct (supn_to_map _ _ Sm) as [tmd Etm]. subst tvm.
  assert (Gm : good (JMap tmd) = true) by (eapply key_good_good; [exact plain_metadata | eauto]).
  destruct (good_map_inv _ Gm) as [NDm _].
  apply supn_map_update; auto.
  intros tva Ia _.
  destruct (supn_map_inv _ _ Sm) as [_ Hm].
  destruct (Hm _ _ Ia plain_annotations) as [xa [Lxa Sa]].
  rewrite lookup_ensure_key, Lxa in La. inversion La. subst xa.
  destruct (supn_to_map _ _ Sa) as [tan Eta]. subst tva.
  apply supn_map_update; auto.
  intros tvl Il _. exfalso.
  (* the target would specify the last-applied annotation itself *)
  unfold ann_free in AF.
  rewrite (v_nodup_lookup _ _ _ ND Im), (v_nodup_lookup _ _ _ NDm Ia) in AF.
  destruct (lookup last_applied_key tan) eqn:E; [discriminate AF|].
  apply v_lookup_None_notin in E. apply E. exact (in_map fst _ _ Il).
Qed.

Lemma v_prepare_done obj p :
  prepare_for_api obj = Done p ->
  exists top md an,
    strip obj = JMap top /\
    lookup "metadata" (ensure_key "metadata" top) = Some (JMap md) /\
    lookup "annotations" (ensure_key "annotations" md) = Some (JMap an) /\
    body p = JMap (set_key "metadata"
               (JMap (set_key "annotations"
                  (JMap (set_key last_applied_key annotation_placeholder an))
                  (ensure_key "annotations" md)))
               (ensure_key "metadata" top)) /\
    recorded p = JMap top.
Proof.
  unfold prepare_for_api. destruct (strip obj) as [| | | | | |top]; try discriminate.
  destruct (lookup "metadata" (ensure_key "metadata" top)) as [[| | | | | |md]|] eqn:M; try discriminate.
  destruct (lookup "annotations" (ensure_key "annotations" md)) as [[| | | | | |an]|] eqn:A; try discriminate.
  intros H. inversion H. subst p. cbn [body recorded]. exists top, md, an. auto.
Qed.

(* owner references added to the target's metadata *)
Lemma strip_kvs_set_key k v kvs :
  is_directive k = false -> strip_kvs (set_key k v kvs) = set_key k (strip v) (strip_kvs kvs).
Proof.
  intros D. induction kvs as [|[k' v'] r IH]; cbn.
  - rewrite D. reflexivity.
  - destruct (String.eqb k k') eqn:E.
    + apply String.eqb_eq in E. subst k'. cbn. rewrite D. cbn. rewrite String.eqb_refl. reflexivity.
    + cbn. destruct (is_directive k'); auto. cbn. rewrite E, IH. reflexivity.
Qed.

Lemma supn_owner_refs t refs t' :
  good t = true -> set_owner_refs t refs = Done t' -> supn t (strip t').
Proof.
  intros G Hs. pose proof (supn_strip t G) as S.
  unfold set_owner_refs in Hs.
  destruct t as [| | | | | |top0]; try discriminate Hs.
  destruct (lookup "metadata" top0) as [[| | | | | |md0]|] eqn:Lm; try discriminate Hs.
  inversion Hs. subst t'. clear Hs.
  rewrite strip_map_eq in *. rewrite strip_kvs_set_key by reflexivity.
  apply supn_map_update; auto.
  intros tvm Im _.
  destruct (good_map_inv _ G) as [ND [sk [lk [cfg [D KG]]]]].
  rewrite (v_nodup_lookup _ _ _ ND Im) in Lm. inversion Lm. subst tvm.
  rewrite strip_map_eq, strip_kvs_set_key by reflexivity.
  apply supn_map_update.
  - rewrite <- strip_map_eq. apply supn_strip.
    eapply key_good_good; [exact plain_metadata | eauto].
  - intros tvo _ P. discriminate P.
Qed.

(* C04 patch_reaches_target / C05 patch_restores: whatever the live object
   was, after the API server applied the PATCH (RFC 7386) the object matches
   the target, with the last-applied document the patch recorded *)
Theorem patch_reaches_target_thm t t' p l :
  good t = true -> no_nulls t = true -> ann_free t = true ->
  (t' = t \/ exists refs, set_owner_refs t refs = Done t') ->
  prepare_for_api t' = Done p ->
  vmatch t (merge_patch l (body p)) (Some (recorded p)) false = O_match.
Proof.
  intros G N AF Ht P.
  destruct (v_prepare_done _ _ P) as [top [md [an [Es [Lm [La [Eb Er]]]]]]].
  assert (S : supn t (JMap top)).
  { rewrite <- Es. destruct Ht as [E|[refs Hr]]; [subst; apply supn_strip; auto|].
    eapply supn_owner_refs; eauto. }
  unfold vmatch. cbn [la_arg]. apply sup_match; auto.
  - rewrite Eb. apply supn_merge_patch; auto. apply supn_add_annotation; auto.
  - rewrite Er. apply supn_sup; auto.
  - discriminate.
Qed.

(* ------------------------------------------------------------------ *)
(* C04: matching is stable under server-side decoration                *)
(* ------------------------------------------------------------------ *)
From Coq Require Import Permutation.

Lemma forallb_perm {A} (f : A -> bool) l l' : Permutation l l' -> forallb f l = forallb f l'.
Proof.
  induction 1; cbn; auto.
  - rewrite IHPermutation. reflexivity.
  - destruct (f x), (f y); reflexivity.
  - congruence.
Qed.

Lemma existsb_perm {A} (f : A -> bool) l l' : Permutation l l' -> existsb f l = existsb f l'.
Proof.
  induction 1; cbn; auto.
  - rewrite IHPermutation. reflexivity.
  - destruct (f x), (f y); reflexivity.
  - congruence.
Qed.

Lemma forallb_ext' {A} (f g : A -> bool) l : (forall x, f x = g x) -> forallb f l = forallb g l.
Proof. intros E. induction l; cbn; auto. rewrite E, IHl. reflexivity. Qed.

Lemma set_match_perm tl al al' : Permutation al al' -> set_match tl al' = set_match tl al.
Proof.
  intros P. unfold set_match.
  rewrite <- (forallb_perm hashable _ _ P).
  rewrite <- (forallb_perm (fun y => set_mem y tl) _ _ P).
  rewrite (forallb_ext' (fun x => set_mem x al') (fun x => set_mem x al))
    by (intros x; unfold set_mem; symmetry; apply existsb_perm; exact P).
  destruct tl as [|t0 tr]; auto.
  destruct al as [|a0 ar].
  - apply Permutation_nil in P. subst. reflexivity.
  - destruct al' as [|b0 br]; auto.
    apply Permutation_sym, Permutation_nil in P. discriminate P.
Qed.

Section DecKey.
  Variable rec : json -> json -> json -> bool -> outs.
  Variables (sk lk : list string) (cfg : list (string * list json)).

  Lemma key_match_owners ak la tv : key_match rec sk lk cfg ak la K_OWNERS tv = O_match.
  Proof. unfold key_match. rewrite String.eqb_refl. reflexivity. Qed.

  (* a key compared against last-applied does not read the live map *)
  Lemma key_match_la_ext ak ak' la k tv :
    mem_str k lk = true ->
    key_match rec sk lk cfg ak' la k tv = key_match rec sk lk cfg ak la k tv.
  Proof. intros M. unfold key_match. rewrite M. reflexivity. Qed.

  Lemma key_match_as_map_inv ak la k tv v lav fields :
    specified_key lk k = true -> lookup k cfg = Some fields ->
    probe_la la k = LaVal lav -> lookup k ak = Some v ->
    key_match rec sk lk cfg ak la k tv = O_match ->
    exists T A L, list_to_object tv fields = Ret T /\ list_to_object v fields = Ret A /\
                  list_to_object (la_items lav) fields = Ret L /\ rec T A L false = O_match.
  Proof.
    intros S C P Lk H. apply specified_key_inv in S. destruct S as [_ [S2 S3]].
    unfold key_match in H. rewrite S2, P, S3, Lk, C in H. cbn [read_la] in H.
    destruct (negb (shape_ok v)); [onomatch H|].
    destruct (list_to_object tv fields) as [T| |]; try onomatch H.
    destruct (list_to_object v fields) as [A| |]; try onomatch H.
    destruct (list_to_object (la_items lav) fields) as [L| |]; try onomatch H.
    exists T, A, L. auto.
  Qed.
End DecKey.

Lemma list_loop_match_inv rec : forall tl xl las,
  List.length tl = List.length xl -> list_loop rec tl xl las = O_match ->
  forall i t x, nth_error tl i = Some t -> nth_error xl i = Some x ->
                rec t x (nth i las JNull) false = O_match.
Proof.
  induction tl as [|t0 tr IH]; intros xl las Len H i t x Nt Nx; [destruct i; discriminate Nt|].
  destruct xl as [|x0 xr]; [destruct i; discriminate Nx|].
  cbn in H.
  destruct (is_match (rec t0 x0 match las with [] => JNull | y :: _ => y end false)) eqn:M.
  - apply is_match_true in M. destruct i as [|i]; cbn in Nt, Nx.
    + inversion Nt. inversion Nx. subst. destruct las; exact M.
    + cbn in Len. specialize (IH xr _ (eq_add_S _ _ Len) H i t x Nt Nx).
      destruct las; cbn in *; auto. destruct i; exact IH.
  - rewrite H in M. discriminate M.
Qed.

Theorem decoration_f : forall n t s l l' la,
  vmatch_f n t l la s = O_match -> decorates t s l l' -> vmatch_f n t l' la s = O_match.
Proof.
  induction n as [|n IH]; intros t s l l' la H Dec;
    inversion Dec as [ | tk ? ak ak' sk lk cfg D Pl Mp | tl al al' Len Pt | tl al al' Pm ]; subst; auto;
    try (cbn in H; onomatch H).
  - (* set, no fuel *) rewrite vmatch_set_unfold in *. rewrite (set_match_perm _ _ _ Pm). exact H.
  - (* map *)
    rewrite vmatch_map_unfold in H |- *.
    rewrite (dict_match_dirs _ _ _ _ _ _ _ D) in H. rewrite (dict_match_dirs _ _ _ _ _ _ _ D).
    apply keys_loop_match. intros k tv I Dk.
    pose proof (proj1 (keys_loop_match _ _ _ _ _ _ _) H k tv I Dk) as Km.
    destruct (String.eqb k K_OWNERS) eqn:Ok.
    { apply String.eqb_eq in Ok. subst k. apply key_match_owners. }
    destruct (mem_str k lk) eqn:Ml.
    { rewrite (key_match_la_ext _ _ _ _ ak ak'); auto. }
    assert (Sp : specified_key lk k = true) by (unfold specified_key; rewrite Dk, Ok, Ml; reflexivity).
    destruct (key_match_present _ _ _ _ _ _ _ _ Sp Km) as [v Lv].
    destruct (key_match_probe _ _ _ _ _ _ _ _ _ Sp Lv Km) as [lav P].
    destruct (lookup k cfg) as [fields|] eqn:C.
    + destruct (key_match_as_map_inv _ _ _ _ _ _ _ _ _ _ _ Sp C P Lv Km) as [T [A [L [LT [LA [LL R]]]]]].
      destruct (Mp k tv v fields T A I Sp C Lv LT LA) as [v' [A' [Lv' [Sh' [LA' DA]]]]].
      rewrite (key_match_as_map _ _ _ _ ak' _ _ _ v' _ _ _ _ Sp C P Lv' Sh' LT LA'), LL.
      eapply IH; eauto.
    + rewrite (key_match_plain _ _ _ _ _ _ _ _ _ _ Sp C P Lv) in Km.
      destruct (Pl k tv v I Sp C Lv) as [v' [Lv' Dv]].
      rewrite (key_match_plain _ _ _ _ ak' _ _ _ v' _ Sp C P Lv').
      eapply IH; eauto.
  - (* ordered list *)
    rewrite vmatch_list_unfold in H |- *. unfold list_match in *.
    destruct tl as [|t0 tr]; destruct al as [|a0 ar]; destruct al' as [|b0 br];
      try discriminate Len; auto; try onomatch H.
    rewrite Len.
    destruct (negb (Nat.eqb (List.length (t0 :: tr)) (List.length (a0 :: ar)))) eqn:El; [onomatch H|].
    apply Bool.negb_false_iff, Nat.eqb_eq in El.
    assert (Loop : forall las, list_loop (vmatch_f n) (t0 :: tr) (a0 :: ar) las = O_match ->
                               list_loop (vmatch_f n) (t0 :: tr) (b0 :: br) las = O_match).
    { intros las Hl. apply list_loop_match; [congruence|].
      intros i t x Nt Nx.
      destruct (nth_error (a0 :: ar) i) as [a|] eqn:Na.
      - eapply IH; [exact (list_loop_match_inv _ _ _ _ El Hl i t a Nt Na) | exact (Pt i t a x Nt Na Nx)].
      - exfalso. apply nth_error_None in Na.
        assert (i < List.length (t0 :: tr)) by (apply nth_error_Some; congruence). lia. }
    destruct la; auto.
  - rewrite vmatch_set_unfold in *. rewrite (set_match_perm _ _ _ Pm). exact H.
Qed.

(* C04 match_monotone_decoration *)
Theorem match_monotone_decoration_thm t s l l' la :
  vmatch t l la s = O_match -> decorates t s l l' -> vmatch t l' la s = O_match.
Proof. unfold vmatch. apply decoration_f. Qed.

(* ------------------------------------------------------------------ *)
(* C04: the tail at the fixpoint                                       *)
(* ------------------------------------------------------------------ *)

Definition owner_check (cfg : tail_cfg) (live : json) : res reffed_result :=
  if tc_should_own cfg then validate_owner_reffed_r live (tc_owner_ref cfg) else Done (Reffed true).

Lemma tail_eq cfg t live ann :
  tail cfg t live ann =
  match owner_check cfg live with
  | Raised e => Some (TRaised e, [])
  | Done rr =>
      match extract_last_applied_r live ann with
      | Raised e => Some (TRaised e, [])
      | Done la =>
          match as_res (vmatch t live la false) with
          | Some v => Some (dispatch cfg t live rr v)
          | None => None
          end
      end
  end.
Proof. reflexivity. Qed.

(* C04 met_no_mutation: target met and owner-reffed => no call, the live
   object is returned (reconcile_resource_function goes on to postconditions
   and return) *)
Theorem met_no_mutation_thm cfg t live ann rr la :
  owner_check cfg live = Done rr -> reffed_truthy rr = true ->
  extract_last_applied_r live ann = Done la ->
  vmatch t live la false = O_match ->
  tail cfg t live ann = Some (TLive live, []).
Proof.
  intros O R E M. rewrite tail_eq, O, E, M. cbn [as_res]. rewrite as_res_match.
  rewrite dispatch_met; auto.
Qed.

(* C04 mutation_is_retry on the whole tail *)
Theorem tail_mutation_is_retry cfg t live ann r calls :
  tail cfg t live ann = Some (r, calls) -> calls <> [] ->
  exists d loc, r = TRetry d loc /\ (tc_update cfg = PPatch d \/ tc_update cfg = PRecreate d).
Proof.
  rewrite tail_eq. destruct (owner_check cfg live) as [rr|e]; [|intros H; inversion H; congruence].
  destruct (extract_last_applied_r live ann) as [la|e]; [|intros H; inversion H; congruence].
  destruct (as_res (vmatch t live la false)) as [v|]; [|discriminate].
  intros H N. inversion H as [H']. eapply dispatch_mutation_is_retry; eauto.
Qed.

Lemma tail_calls cfg t live ann r calls :
  tail cfg t live ann = Some (r, calls) ->
  calls = [] \/ (exists p, calls = [CPatch p] /\ exists d, tc_update cfg = PPatch d) \/
  (calls = [CDelete] /\ exists d, tc_update cfg = PRecreate d).
Proof.
  rewrite tail_eq. destruct (owner_check cfg live) as [rr|e]; [|intros H; inversion H; auto].
  destruct (extract_last_applied_r live ann) as [la|e]; [|intros H; inversion H; auto].
  destruct (as_res (vmatch t live la false)) as [v|]; [|discriminate].
  intros H. inversion H as [H']. eapply dispatch_calls; eauto.
Qed.

(* a PATCH sent by the tail carries the prepared target (possibly with owner references) *)
Lemma dispatch_patch_inv cfg t live rr v r p :
  dispatch cfg t live rr v = (r, [CPatch p]) ->
  exists t', (t' = t \/ exists refs, set_owner_refs t refs = Done t') /\ prepare_for_api t' = Done p.
Proof.
  unfold dispatch. destruct v as [m|e]; [|intros H; inversion H].
  destruct (m && reffed_truthy rr); [intros H; inversion H|].
  destruct (tc_update cfg) as [|d|d]; try (intros H; inversion H; fail).
  unfold patch_branch.
  destruct (tc_should_own cfg && negb (reffed_truthy rr)).
  - destruct (updated_owner_refs_r live (tc_owner_ref cfg)) as [[refs|]|e]; cbn;
      try (intros H; inversion H; fail).
    destruct (set_owner_refs t refs) as [t'|e] eqn:S; cbn; try (intros H; inversion H; fail).
    destruct (prepare_for_api t') eqn:P; intros H; inversion H. subst. eauto.
  - destruct (prepare_for_api t) eqn:P; intros H; inversion H. subst. eauto.
Qed.

Lemma tail_patch_inv cfg t live ann r p :
  tail cfg t live ann = Some (r, [CPatch p]) ->
  exists t', (t' = t \/ exists refs, set_owner_refs t refs = Done t') /\ prepare_for_api t' = Done p.
Proof.
  rewrite tail_eq. destruct (owner_check cfg live) as [rr|e]; [|intros H; inversion H].
  destruct (extract_last_applied_r live ann) as [la|e]; [|intros H; inversion H].
  destruct (as_res (vmatch t live la false)) as [v|]; [|discriminate].
  intros H. inversion H as [H']. eapply dispatch_patch_inv; eauto.
Qed.

(* C04 no_update_loop: a pass patched; the API server applied the patch (RFC
   7386); the next pass with unchanged inputs makes no call.  The two facts
   about the patched object that belong to the payload helpers (C08: the owner
   reference is there, the annotation reads back the recorded document) are
   hypotheses here. *)
Theorem no_update_loop_thm cfg t live ann r p rr2 :
  good t = true -> no_nulls t = true -> ann_free t = true ->
  tail cfg t live ann = Some (r, [CPatch p]) ->
  let live2 := merge_patch live (body p) in
  owner_check cfg live2 = Done rr2 -> reffed_truthy rr2 = true ->
  extract_last_applied_r live2 (Some (recorded p)) = Done (Some (recorded p)) ->
  tail cfg t live2 (Some (recorded p)) = Some (TLive live2, []).
Proof.
  intros G N AF T live2 O R E.
  destruct (tail_patch_inv _ _ _ _ _ _ T) as [t' [Ht P]].
  eapply met_no_mutation_thm; eauto.
  eapply patch_reaches_target_thm; eauto.
Qed.

(* immediately after a create the object meets the target: the payload is
   prepared from a resource view that contains what the target specifies (a
   create overlay that does not contradict the target) *)
Theorem create_reaches_target_thm t view p top :
  good t = true -> ann_free t = true ->
  strip view = JMap top -> supn t (JMap top) ->
  prepare_for_api view = Done p ->
  vmatch t (body p) (Some (recorded p)) false = O_match.
Proof.
  intros G AF Es S P.
  destruct (v_prepare_done _ _ P) as [top' [md [an [Es' [Lm [La [Eb Er]]]]]]].
  rewrite Es in Es'. inversion Es'. subst top'.
  unfold vmatch. cbn [la_arg]. apply sup_match; auto.
  - rewrite Eb. apply supn_sup. apply supn_add_annotation; auto.
  - rewrite Er. apply supn_sup; auto.
  - discriminate.
Qed.

(* ------------------------------------------------------------------ *)
(* definite verdicts                                                   *)
(* ------------------------------------------------------------------ *)

Lemma as_res_verdicts o v : as_res o = Some v -> verdicts o = [v].
Proof.
  destruct o as [[] [] [] [] []]; cbn; intros H; inversion H; reflexivity.
Qed.

Lemma tail_definite cfg t l ann x : tail cfg t l ann = Some x -> tail_all cfg t l ann = [x].
Proof.
  unfold tail, tail_all.
  destruct (if tc_should_own cfg then validate_owner_reffed_r l (tc_owner_ref cfg) else Done (Reffed true)) as [rr|e];
    [|intros H; inversion H; reflexivity].
  destruct (extract_last_applied_r l ann) as [la|e]; [|intros H; inversion H; reflexivity].
  destruct (as_res (vmatch t l la false)) as [v|] eqn:E; [|discriminate].
  intros H. inversion H. rewrite (as_res_verdicts _ _ E). reflexivity.
Qed.

(* ------------------------------------------------------------------ *)
(* reordering / extending a compare-as-map list is a decoration        *)
(* ------------------------------------------------------------------ *)

Lemma set_key_absent_app {A} k (v : A) kvs : lookup k kvs = None -> set_key k v kvs = kvs ++ [(k, v)].
Proof.
  induction kvs as [|[k' v'] r IH]; cbn; auto.
  destruct (String.eqb k k'); [discriminate|]. intros H. rewrite IH; auto.
Qed.

Lemma nodup_app_inv l1 l2 k :
  nodup_str (l1 ++ k :: l2) = true -> ~ In k l1 /\ nodup_str (l1 ++ l2) = true /\ ~ In k l2.
Proof.
  induction l1 as [|x r IH]; cbn.
  - intros H. apply Bool.andb_true_iff in H. destruct H as [H1 H2].
    apply Bool.negb_true_iff in H1. repeat split; auto.
    intros C. apply v_mem_str_In in C. congruence.
  - intros H. apply Bool.andb_true_iff in H. destruct H as [H1 H2].
    apply Bool.negb_true_iff in H1. destruct (IH H2) as [A [B C]].
    assert (Nx : ~ In x (r ++ k :: l2)) by (intros I; apply v_mem_str_In in I; congruence).
    repeat split; auto.
    + intros [E|I]; [subst; apply Nx, in_or_app; right; left; auto | auto].
    + rewrite B, Bool.andb_true_r. apply Bool.negb_true_iff.
      destruct (mem_str x (r ++ l2)) eqn:M; auto. exfalso. apply Nx.
      apply v_mem_str_In in M. apply in_app_or in M. apply in_or_app. destruct M; auto. right. right. auto.
Qed.

Lemma lookup_notin_keys {A} k (kvs : list (string * A)) : ~ In k (map fst kvs) -> lookup k kvs = None.
Proof.
  induction kvs as [|[k' v] r IH]; cbn; auto. intros N.
  destruct (String.eqb k k') eqn:E; [apply String.eqb_eq in E; subst; exfalso; auto|]. auto.
Qed.

(* with distinct keys the keyed view is just the list of (key, element) pairs *)
Lemma l2o_pairs fields ps : forall acc,
  (forall k o, In (k, o) ps -> obj_key o fields = Ret k) ->
  nodup_str (map fst (acc ++ ps)) = true ->
  l2o_items (map snd ps) fields acc = Ret (acc ++ ps).
Proof.
  induction ps as [|[k o] r IH]; intros acc K ND; cbn.
  - rewrite app_nil_r. reflexivity.
  - rewrite (K k o) by (left; auto).
    rewrite map_app in ND. cbn in ND.
    destruct (nodup_app_inv _ _ _ ND) as [N1 [N2 N3]].
    rewrite set_key_absent_app by (apply lookup_notin_keys; auto).
    rewrite IH.
    + rewrite <- app_assoc. reflexivity.
    + intros; apply K; right; auto.
    + rewrite <- app_assoc. cbn. rewrite map_app. cbn. exact ND.
Qed.

Lemma nodup_str_NoDup l : nodup_str l = true <-> NoDup l.
Proof.
  induction l as [|x r IH]; cbn; [split; auto; constructor|].
  rewrite Bool.andb_true_iff, Bool.negb_true_iff, IH. split.
  - intros [A B]. constructor; auto. intros C. apply v_mem_str_In in C. congruence.
  - intros H. inversion H. subst. split; auto.
    destruct (mem_str x r) eqn:M; auto. apply v_mem_str_In in M. contradiction.
Qed.

Lemma lookup_perm {A} (l l' : list (string * A)) k :
  Permutation l l' -> NoDup (map fst l) -> lookup k l = lookup k l'.
Proof.
  induction 1 as [|[k1 v1] l1 l2 P IH|[k1 v1] [k2 v2] l0|l1 l2 l3 P1 IH1 P2 IH2]; intros ND; cbn; auto.
  - inversion ND. subst. rewrite IH; auto.
  - inversion ND as [|? ? N1 N2]. subst.
    destruct (String.eqb k k2) eqn:E2; destruct (String.eqb k k1) eqn:E1; auto.
    apply String.eqb_eq in E1, E2. subst. exfalso. apply N1. left. reflexivity.
  - rewrite IH1 by auto. apply IH2.
    eapply Permutation_NoDup; [|exact ND]. apply Permutation_map. exact P1.
Qed.

Lemma lookup_app_l {A} k (l1 l2 : list (string * A)) v : lookup k l1 = Some v -> lookup k (l1 ++ l2) = Some v.
Proof.
  induction l1 as [|[k' v'] r IH]; cbn; [discriminate|].
  destruct (String.eqb k k'); auto.
Qed.

(* C04: "... map-directed lists in any order": a compare-as-map list whose
   elements have distinct keys may be permuted and extended by further
   elements (with further distinct keys); that is a decoration in the sense of
   [decorates] for every target view T whose keys are ordinary *)
Theorem as_map_reorder_extend_decorates fields ps extra ps' Tk :
  ps <> [] ->
  (forall k o, In (k, o) (ps ++ extra) -> obj_key o fields = Ret k) ->
  nodup_str (map fst (ps ++ extra)) = true ->
  Permutation (ps ++ extra) ps' ->
  (forall k v, In (k, v) Tk -> plain_key k = true) ->
  list_to_object (JList (map snd ps)) fields = Ret (JMap ps) /\
  list_to_object (JList (map snd ps')) fields = Ret (JMap ps') /\
  decorates (JMap Tk) false (JMap ps) (JMap ps').
Proof.
  intros NE K ND P PT.
  assert (ND1 : nodup_str (map fst ps) = true).
  { apply nodup_str_NoDup. apply nodup_str_NoDup in ND. rewrite map_app in ND.
    clear -ND. induction (map fst ps) as [|x r IH]; [constructor|].
    cbn in ND. inversion ND. subst. constructor; auto.
    intros C. apply H1. apply in_or_app. auto. }
  assert (ND' : nodup_str (map fst ps') = true).
  { apply nodup_str_NoDup. apply nodup_str_NoDup in ND.
    eapply Permutation_NoDup; [|exact ND]. apply Permutation_map. exact P. }
  assert (K' : forall k o, In (k, o) ps' -> obj_key o fields = Ret k).
  { intros k o I. apply K. eapply Permutation_in; [apply Permutation_sym; exact P | exact I]. }
  assert (NE' : ps' <> []).
  { intros E. subst. apply Permutation_sym, Permutation_nil in P.
    destruct ps; [congruence | discriminate P]. }
  repeat split.
  - unfold list_to_object. destruct ps as [|p0 pr]; [congruence|]. cbn [map py_truthy negb py_iter].
    change (snd p0 :: map snd pr) with (map snd (p0 :: pr)).
    rewrite (l2o_pairs fields (p0 :: pr) []); auto.
    intros; apply K; apply in_or_app; auto.
  - unfold list_to_object. destruct ps' as [|p0 pr]; [congruence|]. cbn [map py_truthy negb py_iter].
    change (snd p0 :: map snd pr) with (map snd (p0 :: pr)).
    rewrite (l2o_pairs fields (p0 :: pr) []); auto.
  - eapply (dec_map _ _ _ _ [] [] []); [apply dirs_of_plain; exact PT | |].
    + intros k tv v I _ _ L. exists v. split; [|apply dec_same].
      rewrite <- (lookup_perm _ _ k P) by (apply nodup_str_NoDup; exact ND).
      apply lookup_app_l. exact L.
    + intros k tv v fs T A _ _ C. discriminate C.
Qed.

(* ------------------------------------------------------------------ *)
(* the fuel S (jdepth t) used by [vmatch] suffices: beyond the target's *)
(* depth the result does not depend on the fuel                         *)
(* ------------------------------------------------------------------ *)

Lemma vmatch_scalar_fuel n m t a la s :
  is_container t = false -> vmatch_f n t a la s = vmatch_f m t a la s.
Proof. intros C. destruct t; try discriminate C; destruct a, n, m; reflexivity. Qed.

Section Ext.
  Variables rec1 rec2 : json -> json -> json -> bool -> outs.

  Lemma list_loop_ext tl : forall al las,
    (forall t, In t tl -> forall a la s, rec1 t a la s = rec2 t a la s) ->
    list_loop rec1 tl al las = list_loop rec2 tl al las.
  Proof.
    induction tl as [|t0 tr IH]; intros al las E; cbn; auto.
    destruct al as [|a0 ar]; auto.
    rewrite (E t0) by (left; auto).
    destruct (is_match _); auto. apply IH. intros; apply E; right; auto.
  Qed.

  Lemma list_match_ext tl al la :
    (forall t, In t tl -> forall a la s, rec1 t a la s = rec2 t a la s) ->
    list_match rec1 tl al la = list_match rec2 tl al la.
  Proof.
    intros E. unfold list_match.
    destruct tl, al; auto; destruct (negb (Nat.eqb _ _)); auto;
      destruct la; auto; apply list_loop_ext; auto.
  Qed.

  Lemma key_match_ext_rec sk lk cfg ak la k tv :
    (forall a la s, rec1 tv a la s = rec2 tv a la s) ->
    (forall fields T, lookup k cfg = Some fields -> list_to_object tv fields = Ret T ->
                      forall a la s, rec1 T a la s = rec2 T a la s) ->
    key_match rec1 sk lk cfg ak la k tv = key_match rec2 sk lk cfg ak la k tv.
  Proof.
    intros E1 E2. unfold key_match.
    destruct (String.eqb k K_OWNERS); auto.
    destruct (probe_la la k) as [lav| |]; auto.
    - destruct (if mem_str k lk then inl (read_la (LaVal lav))
                else match lookup k ak with Some v => inl (Ret v) | None => inr O_false end)
        as [[cv|e|]|o]; auto.
      destruct (lookup k cfg) as [fields|] eqn:C.
      + destruct (negb (shape_ok cv)); auto.
        destruct (list_to_object tv fields) as [T|e|] eqn:LT; auto.
        destruct (list_to_object cv fields) as [A|e|]; auto.
        cbn [read_la]. destruct (list_to_object (la_items lav) fields) as [L|e|]; auto.
        eapply E2; eauto.
      + cbn [read_la]. apply E1.
  Qed.

  Lemma keys_loop_ext sk lk cfg ak la l :
    (forall k tv, In (k, tv) l -> forall a la s, rec1 tv a la s = rec2 tv a la s) ->
    (forall k tv fields T, In (k, tv) l -> lookup k cfg = Some fields -> list_to_object tv fields = Ret T ->
                      forall a la s, rec1 T a la s = rec2 T a la s) ->
    keys_loop rec1 sk lk cfg ak la l = keys_loop rec2 sk lk cfg ak la l.
  Proof.
    induction l as [|[k tv] r IH]; intros E1 E2; cbn; auto.
    rewrite IH.
    2: { intros k0 tv0 I0. eapply E1. right. eauto. }
    2: { intros k0 tv0 fields T I0. eapply E2. right. eauto. }
    destruct (is_directive k); auto. f_equal.
    apply key_match_ext_rec.
    - eapply E1. left. eauto.
    - intros fields T. eapply E2. left. eauto.
  Qed.

  Lemma dict_match_ext tk ak la :
    (forall k tv, In (k, tv) tk -> forall a la s, rec1 tv a la s = rec2 tv a la s) ->
    (forall k tv sk lk cfg fields T, dirs_of tk = Some (sk, lk, cfg) -> In (k, tv) tk ->
        lookup k cfg = Some fields -> list_to_object tv fields = Ret T ->
        forall a la s, rec1 T a la s = rec2 T a la s) ->
    dict_match rec1 tk ak la = dict_match rec2 tk ak la.
  Proof.
    intros E1 E2. unfold dict_match.
    destruct (key_set (lookup K_SET tk)) as [sk| |] eqn:D1; auto.
    destruct (key_set (lookup K_LA tk)) as [lk| |] eqn:D2; auto.
    destruct (map_cfg (lookup K_MAP tk)) as [cfg| |] eqn:D3; auto.
    apply keys_loop_ext; auto.
    intros k tv fields T I C LT. eapply E2; eauto. unfold dirs_of. rewrite D1, D2, D3. reflexivity.
  Qed.
End Ext.

(* keyed views of non-list values: every key is "" and every value a str *)
Definition flat_view (kvs : list (string * json)) : Prop :=
  forall k v, In (k, v) kvs -> k = ""%string /\ is_container v = false.

Lemma l2o_items_strs objs fields : forall acc kvs,
  (forall o, In o objs -> exists c, o = JStr c) -> flat_view acc ->
  l2o_items objs fields acc = Ret kvs -> flat_view kvs.
Proof.
  induction objs as [|o r IH]; cbn; intros acc kvs S F H.
  - inversion H. subst. auto.
  - destruct (S o) as [c Ec]; auto. subst o.
    destruct fields as [|f fr]; cbn in H; [|discriminate H].
    eapply IH; [| |exact H]; auto.
    intros k v I. apply v_In_set_key in I. destruct I as [[E1 E2]|I]; [subst; auto | auto].
Qed.

Lemma list_to_object_nonlist v fields T :
  list_to_object v fields = Ret T -> (forall l, v <> JList l) ->
  T = JNull \/ exists kvs, T = JMap kvs /\ flat_view kvs.
Proof.
  unfold list_to_object. destruct (negb (py_truthy v)); [intros H; inversion H; auto|].
  destruct (py_iter v) as [objs| |] eqn:I; try discriminate.
  destruct (l2o_items objs fields []) as [kvs| |] eqn:L; try discriminate.
  intros H NL. inversion H. subst. right. exists kvs. split; auto.
  eapply l2o_items_strs; [| |exact L].
  - destruct v; cbn in I; try discriminate I; inversion I; subst.
    + intros o Io. apply in_map_iff in Io. destruct Io as [c [E _]]. eauto.
    + exfalso. eapply NL; eauto.
    + intros o Io. apply in_map_iff in Io. destruct Io as [c [E _]]. eauto.
  - intros ? ? [].
Qed.

Lemma flat_view_dirs kvs : flat_view kvs -> dirs_of kvs = Some ([], [], []).
Proof.
  intros F. apply dirs_of_plain. intros k v I. destruct (F k v I) as [E _]. subst. reflexivity.
Qed.

Lemma vmatch_flat_fuel kvs n m a la s :
  flat_view kvs -> 1 <= n -> 1 <= m -> vmatch_f n (JMap kvs) a la s = vmatch_f m (JMap kvs) a la s.
Proof.
  intros F Hn Hm. destruct n as [|n]; [lia|]. destruct m as [|m]; [lia|].
  destruct a; try reflexivity. rewrite !vmatch_map_unfold.
  apply dict_match_ext.
  - intros k tv I a0 la0 s0. apply vmatch_scalar_fuel. apply (F k tv I).
  - intros k tv sk lk cfg fields T D I C. rewrite (flat_view_dirs _ F) in D. inversion D. subst. discriminate C.
Qed.

Lemma jdepth_l2o_list objs fields kvs :
  l2o_items objs fields [] = Ret kvs -> jdepth (JMap kvs) <= jdepth (JList objs).
Proof.
  intros H. apply jdepth_map_le; [|rewrite jdepth_list; lia].
  intros k v I. destruct (l2o_items_entries _ _ _ _ H k v I) as [[]|[Io _]]. apply jdepth_in_list; auto.
Qed.

Theorem vmatch_fuel_irrelevant : forall n m t a la s,
  jdepth t < n -> jdepth t < m -> vmatch_f n t a la s = vmatch_f m t a la s.
Proof.
  induction n as [|n IH]; intros m t a la s Hn Hm; [lia|].
  destruct m as [|m]; [lia|].
  destruct t as [| b | z | mm e | str | tl | tk];
    try (apply vmatch_scalar_fuel; reflexivity).
  - (* list *)
    destruct a; try reflexivity. destruct s; [rewrite !vmatch_set_unfold; reflexivity|].
    rewrite !vmatch_list_unfold. apply list_match_ext.
    intros t I a0 la0 s0. pose proof (jdepth_in_list _ _ I). apply IH; lia.
  - (* map *)
    destruct a; try reflexivity. rewrite !vmatch_map_unfold. apply dict_match_ext.
    + intros k tv I a0 la0 s0. pose proof (jdepth_in_map _ _ _ I). apply IH; lia.
    + intros k tv sk lk cfg fields T D I C LT a0 la0 s0.
      pose proof (jdepth_in_map _ _ _ I) as Dv.
      destruct tv as [| | | | |objs|kvs0].
      6: { (* a list: the keyed view is no deeper than the list *)
        unfold list_to_object in LT. destruct (negb (py_truthy (JList objs))).
        - inversion LT. apply vmatch_scalar_fuel. reflexivity.
        - cbn [py_iter] in LT. destruct (l2o_items objs fields []) as [tkvs| |] eqn:L; try discriminate LT.
          inversion LT. subst T. pose proof (jdepth_l2o_list _ _ _ L). apply IH; lia. }
      all: (destruct (list_to_object_nonlist _ _ _ LT) as [E|[fkvs [E F]]]; [discriminate | | ];
            [ subst T; apply vmatch_scalar_fuel; reflexivity
            | subst T; apply vmatch_flat_fuel; auto; rewrite jdepth_map in Hn, Hm; lia ]).
Qed.

(* in particular [vmatch]'s own fuel gives the limit value *)
Corollary vmatch_is_limit t a la s n :
  jdepth t < n -> vmatch_f n t a (la_arg la) s = vmatch t a la s.
Proof. intros H. unfold vmatch. apply vmatch_fuel_irrelevant; lia. Qed.

(* ------------------------------------------------------------------ *)
(* C04 no_update_loop, composed: the two payload facts                 *)
(* ------------------------------------------------------------------ *)

Lemma strip_kvs_In k v' kvs :
  In (k, v') (strip_kvs kvs) -> exists v, In (k, v) kvs /\ v' = strip v.
Proof.
  induction kvs as [|[k0 v0] r IH]; cbn; [tauto|].
  destruct (is_directive k0); cbn.
  - intros I. destruct (IH I) as [v [A B]]. eauto.
  - intros [E|I]; [inversion E; subst; eauto|]. destruct (IH I) as [v [A B]]. eauto.
Qed.

Lemma wf_strip j : wf j = true -> wf (strip j) = true.
Proof.
  induction j using json_ind'; intros W; auto.
  - rewrite strip_list_eq. cbn. apply forallb_forall. intros x I.
    apply in_map_iff in I. destruct I as [y [E I]]. subst.
    rewrite Forall_forall in H. apply H; auto. eapply wf_list_inv; eauto.
  - rewrite strip_map_eq. apply wf_map_inv in W. destruct W as [ND A].
    apply wf_map_intro; [apply strip_kvs_nodup; auto|].
    intros k v' I. destruct (strip_kvs_In _ _ _ I) as [v [Iv E]]. subst.
    rewrite Forall_forall in H. apply (H (k, v) Iv). eauto.
Qed.

Lemma wf_lookup kvs k v : wf (JMap kvs) = true -> lookup k kvs = Some v -> wf v = true.
Proof. intros W L. apply wf_map_inv in W. destruct W as [_ A]. eapply A. apply v_lookup_In. eauto. Qed.

Lemma wf_ensure_key k kvs : wf (JMap kvs) = true -> wf (JMap (ensure_key k kvs)) = true.
Proof. intros W. unfold ensure_key. destruct (lookup k kvs); auto. apply wf_set_key; auto. Qed.

Lemma wf_body obj p : wf obj = true -> prepare_for_api obj = Done p -> wf (body p) = true.
Proof.
  intros W P. destruct (v_prepare_done _ _ P) as [top [md [an [Es [Lm [La [Eb _]]]]]]].
  apply wf_strip in W. rewrite Es in W. rewrite Eb.
  pose proof (wf_ensure_key "metadata" _ W) as W1.
  pose proof (wf_lookup _ _ _ W1 Lm) as Wm.
  pose proof (wf_ensure_key "annotations" _ Wm) as Wm1.
  pose proof (wf_lookup _ _ _ Wm1 La) as Wa.
  apply wf_set_key; auto. apply wf_set_key; auto. apply wf_set_key; auto.
Qed.

Definition t_ann : json :=
  JMap [("metadata"%string, JMap [("annotations"%string, JMap [(last_applied_key, annotation_placeholder)])])].

Lemma wf_nodup kvs : wf (JMap kvs) = true -> nodup_str (map fst kvs) = true.
Proof. intros W. apply wf_map_inv in W. tauto. Qed.

Lemma supn_t_ann_body obj p : wf obj = true -> prepare_for_api obj = Done p -> supn t_ann (body p).
Proof.
  intros W P. pose proof (wf_body _ _ W P) as Wb.
  destruct (v_prepare_done _ _ P) as [top [md [an [Es [Lm [La [Eb _]]]]]]].
  rewrite Eb in *.
  pose proof (wf_lookup _ _ _ Wb (v_lookup_set_key_eq _ _ _)) as Wm.
  pose proof (wf_lookup _ _ _ Wm (v_lookup_set_key_eq _ _ _)) as Wa.
  unfold t_ann. constructor; [apply wf_nodup; auto|].
  intros k tv [E|[]] _. inversion E. subst. eexists. split; [apply v_lookup_set_key_eq|].
  constructor; [apply wf_nodup; auto|].
  intros k tv [E'|[]] _. inversion E'. subst. eexists. split; [apply v_lookup_set_key_eq|].
  constructor; [apply wf_nodup; auto|].
  intros k tv [E''|[]] _. inversion E''. subst. eexists. split; [apply v_lookup_set_key_eq|].
  constructor. reflexivity.
Qed.

Lemma sup_map_lookup tk x k tv :
  sup (JMap tk) x -> In (k, tv) tk -> plain_key k = true ->
  exists xk xv, x = JMap xk /\ lookup k xk = Some xv /\ sup tv xv.
Proof.
  intros S I P. inversion S as [? C| |? xk Sm]; subst; [discriminate C|].
  destruct (Sm k tv I P) as [xv [L Sx]]. eauto.
Qed.

Lemma lookup_truthy {A} k (kvs : list (string * A)) v : lookup k kvs = Some v -> kvs <> [].
Proof. destruct kvs; [discriminate|discriminate]. Qed.

(* the annotation of the patched object reads back the recorded document *)
Lemma annotation_after_patch obj p l :
  wf obj = true -> prepare_for_api obj = Done p ->
  extract_last_applied_r (merge_patch l (body p)) (Some (recorded p)) = Done (Some (recorded p)).
Proof.
  intros W P.
  assert (S : sup t_ann (merge_patch l (body p))).
  { apply supn_merge_patch; [reflexivity | eapply supn_t_ann_body; eauto]. }
  destruct (v_prepare_done _ _ P) as [top [_ [_ [_ [_ [_ [_ Er]]]]]]].
  unfold t_ann in S.
  destruct (sup_map_lookup _ _ _ _ S (or_introl eq_refl) eq_refl) as [x [xm [Ex [Lm Sm]]]].
  destruct (sup_map_lookup _ _ _ _ Sm (or_introl eq_refl) eq_refl) as [m [xa [Em [La Sa]]]].
  destruct (sup_map_lookup _ _ _ _ Sa (or_introl eq_refl) eq_refl) as [a [xl [Ea [Ll Sl]]]].
  apply sup_scalar_inv in Sl; [|reflexivity]. subst.
  rewrite Ex. unfold extract_last_applied_r.
  destruct x as [|x0 xr]; [discriminate Lm|]. cbn [py_truthy negb].
  cbn [get_r bind]. rewrite Lm.
  destruct m as [|m0 mr]; [discriminate La|]. cbn [py_truthy negb get_r bind]. rewrite La.
  destruct a as [|a0 ar]; [discriminate Ll|]. cbn [py_truthy negb get_r bind]. rewrite Ll.
  cbn. rewrite Er. reflexivity.
Qed.

(* ---- owner references after the patch ---- *)

Lemma merge_lookup2 l btop k1 m2 k2 v2 :
  wf (JMap btop) = true -> lookup k1 btop = Some (JMap m2) -> lookup k2 m2 = Some v2 ->
  v2 <> JNull -> (forall kvs, v2 <> JMap kvs) ->
  exists x xm, merge_patch l (JMap btop) = JMap x /\ lookup k1 x = Some (JMap xm) /\ lookup k2 xm = Some v2.
Proof.
  intros W L1 L2 N NM. rewrite merge_patch_map_eq.
  eexists. eexists. split; [reflexivity|].
  rewrite (mp_go_in k1 (JMap m2)) by (auto using wf_nodup; discriminate).
  rewrite merge_patch_map_eq. split; [reflexivity|].
  pose proof (wf_lookup _ _ _ W L1) as Wm.
  rewrite (mp_go_in k2 v2) by (auto using wf_nodup).
  rewrite merge_patch_nonmap_eq by auto. reflexivity.
Qed.

Lemma merge_lookup2_keep ltop btop k1 lmd m2 k2 :
  wf (JMap btop) = true -> lookup k1 ltop = Some (JMap lmd) -> lookup k1 btop = Some (JMap m2) ->
  ~ In k2 (map fst m2) ->
  exists x xm, merge_patch (JMap ltop) (JMap btop) = JMap x /\ lookup k1 x = Some (JMap xm) /\
               lookup k2 xm = lookup k2 lmd.
Proof.
  intros W L1 L2 N. rewrite merge_patch_map_eq.
  eexists. eexists. split; [reflexivity|].
  rewrite (mp_go_in k1 (JMap m2)) by (auto using wf_nodup; discriminate).
  rewrite L1, merge_patch_map_eq. split; [reflexivity|].
  apply mp_go_notin. exact N.
Qed.

Lemma live_refs_eq top md :
  lookup "metadata" top = Some (JMap md) ->
  live_refs (JMap top) =
    match lookup "ownerReferences" md with
    | None => Some None
    | Some refs => if negb (py_truthy refs) then Some None
                   else match refs with JList l => Some (Some l) | _ => None end
    end.
Proof. intros L. unfold live_refs. rewrite L. reflexivity. Qed.

(* all references are maps, the last one has the trigger's uid *)
Lemma find_ref_r_last trig l okvs :
  forallb (fun r => match r with JMap _ => true | _ => false end) l = true ->
  uid_eq (lookup "uid" okvs) trig = true ->
  find_ref_r trig (l ++ [JMap okvs]) = Done true.
Proof.
  intros F U. induction l as [|r rs IH]; cbn.
  - rewrite U. reflexivity.
  - cbn in F. apply Bool.andb_true_iff in F. destruct F as [Fr Fs].
    destruct r; try discriminate Fr. destruct (uid_eq (lookup "uid" kvs) trig); auto.
Qed.

Lemma find_ref_r_all_maps trig l b :
  find_ref_r trig l = Done b -> b = false ->
  forallb (fun r => match r with JMap _ => true | _ => false end) l = true.
Proof.
  intros H E. subst b. induction l as [|r rs IH]; auto.
  cbn in H. destruct r; try discriminate H.
  destruct (uid_eq (lookup "uid" kvs) trig); [discriminate H|]. cbn. auto.
Qed.

Lemma strip_is_map_list l :
  forallb (fun r => match r with JMap _ => true | _ => false end) l = true ->
  forallb (fun r => match r with JMap _ => true | _ => false end) (map strip l) = true.
Proof.
  induction l as [|r rs IH]; cbn; auto. intros H. apply Bool.andb_true_iff in H. destruct H as [A B].
  destruct r; try discriminate A. rewrite strip_map_eq. cbn. auto.
Qed.

Lemma strip_is_map v md : strip v = JMap md -> exists mdt, v = JMap mdt /\ md = strip_kvs mdt.
Proof.
  destruct v; try (cbn; discriminate).
  rewrite strip_map_eq. intros H. inversion H. eauto.
Qed.

Lemma lookup_ensure_key_neq k k' kvs :
  String.eqb k' k = false -> lookup k' (ensure_key k kvs) = lookup k' kvs.
Proof. intros N. unfold ensure_key. destruct (lookup k kvs); auto. apply v_lookup_set_key_neq; auto. Qed.

Lemma strip_kvs_lookup_none k kvs : lookup k kvs = None -> lookup k (strip_kvs kvs) = None.
Proof.
  intros H. apply lookup_notin_keys. intros I. apply strip_kvs_keys in I.
  apply v_lookup_None_notin in H. contradiction.
Qed.

(* the metadata map of the stripped object *)
Lemma strip_meta ttop md :
  nodup_str (map fst ttop) = true ->
  lookup "metadata" (ensure_key "metadata" (strip_kvs ttop)) = Some (JMap md) ->
  (lookup "metadata" ttop = None /\ md = []) \/
  (exists mdt, lookup "metadata" ttop = Some (JMap mdt) /\ md = strip_kvs mdt).
Proof.
  intros ND L. rewrite lookup_ensure_key in L.
  destruct (lookup "metadata" ttop) as [v|] eqn:Lt.
  - rewrite (strip_kvs_lookup _ _ _ ND (v_lookup_In _ _ _ Lt) eq_refl) in L. inversion L as [E].
    destruct (strip_is_map _ _ E) as [mdt [Ev Em]]. subst. right. eauto.
  - rewrite (strip_kvs_lookup_none _ _ Lt) in L. inversion L. auto.
Qed.

(* the body's metadata map agrees with the stripped object's on every key but "annotations" *)
Lemma body_meta obj p :
  prepare_for_api obj = Done p ->
  exists top md btop md2,
    strip obj = JMap top /\ lookup "metadata" (ensure_key "metadata" top) = Some (JMap md) /\
    body p = JMap btop /\ lookup "metadata" btop = Some (JMap md2) /\
    (forall k, String.eqb k "annotations" = false -> lookup k md2 = lookup k md).
Proof.
  intros P. destruct (v_prepare_done _ _ P) as [top [md [an [Es [Lm [La [Eb _]]]]]]].
  exists top, md,
    (set_key "metadata"
       (JMap (set_key "annotations" (JMap (set_key last_applied_key annotation_placeholder an))
                (ensure_key "annotations" md))) (ensure_key "metadata" top)),
    (set_key "annotations" (JMap (set_key last_applied_key annotation_placeholder an))
       (ensure_key "annotations" md)).
  split; [exact Es|]. split; [exact Lm|]. split; [exact Eb|]. split; [apply v_lookup_set_key_eq|].
  intros k N. rewrite v_lookup_set_key_neq by auto. apply lookup_ensure_key_neq. auto.
Qed.

Lemma wf_updated_refs live o refs :
  updated_owner_refs_r live o = Done (OwnerRefs refs) -> wf live = true -> wf o = true ->
  wf (JList refs) = true.
Proof.
  unfold updated_owner_refs_r, live_refs. intros H Wl Wo.
  destruct live as [| | | | | |top]; try discriminate H.
  destruct (lookup "metadata" top) as [[| | | | | |md]|] eqn:Lm; try discriminate H.
  pose proof (wf_lookup _ _ _ Wl Lm) as Wm.
  destruct (lookup "ownerReferences" md) as [refs0|] eqn:Lr.
  - pose proof (wf_lookup _ _ _ Wm Lr) as Wr.
    destruct (negb (py_truthy refs0)).
    + inversion H. subst. cbn. rewrite Wo. reflexivity.
    + destruct refs0 as [| | | | |l|]; try discriminate H.
      cbn [bind] in H. destruct (has_owner_r o l) as [found|e]; [|discriminate H].
      inversion H. destruct found; subst; auto.
      cbn in Wr |- *. rewrite forallb_app, Wr. cbn. rewrite Wo. reflexivity.
  - inversion H. subst. cbn. rewrite Wo. reflexivity.
Qed.

Lemma wf_set_owner_refs t refs t' :
  set_owner_refs t refs = Done t' -> wf t = true -> wf (JList refs) = true -> wf t' = true.
Proof.
  unfold set_owner_refs. destruct t as [| | | | | |top]; try discriminate.
  destruct (lookup "metadata" top) as [[| | | | | |md]|] eqn:Lm; try discriminate.
  intros H W Wr. inversion H. subst.
  apply wf_set_key; auto. apply wf_set_key; auto. eapply wf_lookup; eauto.
Qed.

Lemma tail_patch_inv2 cfg t live ann r p :
  tail cfg t live ann = Some (r, [CPatch p]) ->
  exists rr, owner_check cfg live = Done rr /\
    ((tc_should_own cfg && negb (reffed_truthy rr) = false /\ prepare_for_api t = Done p) \/
     (tc_should_own cfg && negb (reffed_truthy rr) = true /\
      exists refs t', updated_owner_refs_r live (tc_owner_ref cfg) = Done (OwnerRefs refs) /\
                      set_owner_refs t refs = Done t' /\ prepare_for_api t' = Done p)).
Proof.
  rewrite tail_eq. destruct (owner_check cfg live) as [rr|e]; [|intros H; inversion H].
  destruct (extract_last_applied_r live ann) as [la|e]; [|intros H; inversion H].
  destruct (as_res (vmatch t live la false)) as [v|]; [|discriminate].
  intros H. inversion H as [H']. clear H. exists rr. split; auto.
  unfold dispatch in H'. destruct v as [m|e]; [|inversion H'].
  destruct (m && reffed_truthy rr); [inversion H'|].
  destruct (tc_update cfg) as [|d|d]; try (inversion H'; fail).
  unfold patch_branch in H'.
  destruct (tc_should_own cfg && negb (reffed_truthy rr)).
  - right. split; auto.
    destruct (updated_owner_refs_r live (tc_owner_ref cfg)) as [[refs|]|e]; cbn in H'; try (inversion H'; fail).
    destruct (set_owner_refs t refs) as [t'|e] eqn:S; cbn in H'; try (inversion H'; fail).
    destruct (prepare_for_api t') eqn:P; inversion H'. subst. eauto.
  - left. split; auto. destruct (prepare_for_api t) eqn:P; inversion H'. subst. auto.
Qed.

Lemma validate_reffed_inv live o b :
  validate_owner_reffed_r live o = Done (Reffed b) ->
  (b = false /\ live_refs live = Some None) \/
  (exists l, live_refs live = Some (Some l) /\ has_owner_r o l = Done b).
Proof.
  unfold validate_owner_reffed_r. destruct (live_refs live) as [[l|]|]; try discriminate.
  - cbn [bind]. destruct (has_owner_r o l) as [f|e] eqn:Hh; [|discriminate]. intros H. inversion H. subst. eauto.
  - intros H. inversion H. auto.
Qed.

Lemma live_refs_meta live x : live_refs live = Some x -> exists top md, live = JMap top /\ lookup "metadata" top = Some (JMap md).
Proof.
  unfold live_refs. destruct live as [| | | | | |top]; try discriminate.
  destruct (lookup "metadata" top) as [[| | | | | |md]|] eqn:L; try discriminate. intros _. eauto.
Qed.

(* C04 no_update_loop, fully composed over the tail model: pass 1 patched; the
   server applied the patch; pass 2 is quiet and returns the object *)
Theorem no_update_loop_full cfg t live ann r p okvs u :
  good t = true -> no_nulls t = true -> ann_free t = true -> owners_free t = true ->
  wf t = true -> wf live = true ->
  tc_owner_ref cfg = JMap okvs -> wf (JMap okvs) = true -> lookup "uid" okvs = Some (JStr u) ->
  (forall rr, owner_check cfg live = Done rr -> rr <> ReffedPermFail) ->
  tail cfg t live ann = Some (r, [CPatch p]) ->
  let live2 := merge_patch live (body p) in
  tail cfg t live2 (Some (recorded p)) = Some (TLive live2, []).
Proof.
  intros G N AF OF W Wl Eo Wo Lu NPF T live2.
  destruct (tail_patch_inv2 _ _ _ _ _ _ T) as [rr [Oc Cases]].
  assert (Wt' : exists t', wf t' = true /\ prepare_for_api t' = Done p).
  { destruct Cases as [[_ P]|[_ [refs [t' [U [S P]]]]]]; [eauto|].
    exists t'. split; auto. eapply wf_set_owner_refs; eauto.
    eapply wf_updated_refs; eauto. rewrite Eo. exact Wo. }
  destruct Wt' as [t0 [Wt0 Pt0]].
  assert (Own : exists rr2, owner_check cfg live2 = Done rr2 /\ reffed_truthy rr2 = true).
  { unfold owner_check in *. destruct (tc_should_own cfg) eqn:So; [|eexists; split; reflexivity].
    pose proof (NPF rr Oc) as Npf.
    destruct Cases as [[Cnd P]|[Cnd [refs [t' [U [S P]]]]]].
    - (* already reffed: the patch leaves ownerReferences alone *)
      cbn in Cnd. apply Bool.negb_false_iff in Cnd.
      destruct rr as [b|]; [|congruence]. cbn in Cnd. subst b.
      destruct (validate_reffed_inv _ _ _ Oc) as [[C _]|[l [Lr Ho]]]; [discriminate C|].
      destruct (live_refs_meta _ _ Lr) as [ltop [lmd [El Lm]]].
      destruct (body_meta _ _ P) as [top [md [btop [md2 [Es [Lmd [Eb [Lb Agree]]]]]]]].
      destruct t as [| | | | | |ttop]; try (rewrite strip_map_eq in Es; discriminate Es);
        try (cbn in Es; discriminate Es).
      rewrite strip_map_eq in Es. inversion Es. subst top.
      assert (No : lookup K_OWNERS md2 = None).
      { rewrite Agree by reflexivity.
        destruct (strip_meta _ _ (wf_nodup _ W) Lmd) as [[_ E]|[mdt [Lt E]]]; subst md; [reflexivity|].
        apply strip_kvs_lookup_none. unfold owners_free in OF. rewrite Lt in OF.
        destruct (lookup K_OWNERS mdt); [discriminate OF | reflexivity]. }
      pose proof (wf_body _ _ W P) as Wb. rewrite Eb in Wb.
      destruct (merge_lookup2_keep ltop btop "metadata" lmd md2 K_OWNERS Wb Lm Lb
                  (v_lookup_None_notin _ _ No)) as [x [xm [Ex [Lx Lo]]]].
      exists (Reffed true). split; [|reflexivity].
      unfold live2. rewrite El, Eb, Ex. unfold validate_owner_reffed_r.
      rewrite (live_refs_eq _ _ Lx). unfold K_OWNERS in Lo. rewrite Lo.
      rewrite El, (live_refs_eq _ _ Lm) in Lr. rewrite Lr. cbn [bind]. rewrite Ho. reflexivity.
    - (* the owner reference was added by the patch *)
      cbn in Cnd. apply Bool.negb_true_iff in Cnd.
      destruct rr as [b|]; [|congruence]. cbn in Cnd. subst b.
      destruct (body_meta _ _ P) as [top [md [btop [md2 [Es [Lmd [Eb [Lb Agree]]]]]]]].
      (* shape of t' *)
      unfold set_owner_refs in S. destruct t as [| | | | | |ttop]; try discriminate S.
      destruct (lookup "metadata" ttop) as [[| | | | | |md0]|] eqn:Lt; try discriminate S.
      inversion S. subst t'. clear S.
      rewrite strip_map_eq, strip_kvs_set_key in Es by reflexivity. injection Es as Et. subst top.
      rewrite lookup_ensure_key, v_lookup_set_key_eq in Lmd.
      change (Some (JMap (strip_kvs (set_key K_OWNERS (JList refs) md0))) = Some (JMap md)) in Lmd.
      rewrite strip_kvs_set_key in Lmd by reflexivity. injection Lmd as Emd. subst md.
      assert (Lo : lookup K_OWNERS md2 = Some (JList (map strip refs))).
      { rewrite Agree by reflexivity. rewrite v_lookup_set_key_eq. reflexivity. }
      (* refs is non-empty and ends with the owner *)
      assert (Hr : has_owner_r (JMap okvs) (map strip refs) = Done true /\ refs <> []).
      { rewrite Eo in U, Oc. unfold updated_owner_refs_r in U.
        assert (Last : forall l0, forallb (fun r => match r with JMap _ => true | _ => false end) l0 = true ->
                  has_owner_r (JMap okvs) (map strip (l0 ++ [JMap okvs])) = Done true).
        { intros l0 F. rewrite map_app. cbn [map]. rewrite strip_map_eq. cbn [has_owner_r].
          apply find_ref_r_last; [apply strip_is_map_list; auto|].
          rewrite (strip_kvs_lookup _ _ _ (wf_nodup _ Wo) (v_lookup_In _ _ _ Lu) eq_refl), Lu.
          cbn. apply String.eqb_refl. }
        destruct (validate_reffed_inv _ _ _ Oc) as [[_ Lr]|[l [Lr Ho]]]; rewrite Lr in U.
        - inversion U. subst. split; [apply (Last []); reflexivity | discriminate].
        - cbn [bind] in U. rewrite Ho in U. inversion U. subst. split.
          + apply Last. cbn in Ho. eapply find_ref_r_all_maps; eauto.
          + destruct l; discriminate. }
      destruct Hr as [Ho Ne].
      assert (Wt' : wf (JMap (set_key "metadata" (JMap (set_key K_OWNERS (JList refs) md0)) ttop)) = true).
      { eapply (wf_set_owner_refs (JMap ttop)); [unfold set_owner_refs; rewrite Lt; reflexivity | auto |].
        eapply wf_updated_refs; eauto. rewrite Eo. exact Wo. }
      pose proof (wf_body _ _ Wt' P) as Wb. rewrite Eb in Wb.
      destruct (merge_lookup2 live btop "metadata" md2 K_OWNERS _ Wb Lb Lo) as [x [xm [Ex [Lx Lxo]]]];
        [discriminate | discriminate |].
      exists (Reffed true). split; [|reflexivity].
      unfold live2. rewrite Eb, Ex. unfold validate_owner_reffed_r.
      rewrite (live_refs_eq _ _ Lx). unfold K_OWNERS in Lxo. rewrite Lxo.
      destruct (map strip refs) as [|r0 rs] eqn:Em; [destruct refs; [congruence | discriminate Em]|].
      cbn [py_truthy negb bind]. rewrite Eo, Ho. reflexivity. }
  destruct Own as [rr2 [Oc2 Tr2]].
  eapply no_update_loop_thm; eauto.
  eapply annotation_after_patch; eauto.
Qed.
