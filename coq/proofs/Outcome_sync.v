(* Outcome_sync.v — the hand-written model of result.py's `combine` methods
   (model/Outcome.v, about which the C03 theorems are proved) is EQUAL to the
   transcription regenerated from the current source on every run
   (gen/Outcome_gen.v, by harness/translate_result.py).  If result.py changes
   the behaviour of a `combine` method, this proof breaks. *)
From Koreo Require Import Json Outcome Outcome_gen.
Local Open Scope list_scope.

Lemma combine2_gen_eq (V : Type) (a b : outcome V) : combine2_gen V a b = combine2 a b.
Proof.
  destruct a as [am al|am al|[av|avs] al|ad am al|am al];
    destruct b as [bm bl|bm bl|[bv|bvs] bl|bd bm bl|bm bl];
    cbn [combine2_gen combine_DepSkip combine_Skip combine_Ok combine_Retry combine_PermFail
         combine2 is_cls tag_of tag_eqb existsb orb negb is_many elems f_data f_message f_location
         f_delay msg loc app];
    try reflexivity;
    unfold join2;
    repeat match goal with
      | |- context [truthy_os ?x] => destruct (truthy_os x)
      end;
    reflexivity.
Qed.

(* hence folding the transcription is folding the model *)
Lemma reduce_gen_eq (V : Type) (xs : list (outcome V)) (acc : outcome V) :
  fold_left (combine2_gen V) xs acc = fold_left combine2 xs acc.
Proof.
  revert acc. induction xs as [|x xs IH]; intros acc; cbn [fold_left]; [reflexivity|].
  rewrite combine2_gen_eq. apply IH.
Qed.

(* ---------- the module-level functions ----------
   [combine_gen] / [unwrapped_combine_gen] are regenerated from the bodies of result.combine and
   result.unwrapped_combine (and of the predicates is_ok / is_error / is_skip / is_unwrapped_ok they
   call).  They are partial (None = the Python code would hold an object the model cannot represent,
   or raise); the hand model is total.  The transcription never fails on a list of outcomes, and never
   fails on the inputs unwrapped_combine is specified for (bare values and non-Ok outcomes), and then
   agrees with the hand model about which the C03 theorems are proved. *)

Lemma fold_opt_gen_eq (V : Type) (xs : list (outcome V)) (acc : outcome V) :
  fold_left (fun o x => match o with Some a => Some (combine2_gen V a x) | None => None end) xs (Some acc)
  = Some (fold_left combine2 xs acc).
Proof.
  revert acc. induction xs as [|x xs IH]; intros acc; cbn [fold_left]; [reflexivity|].
  rewrite combine2_gen_eq. apply IH.
Qed.

Theorem combine_gen_eq (V : Type) (xs : list (outcome V)) : combine_gen V xs = Some (combine xs).
Proof.
  unfold combine_gen, combine. destruct xs as [|x xs]; [reflexivity|].
  cbn [nonempty_list negb]. rewrite fold_opt_gen_eq. fold (reduce (x :: xs)).
  destruct (reduce (x :: xs)) as [m l|m l|[v|vs] l|d m l|m l]; reflexivity.
Qed.

Definition uraw_b {V : Type} (u : uoutcome V) : bool :=
  match u with UOut (Ok _ _) => false | _ => true end.

Lemma fold_opt_ugen_eq (V : Type) (us : list (uoutcome V)) (acc : outcome V) :
  forallb uraw_b us = true ->
  fold_left (fun o u => match o with
                        | Some a => match (if is_unwrapped_ok_u V u then wrap_val V u else as_outcome V u) with
                                    | Some t => Some (combine2_gen V a t)
                                    | None => None
                                    end
                        | None => None
                        end) us (Some acc)
  = Some (fold_left combine2 (map wrap us) acc).
Proof.
  revert acc. induction us as [|u us IH]; intros acc Hraw; cbn [fold_left map]; [reflexivity|].
  cbn [forallb] in Hraw. apply andb_prop in Hraw. destruct Hraw as [Hu Hus].
  assert (E : (if is_unwrapped_ok_u V u then wrap_val V u else as_outcome V u) = Some (wrap u)).
  { destruct u as [v|[m l|m l|d l|d m l|m l]]; try reflexivity. discriminate Hu. }
  rewrite E, combine2_gen_eq. apply IH, Hus.
Qed.

Theorem unwrapped_combine_gen_eq (V : Type) (us : list (uoutcome V)) :
  forallb uraw_b us = true -> unwrapped_combine_gen V us = Some (unwrapped_combine us).
Proof.
  intros Hraw. unfold unwrapped_combine_gen, unwrapped_combine. destruct us as [|u us]; [reflexivity|].
  cbn [nonempty_list negb]. rewrite (fold_opt_ugen_eq V (u :: us) _ Hraw). fold (reduce (map wrap (u :: us))).
  destruct (reduce (map wrap (u :: us))) as [m l|m l|[v|vs] l|d m l|m l]; reflexivity.
Qed.
