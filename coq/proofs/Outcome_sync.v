(* Outcome_sync.v — the hand-written model of result.py's `combine` methods
   (model/Outcome.v, about which the C03 theorems are proved) is EQUAL to the
   transcription regenerated from the current source on every run
   (gen/Outcome_gen.v, by harness/translate_result.py).  If result.py changes
   the behaviour of a `combine` method, this proof breaks. *)
From Koreo Require Import Json Outcome Outcome_gen.
Local Open Scope list_scope.

Lemma combine2_gen_eq (V : Type) (a b : outcome V) : combine2_gen V a b = combine2 a b.
Proof.
  destruct a as [am al|am al|[av|avs] al|ad am al|am al];
    destruct b as [bm bl|bm bl|[bv|bvs] bl|bd bm bl|bm bl];
    cbn [combine2_gen combine_DepSkip combine_Skip combine_Ok combine_Retry combine_PermFail
         combine2 is_cls tag_of tag_eqb existsb orb negb is_many elems f_data f_message f_location
         f_delay msg loc app];
    try reflexivity;
    unfold join2;
    repeat match goal with
      | |- context [truthy_os ?x] => destruct (truthy_os x)
      end;
    reflexivity.
Qed.

(* hence folding the transcription is folding the model *)
Lemma reduce_gen_eq (V : Type) (xs : list (outcome V)) (acc : outcome V) :
  fold_left (combine2_gen V) xs acc = fold_left combine2 xs acc.
Proof.
  revert acc. induction xs as [|x xs IH]; intros acc; cbn [fold_left]; [reflexivity|].
  rewrite combine2_gen_eq. apply IH.
Qed.
