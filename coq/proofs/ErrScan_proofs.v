(* ErrScan_proofs.v — lemmas about model/ErrScan.v (the error scan and the
   evaluation wrappers).  Used by P_C13.v (scan facts) and P_C10.v. *)
From Koreo Require Import Json Outcome ErrScan.
From Coq Require Import Lia.
Local Open Scope list_scope.

(* ---------- the independent specification: "an error object occurs in v" ---------- *)
Inductive occurs_err : vtree -> Prop :=
| oe_here : occurs_err VErr
| oe_item : forall l x, In x l -> occurs_err x -> occurs_err (VList l)
| oe_key : forall kvs k x, In (k, x) kvs -> occurs_err k -> occurs_err (VMap kvs)
| oe_val : forall kvs k x, In (k, x) kvs -> occurs_err x -> occurs_err (VMap kvs).

Definition err_free (v : vtree) : Prop := ~ occurs_err v.

Definition scan_kvs :=
  fix go (kvs : list (vtree * vtree)) : bool :=
    match kvs with
    | [] => false
    | (k, x) :: r => scan k || scan x || go r
    end.

Lemma scan_map : forall kvs, scan (VMap kvs) = scan_kvs kvs.
Proof. reflexivity. Qed.

Lemma scan_kvs_true : forall kvs,
  scan_kvs kvs = true <-> exists k x, In (k, x) kvs /\ (scan k = true \/ scan x = true).
Proof.
  induction kvs as [|[k x] r IH]; cbn [scan_kvs].
  - split; [discriminate|]. intros (k & x & [] & _).
  - rewrite !Bool.orb_true_iff, IH. split.
    + intros [[H|H]|(k' & x' & Hin & H)].
      * exists k, x. split; [now left|now left].
      * exists k, x. split; [now left|now right].
      * exists k', x'. split; [now right|exact H].
    + intros (k' & x' & [Heq|Hin] & H).
      * inversion Heq; subst. destruct H; [left; now left|left; now right].
      * right. exists k', x'. auto.
Qed.

(* check_for_celevalerror returns a PermFail exactly when an error object occurs
   somewhere in the value (list/tuple items, dict keys, dict values, any depth) *)
Lemma scan_complete : forall v, scan v = true <-> occurs_err v.
Proof.
  induction v as [| | | | | | |l IH|kvs IH] using vtree_ind'; cbn [scan];
    try (split; [discriminate|intros H; inversion H]).
  - split; [constructor|reflexivity].
  - rewrite existsb_exists. split.
    + intros (x & Hin & Hx). rewrite Forall_forall in IH. apply oe_item with x; auto.
      now apply IH.
    + intros H. inversion H as [|l' x Hin Hx| |]; subst. exists x. split; auto.
      rewrite Forall_forall in IH. now apply IH.
  - fold scan_kvs. rewrite scan_kvs_true. rewrite Forall_forall in IH. split.
    + intros (k & x & Hin & [H|H]).
      * apply oe_key with k x; auto. now apply (IH _ Hin).
      * apply oe_val with k x; auto. now apply (IH _ Hin).
    + intros H. inversion H as [| |kvs' k x Hin Hk|kvs' k x Hin Hx]; subst.
      * exists k, x. split; auto. left. now apply (IH _ Hin).
      * exists k, x. split; auto. right. now apply (IH _ Hin).
Qed.

Lemma scan_false_err_free : forall v, scan v = false <-> err_free v.
Proof.
  intros v. unfold err_free. rewrite <- scan_complete. destruct (scan v); split; intros H; try easy.
Qed.

Lemma scan_list : forall l, scan (VList l) = existsb scan l.
Proof. reflexivity. Qed.

Lemma err_free_list : forall l, err_free (VList l) <-> Forall err_free l.
Proof.
  intros l. rewrite <- scan_false_err_free, scan_list. rewrite Forall_forall. split.
  - intros H x Hin. apply scan_false_err_free. destruct (scan x) eqn:E; auto.
    assert (existsb scan l = true) by (apply existsb_exists; eauto). congruence.
  - intros H. destruct (existsb scan l) eqn:E; auto. apply existsb_exists in E as (x & Hin & Hx).
    apply H in Hin. apply scan_false_err_free in Hin. congruence.
Qed.
