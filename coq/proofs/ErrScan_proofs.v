(* ErrScan_proofs.v — lemmas about model/ErrScan.v (the error scan and the
   evaluation wrappers).  Used by P_C13.v (scan facts) and P_C10.v. *)
From Koreo Require Import Json Outcome ErrScan Predicates.
From Coq Require Import Lia.
Local Open Scope list_scope.

(* ---------- the independent specification: "an error object occurs in v" ---------- *)
Inductive occurs_err : vtree -> Prop :=
| oe_here : forall td, occurs_err (VErr td)
| oe_item : forall l x, In x l -> occurs_err x -> occurs_err (VList l)
| oe_key : forall kvs k x, In (k, x) kvs -> occurs_err k -> occurs_err (VMap kvs)
| oe_val : forall kvs k x, In (k, x) kvs -> occurs_err x -> occurs_err (VMap kvs).

Definition err_free (v : vtree) : Prop := ~ occurs_err v.

Definition scan_kvs :=
  fix go (kvs : list (vtree * vtree)) : bool :=
    match kvs with
    | [] => false
    | (k, x) :: r => scan k || scan x || go r
    end.

Lemma scan_map : forall kvs, scan (VMap kvs) = scan_kvs kvs.
Proof. reflexivity. Qed.

Lemma scan_kvs_true : forall kvs,
  scan_kvs kvs = true <-> exists k x, In (k, x) kvs /\ (scan k = true \/ scan x = true).
Proof.
  induction kvs as [|[k x] r IH]; cbn [scan_kvs].
  - split; [discriminate|]. intros (k & x & [] & _).
  - rewrite !Bool.orb_true_iff, IH. split.
    + intros [[H|H]|(k' & x' & Hin & H)].
      * exists k, x. split; [now left|now left].
      * exists k, x. split; [now left|now right].
      * exists k', x'. split; [now right|exact H].
    + intros (k' & x' & [Heq|Hin] & H).
      * inversion Heq; subst. destruct H; [left; now left|left; now right].
      * right. exists k', x'. auto.
Qed.

(* check_for_celevalerror returns a PermFail exactly when an error object occurs
   somewhere in the value (list/tuple items, dict keys, dict values, any depth) *)
Lemma scan_complete : forall v, scan v = true <-> occurs_err v.
Proof.
  induction v as [| | | | | |td|l IH|kvs IH] using vtree_ind'; cbn [scan];
    try (split; [discriminate|intros H; inversion H]).
  - split; [constructor|reflexivity].
  - rewrite existsb_exists. split.
    + intros (x & Hin & Hx). rewrite Forall_forall in IH. apply oe_item with x; auto.
      now apply IH.
    + intros H. inversion H as [|l' x Hin Hx| |]; subst. exists x. split; auto.
      rewrite Forall_forall in IH. now apply IH.
  - fold scan_kvs. rewrite scan_kvs_true. rewrite Forall_forall in IH. split.
    + intros (k & x & Hin & [H|H]).
      * apply oe_key with k x; auto. now apply (IH _ Hin).
      * apply oe_val with k x; auto. now apply (IH _ Hin).
    + intros H. inversion H as [| |kvs' k x Hin Hk|kvs' k x Hin Hx]; subst.
      * exists k, x. split; auto. left. now apply (IH _ Hin).
      * exists k, x. split; auto. right. now apply (IH _ Hin).
Qed.

Lemma scan_false_err_free : forall v, scan v = false <-> err_free v.
Proof.
  intros v. unfold err_free. rewrite <- scan_complete. destruct (scan v); split; intros H; try easy.
Qed.

Lemma scan_list : forall l, scan (VList l) = existsb scan l.
Proof. reflexivity. Qed.

Lemma err_free_list : forall l, err_free (VList l) <-> Forall err_free l.
Proof.
  intros l. rewrite <- scan_false_err_free, scan_list. rewrite Forall_forall. split.
  - intros H x Hin. apply scan_false_err_free. destruct (scan x) eqn:E; auto.
    assert (existsb scan l = true) by (apply existsb_exists; eauto). congruence.
  - intros H. destruct (existsb scan l) eqn:E; auto. apply existsb_exists in E as (x & Hin & Hx).
    apply H in Hin. apply scan_false_err_free in Hin. congruence.
Qed.

(* the error object reported is the first one; there is one iff the scan finds one *)
Lemma first_err_scan : forall v, first_err v = None <-> scan v = false.
Proof.
  induction v as [| | | | | |td|l IH|kvs IH] using vtree_ind'; cbn [first_err scan];
    try (split; [reflexivity|reflexivity]); try (split; discriminate).
  - induction IH as [|x r Hx _ IHr]; cbn; [tauto|].
    destruct (first_err x) as [t|] eqn:E.
    + split; [discriminate|]. intros H. apply Bool.orb_false_iff in H as [H _].
      apply Hx in H. discriminate.
    + destruct Hx as [Hx _]. rewrite (Hx eq_refl). cbn. exact IHr.
  - induction IH as [|[k x] r [Hk Hx] _ IHr]; cbn; [tauto|]. cbn [fst snd] in *.
    destruct (first_err k) as [t|] eqn:Ek.
    { split; [discriminate|]. intros H. apply Bool.orb_false_iff in H as [H _].
      apply Bool.orb_false_iff in H as [H _]. apply Hk in H. discriminate. }
    destruct Hk as [Hk _]. rewrite (Hk eq_refl). cbn.
    destruct (first_err x) as [t|] eqn:Ex.
    { split; [discriminate|]. intros H. apply Bool.orb_false_iff in H as [H _].
      apply Hx in H. discriminate. }
    destruct Hx as [Hx _]. rewrite (Hx eq_refl). cbn. exact IHr.
Qed.

Lemma first_err_some : forall v t, first_err v = Some t -> scan v = true.
Proof.
  intros v t H. destruct (scan v) eqn:S; auto. apply first_err_scan in S. congruence.
Qed.

Lemma first_err_none_err_free : forall v, first_err v = None <-> err_free v.
Proof. intros v. rewrite first_err_scan. apply scan_false_err_free. Qed.

(* ====================================================================== *)
(* C10: the evaluation wrappers                                            *)
(* ====================================================================== *)

(* celpy reported a failure at a site: it raised, or the value it returned holds an
   error object somewhere *)
Definition failed (r : raw) : Prop :=
  match r with RVal v => occurs_err v | _ => True end.

(* celpy raised a CELEvalError whose .tree makes celpy's own tree_dump raise (IndexError):
   the one situation in which koreo's except handler itself raises *)
Definition undumpable (r : raw) : Prop := r = RRaise false.

(* "a PermFail naming the location": the location string occurs in the message, or is the
   outcome's location attribute *)
Definition names_loc (L : string) (o : outcome) : Prop :=
  exists m l, o = PermFail m l /\
    ((exists pre post, m = Some (pre ++ L ++ post)%string) \/ l = Some L).

Lemma names_loc_fail_eval : forall L, names_loc L (fail_eval L).
Proof.
  intros L. exists (Some (msg_eval L)), None. split; auto. left.
  exists "Error evaluating `"%string, "`"%string. reflexivity.
Qed.

Lemma names_loc_fail_unknown : forall L, names_loc L (fail_unknown L).
Proof.
  intros L. exists (Some (msg_unknown L)), None. split; auto. left.
  exists "Unknown failure evaluating `"%string, "`."%string. reflexivity.
Qed.

Lemma names_loc_attr : forall L m, names_loc L (PermFail m (Some L)).
Proof. intros L m. exists m, (Some L). auto. Qed.

Lemma names_loc_fail_exn : forall L, names_loc L (fail_exn L).
Proof. intros. apply names_loc_attr. Qed.

Lemma failed_scan : forall v, failed (RVal v) <-> scan v = true.
Proof. intros v. cbn. symmetry. apply scan_complete. Qed.

Lemma failed_first_err : forall v, failed (RVal v) -> exists t, first_err v = Some t.
Proof.
  intros v F. apply failed_scan in F. destruct (first_err v) as [t|] eqn:E; eauto.
  apply first_err_scan in E. congruence.
Qed.

(* evaluate: None only without an expression; a value only if celpy returned that very
   value and it is error-free; a PermFail naming the location when celpy failed; and it
   RAISES exactly when celpy raised an error with an undumpable tree. *)
Lemma evaluate_cases : forall e loc,
  match evaluate e loc with
  | Done ENone => e = None
  | Done (EVal v) => e = Some (RVal v) /\ err_free v
  | Done (EFail o) => (exists r, e = Some r /\ failed r) /\ names_loc loc o
  | Raised _ => e = Some (RRaise false)
  end.
Proof.
  intros [[[]| |v]|] loc; cbn; auto.
  - split; [exists (RRaise true); cbn; auto|apply names_loc_fail_eval].
  - split; [exists RRaiseOther; cbn; auto|apply names_loc_fail_unknown].
  - destruct (first_err v) as [[]|] eqn:E.
    + split; [exists (RVal v); split; auto; apply failed_scan; eapply first_err_some; eauto
             |apply names_loc_fail_eval].
    + split; [exists (RVal v); split; auto; apply failed_scan; eapply first_err_some; eauto
             |apply names_loc_fail_unknown].
    + split; auto. now apply first_err_none_err_free.
Qed.

Lemma evaluate_failed : forall r loc,
  failed r -> ~ undumpable r -> exists o, evaluate (Some r) loc = Done (EFail o) /\ names_loc loc o.
Proof.
  intros [[]| |v] loc H U; cbn.
  - eexists; split; eauto using names_loc_fail_eval.
  - exfalso. now apply U.
  - eexists; split; eauto using names_loc_fail_unknown.
  - destruct (failed_first_err v H) as ([] & ->); eexists; split;
      eauto using names_loc_fail_eval, names_loc_fail_unknown.
Qed.

(* ---------- maps ---------- *)
Lemma scan_kvs_false : forall kvs,
  scan_kvs kvs = false <-> Forall (fun kv => scan (fst kv) = false /\ scan (snd kv) = false) kvs.
Proof.
  induction kvs as [|[k x] r IH]; cbn [scan_kvs].
  - split; auto.
  - rewrite !Bool.orb_false_iff, IH. split.
    + intros [[H1 H2] H3]. constructor; auto.
    + intros H. inversion H; subst. cbn in *. tauto.
Qed.

Lemma scan_vlookup : forall k kvs v,
  scan_kvs kvs = false -> vlookup k kvs = Some v -> scan v = false.
Proof.
  induction kvs as [|[k' x] r IH]; cbn [vlookup scan_kvs]; intros v H L; [discriminate|].
  apply Bool.orb_false_iff in H as [H H3]. apply Bool.orb_false_iff in H as [H1 H2].
  destruct (key_is k k'); [now inversion L; subst|auto].
Qed.

Lemma scan_vset : forall k v kvs,
  scan_kvs kvs = false -> scan v = false -> scan_kvs (vset k v kvs) = false.
Proof.
  induction kvs as [|[k' x] r IH]; cbn [vset scan_kvs]; intros H Hv.
  - cbn. now rewrite Hv.
  - apply Bool.orb_false_iff in H as [H H3]. apply Bool.orb_false_iff in H as [H1 H2].
    destruct (key_is k k'); cbn [scan_kvs]; rewrite H1; [now rewrite Hv, H3|].
    rewrite H2, IH; auto.
Qed.

Lemma scan_nth : forall l n v, existsb scan l = false -> nth_error l n = Some v -> scan v = false.
Proof.
  induction l as [|x r IH]; intros [|n] v H E; cbn in *; try discriminate;
    apply Bool.orb_false_iff in H as [H1 H2].
  - now inversion E; subst.
  - eauto.
Qed.

(* ---------- the overlay applier ---------- *)
Section IndexInd.
  Variable P : index -> Prop.
  Hypothesis Hat : forall n, P (IAt n).
  Hypothesis Hsub : forall kvs, Forall (fun kv => P (snd kv)) kvs -> P (ISub kvs).
  Fixpoint index_ind' (i : index) : P i :=
    match i with
    | IAt n => Hat n
    | ISub kvs =>
        Hsub kvs ((fix go (l : list (string * index)) : Forall (fun kv => P (snd kv)) l :=
                     match l with
                     | [] => Forall_nil _
                     | (k, x) :: r => Forall_cons (k, x) (index_ind' x) (go r)
                     end) kvs)
    end.
End IndexInd.

(* every leaf position of the index exists in a value list of length n *)
Fixpoint idx_in_range (i : index) (n : nat) : bool :=
  match i with
  | IAt k => Nat.ltb k n
  | ISub kvs =>
      (fix go (l : list (string * index)) : bool :=
         match l with
         | [] => true
         | (_, x) :: r => idx_in_range x n && go r
         end) kvs
  end.

Definition apply_go (base : list (vtree * vtree)) (values : list vtree) :=
  fix go (kvs : list (string * index)) (acc : list (vtree * vtree)) : res (list (vtree * vtree)) :=
    match kvs with
    | [] => Done acc
    | (k, i') :: r =>
        match apply_idx i' (vlookup k base) values with
        | Raised e => Raised e
        | Done v => go r (vset k v acc)
        end
    end.

Lemma apply_idx_sub : forall kvs old values,
  apply_idx (ISub kvs) old values =
    match apply_go (match old with Some (VMap m) => m | _ => [] end) values kvs
                   (match old with Some (VMap m) => m | _ => [] end) with
    | Done m => Done (VMap m)
    | Raised e => Raised e
    end.
Proof. reflexivity. Qed.

Lemma apply_idx_scan : forall i old values v,
  existsb scan values = false ->
  (forall o, old = Some o -> scan o = false) ->
  apply_idx i old values = Done v -> scan v = false.
Proof.
  induction i as [n|kvs IH] using index_ind'; intros old values v Hv Hold E.
  - cbn in E. destruct (nth_error values n) eqn:N; inversion E; subst. eapply scan_nth; eauto.
  - rewrite apply_idx_sub in E.
    set (base := match old with Some (VMap m) => m | _ => [] end) in *.
    assert (Hb : scan_kvs base = false).
    { subst base. destruct old as [[]|]; auto. apply (Hold _ eq_refl). }
    destruct (apply_go base values kvs base) as [m|e] eqn:G; inversion E; subst. cbn [scan]. fold scan_kvs.
    assert (Hacc : forall acc m, scan_kvs acc = false -> apply_go base values kvs acc = Done m ->
                                 scan_kvs m = false).
    { clear G E. induction IH as [|[k i'] r Hi _ IHr]; intros acc m0 Ha G0; cbn in G0.
      - now inversion G0; subst.
      - destruct (apply_idx i' (vlookup k base) values) as [v0|] eqn:A; [|discriminate].
        apply (IHr (vset k v0 acc) m0); [|exact G0]. apply scan_vset; [exact Ha|].
        apply (Hi (vlookup k base) values v0); [exact Hv| |exact A].
        intros o Ho. apply (scan_vlookup k base o Hb Ho). }
    eapply Hacc; eauto.
Qed.

Lemma apply_idx_total : forall i old values,
  idx_in_range i (List.length values) = true -> exists v, apply_idx i old values = Done v.
Proof.
  induction i as [n|kvs IH] using index_ind'; intros old values H.
  - cbn in *. apply PeanoNat.Nat.ltb_lt in H. destruct (nth_error values n) eqn:N; eauto.
    apply nth_error_None in N. lia.
  - rewrite apply_idx_sub.
    set (base := match old with Some (VMap m) => m | _ => [] end).
    assert (Hacc : forall acc, exists m, apply_go base values kvs acc = Done m).
    { cbn in H. induction IH as [|[k i'] r Hi _ IHr]; intros acc; cbn.
      - eauto.
      - apply andb_prop in H as [H1 H2].
        destruct (Hi (vlookup k base) values H1) as (v0 & Hv0). cbn [snd] in Hv0. rewrite Hv0.
        apply IHr; auto. }
    destruct (Hacc base) as (m & ->). eauto.
Qed.

Lemma names_loc_bad_overlay : forall L, names_loc L (PermFail (Some (msg_bad_overlay L)) (Some L)).
Proof. intros. apply names_loc_attr. Qed.

(* evaluate_overlay: a value only if celpy did not fail, and then an error-free one (given an
   error-free base); every outcome is a PermFail naming the location; an exception escapes only
   (a) when celpy raised an error with an undumpable tree, or (b) from the applier (IndexError)
   when the index does not fit the value list *)
Lemma evaluate_overlay_cases : forall idx r base loc,
  err_free (VMap base) ->
  match evaluate_overlay idx r base loc with
  | Done (UVal v) => ~ failed r /\ err_free v
  | Done (UOut o) => names_loc loc o
  | Raised _ => undumpable r \/
                exists l, r = RVal (VList l) /\ idx_in_range idx (List.length l) = false
  end.
Proof.
  intros idx r base loc Hb. unfold evaluate_overlay.
  destruct idx as [n|kvs]; [apply names_loc_bad_overlay|].
  destruct r as [[]| |v]; try apply names_loc_fail_eval; try apply names_loc_fail_unknown.
  { left. reflexivity. }
  destruct (first_err v) as [[]|] eqn:S;
    [apply names_loc_fail_eval|apply names_loc_fail_unknown|].
  apply first_err_scan in S.
  destruct v; try apply names_loc_bad_overlay.
  destruct (apply_idx (ISub kvs) (Some (VMap base)) l) as [m|e] eqn:A.
  - split.
    + intros F. apply failed_scan in F. congruence.
    + apply scan_false_err_free. eapply apply_idx_scan; eauto.
      intros o Ho. inversion Ho; subst. now apply scan_false_err_free.
  - right. exists l. split; auto. destruct (idx_in_range (ISub kvs) (List.length l)) eqn:R; auto.
    destruct (apply_idx_total (ISub kvs) (Some (VMap base)) l R) as (v & Hv). congruence.
Qed.

Lemma evaluate_overlay_failed : forall idx r base loc,
  failed r -> ~ undumpable r ->
  exists o, evaluate_overlay idx r base loc = Done (UOut o) /\ names_loc loc o.
Proof.
  intros idx r base loc F U. unfold evaluate_overlay.
  destruct idx as [n|kvs]; [eexists; split; eauto using names_loc_bad_overlay|].
  destruct r as [[]| |v].
  - eexists; split; eauto using names_loc_fail_eval.
  - exfalso. now apply U.
  - eexists; split; eauto using names_loc_fail_unknown.
  - destruct (failed_first_err v F) as ([] & ->); eexists; split;
      eauto using names_loc_fail_eval, names_loc_fail_unknown.
Qed.

(* evaluate_predicates: the result is None or a non-Ok outcome (it has no data field, so
   nothing can leak); a failure reported by celpy is a PermFail naming the location *)
Lemma evaluate_predicates_failed : forall r loc,
  failed r -> ~ undumpable r ->
  exists o, evaluate_predicates_raw r loc = Done (Some o) /\ names_loc loc o.
Proof.
  intros [[]| |v] loc F U; cbn.
  - eexists; split; eauto using names_loc_fail_eval.
  - exfalso. now apply U.
  - eexists; split; eauto using names_loc_fail_exn.
  - destruct (failed_first_err v F) as ([] & ->); eexists; split;
      eauto using names_loc_fail_eval, names_loc_fail_exn.
Qed.

Lemma evaluate_predicates_raises : forall r loc e,
  evaluate_predicates_raw r loc = Raised e -> undumpable r.
Proof.
  intros [[]| |v] loc e; cbn; try discriminate; [reflexivity|].
  destruct (first_err v) as [[]|]; try discriminate.
  destruct v; try discriminate. destruct (p2k loc l); discriminate.
Qed.

Lemma decide_not_ok : forall loc p o, decide loc p = Done (Some o) -> is_ok o = false.
Proof.
  intros loc p o. unfold decide.
  assert (U : (if dumpable p then Done (Some (PermFail (Some msg_unknown_pred) (Some loc)))
               else Raised TypeError) = Done (Some o) -> is_ok o = false).
  { destruct (dumpable p); intros E; inversion E; subst; reflexivity. }
  destruct p; auto.
  destruct (vlookup "assert" kvs); auto.
  destruct (sub_map "ok" kvs); [discriminate|].
  destruct (msg_in "depSkip" kvs); [intros E; inversion E; subst; reflexivity|].
  destruct (msg_in "skip" kvs); [intros E; inversion E; subst; reflexivity|].
  destruct (retry_in kvs) as [[m d]|].
  { destruct (delay_of d); intros E; inversion E; subst; reflexivity. }
  destruct (msg_in "permFail" kvs); [intros E; inversion E; subst; reflexivity|auto].
Qed.

Lemma evaluate_predicates_not_ok : forall r loc o,
  evaluate_predicates_raw r loc = Done (Some o) -> is_ok o = false.
Proof.
  intros r loc o. unfold evaluate_predicates_raw.
  destruct r as [[]| |v]; try (intros E; inversion E; subst; reflexivity).
  destruct (first_err v) as [[]|]; try (intros E; inversion E; subst; reflexivity).
  destruct v; try (intros E; inversion E; subst; reflexivity).
  unfold p2k. destruct l as [|p rest]; [discriminate|].
  destruct (decide loc p) as [[o'|]|e] eqn:D; intros E; inversion E; subst.
  - eapply decide_not_ok; eauto.
  - reflexivity.
Qed.

(* a user-visible message never is the text of an error object: outcomes other than the
   evaluation-failure PermFails are produced only from an error-free predicate list *)
Lemma evaluate_predicates_from_clean : forall v loc o,
  evaluate_predicates_raw (RVal v) loc = Done (Some o) ->
  o <> fail_eval loc -> o <> fail_exn loc -> err_free v.
Proof.
  intros v loc o E N1 N2. unfold evaluate_predicates_raw in E.
  destruct (first_err v) as [[]|] eqn:S.
  - inversion E; subst. contradiction.
  - inversion E; subst. contradiction.
  - now apply first_err_none_err_free.
Qed.

(* ====================================================================== *)
(* C10: ValueFunction level                                                *)
(* ====================================================================== *)

Definition part (s : site) : string :=
  match s with
  | SPre => "preconditions" | SLocals => "locals" | SResource => "resource"
  | SPost => "postconditions" | SReturn => "return"
  end.

(* what celpy did at the sites of a ValueFunction *)
Definition vf_raw_at (f : vfn) (s : site) : option raw :=
  match s with
  | SPre => vf_pre f
  | SLocals => vf_locals f
  | SReturn => option_map snd (vf_return f)
  | _ => None
  end.

(* the return overlay's index only refers to positions of the evaluated value list
   (prepare builds the list literal from exactly the indexed leaves) *)
Definition vf_ret_fits (f : vfn) : Prop :=
  match vf_return f with
  | Some (idx, RVal (VList l)) => idx_in_range idx (List.length l) = true
  | _ => True
  end.

(* at no site did celpy raise an error whose tree tree_dump cannot print *)
Definition vf_dumpable (f : vfn) : Prop := forall s, vf_raw_at f s <> Some (RRaise false).

Definition base_map (base : option (list (vtree * vtree))) : list (vtree * vtree) :=
  match base with Some b => b | None => [] end.

Lemma trace_of_in' : forall s s' r, In s (trace_of s' r) -> s = s' /\ r <> None.
Proof. intros s s' [r|]; cbn; intuition congruence. Qed.

Theorem vf_no_leak : forall f base loc,
  err_free (VMap (base_map base)) ->
  (* 1. a returned value never contains an error object *)
  (forall v, fst (reconcile_vf f base loc) = Done (UVal v) -> err_free v) /\
  (* 2. a site that was reached and at which celpy reported a failure => PermFail naming it
        (unless the error's tree is undumpable: then see 3) *)
  (forall s rw, In s (snd (reconcile_vf f base loc)) -> vf_raw_at f s = Some rw -> failed rw ->
     ~ undumpable rw ->
     exists o, fst (reconcile_vf f base loc) = Done (UOut o) /\ names_loc (sloc loc (part s)) o) /\
  (* 3. no exception escapes, PROVIDED no error with an undumpable tree was raised *)
  (vf_ret_fits f -> vf_dumpable f -> exists u, fst (reconcile_vf f base loc) = Done u).
Proof.
  intros f base loc Hb. unfold reconcile_vf.
  pose proof (evaluate_predicates_raises) as HPR.
  destruct (evaluate_predicates_opt (vf_pre f) (sloc loc "preconditions")) as [[o|]|e] eqn:P.
  { cbn [fst snd]. split; [discriminate|]. split; [|eauto].
    intros st rw Hin Hr F U. apply trace_of_in' in Hin as [-> _]. cbn in Hr.
    rewrite Hr in P. cbn in P.
    destruct (evaluate_predicates_failed rw (sloc loc "preconditions") F U) as (o' & E & N).
    exists o'. split; auto. congruence. }
  2:{ cbn [fst snd]. split; [discriminate|]. split.
      - intros st rw Hin Hr F U. apply trace_of_in' in Hin as [-> _]. cbn in Hr.
        rewrite Hr in P. cbn in P. apply HPR in P. contradiction.
      - intros _ Hd. exfalso. destruct (vf_pre f) as [rw|] eqn:R; [|discriminate].
        cbn in P. apply HPR in P. apply (Hd SPre). cbn. now rewrite R, P. }
  assert (Hpre : forall rw, vf_pre f = Some rw -> failed rw -> ~ undumpable rw -> False).
  { intros rw Hr F U. rewrite Hr in P. cbn in P.
    destruct (evaluate_predicates_failed rw (sloc loc "preconditions") F U) as (o' & E & _). congruence. }
  destruct (vf_return f) as [[idx rr]|] eqn:R.
  2:{ cbn [fst snd]. split; [intros v E; inversion E; subst; apply scan_false_err_free; reflexivity|].
      split; [|eauto].
      intros st rw Hin Hr F U. apply trace_of_in' in Hin as [-> _]. cbn in Hr. exfalso; eauto. }
  pose proof (evaluate_cases (vf_locals f) (sloc loc "locals")) as HL.
  pose proof (evaluate_overlay_cases idx rr (base_map base) (sloc loc "return") Hb) as HO.
  fold (base_map base).
  assert (Hgo :
    let r := (evaluate_overlay idx rr (base_map base) (sloc loc "return"),
              (trace_of SPre (vf_pre f) ++ trace_of SLocals (vf_locals f)) ++ [SReturn]) in
    (forall rw, vf_locals f = Some rw -> failed rw -> False) ->
    (forall v, fst r = Done (UVal v) -> err_free v) /\
    (forall s rw, In s (snd r) -> vf_raw_at f s = Some rw -> failed rw -> ~ undumpable rw ->
       exists o, fst r = Done (UOut o) /\ names_loc (sloc loc (part s)) o) /\
    (vf_ret_fits f -> vf_dumpable f -> exists u, fst r = Done u)).
  { cbn [fst snd]. intros Hloc. split; [|split].
    - intros v E. rewrite E in HO. tauto.
    - intros st rw Hin Hr F U. apply in_app_or in Hin as [Hin|[<-|[]]].
      + apply in_app_or in Hin as [Hin|Hin]; apply trace_of_in' in Hin as [-> _]; cbn in Hr; exfalso; eauto.
      + cbn in Hr. rewrite R in Hr. cbn in Hr. inversion Hr; subst.
        apply evaluate_overlay_failed; auto.
    - intros Hf Hd. unfold vf_ret_fits in Hf. rewrite R in Hf.
      destruct (evaluate_overlay idx rr (base_map base) (sloc loc "return")) as [u|e]; eauto.
      destruct HO as [HU|(l & -> & Hr)]; [|congruence].
      exfalso. apply (Hd SReturn). cbn. rewrite R. cbn. now rewrite HU. }
  destruct (evaluate (vf_locals f) (sloc loc "locals")) as [[|v|o]|e] eqn:EL.
  - apply Hgo. intros rw Hr. rewrite HL in Hr. discriminate.
  - destruct HL as [HL1 HL2].
    assert (Hloc : forall rw, vf_locals f = Some rw -> failed rw -> False).
    { intros rw Hr F. rewrite HL1 in Hr. inversion Hr; subst. cbn in F. now apply HL2. }
    destruct v; try (apply Hgo; exact Hloc);
    (cbn [fst snd]; split; [discriminate|]; split; [|eauto];
     intros st rw Hin Hr F U; apply in_app_or in Hin as [Hin|Hin]; apply trace_of_in' in Hin as [-> _];
     cbn in Hr; exfalso; eauto).
  - cbn [fst snd]. split; [discriminate|]. split; [|eauto].
    destruct HL as [_ HN].
    intros st rw Hin Hr F U. apply in_app_or in Hin as [Hin|Hin]; apply trace_of_in' in Hin as [-> _]; cbn in Hr.
    + exfalso; eauto.
    + eauto.
  - cbn [fst snd]. split; [discriminate|]. split.
    + intros st rw Hin Hr F U. apply in_app_or in Hin as [Hin|Hin]; apply trace_of_in' in Hin as [-> _]; cbn in Hr.
      * exfalso; eauto.
      * rewrite HL in Hr. inversion Hr; subst. exfalso. now apply U.
    + intros _ Hd. exfalso. apply (Hd SLocals). cbn. exact HL.
Qed.

(* GENUINE DEFECT (as of this review): the except handlers call celpy's tree_dump on the raised
   error's tree without protection, and tree_dump raises IndexError on trees such as
   `inputs.items == []`.  So "no exception escapes" is FALSE without the [vf_dumpable] premise. *)
Theorem vf_exception_escapes_refuted :
  exists f base loc,
    err_free (VMap (base_map base)) /\ vf_ret_fits f /\
    fst (reconcile_vf f base loc) = Raised IndexError.
Proof.
  exists {| vf_pre := None; vf_locals := None;
            vf_return := Some (ISub [("isEmpty", IAt 0)], RRaise false) |}, None, "fn"%string.
  split; [apply scan_false_err_free; reflexivity|]. split; [exact I|reflexivity].
Qed.

Lemma evaluate_raises_refuted : forall loc, evaluate (Some (RRaise false)) loc = Raised IndexError.
Proof. reflexivity. Qed.

Lemma evaluate_predicates_raises_refuted : forall loc,
  evaluate_predicates_raw (RRaise false) loc = Raised IndexError.
Proof. reflexivity. Qed.

(* ====================================================================== *)
(* C10: ResourceFunction, the sites of reconcile_resource_function itself  *)
(* (the Kubernetes part is a Section variable: PARTIAL)                    *)
(* ====================================================================== *)
Section RFNoLeak.
  Variable call : Type.
  Variable krm : option raw -> uoutcome vtree * list call.

  Definition rf_raw_at (f : rfn) (s : site) : option raw :=
    match s with
    | SPre => rf_pre f | SLocals => rf_locals f | SPost => rf_post f | SReturn => rf_return f
    | SResource => None
    end.

  Lemma rf_after_locals_no_leak : forall f loc t1 r t calls,
    (forall s, In s t1 -> forall rw, rf_raw_at f s = Some rw -> failed rw -> ~ undumpable rw -> False) ->
    rf_after_locals call krm f loc t1 = (r, t, calls) ->
    (forall v, r = Done (Some (UVal v)) -> err_free v) /\
    (forall s rw, In s t -> rf_raw_at f s = Some rw -> failed rw -> ~ undumpable rw ->
       exists o, r = Done (Some (UOut o)) /\ names_loc (sloc loc (part s)) o).
  Proof.
    intros f loc t1 r t calls Hne. unfold rf_after_locals.
    destruct (krm (rf_locals f)) as [[v|o3] calls0] eqn:K.
    2:{ intros E; inversion E; subst. split; [discriminate|].
        intros st rw Hin Hr F U. apply in_app_or in Hin as [Hin|[<-|[]]]; [exfalso; eauto|discriminate]. }
    destruct (evaluate_predicates_opt (rf_post f) (sloc loc "postconditions")) as [[o4|]|e4] eqn:Q.
    { intros E; inversion E; subst. split; [discriminate|].
      intros st rw Hin Hr F U. apply in_app_or in Hin as [Hin|[<-|Hin]]; [exfalso; eauto|discriminate|].
      apply trace_of_in' in Hin as [-> _]. cbn in Hr. rewrite Hr in Q. cbn in Q.
      destruct (evaluate_predicates_failed rw (sloc loc "postconditions") F U) as (o' & E' & N).
      exists o'. split; auto. congruence. }
    2:{ intros E; inversion E; subst. split; [discriminate|].
        intros st rw Hin Hr F U. apply in_app_or in Hin as [Hin|[<-|Hin]]; [exfalso; eauto|discriminate|].
        apply trace_of_in' in Hin as [-> _]. cbn in Hr. rewrite Hr in Q. cbn in Q.
        apply evaluate_predicates_raises in Q. contradiction. }
    assert (Hpost : forall rw, rf_post f = Some rw -> failed rw -> ~ undumpable rw -> False).
    { intros rw Hr F U. rewrite Hr in Q. cbn in Q.
      destruct (evaluate_predicates_failed rw (sloc loc "postconditions") F U) as (o' & E & _). congruence. }
    pose proof (evaluate_cases (rf_return f) (sloc loc "return")) as HR.
    intros E; inversion E; subst. clear E. split.
    - intros v0 E0. destruct (evaluate (rf_return f) (sloc loc "return")) as [[|v1|o5]|e5]; inversion E0; subst. tauto.
    - intros st rw Hin Hr F U. apply in_app_or in Hin as [Hin|Hin].
      + apply in_app_or in Hin as [Hin|[<-|Hin]]; [exfalso; eauto|discriminate|].
        apply trace_of_in' in Hin as [-> _]. cbn in Hr. exfalso; eauto.
      + apply trace_of_in' in Hin as [-> _]. cbn in Hr.
        destruct (evaluate_failed rw (sloc loc "return") F U) as (o' & E' & N).
        rewrite Hr, E'. eauto.
  Qed.

  Theorem rf_no_leak_partial : forall f loc r t calls,
    reconcile_rf call krm f loc = (r, t, calls) ->
    (forall v, r = Done (Some (UVal v)) -> err_free v) /\
    (forall s rw, In s t -> rf_raw_at f s = Some rw -> failed rw -> ~ undumpable rw ->
       exists o, r = Done (Some (UOut o)) /\ names_loc (sloc loc (part s)) o).
  Proof.
    intros f loc r t calls. unfold reconcile_rf.
    destruct (evaluate_predicates_opt (rf_pre f) (sloc loc "preconditions")) as [[o|]|e0] eqn:P.
    { intros E; inversion E; subst. split; [discriminate|].
      intros st rw Hin Hr F U. apply trace_of_in' in Hin as [-> _]. cbn in Hr. rewrite Hr in P. cbn in P.
      destruct (evaluate_predicates_failed rw (sloc loc "preconditions") F U) as (o' & E' & N).
      exists o'. split; auto. congruence. }
    2:{ intros E; inversion E; subst. split; [discriminate|].
        intros st rw Hin Hr F U. apply trace_of_in' in Hin as [-> _]. cbn in Hr. rewrite Hr in P. cbn in P.
        apply evaluate_predicates_raises in P. contradiction. }
    assert (Hpre : forall rw, rf_pre f = Some rw -> failed rw -> ~ undumpable rw -> False).
    { intros rw Hr F U. rewrite Hr in P. cbn in P.
      destruct (evaluate_predicates_failed rw (sloc loc "preconditions") F U) as (o' & E & _). congruence. }
    pose proof (evaluate_cases (rf_locals f) (sloc loc "locals")) as HL.
    assert (Hcont : (forall rw, rf_locals f = Some rw -> failed rw -> False) ->
              forall s, In s (trace_of SPre (rf_pre f) ++ trace_of SLocals (rf_locals f)) ->
              forall rw, rf_raw_at f s = Some rw -> failed rw -> ~ undumpable rw -> False).
    { intros Hloc s0 Hin rw Hr F U. apply in_app_or in Hin as [Hin|Hin]; apply trace_of_in' in Hin as [-> _];
        cbn in Hr; eauto. }
    assert (Hstop : forall o2, (forall rw, rf_locals f = Some rw -> failed rw -> ~ undumpable rw ->
                                  names_loc (sloc loc "locals") o2) ->
              (Done (Some (UOut o2)) : res (option (uoutcome vtree)),
               trace_of SPre (rf_pre f) ++ trace_of SLocals (rf_locals f), @nil call) = (r, t, calls) ->
              (forall v, r = Done (Some (UVal v)) -> err_free v) /\
              (forall s rw, In s t -> rf_raw_at f s = Some rw -> failed rw -> ~ undumpable rw ->
                 exists o, r = Done (Some (UOut o)) /\ names_loc (sloc loc (part s)) o)).
    { intros o2 Ho2 E; inversion E; subst. split; [discriminate|].
      intros st rw Hin Hr F U. apply in_app_or in Hin as [Hin|Hin]; apply trace_of_in' in Hin as [-> _]; cbn in Hr.
      - exfalso; eauto.
      - eauto. }
    destruct (evaluate (rf_locals f) (sloc loc "locals")) as [[|v|o2]|e2] eqn:EL.
    - apply rf_after_locals_no_leak. apply Hcont. intros rw Hr. rewrite HL in Hr. discriminate.
    - destruct HL as [HL1 HL2].
      assert (Hloc : forall rw, rf_locals f = Some rw -> failed rw -> False).
      { intros rw Hr F. rewrite HL1 in Hr. inversion Hr; subst. cbn in F. contradiction. }
      destruct v; try (apply rf_after_locals_no_leak; apply Hcont; exact Hloc);
        (apply Hstop; intros rw Hr F U; exfalso; eauto).
    - apply Hstop. destruct HL as [_ HN]. auto.
    - intros E; inversion E; subst. split; [discriminate|].
      intros st rw Hin Hr F U. apply in_app_or in Hin as [Hin|Hin]; apply trace_of_in' in Hin as [-> _]; cbn in Hr.
      + exfalso; eauto.
      + rewrite HL in Hr. inversion Hr; subst. exfalso. now apply U.
  Qed.
End RFNoLeak.
