(* ErrScan_proofs.v — lemmas about model/ErrScan.v (the error scan and the
   evaluation wrappers).  Used by P_C13.v (scan facts) and P_C10.v. *)
From Koreo Require Import Json Outcome ErrScan Predicates.
From Coq Require Import Lia.
Local Open Scope list_scope.

(* ---------- the independent specification: "an error object occurs in v" ---------- *)
Inductive occurs_err : vtree -> Prop :=
| oe_here : occurs_err VErr
| oe_item : forall l x, In x l -> occurs_err x -> occurs_err (VList l)
| oe_key : forall kvs k x, In (k, x) kvs -> occurs_err k -> occurs_err (VMap kvs)
| oe_val : forall kvs k x, In (k, x) kvs -> occurs_err x -> occurs_err (VMap kvs).

Definition err_free (v : vtree) : Prop := ~ occurs_err v.

Definition scan_kvs :=
  fix go (kvs : list (vtree * vtree)) : bool :=
    match kvs with
    | [] => false
    | (k, x) :: r => scan k || scan x || go r
    end.

Lemma scan_map : forall kvs, scan (VMap kvs) = scan_kvs kvs.
Proof. reflexivity. Qed.

Lemma scan_kvs_true : forall kvs,
  scan_kvs kvs = true <-> exists k x, In (k, x) kvs /\ (scan k = true \/ scan x = true).
Proof.
  induction kvs as [|[k x] r IH]; cbn [scan_kvs].
  - split; [discriminate|]. intros (k & x & [] & _).
  - rewrite !Bool.orb_true_iff, IH. split.
    + intros [[H|H]|(k' & x' & Hin & H)].
      * exists k, x. split; [now left|now left].
      * exists k, x. split; [now left|now right].
      * exists k', x'. split; [now right|exact H].
    + intros (k' & x' & [Heq|Hin] & H).
      * inversion Heq; subst. destruct H; [left; now left|left; now right].
      * right. exists k', x'. auto.
Qed.

(* check_for_celevalerror returns a PermFail exactly when an error object occurs
   somewhere in the value (list/tuple items, dict keys, dict values, any depth) *)
Lemma scan_complete : forall v, scan v = true <-> occurs_err v.
Proof.
  induction v as [| | | | | | |l IH|kvs IH] using vtree_ind'; cbn [scan];
    try (split; [discriminate|intros H; inversion H]).
  - split; [constructor|reflexivity].
  - rewrite existsb_exists. split.
    + intros (x & Hin & Hx). rewrite Forall_forall in IH. apply oe_item with x; auto.
      now apply IH.
    + intros H. inversion H as [|l' x Hin Hx| |]; subst. exists x. split; auto.
      rewrite Forall_forall in IH. now apply IH.
  - fold scan_kvs. rewrite scan_kvs_true. rewrite Forall_forall in IH. split.
    + intros (k & x & Hin & [H|H]).
      * apply oe_key with k x; auto. now apply (IH _ Hin).
      * apply oe_val with k x; auto. now apply (IH _ Hin).
    + intros H. inversion H as [| |kvs' k x Hin Hk|kvs' k x Hin Hx]; subst.
      * exists k, x. split; auto. left. now apply (IH _ Hin).
      * exists k, x. split; auto. right. now apply (IH _ Hin).
Qed.

Lemma scan_false_err_free : forall v, scan v = false <-> err_free v.
Proof.
  intros v. unfold err_free. rewrite <- scan_complete. destruct (scan v); split; intros H; try easy.
Qed.

Lemma scan_list : forall l, scan (VList l) = existsb scan l.
Proof. reflexivity. Qed.

Lemma err_free_list : forall l, err_free (VList l) <-> Forall err_free l.
Proof.
  intros l. rewrite <- scan_false_err_free, scan_list. rewrite Forall_forall. split.
  - intros H x Hin. apply scan_false_err_free. destruct (scan x) eqn:E; auto.
    assert (existsb scan l = true) by (apply existsb_exists; eauto). congruence.
  - intros H. destruct (existsb scan l) eqn:E; auto. apply existsb_exists in E as (x & Hin & Hx).
    apply H in Hin. apply scan_false_err_free in Hin. congruence.
Qed.

(* ====================================================================== *)
(* C10: the evaluation wrappers                                            *)
(* ====================================================================== *)

(* celpy reported a failure at a site: it raised, or the value it returned holds an
   error object somewhere *)
Definition failed (r : raw) : Prop :=
  match r with RVal v => occurs_err v | _ => True end.

(* "a PermFail naming the location": the location string occurs in the message, or is the
   outcome's location attribute *)
Definition names_loc (L : string) (o : outcome) : Prop :=
  exists m l, o = PermFail m l /\
    ((exists pre post, m = Some (pre ++ L ++ post)%string) \/ l = Some L).

Lemma names_loc_fail_eval : forall L, names_loc L (fail_eval L).
Proof.
  intros L. exists (Some (msg_eval L)), None. split; auto. left.
  exists "Error evaluating `"%string, "`"%string. reflexivity.
Qed.

Lemma names_loc_fail_unknown : forall L, names_loc L (fail_unknown L).
Proof.
  intros L. exists (Some (msg_unknown L)), None. split; auto. left.
  exists "Unknown failure evaluating `"%string, "`."%string. reflexivity.
Qed.

Lemma names_loc_attr : forall L m, names_loc L (PermFail m (Some L)).
Proof. intros L m. exists m, (Some L). auto. Qed.

Lemma failed_scan : forall v, failed (RVal v) <-> scan v = true.
Proof. intros v. cbn. symmetry. apply scan_complete. Qed.

(* evaluate: None only without an expression; a value only if celpy returned that very
   value and it is error-free; otherwise a PermFail naming the location.  Never raises
   (it is a total function into [eres]). *)
Lemma evaluate_cases : forall e loc,
  match evaluate e loc with
  | ENone => e = None
  | EVal v => e = Some (RVal v) /\ err_free v
  | EFail o => (exists r, e = Some r /\ failed r) /\ names_loc loc o
  end.
Proof.
  intros [[| |v]|] loc; cbn; auto.
  - split; [exists RRaise; cbn; auto|apply names_loc_fail_eval].
  - split; [exists RRaiseOther; cbn; auto|apply names_loc_fail_unknown].
  - destruct (scan v) eqn:E.
    + split; [exists (RVal v); split; auto; now apply failed_scan|apply names_loc_fail_eval].
    + split; auto. now apply scan_false_err_free.
Qed.

Lemma evaluate_failed : forall r loc, failed r -> exists o, evaluate (Some r) loc = EFail o /\ names_loc loc o.
Proof.
  intros [| |v] loc H; cbn.
  - eexists; split; eauto using names_loc_fail_eval.
  - eexists; split; eauto using names_loc_fail_unknown.
  - apply failed_scan in H. rewrite H. eexists; split; eauto using names_loc_fail_eval.
Qed.

(* ---------- maps ---------- *)
Lemma scan_kvs_false : forall kvs,
  scan_kvs kvs = false <-> Forall (fun kv => scan (fst kv) = false /\ scan (snd kv) = false) kvs.
Proof.
  induction kvs as [|[k x] r IH]; cbn [scan_kvs].
  - split; auto.
  - rewrite !Bool.orb_false_iff, IH. split.
    + intros [[H1 H2] H3]. constructor; auto.
    + intros H. inversion H; subst. cbn in *. tauto.
Qed.

Lemma scan_vlookup : forall k kvs v,
  scan_kvs kvs = false -> vlookup k kvs = Some v -> scan v = false.
Proof.
  induction kvs as [|[k' x] r IH]; cbn [vlookup scan_kvs]; intros v H L; [discriminate|].
  apply Bool.orb_false_iff in H as [H H3]. apply Bool.orb_false_iff in H as [H1 H2].
  destruct (key_is k k'); [now inversion L; subst|auto].
Qed.

Lemma scan_vset : forall k v kvs,
  scan_kvs kvs = false -> scan v = false -> scan_kvs (vset k v kvs) = false.
Proof.
  induction kvs as [|[k' x] r IH]; cbn [vset scan_kvs]; intros H Hv.
  - cbn. now rewrite Hv.
  - apply Bool.orb_false_iff in H as [H H3]. apply Bool.orb_false_iff in H as [H1 H2].
    destruct (key_is k k'); cbn [scan_kvs]; rewrite H1; [now rewrite Hv, H3|].
    rewrite H2, IH; auto.
Qed.

Lemma scan_nth : forall l n v, existsb scan l = false -> nth_error l n = Some v -> scan v = false.
Proof.
  induction l as [|x r IH]; intros [|n] v H E; cbn in *; try discriminate;
    apply Bool.orb_false_iff in H as [H1 H2].
  - now inversion E; subst.
  - eauto.
Qed.

(* ---------- the overlay applier ---------- *)
Section IndexInd.
  Variable P : index -> Prop.
  Hypothesis Hat : forall n, P (IAt n).
  Hypothesis Hsub : forall kvs, Forall (fun kv => P (snd kv)) kvs -> P (ISub kvs).
  Fixpoint index_ind' (i : index) : P i :=
    match i with
    | IAt n => Hat n
    | ISub kvs =>
        Hsub kvs ((fix go (l : list (string * index)) : Forall (fun kv => P (snd kv)) l :=
                     match l with
                     | [] => Forall_nil _
                     | (k, x) :: r => Forall_cons (k, x) (index_ind' x) (go r)
                     end) kvs)
    end.
End IndexInd.

(* every leaf position of the index exists in a value list of length n *)
Fixpoint idx_in_range (i : index) (n : nat) : bool :=
  match i with
  | IAt k => Nat.ltb k n
  | ISub kvs =>
      (fix go (l : list (string * index)) : bool :=
         match l with
         | [] => true
         | (_, x) :: r => idx_in_range x n && go r
         end) kvs
  end.

Definition apply_go (base : list (vtree * vtree)) (values : list vtree) :=
  fix go (kvs : list (string * index)) (acc : list (vtree * vtree)) : res (list (vtree * vtree)) :=
    match kvs with
    | [] => Done acc
    | (k, i') :: r =>
        match apply_idx i' (vlookup k base) values with
        | Raised e => Raised e
        | Done v => go r (vset k v acc)
        end
    end.

Lemma apply_idx_sub : forall kvs old values,
  apply_idx (ISub kvs) old values =
    match apply_go (match old with Some (VMap m) => m | _ => [] end) values kvs
                   (match old with Some (VMap m) => m | _ => [] end) with
    | Done m => Done (VMap m)
    | Raised e => Raised e
    end.
Proof. reflexivity. Qed.

Lemma apply_idx_scan : forall i old values v,
  existsb scan values = false ->
  (forall o, old = Some o -> scan o = false) ->
  apply_idx i old values = Done v -> scan v = false.
Proof.
  induction i as [n|kvs IH] using index_ind'; intros old values v Hv Hold E.
  - cbn in E. destruct (nth_error values n) eqn:N; inversion E; subst. eapply scan_nth; eauto.
  - rewrite apply_idx_sub in E.
    set (base := match old with Some (VMap m) => m | _ => [] end) in *.
    assert (Hb : scan_kvs base = false).
    { subst base. destruct old as [[]|]; auto. apply (Hold _ eq_refl). }
    destruct (apply_go base values kvs base) as [m|e] eqn:G; inversion E; subst. cbn [scan]. fold scan_kvs.
    assert (Hacc : forall acc m, scan_kvs acc = false -> apply_go base values kvs acc = Done m ->
                                 scan_kvs m = false).
    { clear G E. induction IH as [|[k i'] r Hi _ IHr]; intros acc m0 Ha G0; cbn in G0.
      - now inversion G0; subst.
      - destruct (apply_idx i' (vlookup k base) values) as [v0|] eqn:A; [|discriminate].
        apply (IHr (vset k v0 acc) m0); [|exact G0]. apply scan_vset; [exact Ha|].
        apply (Hi (vlookup k base) values v0); [exact Hv| |exact A].
        intros o Ho. apply (scan_vlookup k base o Hb Ho). }
    eapply Hacc; eauto.
Qed.

Lemma apply_idx_total : forall i old values,
  idx_in_range i (List.length values) = true -> exists v, apply_idx i old values = Done v.
Proof.
  induction i as [n|kvs IH] using index_ind'; intros old values H.
  - cbn in *. apply PeanoNat.Nat.ltb_lt in H. destruct (nth_error values n) eqn:N; eauto.
    apply nth_error_None in N. lia.
  - rewrite apply_idx_sub.
    set (base := match old with Some (VMap m) => m | _ => [] end).
    assert (Hacc : forall acc, exists m, apply_go base values kvs acc = Done m).
    { cbn in H. induction IH as [|[k i'] r Hi _ IHr]; intros acc; cbn.
      - eauto.
      - apply andb_prop in H as [H1 H2].
        destruct (Hi (vlookup k base) values H1) as (v0 & Hv0). cbn [snd] in Hv0. rewrite Hv0.
        apply IHr; auto. }
    destruct (Hacc base) as (m & ->). eauto.
Qed.

Lemma names_loc_bad_overlay : forall L, names_loc L (PermFail (Some (msg_bad_overlay L)) (Some L)).
Proof. intros. apply names_loc_attr. Qed.

(* evaluate_overlay: a value only if celpy did not fail, and then an error-free one (given an
   error-free base); every failure is a PermFail naming the location; the only exception
   that can escape is the applier's IndexError, excluded when the index fits the value list *)
Lemma evaluate_overlay_cases : forall idx r base loc,
  err_free (VMap base) ->
  match evaluate_overlay idx r base loc with
  | Done (UVal v) => ~ failed r /\ err_free v
  | Done (UOut o) => names_loc loc o
  | Raised _ => exists l, r = RVal (VList l) /\ idx_in_range idx (List.length l) = false
  end.
Proof.
  intros idx r base loc Hb. unfold evaluate_overlay.
  destruct idx as [n|kvs]; [apply names_loc_bad_overlay|].
  destruct r as [| |v]; try apply names_loc_fail_eval; try apply names_loc_fail_unknown.
  destruct (scan v) eqn:S; [apply names_loc_fail_eval|].
  destruct v; try apply names_loc_bad_overlay.
  destruct (apply_idx (ISub kvs) (Some (VMap base)) l) as [m|e] eqn:A.
  - split.
    + intros F. apply failed_scan in F. congruence.
    + apply scan_false_err_free. eapply apply_idx_scan; eauto.
      intros o Ho. inversion Ho; subst. now apply scan_false_err_free.
  - exists l. split; auto. destruct (idx_in_range (ISub kvs) (List.length l)) eqn:R; auto.
    destruct (apply_idx_total (ISub kvs) (Some (VMap base)) l R) as (v & Hv). congruence.
Qed.

Lemma evaluate_overlay_failed : forall idx r base loc,
  failed r -> exists o, evaluate_overlay idx r base loc = Done (UOut o) /\ names_loc loc o.
Proof.
  intros idx r base loc F. unfold evaluate_overlay.
  destruct idx as [n|kvs]; [eexists; split; eauto using names_loc_bad_overlay|].
  destruct r as [| |v].
  - eexists; split; eauto using names_loc_fail_eval.
  - eexists; split; eauto using names_loc_fail_unknown.
  - apply failed_scan in F. rewrite F. eexists; split; eauto using names_loc_fail_eval.
Qed.

(* evaluate_predicates: the result is None or a non-Ok outcome (it has no data field, so
   nothing can leak); a failure reported by celpy is a PermFail naming the location *)
Lemma evaluate_predicates_failed : forall r loc,
  failed r -> exists o, evaluate_predicates_raw r loc = Some o /\ names_loc loc o.
Proof.
  intros [| |v] loc F; cbn.
  - eexists; split; eauto using names_loc_fail_eval.
  - eexists; split; eauto. apply names_loc_attr.
  - apply failed_scan in F. rewrite F. eexists; split; eauto using names_loc_fail_eval.
Qed.

Lemma decide_not_ok : forall loc p o, decide loc p = Done (Some o) -> is_ok o = false.
Proof.
  intros loc p o. unfold decide.
  assert (U : (if dumpable p then Done (Some (PermFail (Some msg_unknown_pred) (Some loc)))
               else Raised TypeError) = Done (Some o) -> is_ok o = false).
  { destruct (dumpable p); intros E; inversion E; subst; reflexivity. }
  destruct p; auto.
  destruct (vlookup "assert" kvs); auto.
  destruct (sub_map "ok" kvs); [discriminate|].
  destruct (msg_in "depSkip" kvs); [intros E; inversion E; subst; reflexivity|].
  destruct (msg_in "skip" kvs); [intros E; inversion E; subst; reflexivity|].
  destruct (retry_in kvs) as [[m d]|].
  { destruct (delay_of d); intros E; inversion E; subst; reflexivity. }
  destruct (msg_in "permFail" kvs); [intros E; inversion E; subst; reflexivity|auto].
Qed.

Lemma evaluate_predicates_not_ok : forall r loc o,
  evaluate_predicates_raw r loc = Some o -> is_ok o = false.
Proof.
  intros r loc o. unfold evaluate_predicates_raw.
  destruct r as [| |v]; try (intros E; inversion E; subst; reflexivity).
  destruct (scan v); [intros E; inversion E; subst; reflexivity|].
  destruct v; try (intros E; inversion E; subst; reflexivity).
  unfold p2k. destruct l as [|p rest]; [discriminate|].
  destruct (decide loc p) as [[o'|]|e] eqn:D; intros E; inversion E; subst.
  - eapply decide_not_ok; eauto.
  - reflexivity.
Qed.

(* a user-visible message never is the text of an error object: outcomes other than the
   evaluation-failure PermFail are produced only from an error-free predicate list *)
Lemma evaluate_predicates_from_clean : forall v loc o,
  evaluate_predicates_raw (RVal v) loc = Some o -> o <> fail_eval loc -> err_free v.
Proof.
  intros v loc o E N. unfold evaluate_predicates_raw in E. destruct (scan v) eqn:S.
  - inversion E; subst. contradiction.
  - now apply scan_false_err_free.
Qed.

(* ====================================================================== *)
(* C10: ValueFunction level                                                *)
(* ====================================================================== *)

Definition part (s : site) : string :=
  match s with
  | SPre => "preconditions" | SLocals => "locals" | SResource => "resource"
  | SPost => "postconditions" | SReturn => "return"
  end.

(* what celpy did at the sites of a ValueFunction *)
Definition vf_raw_at (f : vfn) (s : site) : option raw :=
  match s with
  | SPre => vf_pre f
  | SLocals => vf_locals f
  | SReturn => option_map snd (vf_return f)
  | _ => None
  end.

(* the return overlay's index only refers to positions of the evaluated value list
   (prepare builds the list literal from exactly the indexed leaves) *)
Definition vf_ret_fits (f : vfn) : Prop :=
  match vf_return f with
  | Some (idx, RVal (VList l)) => idx_in_range idx (List.length l) = true
  | _ => True
  end.

Definition base_map (base : option (list (vtree * vtree))) : list (vtree * vtree) :=
  match base with Some b => b | None => [] end.

Lemma trace_of_in' : forall s s' r, In s (trace_of s' r) -> s = s' /\ r <> None.
Proof. intros s s' [r|]; cbn; intuition congruence. Qed.

Theorem vf_no_leak : forall f base loc,
  err_free (VMap (base_map base)) ->
  (* 1. a returned value never contains an error object *)
  (forall v, fst (reconcile_vf f base loc) = Done (UVal v) -> err_free v) /\
  (* 2. a site that was reached and at which celpy reported a failure => PermFail naming it *)
  (forall s rw, In s (snd (reconcile_vf f base loc)) -> vf_raw_at f s = Some rw -> failed rw ->
     exists o, fst (reconcile_vf f base loc) = Done (UOut o) /\ names_loc (sloc loc (part s)) o) /\
  (* 3. no exception escapes *)
  (vf_ret_fits f -> exists u, fst (reconcile_vf f base loc) = Done u).
Proof.
  intros f base loc Hb. unfold reconcile_vf.
  destruct (evaluate_predicates_opt (vf_pre f) (sloc loc "preconditions")) as [o|] eqn:P.
  { cbn [fst snd]. split; [discriminate|]. split; [|eauto].
    intros st rw Hin Hr F. apply trace_of_in' in Hin as [-> _]. cbn in Hr.
    rewrite Hr in P. cbn in P. destruct (evaluate_predicates_failed rw (sloc loc "preconditions") F) as (o' & E & N).
    exists o'. split; auto. congruence. }
  assert (Hpre : forall rw, vf_pre f = Some rw -> failed rw -> False).
  { intros rw Hr F. rewrite Hr in P. cbn in P.
    destruct (evaluate_predicates_failed rw (sloc loc "preconditions") F) as (o' & E & _). congruence. }
  destruct (vf_return f) as [[idx rr]|] eqn:R.
  2:{ cbn [fst snd]. split; [intros v E; inversion E; subst; apply scan_false_err_free; reflexivity|].
      split; [|eauto].
      intros st rw Hin Hr F. apply trace_of_in' in Hin as [-> _]. cbn in Hr. exfalso; eauto. }
  pose proof (evaluate_cases (vf_locals f) (sloc loc "locals")) as HL.
  pose proof (evaluate_overlay_cases idx rr (base_map base) (sloc loc "return") Hb) as HO.
  fold (base_map base).
  assert (Hgo :
    let r := (evaluate_overlay idx rr (base_map base) (sloc loc "return"),
              (trace_of SPre (vf_pre f) ++ trace_of SLocals (vf_locals f)) ++ [SReturn]) in
    (forall rw, vf_locals f = Some rw -> failed rw -> False) ->
    (forall v, fst r = Done (UVal v) -> err_free v) /\
    (forall s rw, In s (snd r) -> vf_raw_at f s = Some rw -> failed rw ->
       exists o, fst r = Done (UOut o) /\ names_loc (sloc loc (part s)) o) /\
    (vf_ret_fits f -> exists u, fst r = Done u)).
  { cbn [fst snd]. intros Hloc. split; [|split].
    - intros v E. rewrite E in HO. tauto.
    - intros st rw Hin Hr F. apply in_app_or in Hin as [Hin|[<-|[]]].
      + apply in_app_or in Hin as [Hin|Hin]; apply trace_of_in' in Hin as [-> _]; cbn in Hr; exfalso; eauto.
      + cbn in Hr. rewrite R in Hr. cbn in Hr. inversion Hr; subst.
        apply evaluate_overlay_failed; auto.
    - intros Hf. unfold vf_ret_fits in Hf. rewrite R in Hf.
      destruct (evaluate_overlay idx rr (base_map base) (sloc loc "return")) as [u|e]; eauto.
      destruct HO as (l & -> & Hr). congruence. }
  destruct (evaluate (vf_locals f) (sloc loc "locals")) as [|v|o] eqn:EL.
  - apply Hgo. intros rw Hr. rewrite HL in Hr. discriminate.
  - destruct HL as [HL1 HL2].
    assert (Hloc : forall rw, vf_locals f = Some rw -> failed rw -> False).
    { intros rw Hr F. rewrite HL1 in Hr. inversion Hr; subst. cbn in F. now apply HL2. }
    destruct v; try (apply Hgo; exact Hloc);
    (cbn [fst snd]; split; [discriminate|]; split; [|eauto];
     intros st rw Hin Hr F; apply in_app_or in Hin as [Hin|Hin]; apply trace_of_in' in Hin as [-> _];
     cbn in Hr; exfalso; eauto).
  - cbn [fst snd]. split; [discriminate|]. split; [|eauto].
    destruct HL as [_ HN].
    intros st rw Hin Hr F. apply in_app_or in Hin as [Hin|Hin]; apply trace_of_in' in Hin as [-> _]; cbn in Hr.
    + exfalso; eauto.
    + eauto.
Qed.

(* no exception escapes, whatever value_base is *)
Lemma evaluate_overlay_total : forall idx rr b loc,
  match rr with RVal (VList l) => idx_in_range idx (List.length l) = true | _ => True end ->
  exists u, evaluate_overlay idx rr b loc = Done u.
Proof.
  intros idx rr b loc Hf. unfold evaluate_overlay. destruct idx as [n|kvs]; [eauto|].
  destruct rr as [| |v]; eauto. destruct (scan v); [eauto|]. destruct v; eauto.
  destruct (apply_idx_total (ISub kvs) (Some (VMap b)) l Hf) as (m & ->). eauto.
Qed.

Theorem vf_no_exception : forall f base loc,
  vf_ret_fits f -> exists u, fst (reconcile_vf f base loc) = Done u.
Proof.
  intros f base loc Hf. unfold reconcile_vf.
  destruct (evaluate_predicates_opt (vf_pre f) (sloc loc "preconditions")); [cbn; eauto|].
  destruct (vf_return f) as [[idx rr]|] eqn:R; [|cbn; eauto].
  unfold vf_ret_fits in Hf. rewrite R in Hf.
  destruct (evaluate_overlay_total idx rr (match base with Some b => b | None => [] end)
              (sloc loc "return") Hf) as (u & Hu).
  destruct (evaluate (vf_locals f) (sloc loc "locals")) as [|v|o]; cbn [fst]; eauto.
  destruct v; cbn [fst]; eauto.
Qed.

(* ====================================================================== *)
(* C10: ResourceFunction, the sites of reconcile_resource_function itself  *)
(* (the Kubernetes part is a Section variable: PARTIAL)                    *)
(* ====================================================================== *)
Section RFNoLeak.
  Variable call : Type.
  Variable krm : option raw -> uoutcome vtree * list call.

  Definition rf_raw_at (f : rfn) (s : site) : option raw :=
    match s with
    | SPre => rf_pre f | SLocals => rf_locals f | SPost => rf_post f | SReturn => rf_return f
    | SResource => None
    end.

  Theorem rf_no_leak_partial : forall f loc r t calls,
    reconcile_rf call krm f loc = (r, t, calls) ->
    (forall v, r = Some (UVal v) -> err_free v) /\
    (forall s rw, In s t -> rf_raw_at f s = Some rw -> failed rw ->
       exists o, r = Some (UOut o) /\ names_loc (sloc loc (part s)) o).
  Proof.
    intros f loc r t calls. unfold reconcile_rf.
    destruct (evaluate_predicates_opt (rf_pre f) (sloc loc "preconditions")) as [o|] eqn:P.
    { intros E; inversion E; subst. split; [discriminate|].
      intros st rw Hin Hr F. apply trace_of_in' in Hin as [-> _]. cbn in Hr. rewrite Hr in P. cbn in P.
      destruct (evaluate_predicates_failed rw (sloc loc "preconditions") F) as (o' & E' & N).
      exists o'. split; auto. congruence. }
    assert (Hpre : forall rw, rf_pre f = Some rw -> failed rw -> False).
    { intros rw Hr F. rewrite Hr in P. cbn in P.
      destruct (evaluate_predicates_failed rw (sloc loc "preconditions") F) as (o' & E & _). congruence. }
    pose proof (evaluate_cases (rf_locals f) (sloc loc "locals")) as HL.
    match goal with |- context [match ?X with Some _ => _ | None => _ end] => destruct X as [o2|] eqn:EL end.
    { intros E; inversion E; subst. split; [discriminate|].
      intros st rw Hin Hr F. apply in_app_or in Hin as [Hin|Hin]; apply trace_of_in' in Hin as [-> _]; cbn in Hr.
      - exfalso; eauto.
      - destruct (evaluate (rf_locals f) (sloc loc "locals")) as [|v|o3]; try discriminate.
        + destruct HL as [HL1 HL2]. rewrite HL1 in Hr. inversion Hr; subst. cbn in F. contradiction.
        + destruct HL as [_ HN]. inversion EL; subst. eauto. }
    assert (Hloc : forall rw, rf_locals f = Some rw -> failed rw -> False).
    { intros rw Hr F. destruct (evaluate (rf_locals f) (sloc loc "locals")) as [|v|o3].
      - rewrite HL in Hr. discriminate.
      - destruct HL as [HL1 HL2]. rewrite HL1 in Hr. inversion Hr; subst. cbn in F. contradiction.
      - discriminate. }
    assert (Hne : forall s, In s (trace_of SPre (rf_pre f) ++ trace_of SLocals (rf_locals f)) ->
                  forall rw, rf_raw_at f s = Some rw -> failed rw -> False).
    { intros s Hin rw Hr F. apply in_app_or in Hin as [Hin|Hin]; apply trace_of_in' in Hin as [-> _];
        cbn in Hr; eauto. }
    destruct (krm (rf_locals f)) as [[v|o3] calls0] eqn:K.
    2:{ intros E; inversion E; subst. split; [discriminate|].
        intros st rw Hin Hr F. apply in_app_or in Hin as [Hin|[<-|[]]]; [exfalso; eauto|discriminate]. }
    destruct (evaluate_predicates_opt (rf_post f) (sloc loc "postconditions")) as [o4|] eqn:Q.
    { intros E; inversion E; subst. split; [discriminate|].
      intros st rw Hin Hr F. apply in_app_or in Hin as [Hin|[<-|Hin]]; [exfalso; eauto|discriminate|].
      apply trace_of_in' in Hin as [-> _]. cbn in Hr. rewrite Hr in Q. cbn in Q.
      destruct (evaluate_predicates_failed rw (sloc loc "postconditions") F) as (o' & E' & N).
      exists o'. split; auto. congruence. }
    assert (Hpost : forall rw, rf_post f = Some rw -> failed rw -> False).
    { intros rw Hr F. rewrite Hr in Q. cbn in Q.
      destruct (evaluate_predicates_failed rw (sloc loc "postconditions") F) as (o' & E & _). congruence. }
    pose proof (evaluate_cases (rf_return f) (sloc loc "return")) as HR.
    intros E; inversion E; subst. clear E. split.
    - intros v0 E0. destruct (evaluate (rf_return f) (sloc loc "return")) as [|v1|o5]; inversion E0; subst. tauto.
    - intros st rw Hin Hr F. apply in_app_or in Hin as [Hin|Hin].
      + apply in_app_or in Hin as [Hin|[<-|Hin]]; [exfalso; eauto|discriminate|].
        apply trace_of_in' in Hin as [-> _]. cbn in Hr. exfalso; eauto.
      + apply trace_of_in' in Hin as [-> _]. cbn in Hr.
        destruct (evaluate_failed rw (sloc loc "return") F) as (o' & E' & N).
        rewrite Hr, E'. eauto.
  Qed.
End RFNoLeak.
