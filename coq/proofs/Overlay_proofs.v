(* Overlay_proofs.v — lemmas about model/Overlay.v (property C12). *)
From Koreo Require Import Json Overlay.
From Coq Require Import Lia Arith.
Local Open Scope list_scope.
Local Open Scope nat_scope.

(* ====================================================================== *)
(* association lists                                                       *)
(* ====================================================================== *)

Lemma mem_str_In k l : mem_str k l = true <-> In k l.
Proof.
  induction l as [|x l IH]; simpl; [split; [discriminate|tauto]|].
  rewrite Bool.orb_true_iff, IH, String.eqb_eq. split; intros [H|H]; auto.
Qed.

Lemma mem_str_false k l : mem_str k l = false <-> ~ In k l.
Proof.
  rewrite <- mem_str_In. destruct (mem_str k l); split; intros H; congruence.
Qed.

Lemma nodup_str_NoDup l : nodup_str l = true <-> NoDup l.
Proof.
  induction l as [|x l IH]; simpl.
  - split; [constructor|reflexivity].
  - rewrite Bool.andb_true_iff, Bool.negb_true_iff, mem_str_false, IH.
    split; [intros [H1 H2]; now constructor | intros H; inversion H; auto].
Qed.

Lemma keys_app {A} (a b : list (string * A)) : keys (a ++ b) = keys a ++ keys b.
Proof. unfold keys. apply map_app. Qed.

Lemma lookup_None {A} k (l : list (string * A)) : lookup k l = None <-> ~ In k (keys l).
Proof.
  induction l as [|[k' v] l IH]; simpl; [tauto|].
  destruct (String.eqb k k') eqn:E.
  - apply String.eqb_eq in E. subst. split; [discriminate|intros H; exfalso; auto].
  - apply String.eqb_neq in E. rewrite IH. split; [intros H [H1|H1]; congruence || auto|auto].
Qed.

Lemma lookup_In {A} k (v : A) l : lookup k l = Some v -> In (k, v) l.
Proof.
  induction l as [|[k' v'] l IH]; simpl; [discriminate|].
  destruct (String.eqb k k') eqn:E.
  - apply String.eqb_eq in E. intros [= ->]. subst. now left.
  - intros H. right. auto.
Qed.

Lemma In_lookup {A} k (v : A) l : NoDup (keys l) -> In (k, v) l -> lookup k l = Some v.
Proof.
  induction l as [|[k' v'] l IH]; simpl; [tauto|].
  intros ND [H|H].
  - injection H as -> ->. now rewrite String.eqb_refl.
  - inversion ND as [|? ? Hn ND']; subst.
    destruct (String.eqb k k') eqn:E.
    + apply String.eqb_eq in E. subst. exfalso. apply Hn.
      change k' with (fst (k', v)). now apply in_map.
    + auto.
Qed.

Lemma lookup_app {A} k (a b : list (string * A)) :
  lookup k (a ++ b) = match lookup k a with Some v => Some v | None => lookup k b end.
Proof.
  induction a as [|[k' v] a IH]; simpl; [reflexivity|].
  destruct (String.eqb k k'); auto.
Qed.

Lemma keys_set_key_in {A} k (v : A) l : In k (keys l) -> keys (set_key k v l) = keys l.
Proof.
  induction l as [|[k' v'] l IH]; simpl; [tauto|].
  destruct (String.eqb k k') eqn:E; simpl; [reflexivity|].
  apply String.eqb_neq in E. intros [H|H]; [congruence|]. now rewrite IH.
Qed.

Lemma set_key_notin {A} k (v : A) l : ~ In k (keys l) -> set_key k v l = l ++ [(k, v)].
Proof.
  induction l as [|[k' v'] l IH]; simpl; [reflexivity|].
  intros H. destruct (String.eqb k k') eqn:E.
  - apply String.eqb_eq in E. subst. exfalso. auto.
  - rewrite IH; auto.
Qed.

Lemma lookup_set_key_same {A} k (v : A) l : lookup k (set_key k v l) = Some v.
Proof.
  induction l as [|[k' v'] l IH]; simpl.
  - now rewrite String.eqb_refl.
  - destruct (String.eqb k k') eqn:E; simpl; rewrite E; auto.
Qed.

Lemma lookup_set_key_other {A} k k' (v : A) l : k <> k' -> lookup k (set_key k' v l) = lookup k l.
Proof.
  intros N. induction l as [|[k2 v2] l IH]; simpl.
  - apply String.eqb_neq in N. now rewrite N.
  - destruct (String.eqb k' k2) eqn:E; simpl.
    + apply String.eqb_eq in E. subst. apply String.eqb_neq in N. now rewrite N.
    + destruct (String.eqb k k2); auto.
Qed.

(* set_key on a map in which the key is present, as a [map] *)
Lemma set_key_in_map {A} k (v : A) l :
  NoDup (keys l) -> In k (keys l) ->
  set_key k v l = map (fun kv => (fst kv, if String.eqb (fst kv) k then v else snd kv)) l.
Proof.
  induction l as [|[k' v'] l IH]; simpl; [tauto|].
  intros ND H. inversion ND as [|? ? Hn ND']; subst.
  destruct (String.eqb k k') eqn:E.
  - apply String.eqb_eq in E. subst. rewrite String.eqb_refl. f_equal.
    rewrite <- (map_id l) at 1. apply map_ext_in. intros [k2 v2] Hin. simpl.
    destruct (String.eqb k2 k') eqn:E2; [|reflexivity].
    apply String.eqb_eq in E2. subst. exfalso. apply Hn.
    change k' with (fst (k', v2)). now apply in_map.
  - rewrite String.eqb_sym, E. f_equal. apply String.eqb_neq in E.
    destruct H as [H|H]; [congruence|]. auto.
Qed.

(* ====================================================================== *)
(* a loop of dict assignments is a key-by-key merge                        *)
(* ====================================================================== *)

Definition setk (acc : kvs) (kv : string * json) : kvs := set_key (fst kv) (snd kv) acc.

(* [b] with the entries of [u] written over it / appended *)
Definition merge_plain (b u : kvs) : kvs :=
  map (fun kv => (fst kv, match lookup (fst kv) u with Some v => v | None => snd kv end)) b
  ++ filter (fun kv => negb (mem_str (fst kv) (keys b))) u.

Lemma fold_setk_merge_plain u : forall b,
  NoDup (keys u) -> NoDup (keys b) -> fold_left setk u b = merge_plain b u.
Proof.
  induction u as [|[k v] u IH]; intros b NDu NDb.
  - unfold merge_plain. simpl. rewrite app_nil_r.
    rewrite <- (map_id b) at 1. apply map_ext. now intros [? ?].
  - inversion NDu as [|? ? Hk NDu']; subst. simpl fold_left. unfold setk at 2. simpl fst. simpl snd.
    destruct (in_dec string_dec k (keys b)) as [Hin|Hnin].
    + rewrite IH; auto; [|rewrite keys_set_key_in; auto].
      unfold merge_plain. rewrite keys_set_key_in by auto. simpl filter.
      assert (mem_str k (keys b) = true) as -> by now apply mem_str_In. simpl.
      f_equal. rewrite set_key_in_map by auto. rewrite map_map. apply map_ext.
      intros [k2 v2]. simpl. rewrite (String.eqb_sym k2 k).
      destruct (String.eqb k k2) eqn:E.
      * apply String.eqb_eq in E. subst.
        assert (lookup k2 u = None) as -> by now apply lookup_None. reflexivity.
      * reflexivity.
    + rewrite set_key_notin by auto. rewrite IH; auto.
      2:{ rewrite keys_app. simpl. clear - NDb Hnin. induction (keys b) as [|x l IHl]; simpl.
          - constructor; [tauto|constructor].
          - inversion NDb; subst. constructor.
            + rewrite in_app_iff. simpl. intros [H|[H|[]]]; [auto|]. subst. apply Hnin. now left.
            + apply IHl; auto. intros H. apply Hnin. now right. }
      unfold merge_plain. rewrite map_app. simpl map. rewrite <- app_assoc. simpl app.
      assert (lookup k u = None) as -> by now apply lookup_None.
      f_equal.
      * apply map_ext_in. intros [k2 v2] Hin2. simpl.
        destruct (String.eqb k2 k) eqn:E; [|reflexivity].
        apply String.eqb_eq in E. subst. exfalso. apply Hnin.
        change k with (fst (k, v2)). now apply in_map.
      * simpl filter.
        assert (mem_str k (keys b) = false) as -> by now apply mem_str_false. simpl. f_equal.
        apply filter_ext_in. intros [k2 v2] Hin2. simpl. f_equal.
        rewrite keys_app. simpl.
        destruct (mem_str k2 (keys b)) eqn:M.
        -- apply mem_str_In. rewrite in_app_iff. left. now apply mem_str_In.
        -- apply mem_str_false. rewrite in_app_iff. simpl. intros [H|[H|[]]].
           ++ apply mem_str_false in M. auto.
           ++ subst. apply Hk. change k2 with (fst (k2, v2)). now apply in_map.
Qed.

Lemma get_or_null_In k v b : NoDup (keys b) -> In (k, v) b -> get_or_null k b = v.
Proof. intros ND H. unfold get_or_null. now rewrite (In_lookup _ _ _ ND H). Qed.

Lemma get_or_null_notin k b : ~ In k (keys b) -> get_or_null k b = JNull.
Proof. intros H. unfold get_or_null. apply lookup_None in H. now rewrite H. Qed.

Lemma lookup_map_val {A B} (g : string -> A -> B) k (l : list (string * A)) :
  lookup k (map (fun ka => (fst ka, g (fst ka) (snd ka))) l) = option_map (g k) (lookup k l).
Proof.
  induction l as [|[k' a] l IH]; simpl; [reflexivity|].
  destruct (String.eqb k k') eqn:E; [|exact IH].
  apply String.eqb_eq in E. now subst.
Qed.

(* the declarative [merge_keys] is the loop's [merge_plain] once every update
   function has been applied to the value it finds under its key *)
Lemma merge_keys_plain b fs :
  NoDup (keys b) ->
  merge_keys b fs =
  merge_plain b (map (fun kf => (fst kf, snd kf (get_or_null (fst kf) b))) fs).
Proof.
  intros ND. unfold merge_keys, merge_plain. f_equal.
  - apply map_ext_in. intros [k bv] Hin. simpl. f_equal.
    rewrite (lookup_map_val (fun k f => f (get_or_null k b))).
    destruct (lookup k fs); simpl; [|reflexivity].
    now rewrite (get_or_null_In _ _ _ ND Hin).
  - induction fs as [|[k f] fs IH]; simpl; [reflexivity|].
    destruct (mem_str k (keys b)) eqn:M; simpl; [exact IH|].
    rewrite IH. f_equal. f_equal. f_equal. symmetry. apply get_or_null_notin. now apply mem_str_false.
Qed.

Lemma keys_map_fst {A B} (g : string * A -> B) (l : list (string * A)) :
  keys (map (fun ka => (fst ka, g ka)) l) = keys l.
Proof. unfold keys. rewrite map_map. reflexivity. Qed.

(* ====================================================================== *)
(* mapM                                                                    *)
(* ====================================================================== *)

Lemma mapM_cons {A B} (f : A -> option B) x r :
  mapM f (x :: r) =
  match f x with
  | None => None
  | Some y => match mapM f r with None => None | Some ys => Some (y :: ys) end
  end.
Proof. reflexivity. Qed.

Lemma mapM_app {A B} (f : A -> option B) a b :
  mapM f (a ++ b) =
  match mapM f a, mapM f b with
  | Some x, Some y => Some (x ++ y)
  | _, _ => None
  end.
Proof.
  induction a as [|x a IH]; simpl.
  - destruct (mapM f b); reflexivity.
  - destruct (f x); [|reflexivity]. rewrite IH.
    destruct (mapM f a), (mapM f b); reflexivity.
Qed.

Lemma mapM_length {A B} (f : A -> option B) l r : mapM f l = Some r -> List.length r = List.length l.
Proof.
  revert r. induction l as [|x l IH]; simpl; intros r.
  - now intros [= <-].
  - destruct (f x); [|discriminate]. destruct (mapM f l); [|discriminate].
    intros [= <-]. simpl. now rewrite IH.
Qed.

(* ====================================================================== *)
(* induction on documents / indexes / evaluated trees                      *)
(* ====================================================================== *)

Section DocInd.
  Variable P : doc -> Prop.
  Hypothesis Hleaf : forall e, P (DLeaf e).
  Hypothesis Hlist : forall l, Forall P l -> P (DList l).
  Hypothesis Hmap : forall m, Forall (fun kd => P (snd kd)) m -> P (DMap m).

  Fixpoint doc_ind' (d : doc) : P d :=
    match d with
    | DLeaf e => Hleaf e
    | DList l =>
        Hlist l ((fix go (l : list doc) : Forall P l :=
                    match l with
                    | [] => Forall_nil _
                    | x :: r => Forall_cons _ (doc_ind' x) (go r)
                    end) l)
    | DMap m =>
        Hmap m ((fix go (l : list (string * doc)) : Forall (fun kd => P (snd kd)) l :=
                   match l with
                   | [] => Forall_nil _
                   | (k, v) :: r => Forall_cons (k, v) (doc_ind' v) (go r)
                   end) m)
    end.
End DocInd.

Section TreeInd.
  Variable P : otree -> Prop.
  Hypothesis Hleaf : forall v, P (OLeaf v).
  Hypothesis Hnode : forall m, Forall (fun kt => P (snd kt)) m -> P (ONode m).

  Fixpoint otree_ind' (t : otree) : P t :=
    match t with
    | OLeaf v => Hleaf v
    | ONode m =>
        Hnode m ((fix go (l : list (string * otree)) : Forall (fun kt => P (snd kt)) l :=
                    match l with
                    | [] => Forall_nil _
                    | (k, v) :: r => Forall_cons (k, v) (otree_ind' v) (go r)
                    end) m)
    end.
End TreeInd.

(* ====================================================================== *)
(* the indexer                                                             *)
(* ====================================================================== *)

(* the local loop of [indexer] is [indexer_kvs] *)
Lemma indexer_node x m b :
  indexer (DMap (x :: m)) b = let (im, vs) := indexer_kvs (x :: m) b in (INode im, vs).
Proof.
  cbn [indexer].
  set (go := fix go (m : list (string * doc)) (b : nat) {struct m} :=
               match m with
               | [] => ([], [])
               | (k, v) :: r =>
                   let (i, vs) := indexer v b in
                   let (ir, vr) := go r (b + List.length vs) in
                   ((k, i) :: ir, vs ++ vr)
               end).
  assert (forall m b, go m b = indexer_kvs m b) as E.
  { clear. induction m as [|[k v] m IH]; intros b; simpl; [reflexivity|].
    destruct (indexer v b) as [i vs]. now rewrite IH. }
  destruct x as [k v]. simpl indexer_kvs. destruct (indexer v b) as [i vs]. now rewrite E.
Qed.

Definition is_node (d : doc) : bool :=
  match d with DMap (_ :: _) => true | _ => false end.

Lemma indexer_leaf d b : is_node d = false -> indexer d b = (IPos b, [d]).
Proof. destruct d as [e|l|[|x m]]; simpl; intros H; try reflexivity; discriminate. Qed.

Lemma ev_tree_leaf ev d : is_node d = false -> ev_tree ev d = option_map OLeaf (ev d).
Proof. destruct d as [e|l|[|x m]]; simpl; intros H; try reflexivity; discriminate. Qed.

(* keys of the index = keys of the spec, in order *)
Lemma indexer_kvs_keys m : forall b, keys (fst (indexer_kvs m b)) = keys m.
Proof.
  induction m as [|[k v] m IH]; intros b; simpl; [reflexivity|].
  destruct (indexer v b) as [i vs]. specialize (IH (b + List.length vs)).
  destruct (indexer_kvs m (b + List.length vs)) as [ir vr]. simpl in *. now rewrite IH.
Qed.

(* every non-empty spec yields at least one leaf expression (so that
   prepare_expression never sees an empty list and returns None) *)
Lemma indexer_values_nonempty d : forall b, snd (indexer d b) <> [].
Proof.
  induction d as [e|l _|m IH] using doc_ind'; intros b; try (simpl; discriminate).
  destruct m as [|[k v] m]; [simpl; discriminate|].
  rewrite indexer_node. simpl.
  inversion IH as [|? ? Hv _]; subst. simpl in Hv. specialize (Hv b).
  destruct (indexer v b) as [i vs]. simpl in Hv.
  destruct (indexer_kvs m (b + List.length vs)) as [ir vr]. simpl.
  destruct vs; [congruence|discriminate].
Qed.

(* indexer_dense: the positions stored in the index are exactly
   b, b+1, …, b+n-1 in depth-first order, n = number of leaf expressions *)
Lemma indexer_dense d : forall b,
  positions (fst (indexer d b)) = seq b (List.length (snd (indexer d b))).
Proof.
  induction d as [e|l _|m IH] using doc_ind'; intros b; try reflexivity.
  destruct m as [|x m]; [reflexivity|].
  rewrite indexer_node.
  assert (forall m, Forall (fun kd => forall b,
              positions (fst (indexer (snd kd) b)) = seq b (List.length (snd (indexer (snd kd) b)))) m ->
            forall b, flat_map (fun ki : string * index => positions (snd ki)) (fst (indexer_kvs m b))
                      = seq b (List.length (snd (indexer_kvs m b)))) as H.
  { clear. induction m as [|[k v] m IHm]; intros F b; simpl; [reflexivity|].
    inversion F as [|? ? Hv F']; subst. simpl in Hv. specialize (Hv b).
    destruct (indexer v b) as [i vs]. simpl in Hv.
    specialize (IHm F' (b + List.length vs)).
    destruct (indexer_kvs m (b + List.length vs)) as [ir vr]. simpl in *.
    rewrite Hv, IHm, app_length, seq_app. reflexivity. }
  specialize (H (x :: m) IH b).
  destruct (indexer_kvs (x :: m) b) as [im vs]. exact H.
Qed.

(* ====================================================================== *)
(* well-formedness                                                         *)
(* ====================================================================== *)

Lemma wf_map_iff m :
  wf (JMap m) = true <-> NoDup (keys m) /\ Forall (fun kv => wf (snd kv) = true) m.
Proof.
  cbn [wf]. rewrite Bool.andb_true_iff, nodup_str_NoDup. unfold keys.
  apply and_iff_compat_l.
  induction m as [|[k v] m IH]; simpl.
  - split; auto.
  - rewrite Bool.andb_true_iff, IH. split.
    + intros [H1 H2]. now constructor.
    + intros H. inversion H; subst. auto.
Qed.

Lemma wf_list_iff l : wf (JList l) = true <-> Forall (fun v => wf v = true) l.
Proof. cbn [wf]. rewrite forallb_forall, Forall_forall. reflexivity. Qed.

Lemma wf_as_map j : wf j = true -> wf (JMap (as_map j)) = true.
Proof. destruct j; simpl; auto. Qed.

Lemma wf_lookup k v m : wf (JMap m) = true -> lookup k m = Some v -> wf v = true.
Proof.
  intros W L. apply wf_map_iff in W. destruct W as [_ F].
  apply lookup_In in L. rewrite Forall_forall in F. exact (F _ L).
Qed.

Lemma wf_get_or_null k m : wf (JMap m) = true -> wf (get_or_null k m) = true.
Proof.
  intros W. unfold get_or_null. destruct (lookup k m) eqn:L; [|reflexivity].
  exact (wf_lookup _ _ _ W L).
Qed.

Lemma wf_doc_map_iff m :
  wf_doc (DMap m) = true <-> NoDup (keys m) /\ Forall (fun kd => wf_doc (snd kd) = true) m.
Proof.
  cbn [wf_doc]. rewrite Bool.andb_true_iff, nodup_str_NoDup, forallb_forall, Forall_forall.
  reflexivity.
Qed.

(* ====================================================================== *)
(* applier ∘ indexer = merge_doc                                           *)
(* ====================================================================== *)

(* one iteration of `for key, value_index in index.items()` *)
Definition astep (base : kvs) (values : list json) (acc : res kvs) (ki : string * index) : res kvs :=
  let (k, i') := ki in
  rbind acc (fun a =>
  rbind (apply_index i' (get_or_null k base) values) (fun v => Done (set_key k v a))).

Lemma apply_index_node m basev values :
  apply_index (INode m) basev values =
  rmap JMap (fold_left (astep (as_map basev) values) m (Done (as_map basev))).
Proof. reflexivity. Qed.

Definition tree_entry (ev : doc -> option json) (kd : string * doc) : option (string * otree) :=
  let (k, v) := kd in option_map (pair k) (ev_tree ev v).

Lemma ev_tree_node ev x m :
  ev_tree ev (DMap (x :: m)) = option_map ONode (mapM (tree_entry ev) (x :: m)).
Proof. reflexivity. Qed.

Definition merge_entry (base : kvs) (kt : string * otree) : string * json :=
  (fst kt, merge_doc (snd kt) (get_or_null (fst kt) base)).

Lemma merge_doc_node m basev :
  merge_doc (ONode m) basev =
  JMap (merge_keys (as_map basev) (map (fun kt => (fst kt, merge_doc (snd kt))) m)).
Proof.
  cbn [merge_doc]. f_equal. f_equal. apply map_ext. now intros [k t].
Qed.

(* what is proved about one overlay document, by induction on it *)
Definition ov_ok (ev : doc -> option json) (d : doc) : Prop :=
  forall b,
    match mapM ev (snd (indexer d b)) with
    | None => ev_tree ev d = None
    | Some vs =>
        exists t, ev_tree ev d = Some t /\
        forall pre post basev,
          wf_doc d = true -> wf basev = true -> List.length pre = b ->
          apply_index (fst (indexer d b)) basev (pre ++ vs ++ post) = Done (merge_doc t basev)
    end.

Lemma ov_ok_kvs ev m :
  Forall (fun kd => ov_ok ev (snd kd)) m ->
  forall b,
    match mapM ev (snd (indexer_kvs m b)) with
    | None => mapM (tree_entry ev) m = None
    | Some vs =>
        exists ts, mapM (tree_entry ev) m = Some ts /\ keys ts = keys m /\
        forall pre post base acc,
          Forall (fun kd => wf_doc (snd kd) = true) m -> wf (JMap base) = true ->
          List.length pre = b ->
          fold_left (astep base (pre ++ vs ++ post)) (fst (indexer_kvs m b)) (Done acc)
          = Done (fold_left setk (map (merge_entry base) ts) acc)
    end.
Proof.
  induction m as [|[k v] m IH]; intros F b.
  - simpl. exists []. repeat split; auto.
  - inversion F as [|? ? Hv F']; subst. simpl in Hv.
    simpl indexer_kvs. specialize (Hv b).
    destruct (indexer v b) as [i vs1] eqn:Ei. simpl in Hv.
    specialize (IH F' (b + List.length vs1)).
    destruct (indexer_kvs m (b + List.length vs1)) as [ir vr] eqn:Er. simpl in IH.
    simpl snd. rewrite mapM_app.
    destruct (mapM ev vs1) as [a|] eqn:Ea.
    2:{ destruct (mapM ev vr); rewrite mapM_cons; unfold tree_entry at 1; now rewrite Hv. }
    destruct Hv as [t [Et Hv]].
    destruct (mapM ev vr) as [c|] eqn:Ec.
    2:{ rewrite mapM_cons. unfold tree_entry at 1. rewrite Et. cbn [option_map]. now rewrite IH. }
    destruct IH as [ts [Ets [Ekeys IH]]].
    exists ((k, t) :: ts). split; [|split].
    + rewrite mapM_cons. unfold tree_entry at 1. rewrite Et. cbn [option_map]. now rewrite Ets.
    + simpl. now rewrite Ekeys.
    + intros pre post base acc Wd Wb Hlen.
      inversion Wd as [|? ? Wv Wd']; subst. simpl in Wv.
      simpl fst. simpl fold_left.
      replace (pre ++ (a ++ c) ++ post) with (pre ++ a ++ (c ++ post)) by now rewrite <- !app_assoc.
      rewrite (Hv pre (c ++ post) (get_or_null k base) Wv (wf_get_or_null _ _ Wb) eq_refl).
      cbn [rbind].
      replace (pre ++ a ++ c ++ post) with ((pre ++ a) ++ c ++ post) by now rewrite <- !app_assoc.
      rewrite (IH (pre ++ a) post base (set_key k (merge_doc t (get_or_null k base)) acc) Wd' Wb).
      * reflexivity.
      * rewrite app_length. f_equal. exact (mapM_length _ _ _ Ea).
Qed.

Lemma nth_error_middle {A} (pre : list A) v post : nth_error (pre ++ v :: post) (List.length pre) = Some v.
Proof. induction pre; simpl; auto. Qed.

Lemma ov_ok_leaf ev d : is_node d = false -> ov_ok ev d.
Proof.
  intros Hn b. rewrite (indexer_leaf d b Hn), (ev_tree_leaf ev d Hn). simpl snd.
  rewrite mapM_cons. destruct (ev d) as [v|]; simpl; [|reflexivity].
  exists (OLeaf v). split; [reflexivity|]. intros pre post basev _ _ Hlen. simpl.
  subst b. now rewrite nth_error_middle.
Qed.

Lemma ov_ok_all ev d : ov_ok ev d.
Proof.
  induction d as [e|l _|m IH] using doc_ind'.
  1,2: now apply ov_ok_leaf.
  destruct m as [|x m].
  - now apply ov_ok_leaf.
  - intros b. rewrite indexer_node, ev_tree_node.
    pose proof (ov_ok_kvs ev (x :: m) IH b) as H.
    destruct (indexer_kvs (x :: m) b) as [im vs] eqn:Ei. simpl fst in *. simpl snd in *.
    destruct (mapM ev vs) as [vals|].
    + destruct H as [ts [Ets [Ekeys H]]]. exists (ONode ts). rewrite Ets. split; [reflexivity|].
      intros pre post basev Wd Wb Hlen.
      apply wf_doc_map_iff in Wd. destruct Wd as [NDm Wd].
      rewrite apply_index_node.
      rewrite (H pre post (as_map basev) (as_map basev) Wd (wf_as_map _ Wb) Hlen).
      unfold rmap. cbn [rbind]. f_equal. rewrite merge_doc_node. f_equal.
      pose proof (wf_as_map _ Wb) as Wm. apply wf_map_iff in Wm. destruct Wm as [NDb _].
      rewrite fold_setk_merge_plain; auto.
      * rewrite merge_keys_plain by auto. f_equal. rewrite map_map. reflexivity.
      * unfold merge_entry. rewrite keys_map_fst. now rewrite Ekeys.
    + now rewrite H.
Qed.

(* indexer_applier_is_merge, generalised over the running offset [b] and over
   whatever surrounds this document's values in the shared value list *)
Theorem indexer_applier_is_merge (ev : doc -> option json) d b pre vs post basev :
  wf_doc d = true -> wf basev = true ->
  List.length pre = b ->
  mapM ev (snd (indexer d b)) = Some vs ->
  exists t, ev_tree ev d = Some t /\
            apply_index (fst (indexer d b)) basev (pre ++ vs ++ post) = Done (merge_doc t basev).
Proof.
  intros Wd Wb Hlen E. pose proof (ov_ok_all ev d b) as H. rewrite E in H.
  destruct H as [t [Et H]]. exists t. split; auto.
Qed.

Theorem indexer_eval_fails (ev : doc -> option json) d b :
  mapM ev (snd (indexer d b)) = None -> ev_tree ev d = None.
Proof. intros E. pose proof (ov_ok_all ev d b) as H. now rewrite E in H. Qed.

(* ====================================================================== *)
(* what a key-by-key merge looks like from outside                         *)
(* ====================================================================== *)

Lemma merge_keys_alt b fs :
  merge_keys b fs =
  map (fun kv => (fst kv, match lookup (fst kv) fs with Some f => f (snd kv) | None => snd kv end)) b
  ++ map (fun kf => (fst kf, snd kf JNull))
         (filter (fun kf : string * (json -> json) => negb (mem_str (fst kf) (keys b))) fs).
Proof.
  unfold merge_keys. f_equal; apply map_ext; now intros [? ?].
Qed.

Lemma lookup_filter_key {A} (p : string -> bool) k (l : list (string * A)) :
  p k = true -> lookup k (filter (fun ka => p (fst ka)) l) = lookup k l.
Proof.
  intros Hp. induction l as [|[k' a] l IH]; simpl; [reflexivity|].
  destruct (p k') eqn:E; simpl.
  - destruct (String.eqb k k'); auto.
  - destruct (String.eqb k k') eqn:E2; [|exact IH].
    apply String.eqb_eq in E2. subst. congruence.
Qed.

(* maps merge key by key: the value found under [k] after the merge *)
Theorem lookup_merge_keys k b fs :
  lookup k (merge_keys b fs) =
  match lookup k b with
  | Some bv => Some (match lookup k fs with Some f => f bv | None => bv end)
  | None => option_map (fun f => f JNull) (lookup k fs)
  end.
Proof.
  rewrite merge_keys_alt, lookup_app.
  rewrite (lookup_map_val (fun k bv => match lookup k fs with Some f => f bv | None => bv end)).
  destruct (lookup k b) as [bv|] eqn:Lb; simpl; [reflexivity|].
  rewrite (lookup_map_val (fun _ (f : json -> json) => f JNull)).
  rewrite (lookup_filter_key (fun k => negb (mem_str k (keys b)))); [reflexivity|].
  apply Bool.negb_true_iff, mem_str_false. now apply lookup_None.
Qed.

(* … and its keys: the base's keys in place, then the new ones in overlay order *)
Theorem keys_merge_keys b fs :
  keys (merge_keys b fs) = keys b ++ filter (fun k => negb (mem_str k (keys b))) (keys fs).
Proof.
  rewrite merge_keys_alt, keys_app, !keys_map_fst. f_equal.
  unfold keys. induction fs as [|[k f] fs IH]; simpl; [reflexivity|].
  destruct (negb (mem_str k (map fst b))); simpl; now rewrite IH.
Qed.

Lemma lookup_map_snd {A B} (g : A -> B) k (l : list (string * A)) :
  lookup k (map (fun ka => (fst ka, g (snd ka))) l) = option_map g (lookup k l).
Proof. exact (lookup_map_val (fun _ => g) k l). Qed.

(* the same two facts for an evaluated overlay document *)
Theorem lookup_merge_doc k m basev :
  lookup k (as_map (merge_doc (ONode m) basev)) =
  match lookup k m, lookup k (as_map basev) with
  | Some t, Some bv => Some (merge_doc t bv)         (* in both: merge recursively *)
  | Some t, None => Some (merge_doc t JNull)        (* only in the overlay: its value *)
  | None, other => other                            (* only in the base / nowhere: untouched *)
  end.
Proof.
  rewrite merge_doc_node. cbn [as_map]. rewrite lookup_merge_keys, lookup_map_snd.
  destruct (lookup k (as_map basev)), (lookup k m); reflexivity.
Qed.

Theorem merge_doc_leaf v basev : merge_doc (OLeaf v) basev = v.
Proof. reflexivity. Qed.

(* ====================================================================== *)
(* _deep_overlay = merge_val                                               *)
(* ====================================================================== *)

Definition dstep (acc : kvs) (fv : string * json) : kvs :=
  let (f, v) := fv in
  match lookup f acc, v with
  | Some (JMap rm), JMap _ => set_key f (JMap (deep_overlay_v v rm)) acc
  | _, _ => set_key f v acc
  end.

Lemma deep_overlay_v_map om resource : deep_overlay_v (JMap om) resource = fold_left dstep om resource.
Proof. reflexivity. Qed.

Lemma merge_val_map om b :
  merge_val (JMap om) (JMap b) =
  JMap (merge_keys b (map (fun kv => (fst kv, merge_val (snd kv))) om)).
Proof. cbn [merge_val]. f_equal. f_equal. apply map_ext. now intros [? ?]. Qed.

Lemma merge_val_nonmap v b :
  (forall m, v <> JMap m) \/ (forall m, b <> JMap m) -> merge_val v b = v.
Proof.
  intros [H|H]; destruct v; try reflexivity; try (exfalso; eapply H; reflexivity).
  destruct b; try reflexivity. exfalso; eapply H; reflexivity.
Qed.

Definition deep_ok (v : json) : Prop :=
  forall om resource, v = JMap om -> wf v = true -> wf (JMap resource) = true ->
    JMap (deep_overlay_v v resource) = merge_val v (JMap resource).

Lemma deep_fold om resource : forall acc,
  Forall (fun kv => deep_ok (snd kv)) om ->
  Forall (fun kv => wf (snd kv) = true) om ->
  wf (JMap resource) = true ->
  NoDup (keys om) ->
  (forall k, In k (keys om) -> lookup k acc = lookup k resource) ->
  fold_left dstep om acc =
  fold_left setk (map (fun kv => (fst kv, merge_val (snd kv) (get_or_null (fst kv) resource))) om) acc.
Proof.
  induction om as [|[k v] om IH]; intros acc F W Wr ND Inv; [reflexivity|].
  inversion F as [|? ? Fv F']; subst. inversion W as [|? ? Wv W']; subst.
  inversion ND as [|? ? Hk ND']; subst. simpl in Fv, Wv.
  cbn [fold_left map].
  change (fst (k, v)) with k. change (snd (k, v)) with v.
  assert (dstep acc (k, v) = setk acc (k, merge_val v (get_or_null k resource))) as ->.
  { unfold dstep, setk. simpl fst. simpl snd. rewrite (Inv k (or_introl eq_refl)).
    unfold get_or_null.
    destruct (lookup k resource) as [bv|] eqn:L.
    - destruct bv as [| | | | | |rm]; try (rewrite merge_val_nonmap; [reflexivity|right; discriminate]).
      destruct v as [| | | | | |vm]; try reflexivity.
      rewrite (Fv vm rm eq_refl Wv (wf_lookup _ _ _ Wr L)). reflexivity.
    - rewrite merge_val_nonmap; [reflexivity|right; discriminate]. }
  apply IH; auto.
  intros k' Hin. unfold setk at 1. simpl fst. simpl snd.
  rewrite lookup_set_key_other; [apply Inv; now right|].
  intros ->. contradiction.
Qed.

Lemma deep_ok_all v : deep_ok v.
Proof.
  induction v as [| | | | | |om IH] using json_ind'; intros om' resource E; try discriminate.
  injection E as <-. intros W Wr.
  apply wf_map_iff in W. destruct W as [ND W].
  pose proof Wr as Wr'. apply wf_map_iff in Wr'. destruct Wr' as [NDr _].
  rewrite deep_overlay_v_map, (deep_fold om resource resource IH W Wr ND (fun _ _ => eq_refl)).
  rewrite fold_setk_merge_plain; auto; [|now rewrite keys_map_fst].
  rewrite merge_val_map, merge_keys_plain by auto. rewrite map_map. reflexivity.
Qed.

(* deep_overlay_is_merge_val: functions._overlay(resource, overlay) on two maps *)
Theorem deep_overlay_is_merge_val ov resource :
  wf (JMap ov) = true -> wf (JMap resource) = true ->
  JMap (deep_overlay ov resource) = merge_val (JMap ov) (JMap resource).
Proof. intros W Wr. exact (deep_ok_all (JMap ov) ov resource eq_refl W Wr). Qed.

(* how the value-level merge looks from outside *)
Theorem lookup_merge_val k om b :
  lookup k (as_map (merge_val (JMap om) (JMap b))) =
  match lookup k om, lookup k b with
  | Some v, Some bv => Some (merge_val v bv)   (* two maps merge, otherwise v *)
  | Some v, None => Some v
  | None, other => other
  end.
Proof.
  rewrite merge_val_map. cbn [as_map]. rewrite lookup_merge_keys, lookup_map_snd.
  destruct (lookup k b), (lookup k om) as [v|]; simpl; try reflexivity.
  rewrite merge_val_nonmap; [reflexivity|right; discriminate].
Qed.

Theorem merge_val_replaces v b :
  (forall m, v <> JMap m) \/ (forall m, b <> JMap m) -> merge_val v b = v.
Proof. exact (merge_val_nonmap v b). Qed.

(* ====================================================================== *)
(* merges preserve well-formedness (needed to chain overlays)              *)
(* ====================================================================== *)

Lemma NoDup_app_disjoint {A} (a b : list A) :
  NoDup a -> NoDup b -> (forall x, In x a -> ~ In x b) -> NoDup (a ++ b).
Proof.
  induction a as [|x a IH]; simpl; intros Na Nb D; [exact Nb|].
  inversion Na; subst. constructor.
  - rewrite in_app_iff. intros [H|H]; [contradiction|]. exact (D x (or_introl eq_refl) H).
  - apply IH; auto.
Qed.

Lemma NoDup_filter' {A} (p : A -> bool) l : NoDup l -> NoDup (filter p l).
Proof.
  induction l as [|x l IH]; simpl; intros N; [constructor|].
  inversion N; subst. destruct (p x); auto. constructor; auto.
  rewrite filter_In. tauto.
Qed.

Lemma wf_merge_keys b fs :
  wf (JMap b) = true -> NoDup (keys fs) ->
  Forall (fun kf : string * (json -> json) => forall x, wf x = true -> wf (snd kf x) = true) fs ->
  wf (JMap (merge_keys b fs)) = true.
Proof.
  intros Wb ND F. apply wf_map_iff in Wb. destruct Wb as [NDb Fb].
  apply wf_map_iff. split.
  - rewrite keys_merge_keys. apply NoDup_app_disjoint; auto.
    + now apply NoDup_filter'.
    + intros x Hx Hf. apply filter_In in Hf. destruct Hf as [_ Hf].
      apply Bool.negb_true_iff, mem_str_false in Hf. contradiction.
  - rewrite merge_keys_alt. apply Forall_app.
    rewrite Forall_forall in Fb. rewrite Forall_forall in F. split; apply Forall_forall.
    + intros kv Hin. apply in_map_iff in Hin. destruct Hin as [[k bv] [<- Hin]]. simpl.
      specialize (Fb _ Hin). simpl in Fb.
      destruct (lookup k fs) as [f|] eqn:L; [|exact Fb].
      apply lookup_In in L. exact (F _ L _ Fb).
    + intros kv Hin. apply in_map_iff in Hin. destruct Hin as [[k f] [<- Hin]]. simpl.
      apply filter_In in Hin. destruct Hin as [Hin _]. exact (F _ Hin JNull eq_refl).
Qed.

Fixpoint wf_tree (t : otree) : bool :=
  match t with
  | OLeaf v => wf v
  | ONode m => nodup_str (map fst m) && forallb (fun kt : string * otree => wf_tree (snd kt)) m
  end.

Lemma wf_merge_doc t : wf_tree t = true -> forall basev, wf basev = true -> wf (merge_doc t basev) = true.
Proof.
  induction t as [v|m IH] using otree_ind'; intros Wt basev Wb; [exact Wt|].
  cbn [wf_tree] in Wt. apply Bool.andb_true_iff in Wt. destruct Wt as [ND Wm].
  apply nodup_str_NoDup in ND. rewrite forallb_forall in Wm.
  rewrite merge_doc_node. apply wf_merge_keys.
  - now apply wf_as_map.
  - now rewrite keys_map_fst.
  - rewrite Forall_forall in *. intros kf Hin. apply in_map_iff in Hin.
    destruct Hin as [[k t] [<- Hin]]. simpl. intros x Wx.
    exact (IH _ Hin (Wm _ Hin) x Wx).
Qed.

Lemma wf_merge_val o : wf o = true -> forall b, wf b = true -> wf (merge_val o b) = true.
Proof.
  induction o as [| | | | | |om IH] using json_ind'; intros Wo bv Wb; try exact Wo.
  destruct bv as [| | | | | |bm]; try exact Wo.
  pose proof Wo as Wo'. apply wf_map_iff in Wo'. destruct Wo' as [ND Wm].
  rewrite merge_val_map. apply wf_merge_keys; auto.
  - now rewrite keys_map_fst.
  - rewrite Forall_forall in *. intros kf Hin. apply in_map_iff in Hin.
    destruct Hin as [[k v] [<- Hin]]. simpl. intros x Wx.
    exact (IH _ Hin (Wm _ Hin) x Wx).
Qed.

Lemma NoDup_snoc {A} (l : list A) x : NoDup l -> ~ In x l -> NoDup (l ++ [x]).
Proof.
  intros N H. apply NoDup_app_disjoint; auto.
  - constructor; [tauto|constructor].
  - intros y Hy [<-|[]]. contradiction.
Qed.

Lemma wf_set_key k v m : wf (JMap m) = true -> wf v = true -> wf (JMap (set_key k v m)) = true.
Proof.
  intros Wm Wv. apply wf_map_iff in Wm. destruct Wm as [ND F]. apply wf_map_iff. split.
  - destruct (in_dec string_dec k (keys m)) as [Hin|Hnin].
    + now rewrite keys_set_key_in.
    + rewrite set_key_notin, keys_app by auto. simpl. now apply NoDup_snoc.
  - clear ND. induction m as [|[k' v'] m IH]; simpl.
    + constructor; auto.
    + inversion F; subst. destruct (String.eqb k k'); constructor; auto.
Qed.

Lemma mapM_Forall2 {A B} (f : A -> option B) l r :
  mapM f l = Some r -> Forall2 (fun x y => f x = Some y) l r.
Proof.
  revert r. induction l as [|x l IH]; intros r.
  - intros [= <-]. constructor.
  - rewrite mapM_cons. destruct (f x) eqn:E; [|discriminate].
    destruct (mapM f l); [|discriminate]. intros [= <-]. constructor; auto.
Qed.

Lemma walk_wf p : forall j v, wf j = true -> walk j p = Some v -> wf v = true.
Proof.
  induction p as [|k p IH]; simpl; intros j v W.
  - now intros [= <-].
  - destruct j; try discriminate. destruct (lookup k kvs) eqn:L; [|discriminate].
    apply IH. exact (wf_lookup _ _ _ W L).
Qed.

Lemma eval_expr_wf en e v : wf_env en = true -> wf_expr e = true -> eval_expr en e = Some v -> wf v = true.
Proof.
  intros We W. destruct e as [j|root p]; simpl.
  - now intros [= <-].
  - destruct (lookup root en) eqn:L; [|discriminate].
    apply walk_wf. exact (wf_lookup _ _ _ We L).
Qed.

Lemma eval_doc_wf en d : wf_env en = true -> wf_doc d = true -> forall v, eval_doc en d = Some v -> wf v = true.
Proof.
  intros We. induction d as [e|l IH|m IH] using doc_ind'; intros W v.
  - now apply eval_expr_wf.
  - cbn [eval_doc]. destruct (mapM (eval_doc en) l) as [r|] eqn:E; [|discriminate].
    intros [= <-]. apply wf_list_iff. apply mapM_Forall2 in E.
    cbn [wf_doc] in W. rewrite forallb_forall in W. rewrite <- Forall_forall in W.
    revert IH W. induction E as [|x y l r Hxy E IHE]; intros IH W; constructor;
      inversion IH; inversion W; subst; auto.
  - cbn [eval_doc].
    destruct (mapM _ m) as [r|] eqn:E; [|discriminate].
    intros [= <-]. apply wf_doc_map_iff in W. destruct W as [ND W].
    apply mapM_Forall2 in E. apply wf_map_iff.
    assert (keys r = keys m /\ Forall (fun kv => wf (snd kv) = true) r) as [Ek Fr].
    { clear ND. induction E as [|[k d] y m r Hxy E IHE]; [split; constructor|].
      inversion IH; subst. inversion W; subst. simpl in *.
      destruct (eval_doc en d) as [v|] eqn:Ed; [|discriminate]. injection Hxy as <-.
      destruct IHE as [Ek Fr]; auto. simpl. rewrite Ek. split; [reflexivity|]. constructor; auto. }
    now rewrite Ek.
Qed.

Lemma ev_tree_wf ev d :
  (forall d' v, wf_doc d' = true -> ev d' = Some v -> wf v = true) ->
  wf_doc d = true -> forall t, ev_tree ev d = Some t -> wf_tree t = true.
Proof.
  intros Hev. induction d as [e|l _|m IH] using doc_ind'; intros W t.
  1,2: cbn [ev_tree]; destruct (ev _) eqn:E; [|discriminate]; intros [= <-]; exact (Hev _ _ W E).
  destruct m as [|x m].
  - cbn [ev_tree]. destruct (ev _) eqn:E; [|discriminate]. intros [= <-]. exact (Hev _ _ W E).
  - rewrite ev_tree_node. destruct (mapM (tree_entry ev) (x :: m)) as [ts|] eqn:E; [|discriminate].
    intros [= <-]. apply wf_doc_map_iff in W. destruct W as [ND W].
    apply mapM_Forall2 in E. cbn [wf_tree]. apply Bool.andb_true_iff.
    assert (map fst ts = keys (x :: m) /\ forallb (fun kt => wf_tree (snd kt)) ts = true) as [Ek Fr].
    { clear ND. induction E as [|[k d] y l r Hxy E IHE]; [split; reflexivity|].
      inversion IH; subst. inversion W; subst. simpl in *.
      destruct (ev_tree ev d) as [t|] eqn:Ed; [|discriminate]. injection Hxy as <-.
      destruct IHE as [Ek Fr]; auto. simpl. rewrite Ek, Fr. split; [reflexivity|].
      rewrite Bool.andb_true_r. auto. }
    split; [|exact Fr]. apply nodup_str_NoDup. now rewrite Ek.
Qed.

(* ====================================================================== *)
(* evaluate_overlay, ValueFunction return, ResourceFunction target         *)
(* ====================================================================== *)

Lemma prepare_overlay_unfold x m :
  prepare_overlay (x :: m) =
  let (im, vs) := indexer_kvs (x :: m) 0 in Some {| ov_index := INode im; ov_values := vs |}.
Proof. reflexivity. Qed.

Lemma prepare_overlay_cons x m : exists ov, prepare_overlay (x :: m) = Some ov.
Proof. rewrite prepare_overlay_unfold. destruct (indexer_kvs (x :: m) 0). eauto. Qed.

Lemma prepare_overlay_some spec ov : prepare_overlay spec = Some ov -> spec <> [].
Proof. destruct spec; [discriminate|discriminate]. Qed.

(* one prepared overlay evaluated over [base] is the reference deep merge of
   its document over [base]; it fails exactly when a leaf fails to evaluate *)
Theorem evaluate_overlay_is_merge en spec ov base :
  wf_doc (DMap spec) = true -> wf (JMap base) = true ->
  prepare_overlay spec = Some ov ->
  evaluate_overlay en ov base = ref_overlay en spec (JMap base).
Proof.
  intros Wd Wb P. destruct spec as [|x m]; [discriminate|].
  pose proof (ov_ok_all (eval_doc (set_key "resource" (JMap base) en)) (DMap (x :: m)) 0) as H.
  rewrite indexer_node in H. rewrite prepare_overlay_unfold in P.
  destruct (indexer_kvs (x :: m) 0) as [im vs]. injection P as <-.
  unfold evaluate_overlay, ref_overlay. cbn [ov_index ov_values fst snd] in *.
  destruct (mapM (eval_doc (set_key "resource" (JMap base) en)) vs) as [vals|].
  - destruct H as [t [Et H]]. rewrite Et.
    specialize (H [] [] (JMap base) Wd Wb eq_refl). rewrite app_nil_r in H. exact H.
  - now rewrite H.
Qed.

Lemma ref_overlay_wf en spec cur j :
  wf_env en = true -> wf_doc (DMap spec) = true -> wf cur = true ->
  ref_overlay en spec cur = Done j -> wf j = true.
Proof.
  intros We Wd Wc. unfold ref_overlay.
  destruct (ev_tree _ (DMap spec)) as [t|] eqn:Et; [|discriminate]. intros [= <-].
  apply wf_merge_doc; auto.
  apply (ev_tree_wf _ _ (fun d' v W => eval_doc_wf _ d' (wf_set_key _ _ _ We Wc) W v) Wd _ Et).
Qed.

(* ---------- ValueFunction ---------- *)

Definition base_of (vb : option kvs) : kvs := match vb with Some b => b | None => [] end.

(* vf_return_is_merge: a ValueFunction's return is its return document
   deep-merged over value_base (over the empty map when there is none) *)
Theorem vf_return_is_merge f inputs vb :
  wf_doc (DMap (sv_return f)) = true -> wf (JMap (base_of vb)) = true ->
  sv_return f <> [] ->
  reconcile_vf (prepare_vf f) inputs vb =
  match vf_env (pv_locals (prepare_vf f)) inputs vb with
  | None => PermFail
  | Some full => ref_overlay full (sv_return f) (JMap (base_of vb))
  end.
Proof.
  intros Wd Wb Hne. unfold reconcile_vf. cbn [prepare_vf pv_return pv_locals].
  destruct (sv_return f) as [|x m] eqn:Er; [congruence|].
  destruct (prepare_overlay_cons x m) as [ov P]. rewrite P.
  destruct (vf_env _ inputs vb) as [full|]; [|reflexivity].
  exact (evaluate_overlay_is_merge full (x :: m) ov (base_of vb) Wd Wb P).
Qed.

Lemma reconcile_vf_ref f inputs cur :
  wf_doc (DMap (sv_return f)) = true -> wf (JMap cur) = true ->
  reconcile_vf (prepare_vf f) inputs (Some cur) = ref_vf f inputs cur.
Proof.
  intros Wd Wb. unfold ref_vf. destruct (sv_return f) as [|x m] eqn:Er.
  - unfold reconcile_vf. cbn [prepare_vf pv_return]. now rewrite Er.
  - rewrite <- Er in *. rewrite (vf_return_is_merge f inputs (Some cur)); auto.
    rewrite Er. discriminate.
Qed.

Lemma wf_bind_inputs i : (forall v, i = Some v -> wf v = true) -> wf_env (bind_inputs i) = true.
Proof.
  intros H. destruct i as [v|]; [|reflexivity]. unfold wf_env, bind_inputs.
  apply wf_map_iff. split; [repeat constructor; simpl; tauto|].
  constructor; [|constructor]. simpl. now apply H.
Qed.

Lemma vf_env_wf locals inputs cur full :
  (forall v, inputs = Some v -> wf v = true) -> wf (JMap cur) = true ->
  (forall d, locals = Some d -> wf_doc d = true) ->
  vf_env locals inputs (Some cur) = Some full -> wf_env full = true.
Proof.
  intros Wi Wc Wl. unfold vf_env.
  set (full0 := match cur with [] => bind_inputs inputs | _ :: _ => set_key "resource" (JMap cur) (bind_inputs inputs) end).
  assert (wf_env full0 = true) as W0.
  { subst full0. destruct cur; [now apply wf_bind_inputs|].
    apply wf_set_key; auto. now apply wf_bind_inputs. }
  replace (match cur with [] => bind_inputs inputs | p :: l => set_key "resource" (JMap (p :: l)) (bind_inputs inputs) end)
    with full0 by (subst full0; now destruct cur).
  destruct locals as [d|].
  - destruct (eval_doc full0 d) as [[| | | | | |lv]|] eqn:E; try discriminate.
    intros [= <-]. apply wf_set_key; auto. exact (eval_doc_wf _ _ W0 (Wl _ eq_refl) _ E).
  - intros [= <-]. now apply wf_set_key.
Qed.

(* ---------- ResourceFunction ---------- *)

Definition wf_svf (f : svf) : Prop :=
  wf_doc (DMap (sv_locals f)) = true /\ wf_doc (DMap (sv_return f)) = true.

Definition wf_sstep (s : sstep) : Prop :=
  match s with
  | SInline spec _ => wf_doc (DMap spec) = true
  | SFn f _ inp => wf_svf f /\ wf_doc (DMap inp) = true
  end.

(* the non-skipped branch of [ref_step] *)
Definition ref_apply (en : env) (cur : kvs) (s : sstep) : res kvs :=
  match s with
  | SInline spec _ => rbind (ref_overlay en spec (JMap cur)) to_map
  | SFn f _ inp =>
      match inp with
      | [] => rbind (ref_vf f None cur) to_map
      | m =>
          match eval_doc en (DMap m) with
          | Some i => rbind (ref_vf f (Some i) cur) to_map
          | None => PermFail
          end
      end
  end.

Lemma ref_step_done en cur s :
  ref_step en (Done cur) s =
  rbind (skip_decision en (sstep_skip s)) (fun skip => if skip then Done cur else ref_apply en cur s).
Proof. destruct s; reflexivity. Qed.

Lemma prepare_step_skip s p : prepare_step s = Some p -> pstep_skip p = sstep_skip s.
Proof.
  destruct s as [spec skip|f skip inp]; simpl.
  - destruct (prepare_overlay spec); [|discriminate]. now intros [= <-].
  - now intros [= <-].
Qed.

Lemma apply_step_ref en cur s p :
  prepare_step s = Some p -> wf_sstep s -> wf (JMap cur) = true ->
  apply_step en cur p = ref_apply en cur s.
Proof.
  destruct s as [spec skip|f skip inp]; intros P W Wc.
  - cbn [prepare_step] in P. destruct (prepare_overlay spec) as [ov|] eqn:Po; [|discriminate].
    injection P as <-. cbn [apply_step ref_apply]. cbn [wf_sstep] in W.
    now rewrite (evaluate_overlay_is_merge en spec ov cur W Wc Po).
  - cbn [prepare_step] in P. injection P as <-. destruct W as [[Wl Wr] Wi].
    cbn [apply_step ref_apply].
    destruct inp as [|x inp].
    + now rewrite reconcile_vf_ref.
    + destruct (eval_doc en (DMap (x :: inp))); [|reflexivity]. now rewrite reconcile_vf_ref.
Qed.

Lemma to_map_done j m : rbind (A:=json) (Done j) to_map = Done m -> j = JMap m.
Proof. simpl. destruct j; simpl; try discriminate. now intros [= ->]. Qed.

Lemma rbind_done_inv {A B} (r : res A) (f : A -> res B) b : rbind r f = Done b -> exists a, r = Done a /\ f a = Done b.
Proof. destruct r; simpl; try discriminate. eauto. Qed.

Lemma ref_vf_wf f inputs cur j :
  wf_svf f -> (forall v, inputs = Some v -> wf v = true) -> wf (JMap cur) = true ->
  ref_vf f inputs cur = Done j -> wf j = true.
Proof.
  intros [Wl Wr] Wi Wc. unfold ref_vf.
  destruct (sv_return f) as [|x m] eqn:Er; [now intros [= <-]|].
  destruct (vf_env _ inputs (Some cur)) as [full|] eqn:Ev; [|discriminate].
  apply ref_overlay_wf; auto.
  apply (vf_env_wf _ _ _ _ Wi Wc) in Ev; auto.
  intros d. cbn [prepare_vf pv_locals]. destruct (sv_locals f) eqn:El; [discriminate|].
  intros [= <-]. exact Wl.
Qed.

Lemma ref_apply_wf en cur s cur' :
  wf_env en = true -> wf_sstep s -> wf (JMap cur) = true ->
  ref_apply en cur s = Done cur' -> wf (JMap cur') = true.
Proof.
  intros We W Wc. destruct s as [spec skip|f skip inp]; cbn [ref_apply wf_sstep] in *.
  - intros H. destruct (ref_overlay en spec (JMap cur)) as [j| | |] eqn:E; try discriminate.
    apply to_map_done in H. subst j. exact (ref_overlay_wf _ _ _ _ We W Wc E).
  - destruct W as [Wf Wi]. destruct inp as [|x inp].
    + intros H. destruct (ref_vf f None cur) as [j| | |] eqn:E; try discriminate.
      apply to_map_done in H. subst j. apply (ref_vf_wf f None cur _ Wf); auto. intros v [=].
    + destruct (eval_doc en (DMap (x :: inp))) as [i|] eqn:Ei; [|discriminate].
      intros H. destruct (ref_vf f (Some i) cur) as [j| | |] eqn:E; try discriminate.
      apply to_map_done in H. subst j. apply (ref_vf_wf f (Some i) cur _ Wf); auto.
      intros v [= <-]. exact (eval_doc_wf _ _ We Wi _ Ei).
Qed.

Lemma fold_ref_step_fail en ss (r : res kvs) :
  (forall m, r <> Done m) -> fold_left (ref_step en) ss r = r.
Proof.
  intros H. induction ss as [|s ss IH]; [reflexivity|]. simpl.
  assert (ref_step en r s = r) as ->; [|exact IH].
  destruct r; try reflexivity. exfalso. eapply H. reflexivity.
Qed.

(* the loop of _materialize_from_overlays is a left fold of "deep-merge this
   overlay unless skipped" over the listed overlays *)
Lemma materialize_steps_is_fold en : forall ss ps cur,
  mapM prepare_step ss = Some ps -> Forall wf_sstep ss ->
  wf_env en = true -> wf (JMap cur) = true ->
  materialize_steps en ps cur = fold_left (ref_step en) ss (Done cur).
Proof.
  induction ss as [|s ss IH]; intros ps cur P W We Wc.
  - injection P as <-. reflexivity.
  - rewrite mapM_cons in P. destruct (prepare_step s) as [p|] eqn:Ps; [|discriminate].
    destruct (mapM prepare_step ss) as [pr|] eqn:Pr; [|discriminate]. injection P as <-.
    inversion W as [|? ? Ws W']; subst.
    cbn [materialize_steps fold_left]. rewrite ref_step_done, (prepare_step_skip _ _ Ps).
    destruct (skip_decision en (sstep_skip s)) as [[|]| | |]; cbn [rbind].
    + now apply IH.
    + rewrite (apply_step_ref en cur s p Ps Ws Wc).
      destruct (ref_apply en cur s) as [cur'| | |] eqn:E; cbn [rbind].
      * apply IH; auto. exact (ref_apply_wf _ _ _ _ We Ws Wc E).
      * rewrite fold_ref_step_fail; [reflexivity|discriminate].
      * rewrite fold_ref_step_fail; [reflexivity|discriminate].
      * rewrite fold_ref_step_fail; [reflexivity|discriminate].
    + rewrite fold_ref_step_fail; [reflexivity|discriminate].
    + rewrite fold_ref_step_fail; [reflexivity|discriminate].
    + rewrite fold_ref_step_fail; [reflexivity|discriminate].
Qed.

(* the forced ("security") overlay as a function on maps *)
Definition forced_merge (forced m : kvs) : kvs := as_map (merge_val (JMap forced) (JMap m)).

Lemma deep_overlay_forced forced m :
  wf (JMap forced) = true -> wf (JMap m) = true -> deep_overlay forced m = forced_merge forced m.
Proof.
  intros Wf Wm. unfold forced_merge. now rewrite <- deep_overlay_is_merge_val.
Qed.

Lemma wf_forced_merge forced m :
  wf (JMap forced) = true -> wf (JMap m) = true -> wf (JMap (forced_merge forced m)) = true.
Proof.
  intros Wf Wm. unfold forced_merge. rewrite merge_val_map. cbn [as_map].
  rewrite <- merge_val_map. now apply wf_merge_val.
Qed.

Lemma merge_val_null v : merge_val v JNull = v.
Proof. apply merge_val_nonmap. right. discriminate. Qed.

Lemma forced_merge_empty forced : forced_merge forced [] = forced.
Proof.
  unfold forced_merge. rewrite merge_val_map. cbn [as_map]. rewrite merge_keys_alt. simpl.
  induction forced as [|[k v] l IH]; simpl; [reflexivity|]. now rewrite merge_val_null, IH.
Qed.

Definition wf_template (t : stemplate) : Prop :=
  match t with STInline m => wf_doc (DMap m) = true | _ => True end.

Definition wf_tcache (tc : tcache) : Prop := Forall (fun nb => wf (JMap (snd nb)) = true) tc.

Lemma template_value_wf en tc t base :
  wf_env en = true -> wf_tcache tc -> wf_template t ->
  template_value en tc t = Done base -> wf (JMap base) = true.
Proof.
  intros We Wtc Wt. destruct t as [|m|name]; cbn [template_value wf_template] in *.
  - now intros [= <-].
  - destruct m as [|x m]; [now intros [= <-]|].
    destruct (eval_doc en (DMap (x :: m))) as [[| | | | | |v]|] eqn:E; try discriminate.
    intros [= <-]. exact (eval_doc_wf _ _ We Wt _ E).
  - destruct (eval_expr en name) as [[| | | | s | |]|]; try discriminate.
    destruct (lookup s tc) as [body|] eqn:L; [|discriminate]. intros [= <-].
    apply lookup_In in L. unfold wf_tcache in Wtc. rewrite Forall_forall in Wtc. exact (Wtc _ L).
Qed.

(* target_is_fold: the materialised Target Resource Specification is the
   template's value, with the forced overlay merged in, then every listed
   overlay that is not skipped deep-merged in order (a left fold), then the
   forced overlay once more; with no overlays the forced overlay is applied
   once.  A failure anywhere (PermFail / Retry) is the result. *)
Theorem target_is_fold en tc t ss ps forced :
  wf_env en = true -> wf_tcache tc -> wf_template t -> Forall wf_sstep ss ->
  wf (JMap forced) = true ->
  mapM prepare_step ss = Some ps ->
  target en tc t ps forced =
  rbind (template_value en tc t) (fun base =>
    let start := forced_merge forced base in
    match ss with
    | [] => Done start
    | _ => rmap (forced_merge forced) (fold_left (ref_step en) ss (Done start))
    end).
Proof.
  intros We Wtc Wt Ws Wf P. unfold target.
  assert (construct_template en tc t forced = rmap (forced_merge forced) (template_value en tc t)) as ->.
  { destruct t as [|m|name].
    - simpl. now rewrite forced_merge_empty.
    - unfold construct_template.
      destruct (template_value en tc (STInline m)) as [b| | |] eqn:E; try reflexivity.
      simpl. f_equal. apply deep_overlay_forced; auto. exact (template_value_wf _ _ _ _ We Wtc Wt E).
    - unfold construct_template.
      destruct (template_value en tc (STRef name)) as [b| | |] eqn:E; try reflexivity.
      simpl. f_equal. apply deep_overlay_forced; auto. exact (template_value_wf _ _ _ _ We Wtc Wt E). }
  destruct (template_value en tc t) as [base| | |] eqn:E; try reflexivity.
  cbn [rmap rbind].
  pose proof (wf_forced_merge forced base Wf (template_value_wf _ _ _ _ We Wtc Wt E)) as Wstart.
  destruct ss as [|s ss].
  - injection P as <-. reflexivity.
  - destruct ps as [|p ps]; [rewrite mapM_cons in P; destruct (prepare_step s); [destruct (mapM prepare_step ss)|]; discriminate|].
    unfold materialize.
    rewrite (materialize_steps_is_fold en (s :: ss) (p :: ps) _ P Ws We Wstart).
    set (r := fold_left (ref_step en) (s :: ss) (Done (forced_merge forced base))).
    assert (forall m, r = Done m -> wf (JMap m) = true) as Wr.
    { subst r. clear P p ps. revert Wstart. generalize (forced_merge forced base) as cur.
      revert Ws. generalize (s :: ss) as l. clear s ss.
      induction l as [|s l IH]; intros Ws cur Wc m; cbn [fold_left].
      - now intros [= <-].
      - inversion Ws as [|? ? W1 W2]; subst. rewrite ref_step_done.
        destruct (skip_decision en (sstep_skip s)) as [[|]| | |]; cbn [rbind];
          try (rewrite fold_ref_step_fail by discriminate; discriminate).
        + now apply IH.
        + destruct (ref_apply en cur s) as [cur'| | |] eqn:Ea;
            try (rewrite fold_ref_step_fail by discriminate; discriminate).
          apply IH; auto. exact (ref_apply_wf _ _ _ _ We W1 Wc Ea). }
    destruct r as [m| | |]; try reflexivity.
    simpl. f_equal. apply deep_overlay_forced; auto.
Qed.

(* create: create.overlay deep-merged over the target, then the forced overlay *)
Theorem create_is_merge en spec view forced :
  wf_env en = true -> wf_doc (DMap spec) = true -> wf (JMap view) = true -> wf (JMap forced) = true ->
  create_view en (prepare_overlay spec) view forced =
  rmap (forced_merge forced)
    (match spec with
     | [] => Done view
     | _ => rbind (ref_overlay en spec (JMap view)) to_map
     end).
Proof.
  intros We Wd Wv Wf. unfold create_view. destruct spec as [|x m].
  - simpl. f_equal. now apply deep_overlay_forced.
  - destruct (prepare_overlay_cons x m) as [ov P]. rewrite P.
    rewrite (evaluate_overlay_is_merge en (x :: m) ov view Wd Wv P).
    destruct (ref_overlay en (x :: m) (JMap view)) as [j| | |] eqn:E; try reflexivity.
    pose proof (ref_overlay_wf _ _ _ _ We Wd Wv E) as Wj.
    destruct j; try reflexivity. simpl. f_equal. now apply deep_overlay_forced.
Qed.

(* determinism: the model is a function; stated for completeness *)
Theorem eval_deterministic en ov base r1 r2 :
  evaluate_overlay en ov base = r1 -> evaluate_overlay en ov base = r2 -> r1 = r2.
Proof. congruence. Qed.

(* the applier never raises on an index produced by the indexer *)
Theorem evaluate_overlay_no_raise en spec ov base e :
  wf_doc (DMap spec) = true -> wf (JMap base) = true -> prepare_overlay spec = Some ov ->
  evaluate_overlay en ov base <> Raised e.
Proof.
  intros Wd Wb P. rewrite (evaluate_overlay_is_merge en spec ov base Wd Wb P).
  unfold ref_overlay. destruct (ev_tree _ _); discriminate.
Qed.

(* ====================================================================== *)
(* applying the same value-level overlay twice changes nothing             *)
(* (the forced overlay is applied to the template and again after the      *)
(*  overlays — and a third time on create)                                 *)
(* ====================================================================== *)

Lemma merge_keys_fixed b fs :
  NoDup (keys b) ->
  (forall k, In k (keys fs) -> In k (keys b)) ->
  (forall k bv f, In (k, bv) b -> lookup k fs = Some f -> f bv = bv) ->
  merge_keys b fs = b.
Proof.
  intros ND Hin Hfix. rewrite merge_keys_alt.
  assert (filter (fun kf : string * (json -> json) => negb (mem_str (fst kf) (keys b))) fs = []) as ->.
  { clear Hfix. induction fs as [|[k f] fs IH]; [reflexivity|]. simpl.
    assert (mem_str k (keys b) = true) as -> by (apply mem_str_In, Hin; now left).
    simpl. apply IH. intros k' H. apply Hin. now right. }
  simpl. rewrite app_nil_r. rewrite <- (map_id b) at 2. apply map_ext_in.
  intros [k bv] Hb. simpl. destruct (lookup k fs) as [f|] eqn:L; [|reflexivity].
  now rewrite (Hfix k bv f Hb L).
Qed.

Lemma merge_val_self o : wf o = true -> merge_val o o = o.
Proof.
  induction o as [| | | | | |om IH] using json_ind'; intros W; try reflexivity.
  apply wf_map_iff in W. destruct W as [ND W].
  rewrite merge_val_map. f_equal. apply merge_keys_fixed; auto.
  - intros k. now rewrite keys_map_fst.
  - intros k bv f Hb L. rewrite lookup_map_snd in L.
    rewrite (In_lookup _ _ _ ND Hb) in L. simpl in L. injection L as <-.
    rewrite Forall_forall in IH, W. exact (IH _ Hb (W _ Hb)).
Qed.

Lemma merge_val_idem o : wf o = true -> forall b, wf b = true ->
  merge_val o (merge_val o b) = merge_val o b.
Proof.
  induction o as [| | | | | |om IH] using json_ind'; intros W bv Wb; try reflexivity.
  destruct bv as [| | | | | |bm];
    try (match goal with
         | |- merge_val ?o (merge_val ?o ?x) = _ =>
             rewrite (merge_val_nonmap o x) by (right; discriminate)
         end; now apply merge_val_self).
  pose proof (wf_merge_val _ W _ Wb) as Wr.
  apply wf_map_iff in W. destruct W as [ND W].
  rewrite (merge_val_map om bm) in *. rewrite merge_val_map. f_equal.
  set (fs := map (fun kv : string * json => (fst kv, merge_val (snd kv))) om) in *.
  apply wf_map_iff in Wr. destruct Wr as [NDr _].
  apply merge_keys_fixed; auto.
  - intros k Hk. rewrite keys_merge_keys. apply in_app_iff.
    destruct (in_dec string_dec k (keys bm)) as [H|H]; [now left|right].
    apply filter_In. split; [exact Hk|]. now apply Bool.negb_true_iff, mem_str_false.
  - intros k rv f Hr L.
    apply (In_lookup _ _ _ NDr) in Hr. rewrite lookup_merge_keys, L in Hr.
    subst fs. rewrite lookup_map_snd in L.
    destruct (lookup k om) as [v|] eqn:Lo; [|discriminate]. simpl in L. injection L as <-.
    apply lookup_In in Lo. rewrite Forall_forall in IH, W.
    destruct (lookup k bm) as [x|] eqn:Lb.
    + injection Hr as <-. apply (IH _ Lo (W _ Lo)).
      apply wf_map_iff in Wb. destruct Wb as [_ Wb]. rewrite Forall_forall in Wb.
      exact (Wb _ (lookup_In _ _ _ Lb)).
    + simpl in Hr. injection Hr as <-. now apply (IH _ Lo (W _ Lo)).
Qed.

Theorem forced_merge_idem forced m :
  wf (JMap forced) = true -> wf (JMap m) = true ->
  forced_merge forced (forced_merge forced m) = forced_merge forced m.
Proof.
  intros Wf Wm. unfold forced_merge.
  rewrite (merge_val_map forced m) at 1. cbn [as_map]. rewrite <- (merge_val_map forced m).
  rewrite merge_val_idem by auto. reflexivity.
Qed.
