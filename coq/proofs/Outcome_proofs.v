(* Outcome_proofs.v — lemmas about model/Outcome.v (result.py). *)
From Koreo Require Import Json Outcome.
From Coq Require Import Lia Permutation Arith.

Local Open Scope nat_scope.
Local Open Scope list_scope.

(* ---------- join over non-empty pieces ---------- *)

Definition ne (s : string) : Prop := str_nonempty s = true.

Lemma ne_dec s : str_nonempty s = true \/ s = "".
Proof.
  unfold str_nonempty. destruct (String.eqb s "") eqn:E.
  - right. now apply String.eqb_eq. - now left.
Qed.

Lemma ne_not_empty s : ne s -> s <> "".
Proof. unfold ne, str_nonempty. intros H ->. now rewrite String.eqb_refl in H. Qed.

Lemma append_nonempty_l (a b : string) : a <> "" -> (a ++ b)%string <> "".
Proof. destruct a; simpl; [congruence | discriminate]. Qed.

Lemma sappend_assoc (a b c : string) : ((a ++ b) ++ c = a ++ (b ++ c))%string.
Proof. induction a as [|ch a IH]; simpl; [reflexivity|now rewrite IH]. Qed.

Lemma join_snoc sep l x :
  join sep (l ++ [x]) = match l with [] => x | _ => (join sep l ++ sep ++ x)%string end.
Proof.
  induction l as [|a l IH]; [reflexivity|].
  destruct l as [|b l].
  - reflexivity.
  - change (join sep ((a :: b :: l) ++ [x]))
      with (a ++ sep ++ join sep ((b :: l) ++ [x]))%string.
    rewrite IH.
    change (join sep (a :: b :: l)) with (a ++ sep ++ join sep (b :: l))%string.
    now rewrite !sappend_assoc.
Qed.

Lemma join_ne_empty sep l : Forall ne l -> join sep l = "" -> l = [].
Proof.
  intros H E. destruct l as [|a l]; [reflexivity|exfalso].
  inversion H as [|? ? Ha _]; subst.
  destruct l as [|b l]; simpl in E.
  - now apply ne_not_empty in Ha.
  - revert E. apply append_nonempty_l. now apply ne_not_empty.
Qed.

Lemma filter_ne_Forall l : Forall ne (filter str_nonempty l).
Proof. apply Forall_forall. intros x Hx. apply filter_In in Hx. exact (proj2 Hx). Qed.

Lemma join2_text a b l :
  Forall ne l -> opt_text a = join ", " l ->
  opt_text (join2 a b) = join ", " (l ++ filter str_nonempty [opt_text b]).
Proof.
  intros Hl Ha. unfold join2, truthy_os. cbn [opt_text filter].
  destruct (ne_dec (opt_text a)) as [Ta|Ta].
  - rewrite Ta. assert (l <> []) as Hne.
    { intros ->. simpl in Ha. unfold str_nonempty in Ta. rewrite Ha in Ta. discriminate. }
    destruct (str_nonempty (opt_text b)) eqn:Tb.
    + cbn [app]. rewrite join_snoc. destruct l; [congruence|].
      rewrite <- Ha. reflexivity.
    + rewrite !app_nil_r. cbn [join]. exact Ha.

  - assert (str_nonempty (opt_text a) = false) as Tf.
    { rewrite Ta. reflexivity. }
    rewrite Tf. assert (l = []) as ->.
    { apply (join_ne_empty ", "); [exact Hl|]. now rewrite <- Ha. }
    cbn [app]. destruct (str_nonempty (opt_text b)); reflexivity.
Qed.

(* ---------- specification vocabulary ---------- *)

Section Spec.
  Variable V : Type.
  Notation outcome := (outcome V).

  Definition maxsev (xs : list outcome) : nat := fold_right Nat.max 0 (map sev xs).

  Definition is_pf (o : outcome) : bool := match o with PermFail _ _ => true | _ => false end.
  Definition is_retry (o : outcome) : bool := match o with Retry _ _ _ => true | _ => false end.

  (* the non-empty texts of field [f] of the elements selected by [sel], in order *)
  Definition texts (sel : outcome -> bool) (f : outcome -> option string) (xs : list outcome) : list string :=
    filter str_nonempty (map (fun o => opt_text (f o)) (filter sel xs)).

  Definition delays (xs : list outcome) : list Z :=
    flat_map (fun o => match delay o with Some d => [d] | None => [] end) xs.

  Fixpoint zmax_list (l : list Z) : option Z :=
    match l with
    | [] => None
    | d :: r => Some (match zmax_list r with Some a => Z.max d a | None => d end)
    end.

  Definition all_okvalues (xs : list outcome) : list V := flat_map okvalues xs.

  Lemma maxsev_app xs ys : maxsev (xs ++ ys) = Nat.max (maxsev xs) (maxsev ys).
  Proof.
    unfold maxsev. induction xs as [|x xs IH]; simpl; [reflexivity|]. rewrite IH. lia.
  Qed.

  Lemma texts_app sel f xs ys : texts sel f (xs ++ ys) = texts sel f xs ++ texts sel f ys.
  Proof. unfold texts. now rewrite filter_app, map_app, filter_app. Qed.

  Lemma delays_app xs ys : delays (xs ++ ys) = delays xs ++ delays ys.
  Proof. unfold delays. now rewrite flat_map_app. Qed.

  Lemma all_okvalues_app xs ys : all_okvalues (xs ++ ys) = all_okvalues xs ++ all_okvalues ys.
  Proof. unfold all_okvalues. now rewrite flat_map_app. Qed.

  Lemma zmax_list_snoc l d :
    zmax_list (l ++ [d]) = Some (match zmax_list l with Some a => Z.max a d | None => d end).
  Proof.
    induction l as [|x l IH]; [reflexivity|].
    cbn [app zmax_list]. rewrite IH. f_equal.
    destruct (zmax_list l); lia.
  Qed.

  Lemma texts_Forall sel f xs : Forall ne (texts sel f xs).
  Proof. apply filter_ne_Forall. Qed.

  Lemma reduce_snoc (xs : list outcome) x : reduce (xs ++ [x]) = combine2 (reduce xs) x.
  Proof. unfold reduce. now rewrite fold_left_app. Qed.

  (* The accumulator invariant: everything the property says, for [reduce]. *)
  Definition acc_spec (xs : list outcome) (r : outcome) : Prop :=
    sev r = maxsev xs /\
    (sev r = 4 ->
       opt_text (msg r) = join ", " (texts is_pf msg xs) /\
       opt_text (loc r) = join ", " (texts is_pf loc xs)) /\
    (sev r = 3 ->
       opt_text (msg r) = join ", " (texts is_retry msg xs) /\
       opt_text (loc r) = join ", " (texts is_retry loc xs) /\
       delay r = zmax_list (delays xs)) /\
    (sev r = 2 ->
       okvalues r = all_okvalues xs /\
       opt_text (loc r) = join ", " (texts is_ok loc xs)) /\
    (sev r < 2 -> all_okvalues xs = []).

  Lemma single_text (o : option string) :
    opt_text o = join ", " (filter str_nonempty [opt_text o]).
  Proof.
    cbn [filter]. destruct (ne_dec (opt_text o)) as [T|T].
    - now rewrite T. - rewrite T. reflexivity.
  Qed.

  Lemma sev_lt_no_texts sel f (xs : list outcome) k :
    maxsev xs < k -> (forall o, sel o = true -> sev o >= k) -> texts sel f xs = [].
  Proof.
    intros Hm Hs. unfold texts.
    assert (filter sel xs = []) as ->; [|reflexivity].
    induction xs as [|x xs IH]; [reflexivity|].
    unfold maxsev in *. cbn [map fold_right] in Hm. cbn [filter].
    destruct (sel x) eqn:E.
    - specialize (Hs x E). lia.
    - apply IH. lia.
  Qed.

  Lemma sev_lt_no_delays (xs : list outcome) : maxsev xs < 3 -> delays xs = [].
  Proof.
    unfold delays, maxsev. induction xs as [|x xs IH]; [reflexivity|].
    cbn [map fold_right flat_map]. intros H.
    destruct x; cbn [sev delay app] in *; try (apply IH; lia). lia.
  Qed.

  Lemma reduce_spec (xs : list outcome) :
    Forall (fun o => raw o = true) xs -> acc_spec xs (reduce xs).
  Proof.
    induction xs as [|x xs IH] using rev_ind.
    - intros _. unfold acc_spec, reduce. cbn.
      repeat split; intros; try reflexivity; try discriminate; lia.
    - intros HF. apply Forall_app in HF as [HF Hx].
      inversion Hx as [|? ? Hraw _]; subst.
      specialize (IH HF). rewrite reduce_snoc.
      destruct IH as (Hs & H4 & H3 & H2 & H01).
      unfold acc_spec.
      rewrite maxsev_app, !texts_app, delays_app, all_okvalues_app.
      change (maxsev [x]) with (Nat.max (sev x) 0). rewrite Nat.max_0_r.
      remember (reduce xs) as r eqn:Er. clear Er.
      assert (forall f, texts is_pf f xs = [] \/ sev r = 4) as Npf.
      { intros f. destruct (Nat.eq_dec (sev r) 4); [now right|left].
        apply (sev_lt_no_texts _ _ _ 4).
        - rewrite <- Hs. destruct r; cbn in *; lia.
        - intros o. destruct o; cbn; intros; try discriminate; lia. }
      assert (forall f, texts is_retry f xs = [] \/ sev r >= 3) as Nrt.
      { intros f. destruct (le_lt_dec 3 (sev r)); [now right|left].
        apply (sev_lt_no_texts _ _ _ 3); [lia|].
        intros o. destruct o; cbn; intros; try discriminate; lia. }
      assert (delays xs = [] \/ sev r >= 3) as Ndl.
      { destruct (le_lt_dec 3 (sev r)); [now right|left]. apply sev_lt_no_delays. lia. }
      assert (forall f, texts is_ok f xs = [] \/ sev r >= 2) as Nok.
      { intros f. destruct (le_lt_dec 2 (sev r)); [now right|left].
        apply (sev_lt_no_texts _ _ _ 2); [lia|].
        intros o. destruct o; cbn; intros; try discriminate; lia. }
      destruct r as [rm rl|rm rl|rd rl|rd rm rl|rm rl];
        destruct x as [xm xl|xm xl|xd xl|xd xm xl|xm xl];
        cbn [combine2 sev msg loc delay okvalues is_pf is_retry is_ok texts filter map
             delays flat_map all_okvalues app] in *;
        try (destruct rd as [rv|rvs]);
        try (destruct xd as [xv|xvs]; [|discriminate Hraw]);
        cbn [combine2 sev msg loc delay okvalues app] in *;
        repeat match goal with
          | H : ?a = ?a -> _ |- _ => specialize (H eq_refl)
          | H : 0 < 2 -> _ |- _ => specialize (H ltac:(lia))
          | H : 1 < 2 -> _ |- _ => specialize (H ltac:(lia))
          end;
        (split; [lia|]);
        (split; [intros E4; try discriminate E4; try lia|]);
        try (split; [intros E3; try discriminate E3; try lia|]);
        try (split; [intros E2; try discriminate E2; try lia|]);
        try (intros E01; try lia).
      all: try rewrite !app_nil_r.
      all: repeat match goal with
             | H : _ /\ _ |- _ => destruct H
             end.
      all: try (destruct (Npf msg) as [Em|?]; [|lia]; destruct (Npf loc) as [El|?]; [|lia];
                try rewrite Em; try rewrite El).
      all: try (destruct (Nrt msg) as [Em'|?]; [|lia]; destruct (Nrt loc) as [El'|?]; [|lia];
                try rewrite Em'; try rewrite El').
      all: try (destruct Ndl as [Ed|?]; [|lia]; try rewrite Ed).
      all: try (destruct (Nok loc) as [Eo|?]; [|lia]; try rewrite Eo).
      all: cbn [app zmax_list].
      all: try (split; [apply single_text|]); try apply single_text.
      all: try (split; [apply single_text|reflexivity]).
      all: try (repeat split; assumption).
      all: try (split; [reflexivity|apply single_text]).
      all: try (split; [congruence|]).
      all: try solve [rewrite ?app_nil_r in *; repeat split; try assumption; try congruence;
                      try apply single_text;
                      try (apply join2_text; [apply texts_Forall|assumption])].
      all: try solve [repeat split;
             try (apply join2_text; [apply texts_Forall|assumption]);
             try (rewrite zmax_list_snoc;
                  match goal with H : Some _ = zmax_list _ |- _ => rewrite <- H end; reflexivity);
             try congruence].
      all: try (rewrite H01; split; [reflexivity|apply (single_text xl)]).
      rewrite <- H. split; [reflexivity|].
      apply (join2_text rl xl); [apply texts_Forall|assumption].
  Qed.
End Spec.

(* ---------- top-level statements about [combine] / [unwrapped_combine] ---------- *)

Section Top.
  Variable V : Type.
  Notation outcome := (outcome V).
  Notation Raw := (Forall (fun o : outcome => raw o = true)).

  Lemma combine_nil : combine (@nil outcome) = Skip None None.
  Proof. reflexivity. Qed.

  (* [combine] only re-wraps the Ok data of [reduce]: every observation agrees *)
  Lemma combine_obs (xs : list outcome) :
    xs <> [] ->
    sev (combine xs) = sev (reduce xs) /\ msg (combine xs) = msg (reduce xs) /\
    loc (combine xs) = loc (reduce xs) /\ delay (combine xs) = delay (reduce xs) /\
    okvalues (combine xs) = okvalues (reduce xs).
  Proof.
    intros Hne. unfold combine. destruct xs as [|x xs]; [congruence|].
    destruct (reduce (x :: xs)) as [| |[v|vs] l| |]; repeat split; reflexivity.
  Qed.

  Theorem combine_class (xs : list outcome) :
    Raw xs -> xs <> [] -> sev (combine xs) = maxsev V xs.
  Proof.
    intros HR Hne. destruct (combine_obs xs Hne) as (-> & _).
    exact (proj1 (reduce_spec V xs HR)).
  Qed.

  Theorem combine_ok_lossless (xs : list outcome) :
    Raw xs -> maxsev V xs = 2 ->
    exists l, combine xs = Ok (Many (all_okvalues V xs)) l /\
              opt_text l = join ", " (texts V is_ok loc xs).
  Proof.
    intros HR Hm. assert (xs <> []) as Hne by (intros ->; discriminate Hm).
    destruct (reduce_spec V xs HR) as (Hs & _ & _ & H2 & _).
    rewrite Hm in Hs. specialize (H2 Hs). destruct H2 as [Hv Hl].
    unfold combine. destruct xs as [|x xs]; [congruence|].
    destruct (reduce (x :: xs)) as [| |[v|vs] l| |]; try discriminate Hs;
      cbn [okvalues loc] in *; exists l; rewrite <- Hv; split; auto.
  Qed.

  Theorem combine_retry (xs : list outcome) :
    Raw xs -> maxsev V xs = 3 ->
    exists d m l, combine xs = Retry d m l /\
      Some d = zmax_list (delays V xs) /\
      opt_text m = join ", " (texts V (is_retry V) msg xs) /\
      opt_text l = join ", " (texts V (is_retry V) loc xs).
  Proof.
    intros HR Hm. assert (xs <> []) as Hne by (intros ->; discriminate Hm).
    destruct (reduce_spec V xs HR) as (Hs & _ & H3 & _ & _).
    rewrite Hm in Hs. specialize (H3 Hs). destruct H3 as (Hmsg & Hl & Hd).
    unfold combine. destruct xs as [|x xs]; [congruence|].
    destruct (reduce (x :: xs)) as [| |[v|vs] l|d m l|]; try discriminate Hs.
    exists d, m, l. cbn [msg loc delay] in *. auto.
  Qed.

  Theorem combine_permfail (xs : list outcome) :
    Raw xs -> maxsev V xs = 4 ->
    exists m l, combine xs = PermFail m l /\
      opt_text m = join ", " (texts V (is_pf V) msg xs) /\
      opt_text l = join ", " (texts V (is_pf V) loc xs).
  Proof.
    intros HR Hm. assert (xs <> []) as Hne by (intros ->; discriminate Hm).
    destruct (reduce_spec V xs HR) as (Hs & H4 & _ & _ & _).
    rewrite Hm in Hs. specialize (H4 Hs). destruct H4 as (Hmsg & Hl).
    unfold combine. destruct xs as [|x xs]; [congruence|].
    destruct (reduce (x :: xs)) as [| |[v|vs] l|d m l|m l]; try discriminate Hs.
    exists m, l. cbn [msg loc] in *. auto.
  Qed.

  (* a Skip / DepSkip result is literally one of the inputs *)
  Lemma reduce_low_member (xs : list outcome) :
    xs <> [] -> sev (reduce xs) < 2 -> In (reduce xs) xs.
  Proof.
    induction xs as [|x xs IH] using rev_ind; [congruence|]. intros _.
    rewrite reduce_snoc. intros Hlow. apply in_or_app.
    destruct (reduce xs) as [rm rl|rm rl|rd rl|rd rm rl|rm rl] eqn:Er;
      destruct x as [xm xl|xm xl|xd xl|xd xm xl|xm xl];
      cbn [combine2 sev] in *; try lia; try (right; left; reflexivity);
      try (destruct rd; cbn [sev] in Hlow; lia).
    left. destruct xs as [|y ys]; [discriminate Er|].
    apply IH; [discriminate|lia].
  Qed.

  Theorem combine_skip_member (xs : list outcome) :
    Raw xs -> xs <> [] -> maxsev V xs < 2 -> In (combine xs) xs.
  Proof.
    intros HR Hne Hm.
    pose proof (proj1 (reduce_spec V xs HR)) as Hs.
    assert (combine xs = reduce xs) as ->.
    { unfold combine. destruct xs; [congruence|].
      destruct (reduce (o :: xs)) as [| |[v|vs] l| |]; cbn [sev] in Hs; try reflexivity; lia. }
    apply reduce_low_member; [exact Hne|lia].
  Qed.

  Lemma maxsev_ge (xs : list outcome) o : In o xs -> sev o <= maxsev V xs.
  Proof.
    unfold maxsev. induction xs as [|x xs IH]; [intros []|].
    intros [->|H]; cbn [map fold_right]; [lia|]. specialize (IH H). lia.
  Qed.

  Theorem ok_only_if_no_error (xs : list outcome) :
    Raw xs -> is_ok (combine xs) = true -> Forall (fun o => is_error o = false) xs.
  Proof.
    intros HR Hok. destruct xs as [|x xs]; [constructor|].
    assert (sev (combine (x :: xs)) = 2) as Hs.
    { destruct (combine (x :: xs)); try discriminate Hok; reflexivity. }
    rewrite combine_class in Hs; [|exact HR|discriminate].
    apply Forall_forall. intros o Ho. apply maxsev_ge in Ho.
    destruct o; cbn in *; try reflexivity; lia.
  Qed.

  (* ---------- permutation invariance ---------- *)

  Lemma maxsev_perm (xs ys : list outcome) : Permutation xs ys -> maxsev V xs = maxsev V ys.
  Proof.
    unfold maxsev. induction 1; cbn [map fold_right]; try lia.
  Qed.

  Lemma filter_perm {A} (f : A -> bool) l l' : Permutation l l' -> Permutation (filter f l) (filter f l').
  Proof.
    induction 1 as [|x l l' _ IH|x y l|l l' l'' _ IH1 _ IH2]; cbn [filter].
    - constructor.
    - destruct (f x); [now constructor|assumption].
    - destruct (f x), (f y); try apply Permutation_refl; apply perm_swap.
    - now transitivity (filter f l').
  Qed.

  Lemma texts_perm sel f (xs ys : list outcome) :
    Permutation xs ys -> Permutation (texts V sel f xs) (texts V sel f ys).
  Proof. intros H. unfold texts. apply filter_perm, Permutation_map, filter_perm, H. Qed.

  Lemma zmax_list_perm l l' : Permutation l l' -> zmax_list l = zmax_list l'.
  Proof.
    induction 1 as [|x l l' _ IH|x y l|l l' l'' _ IH1 _ IH2]; cbn [zmax_list].
    - reflexivity.
    - now rewrite IH.
    - f_equal. destruct (zmax_list l); lia.
    - congruence.
  Qed.

  Lemma delays_perm (xs ys : list outcome) : Permutation xs ys -> Permutation (delays V xs) (delays V ys).
  Proof.
    unfold delays. induction 1 as [|x l l' _ IH|x y l|l l' l'' _ IH1 _ IH2]; cbn [flat_map].
    - constructor.
    - now apply Permutation_app_head.
    - rewrite !app_assoc. apply Permutation_app_tail, Permutation_app_comm.
    - now transitivity (flat_map (fun o : outcome => match delay o with Some d => [d] | None => [] end) l').
  Qed.

  Lemma raw_perm (xs ys : list outcome) : Permutation xs ys -> Raw xs -> Raw ys.
  Proof. intros H. apply Permutation_Forall, H. Qed.

  Theorem combine_class_perm (xs ys : list outcome) :
    Raw xs -> Permutation xs ys ->
    sev (combine xs) = sev (combine ys) /\
    delay (combine xs) = delay (combine ys).
  Proof.
    intros HR HP. pose proof (raw_perm _ _ HP HR) as HR'.
    destruct xs as [|x xs].
    { apply Permutation_nil in HP. subst. split; reflexivity. }
    assert (ys <> []) as Hy.
    { intros ->. apply Permutation_sym, Permutation_nil in HP. discriminate. }
    assert (x :: xs <> []) as Hx by discriminate.
    split.
    - rewrite !combine_class by assumption. now apply maxsev_perm.
    - destruct (combine_obs _ Hx) as (_ & _ & _ & -> & _).
      destruct (combine_obs _ Hy) as (_ & _ & _ & -> & _).
      pose proof (reduce_spec V _ HR) as (S1 & _ & A3 & _).
      pose proof (reduce_spec V _ HR') as (S2 & _ & B3 & _).
      pose proof (maxsev_perm _ _ HP) as Hm.
      destruct (Nat.eq_dec (sev (reduce (x :: xs))) 3) as [E|E].
      + destruct (A3 E) as (_ & _ & ->). destruct (B3 ltac:(lia)) as (_ & _ & ->).
        apply zmax_list_perm, delays_perm, HP.
      + assert (sev (reduce ys) <> 3) as E' by lia.
        destruct (reduce (x :: xs)), (reduce ys); cbn in *; congruence.
  Qed.

  (* the kept messages are the same multiset whatever the order *)
  Theorem combine_msgs_perm (xs ys : list outcome) sel f :
    Permutation xs ys -> Permutation (texts V sel f xs) (texts V sel f ys).
  Proof. apply texts_perm. Qed.

  (* ---------- unwrapped_combine ---------- *)

  Definition uraw (u : uoutcome V) : bool :=
    match u with UOut (Ok _ _) => false | _ => true end.

  Lemma wrap_raw (us : list (uoutcome V)) :
    Forall (fun u => uraw u = true) us -> Raw (map wrap us).
  Proof.
    induction 1 as [|u us Hu _ IH]; constructor; [|exact IH].
    destruct u as [v|[]]; cbn in *; congruence.
  Qed.

  Definition usev (r : uresult V) : nat := match r with UList _ => 2 | UNon o => sev o end.
  Definition uvalues (r : uresult V) : list V := match r with UList vs => vs | UNon _ => [] end.

  Theorem unwrapped_combine_class (us : list (uoutcome V)) :
    Forall (fun u => uraw u = true) us -> us <> [] ->
    usev (unwrapped_combine us) = maxsev V (map wrap us) /\
    (maxsev V (map wrap us) = 2 ->
       unwrapped_combine us = UList (all_okvalues V (map wrap us))) /\
    (maxsev V (map wrap us) <> 2 ->
       unwrapped_combine us = UNon (combine (map wrap us))).
  Proof.
    intros HR Hne. apply wrap_raw in HR.
    destruct (reduce_spec V _ HR) as (Hs & _ & _ & H2 & _).
    unfold unwrapped_combine, combine.
    destruct us as [|u us]; [congruence|]. cbn [map] in *.
    destruct (reduce (wrap u :: map wrap us)) as [| |[v|vs] l| |] eqn:Er;
      cbn [usev sev okvalues] in *; (split; [exact Hs|]); split; intros Hm;
      try (rewrite <- Hs in Hm; try discriminate Hm; try congruence);
      try reflexivity.
    - destruct (H2 eq_refl) as [<- _]. reflexivity.
    - destruct (H2 eq_refl) as [<- _]. reflexivity.
  Qed.
End Top.
