From Koreo Require Import Tree Extract.
