(* Extract_proofs.v — lemmas and proofs about model/Tree.v and model/Extract.v
   (properties C14 and the extractor-totality part of C20). *)
From Koreo Require Import Tree Extract.
From Coq Require Import Lia.
Local Open Scope string_scope.
Local Open Scope list_scope.
Local Open Scope nat_scope.

(* ================================================================== *)
(* A. nonterminal names *)

Lemma nt_of_string_name : forall d x, nt_of_string d = Some x -> d = nt_name x.
Proof.
  intros d x. unfold nt_of_string, all_nts. cbn [find nt_name].
  repeat match goal with
         | |- context [String.eqb ?a d] =>
             destruct (String.eqb_spec a d);
             [ intro H; inversion H; subst; reflexivity | ]
         end.
  discriminate.
Qed.

Lemma nt_of_string_nt_name : forall x, nt_of_string (nt_name x) = Some x.
Proof. destruct x; reflexivity. Qed.

Lemma nt_name_inj : forall x y, nt_name x = nt_name y -> x = y.
Proof.
  intros x y H. pose proof (nt_of_string_nt_name x) as Hx. rewrite H in Hx.
  rewrite nt_of_string_nt_name in Hx. congruence.
Qed.

Lemma is_sub_inv : forall x c, is_sub x (head_of c) = true -> exists cs, c = N (nt_name x) cs.
Proof.
  intros x [d cs|ty v] H; [|discriminate H].
  unfold is_sub, head_of in H.
  destruct (nt_of_string d) as [y|] eqn:E; [|discriminate H].
  apply String.eqb_eq in H. apply nt_of_string_name in E. subst d.
  exists cs. now rewrite H.
Qed.

Lemma is_tok_inv : forall ty c, is_tok ty (head_of c) = true -> exists v, c = Tok ty v.
Proof.
  intros ty [d cs|t v] H; [discriminate H|].
  cbn in H. apply String.eqb_eq in H. subst. now exists v.
Qed.

Lemma is_sub_any_inv : forall xs c, is_sub_any xs (head_of c) = true ->
  exists x cs, In x xs /\ c = N (nt_name x) cs.
Proof.
  intros xs c H. unfold is_sub_any in H. apply existsb_exists in H.
  destruct H as (x & Hin & Hx). apply is_sub_inv in Hx. destruct Hx as (cs & ->).
  now exists x, cs.
Qed.

(* ================================================================== *)
(* B. what well-formedness gives *)

Definition child_wf (c : node) : bool :=
  match c with Tok _ _ => true | N _ _ => cel_tree_wf c end.

Lemma wf_inv : forall d cs, cel_tree_wf (N d cs) = true ->
  exists x, d = nt_name x /\ shape x (map head_of cs) = true /\
            forallb tok_ok cs = true /\ forallb child_wf cs = true.
Proof.
  intros d cs H. cbn [cel_tree_wf] in H. destruct (nt_of_string d) as [x|] eqn:E; [|discriminate H].
  apply andb_true_iff in H. destruct H as [H H3]. apply andb_true_iff in H. destruct H as [H1 H2].
  exists x. split; [now apply nt_of_string_name|]. repeat split; assumption.
Qed.

Lemma wf_intro : forall x cs, shape x (map head_of cs) = true -> forallb tok_ok cs = true ->
  forallb child_wf cs = true -> cel_tree_wf (N (nt_name x) cs) = true.
Proof.
  intros x cs H1 H2 H3. cbn [cel_tree_wf]. rewrite nt_of_string_nt_name.
  unfold child_wf in H3. rewrite H1, H2. cbn [andb]. exact H3.
Qed.

Lemma wf_is_tree : forall n, cel_tree_wf n = true -> exists d cs, n = N d cs.
Proof. intros [d cs|ty v] H; [now exists d, cs|discriminate]. Qed.

Lemma child_wf_sub : forall d cs, child_wf (N d cs) = true -> cel_tree_wf (N d cs) = true.
Proof. intros; assumption. Qed.

(* every subtree of a grammar tree is a grammar tree *)
Lemma subtrees_wf : forall n, cel_tree_wf n = true ->
  Forall (fun s => cel_tree_wf s = true) (subtrees n).
Proof.
  induction n as [d cs IH|ty v] using node_ind'; intro H; [|discriminate].
  cbn [subtrees]. constructor; [assumption|].
  apply wf_inv in H. destruct H as (x & _ & _ & _ & Hc).
  rewrite forallb_forall in Hc. rewrite Forall_forall in IH.
  apply Forall_forall. intros s Hs. apply in_flat_map in Hs. destruct Hs as (c & Hc1 & Hc2).
  specialize (IH c Hc1). specialize (Hc c Hc1).
  destruct c as [d' cs'|ty v]; [|cbn in Hc2; contradiction].
  pose proof (IH Hc) as HF. rewrite Forall_forall in HF. now apply HF.
Qed.

Lemma subtrees_are_trees : forall n s, In s (subtrees n) -> is_tree s = true.
Proof.
  induction n as [d cs IH|ty v] using node_ind'; intros s Hs; [|contradiction].
  cbn [subtrees] in Hs. destruct Hs as [<-|Hs]; [reflexivity|].
  apply in_flat_map in Hs. destruct Hs as (c & Hc1 & Hc2).
  rewrite Forall_forall in IH. eapply IH; eassumption.
Qed.

(* ---- tactics for reading a production off [shape] ---- *)

Ltac split_and H :=
  repeat match type of H with
         | (_ && _) = true =>
             let H1 := fresh H in
             apply andb_true_iff in H; destruct H as [H1 H]; split_and H1
         end.

Ltac inv_heads :=
  repeat match goal with
         | H : is_sub _ (head_of _) = true |- _ =>
             apply is_sub_inv in H; destruct H as (? & ->)
         | H : is_tok _ (head_of _) = true |- _ =>
             apply is_tok_inv in H; destruct H as (? & ->)
         end.

(* x is now known: read the children off the rule *)
Ltac read_shape Hs cs :=
  destruct cs as [|? [|? [|? [|? ?]]]];
  cbn [shape opt_left ident_optargs map] in Hs; try discriminate Hs;
  split_and Hs; inv_heads.

Lemma wf_name_inv : forall x cs, cel_tree_wf (N (nt_name x) cs) = true ->
  shape x (map head_of cs) = true /\ forallb tok_ok cs = true /\ forallb child_wf cs = true.
Proof.
  intros x cs H. apply wf_inv in H. destruct H as (y & Hn & H).
  apply nt_name_inj in Hn. now subst y.
Qed.

(* ---- the productions the extractor walks through ---- *)

Lemma wf_member_dot : forall cs, cel_tree_wf (N "member_dot" cs) = true ->
  exists mcs v, cs = [N "member" mcs; Tok "IDENT" v] /\ cel_tree_wf (N "member" mcs) = true.
Proof.
  intros cs H. apply (wf_name_inv Member_dot) in H. destruct H as (Hs & _ & Hc).
  read_shape Hs cs. cbn [forallb child_wf] in Hc. split_and Hc.
  eexists _, _. split; [reflexivity|assumption].
Qed.

Lemma wf_member_dot_arg : forall cs, cel_tree_wf (N "member_dot_arg" cs) = true ->
  exists mcs v, cel_tree_wf (N "member" mcs) = true /\
    (cs = [N "member" mcs; Tok "IDENT" v] \/
     exists es, cs = [N "member" mcs; Tok "IDENT" v; N "exprlist" es]).
Proof.
  intros cs H. apply (wf_name_inv Member_dot_arg) in H. destruct H as (Hs & _ & Hc).
  read_shape Hs cs; cbn [forallb child_wf] in Hc; split_and Hc;
    eexists _, _; (split; [eassumption|]); [left; reflexivity|right; eexists; reflexivity].
Qed.

Lemma wf_member_index : forall cs, cel_tree_wf (N "member_index" cs) = true ->
  exists mcs ecs, cs = [N "member" mcs; N "expr" ecs] /\
    cel_tree_wf (N "member" mcs) = true /\ cel_tree_wf (N "expr" ecs) = true.
Proof.
  intros cs H. apply (wf_name_inv Member_index) in H. destruct H as (Hs & _ & Hc).
  read_shape Hs cs. cbn [forallb child_wf] in Hc. split_and Hc.
  eexists _, _. split; [reflexivity|split; assumption].
Qed.

Lemma wf_member : forall cs, cel_tree_wf (N "member" cs) = true ->
  exists x rcs, cs = [N (nt_name x) rcs] /\ cel_tree_wf (N (nt_name x) rcs) = true /\
    In x [Member_dot; Member_dot_arg; Member_index; Member_object; Primary].
Proof.
  intros cs H. apply (wf_name_inv Member) in H. destruct H as (Hs & _ & Hc).
  read_shape Hs cs. apply is_sub_any_inv in Hs. destruct Hs as (x & rcs & Hin & ->).
  cbn [forallb child_wf] in Hc. split_and Hc.
  exists x, rcs. split; [reflexivity|split; assumption].
Qed.

Lemma wf_primary : forall cs, cel_tree_wf (N "primary" cs) = true ->
  exists x pcs, cs = [N (nt_name x) pcs] /\ cel_tree_wf (N (nt_name x) pcs) = true /\
    In x [Literal; Dot_ident_arg; Dot_ident; Ident_arg; Paren_expr; List_lit; Map_lit; Ident].
Proof.
  intros cs H. apply (wf_name_inv Primary) in H. destruct H as (Hs & _ & Hc).
  read_shape Hs cs. apply is_sub_any_inv in Hs. destruct Hs as (x & rcs & Hin & ->).
  cbn [forallb child_wf] in Hc. split_and Hc.
  exists x, rcs. split; [reflexivity|split; assumption].
Qed.

Lemma wf_ident : forall cs, cel_tree_wf (N "ident" cs) = true -> exists v, cs = [Tok "IDENT" v].
Proof.
  intros cs H. apply (wf_name_inv Ident) in H. destruct H as (Hs & _ & _).
  read_shape Hs cs. eexists; reflexivity.
Qed.

Lemma wf_literal : forall cs, cel_tree_wf (N "literal" cs) = true ->
  exists ty a r, cs = [Tok ty (String a r)] /\ In ty literal_token_types.
Proof.
  intros cs H. apply (wf_name_inv Literal) in H. destruct H as (Hs & Ht & _).
  read_shape Hs cs. apply existsb_exists in Hs. destruct Hs as (ty & Hin & Hty).
  apply is_tok_inv in Hty. destruct Hty as (v & ->).
  cbn [forallb tok_ok] in Ht.
  assert (Hne : String.eqb ty "IDENT" = false).
  { cbn [literal_token_types In] in Hin.
    repeat (destruct Hin as [<-|Hin]; [reflexivity|]). contradiction. }
  rewrite Hne in Ht. destruct v as [|a r]; [discriminate Ht|].
  exists ty, a, r. split; [reflexivity|assumption].
Qed.

(* ================================================================== *)
(* C. the extractor raises nothing but UnsupportedStructure inside, and nothing at all outside *)

Definition safe {A} (r : res A) : Prop :=
  match r with
  | Done _ => True
  | Raised EUnsupported => True
  | Raised _ => False
  end.

Lemma safe_bind : forall A B (r : res A) (f : A -> res B),
  safe r -> (forall a, r = Done a -> safe (f a)) -> safe (bind r f).
Proof.
  intros A B [a|e] f Hr Hf; cbn.
  - now apply Hf.
  - exact Hr.
Qed.

Lemma primary_safe : forall cs, cel_tree_wf (N "primary" cs) = true ->
  safe (process_primary (N "primary" cs)).
Proof.
  intros cs H. apply wf_primary in H. destruct H as (x & pcs & -> & Hw & Hin).
  cbn [In] in Hin.
  repeat (destruct Hin as [<-|Hin]); try contradiction; cbn [nt_name] in *;
    try (cbn; exact I).
  - (* literal *)
    apply wf_literal in Hw. destruct Hw as (ty & a & r & -> & _).
    cbn. destruct (String.eqb ty "INT_LIT"); exact I.
  - (* ident *)
    apply wf_ident in Hw. destruct Hw as (v & ->). cbn. exact I.
Qed.

(* the nonterminals the index-expression descent can pass through *)
Definition desc_nt (x : nt) : bool :=
  match x with
  | Expr | Conditionalor | Conditionaland
  | Relation | Relation_lt | Relation_le | Relation_gt | Relation_ge | Relation_eq | Relation_ne | Relation_in
  | Addition | Addition_add | Addition_sub
  | Multiplication | Multiplication_mul | Multiplication_div | Multiplication_mod
  | Unary | Unary_not | Unary_neg
  | Member | Member_dot | Member_dot_arg | Member_index | Member_object | Primary => true
  | _ => false
  end.

(* children[0] of such a node is again such a node (or there are no children) *)
Lemma first_child_desc : forall x cs,
  desc_nt x = true -> x <> Primary -> cel_tree_wf (N (nt_name x) cs) = true ->
  cs = [] \/ exists y ccs rest, cs = N (nt_name y) ccs :: rest /\ desc_nt y = true /\
                                 cel_tree_wf (N (nt_name y) ccs) = true.
Proof.
  intros x cs Hd Hp H. apply wf_name_inv in H. destruct H as (Hs & _ & Hc).
  destruct x; try discriminate Hd; try congruence;
    read_shape Hs cs; try (left; reflexivity); right;
    repeat match goal with
           | H : is_sub_any _ (head_of _) = true |- _ =>
               apply is_sub_any_inv in H; destruct H as (? & ? & H & ->); cbn [In] in H
           end;
    cbn [forallb child_wf] in Hc; split_and Hc;
    repeat match goal with
           | H : _ = _ \/ _ |- _ => destruct H as [<-|H]
           | H : False |- _ => contradiction
           end;
    eexists _, _, _; (split; [reflexivity|split; [reflexivity|eassumption]]).
Qed.

Lemma nt_eq_dec : forall x y : nt, {x = y} + {x <> y}.
Proof. decide equality. Qed.

Lemma nt_name_not_primary : forall x, x <> Primary -> String.eqb (nt_name x) "primary" = false.
Proof. destruct x; intro H; try reflexivity; congruence. Qed.

Lemma descend_safe : forall n x cs, n = N (nt_name x) cs -> desc_nt x = true ->
  cel_tree_wf n = true -> safe (descend n).
Proof.
  induction n as [d cs0 IH|ty v] using node_ind'; intros x cs E Hd Hw; [|discriminate E].
  inversion E; subst d cs0; clear E.
  destruct (nt_eq_dec x Primary) as [->|Hne].
  - cbn [nt_name] in *. pose proof (primary_safe _ Hw) as Hs.
    apply wf_primary in Hw. destruct Hw as (y & pcs & -> & _ & _).
    cbn [descend]. replace (String.eqb "primary" "primary") with true by reflexivity.
    apply safe_bind; [exact Hs|]. intros; exact I.
  - destruct (first_child_desc x cs Hd Hne Hw) as [->|(y & ccs & rest & -> & Hdy & Hwy)].
    + cbn. exact I.
    + cbn [descend]. rewrite (nt_name_not_primary x Hne).
      inversion IH as [|? ? IHc _]; subst. eapply IHc; [reflexivity|exact Hdy|exact Hwy].
Qed.

Definition mode_nt (m : mode) : nt :=
  match m with MDot => Member_dot | MDotArg => Member_dot_arg | MIndex => Member_index end.

(* one unfolding of [proc] on a node whose receiver has a tree as first child *)
Definition dispatch (m : mode) (rd : string) (root : node) : res string :=
  if String.eqb rd "member_dot" then proc MDot root
  else if String.eqb rd "member_index" then proc MIndex root
  else if String.eqb rd "member_dot_arg" then proc MDotArg root
  else if String.eqb rd "primary" then process_primary root
  else if match m with MDotArg => String.eqb rd "ident" | _ => false end then process_primary root
  else Raised EUnsupported.

Lemma proc_eq : forall m d d0 rd rcs rest0 c1 tail,
  match m, tail with
  | MDotArg, [_] | MDot, [] | MIndex, [] => True
  | _, _ => False
  end ->
  proc m (N d (N d0 (N rd rcs :: rest0) :: c1 :: tail)) =
  bind (terminal m c1) (fun term =>
    bind (dispatch m rd (N rd rcs)) (fun r => Done (r +++ "." +++ term))).
Proof.
  intros m d d0 rd rcs rest0 c1 tail H.
  destruct m, tail as [|? [|? ?]]; try contradiction; reflexivity.
Qed.

Lemma dispatch_safe : forall k m x rcs,
  (forall (n : node) (m : mode) (cs : list node),
      size n <= k -> n = N (nt_name (mode_nt m)) cs -> cel_tree_wf n = true -> safe (proc m n)) ->
  size (N (nt_name x) rcs) <= k ->
  In x [Member_dot; Member_dot_arg; Member_index; Member_object; Primary] ->
  cel_tree_wf (N (nt_name x) rcs) = true ->
  safe (dispatch m (nt_name x) (N (nt_name x) rcs)).
Proof.
  intros k m x rcs IHk Hsz Hin Hroot. cbn [In] in Hin. unfold dispatch.
  repeat (destruct Hin as [<-|Hin]); try contradiction; cbn [nt_name] in *;
    cbn [String.eqb Ascii.eqb Bool.eqb].
  - apply (IHk _ MDot rcs); [exact Hsz|reflexivity|exact Hroot].
  - apply (IHk _ MDotArg rcs); [exact Hsz|reflexivity|exact Hroot].
  - apply (IHk _ MIndex rcs); [exact Hsz|reflexivity|exact Hroot].
  - destruct m; exact I.
  - apply primary_safe; exact Hroot.
Qed.

Lemma terminal_index_safe : forall ecs, cel_tree_wf (N "expr" ecs) = true ->
  safe (terminal MIndex (N "expr" ecs)).
Proof.
  intros ecs H. cbn [terminal]. cbn [String.eqb Ascii.eqb Bool.eqb].
  apply safe_bind.
  - eapply (descend_safe _ Expr); [reflexivity|reflexivity|exact H].
  - intros [v|] _; [|exact I]. destruct (String.eqb v ""); exact I.
Qed.

Lemma proc_safe_k : forall k n m cs, size n <= k -> n = N (nt_name (mode_nt m)) cs ->
  cel_tree_wf n = true -> safe (proc m n).
Proof.
  induction k as [|k IHk]; intros n m cs Hk E Hw.
  - subst n. cbn [size] in Hk. exfalso. lia.
  - subst n. destruct m; cbn [mode_nt nt_name] in *.
    + (* _process_member_dot *)
      apply wf_member_dot in Hw. destruct Hw as (mcs & v & -> & Hm).
      apply wf_member in Hm. destruct Hm as (x & rcs & -> & Hroot & Hin).
      assert (Hsz : size (N (nt_name x) rcs) <= k)
        by (cbn [size map list_sum fold_right] in Hk |- *; lia).
      rewrite proc_eq by exact I. cbn [terminal fmt bind].
      apply safe_bind; [eapply dispatch_safe; eassumption|intros; exact I].
    + (* _process_member_dot_arg *)
      apply wf_member_dot_arg in Hw. destruct Hw as (mcs & v & Hm & Hcs).
      apply wf_member in Hm. destruct Hm as (x & rcs & -> & Hroot & Hin).
      destruct Hcs as [->|(es & ->)].
      * cbn. exact I.
      * assert (Hsz : size (N (nt_name x) rcs) <= k)
          by (cbn [size map list_sum fold_right] in Hk |- *; lia).
        rewrite proc_eq by exact I. cbn [terminal fmt bind].
        apply safe_bind; [eapply dispatch_safe; eassumption|intros; exact I].
    + (* _process_member_index *)
      apply wf_member_index in Hw. destruct Hw as (mcs & ecs & -> & Hm & He).
      apply wf_member in Hm. destruct Hm as (x & rcs & -> & Hroot & Hin).
      assert (Hsz : size (N (nt_name x) rcs) <= k)
        by (cbn [size map list_sum fold_right] in Hk |- *; lia).
      rewrite proc_eq by exact I.
      apply safe_bind; [apply terminal_index_safe; exact He|]. intros term _.
      apply safe_bind; [eapply dispatch_safe; eassumption|intros; exact I].
Qed.

Lemma proc_safe : forall m cs, cel_tree_wf (N (nt_name (mode_nt m)) cs) = true ->
  safe (proc m (N (nt_name (mode_nt m)) cs)).
Proof. intros m cs H. eapply proc_safe_k; [apply le_n|reflexivity|exact H]. Qed.

Lemma visit_total : forall n, cel_tree_wf n = true -> exists o, visit n = Done o.
Proof.
  intros n Hw. destruct (wf_is_tree n Hw) as (d & cs & ->).
  unfold visit.
  destruct (String.eqb_spec d "member_dot") as [->|_].
  - pose proof (proc_safe MDot cs Hw) as Hs. cbn [mode_nt nt_name] in Hs.
    destruct (proc MDot (N "member_dot" cs)) as [s|[]]; cbn in *; try contradiction; eexists; reflexivity.
  - destruct (String.eqb_spec d "member_index") as [->|_].
    + pose proof (proc_safe MIndex cs Hw) as Hs. cbn [mode_nt nt_name] in Hs.
      destruct (proc MIndex (N "member_index" cs)) as [s|[]]; cbn in *; try contradiction; eexists; reflexivity.
    + eexists; reflexivity.
Qed.

Lemma collect_total : forall ns, Forall (fun s => cel_tree_wf s = true) ns ->
  exists S, collect ns = Done S.
Proof.
  induction ns as [|n r IH]; intro H.
  - eexists; reflexivity.
  - inversion H as [|? ? Hn Hr]; subst. destruct (visit_total n Hn) as (o & Ho).
    destruct (IH Hr) as (S & HS). cbn [collect]. rewrite Ho, HS. cbn. eexists; reflexivity.
Qed.

(* C20 (extractor part) / first half of C14: on every tree of the CEL grammar the
   extractor returns a set and raises nothing *)
Theorem extract_total : forall t, cel_tree_wf t = true -> exists S, extract t = Done S.
Proof.
  intros t Hw. destruct (wf_is_tree t Hw) as (d & cs & ->). unfold extract.
  apply collect_total. now apply subtrees_wf.
Qed.

(* ================================================================== *)
(* D. completeness: every member access the extractor can process is in the result *)

Lemma collect_complete : forall ns S n k,
  collect ns = Done S -> In n ns -> visit n = Done (Some k) -> In k S.
Proof.
  induction ns as [|a r IH]; intros S n k HS Hin Hv; [contradiction|].
  cbn [collect] in HS. destruct (visit a) as [o|e] eqn:Ea; [|discriminate HS].
  cbn [bind] in HS. destruct (collect r) as [S'|e] eqn:Er; [|discriminate HS].
  cbn [bind] in HS. inversion HS; subst S; clear HS.
  destruct Hin as [->|Hin].
  - rewrite Hv in Ea. inversion Ea; subst o. now left.
  - specialize (IH S' n k eq_refl Hin Hv). destruct o; [right|]; assumption.
Qed.

(* the only keys in the result are those of member_dot / member_index subtrees *)
Lemma collect_sound : forall ns S k,
  collect ns = Done S -> In k S -> exists n, In n ns /\ visit n = Done (Some k).
Proof.
  induction ns as [|a r IH]; intros S k HS Hk.
  - inversion HS; subst. contradiction.
  - cbn [collect] in HS. destruct (visit a) as [o|e] eqn:Ea; [|discriminate HS].
    cbn [bind] in HS. destruct (collect r) as [S'|e] eqn:Er; [|discriminate HS].
    cbn [bind] in HS. inversion HS; subst S; clear HS.
    destruct o as [s|].
    + destruct Hk as [<-|Hk].
      * exists a. split; [now left|assumption].
      * destruct (IH S' k eq_refl Hk) as (n & Hn & Hv). exists n. split; [now right|assumption].
    + destruct (IH S' k eq_refl Hk) as (n & Hn & Hv). exists n. split; [now right|assumption].
Qed.

(* ---- statically named step references, defined without the extractor ---- *)

(* the identifier `steps` as a receiver *)
Definition steps_member : node := N "member" [N "primary" [N "ident" [Tok "IDENT" "steps"]]].

(* a string literal, alone, as an index expression: expr -> ... -> primary -> literal *)
Definition lit_expr (ty v : string) : node := ch 0 8 (N "literal" [Tok ty v]).

Definition first_is (c : ascii) (s : string) : bool :=
  match s with String a _ => Ascii.eqb a c | EmptyString => false end.
Fixpoint last_is (c : ascii) (s : string) : bool :=
  match s with
  | EmptyString => false
  | String a EmptyString => Ascii.eqb a c
  | String _ r => last_is c r
  end.

Definition quote1 (q : ascii) : string := String q EmptyString.
Definition quote3 (q : ascii) : string := String q (String q (String q EmptyString)).

(* steps.NAME  /  steps['NAME'], steps["NAME"], steps['''NAME'''], steps["""NAME"""] *)
Inductive direct_ref (name : string) : node -> Prop :=
| dr_dot : direct_ref name (N "member_dot" [steps_member; Tok "IDENT" name])
| dr_index : forall (q : ascii) (qs ty : string),
    (q = "'"%char \/ q = """"%char) ->
    (qs = quote1 q /\ ty = "STRING_LIT" \/ qs = quote3 q /\ ty = "MLSTRING_LIT") ->
    first_is q name = false -> last_is q name = false ->
    direct_ref name (N "member_index" [steps_member; lit_expr ty (qs +++ name +++ qs)]).

(* ... at any depth: operands, call arguments, macro bodies, literals, conditionals, indexes *)
Inductive occurs_steps_ref (name : string) : node -> Prop :=
| occ_here : forall n, direct_ref name n -> occurs_steps_ref name n
| occ_child : forall d cs c, In c cs -> occurs_steps_ref name c -> occurs_steps_ref name (N d cs).

(* the names the regular expression returns unchanged *)
Definition not_dot_bracket (a : ascii) : bool := negb (Ascii.eqb a "."%char || Ascii.eqb a "["%char).
Definition name_ok (name : string) : bool :=
  negb (String.eqb name "") && all_chars not_dot_bracket name.

(* valid step labels: the CRD's [[:word:]]+ *)
Definition label_ok (name : string) : bool :=
  negb (String.eqb name "") && all_chars is_word name.

Lemma occurs_subtree : forall name t, occurs_steps_ref name t ->
  exists n, In n (subtrees t) /\ direct_ref name n.
Proof.
  intros name t H. induction H as [n Hd|d cs c Hin Hc IH].
  - exists n. split; [|assumption]. destruct Hd; cbn [subtrees]; now left.
  - destruct IH as (n & Hn & Hd). exists n. split; [|assumption].
    cbn [subtrees]. right. apply in_flat_map. now exists c.
Qed.

(* ---- Python's str.strip on a quoted literal ---- *)

Lemma sapp_cons : forall a r s, String a r +++ s = String a (r +++ s).
Proof. reflexivity. Qed.

Lemma sapp_nil : forall s, "" +++ s = s.
Proof. reflexivity. Qed.

Lemma lstrip_first : forall c s, first_is c s = false -> lstrip c s = s.
Proof. intros c [|a r] H; [reflexivity|]. cbn in *. now rewrite H. Qed.

Lemma rstrip_app : forall c qs name,
  rstrip c qs = "" -> name <> "" -> last_is c name = false -> rstrip c (name +++ qs) = name.
Proof.
  intros c qs name Hq. induction name as [|a r IH]; intros Hne Hl; [congruence|].
  rewrite sapp_cons. cbn [rstrip]. destruct r as [|b r2].
  - rewrite sapp_nil, Hq. cbn in Hl. now rewrite Hl.
  - rewrite IH; [reflexivity|discriminate|exact Hl].
Qed.

Lemma rstrip_quote1 : forall c, rstrip c (quote1 c) = "".
Proof. intro c. cbn. now rewrite Ascii.eqb_refl. Qed.

Lemma rstrip_quote3 : forall c, rstrip c (quote3 c) = "".
Proof. intro c. cbn. now rewrite Ascii.eqb_refl. Qed.

Lemma lstrip_quote1 : forall c s, lstrip c (quote1 c +++ s) = lstrip c s.
Proof. intros. cbn. now rewrite Ascii.eqb_refl. Qed.

Lemma lstrip_quote3 : forall c s, lstrip c (quote3 c +++ s) = lstrip c s.
Proof. intros. cbn. now rewrite !Ascii.eqb_refl. Qed.

Lemma first_is_app : forall c name s, name <> "" -> first_is c (name +++ s) = first_is c name.
Proof. intros c [|a r] s H; [congruence|reflexivity]. Qed.

Lemma strip_quoted : forall q qs name,
  qs = quote1 q \/ qs = quote3 q -> name <> "" ->
  first_is q name = false -> last_is q name = false ->
  strip_char q (qs +++ name +++ qs) = name.
Proof.
  intros q qs name Hqs Hne Hf Hl. unfold strip_char.
  assert (Hr : rstrip q qs = "") by (destruct Hqs as [->| ->]; [apply rstrip_quote1|apply rstrip_quote3]).
  assert (Hls : lstrip q (qs +++ name +++ qs) = name +++ qs).
  { destruct Hqs as [->| ->]; [rewrite lstrip_quote1|rewrite lstrip_quote3];
      apply lstrip_first; now rewrite first_is_app. }
  rewrite Hls. now apply rstrip_app.
Qed.

Lemma name_ok_nonempty : forall name, name_ok name = true -> name <> "".
Proof.
  intros name H. unfold name_ok in H. apply andb_true_iff in H. destruct H as [H _].
  intro E. subst. discriminate H.
Qed.

(* a literal, alone, as index expression: the descent finds it *)
Lemma terminal_lit : forall ty a r,
  String.eqb ty "INT_LIT" = false -> strip_char a (String a r) <> "" ->
  terminal MIndex (lit_expr ty (String a r)) = Done (strip_char a (String a r)).
Proof.
  intros ty a r Hty Hne. unfold lit_expr, ch, levels.
  cbn [skipn firstn Nat.sub chain fold_right terminal descend process_primary bind String.eqb Ascii.eqb Bool.eqb].
  rewrite Hty. cbn [bind].
  destruct (String.eqb_spec (strip_char a (String a r)) "") as [E|_]; [contradiction|reflexivity].
Qed.

Lemma direct_ref_visit : forall name n, name_ok name = true -> direct_ref name n ->
  visit n = Done (Some ("steps." +++ name)).
Proof.
  intros name n Hok Hd. pose proof (name_ok_nonempty name Hok) as Hne.
  destruct Hd as [|q qs ty Hq Hqs Hf Hl].
  - reflexivity.
  - assert (Hs : strip_char q (qs +++ name +++ qs) = name).
    { apply strip_quoted; try assumption. destruct Hqs as [[-> _]|[-> _]]; [now left|now right]. }
    assert (Hty : String.eqb ty "INT_LIT" = false) by (destruct Hqs as [[_ ->]|[_ ->]]; reflexivity).
    assert (Hv : exists r, qs +++ name +++ qs = String q r).
    { destruct Hqs as [[-> _]|[-> _]]; eexists; reflexivity. }
    destruct Hv as (r & Hv).
    unfold visit. cbn [String.eqb Ascii.eqb Bool.eqb].
    unfold steps_member. rewrite proc_eq by exact I.
    rewrite Hv in *. rewrite terminal_lit; [|exact Hty|now rewrite Hs].
    rewrite Hs. reflexivity.
Qed.

(* ---- the regular expression gives the name back ---- *)

Lemma take_name_id : forall s, all_chars not_dot_bracket s = true -> take_name s = s.
Proof.
  induction s as [|a r IH]; intro H; [reflexivity|].
  cbn in H. apply andb_true_iff in H. destruct H as [Ha Hr].
  cbn [take_name]. unfold not_dot_bracket in Ha. apply negb_true_iff in Ha. rewrite Ha.
  now rewrite IH.
Qed.

Lemma strip_prefix_steps : forall s, strip_prefix "steps" ("steps." +++ s) = Some (String "."%char s).
Proof. reflexivity. Qed.

Lemma any_char_dot : forall s, any_char (String "."%char s) = Some s.
Proof. reflexivity. Qed.

Lemma steps_name_key : forall name, name_ok name = true ->
  steps_name ("steps." +++ name) = Some (Some name).
Proof.
  intros name H. unfold name_ok in H. apply andb_true_iff in H. destruct H as [Hne Hc].
  unfold steps_name. rewrite strip_prefix_steps, any_char_dot.
  rewrite take_name_id by assumption.
  apply negb_true_iff in Hne. now rewrite Hne.
Qed.

Lemma needed_steps_in : forall keys k n, In k keys -> steps_name k = Some n -> In n (needed_steps keys).
Proof.
  intros keys k n Hin Hn. unfold needed_steps. apply in_flat_map. exists k. split; [assumption|].
  rewrite Hn. now left.
Qed.

(* C14, first sentence (expression level), without assuming anything about the tree:
   whenever the extractor returns, every statically named step reference is among the
   step names derived from its result *)
Theorem steps_ref_in_result : forall t S name,
  extract t = Done S -> name_ok name = true -> occurs_steps_ref name t ->
  In (Some name) (needed_steps S).
Proof.
  intros t S name HS Hok Hocc.
  destruct (occurs_subtree name t Hocc) as (n & Hn & Hd).
  destruct t as [d cs|ty v]; [|contradiction].
  unfold extract in HS.
  eapply needed_steps_in; [|apply steps_name_key; exact Hok].
  eapply collect_complete; [exact HS|exact Hn|now apply direct_ref_visit].
Qed.

(* ... and on grammar trees the extractor does return *)
Theorem steps_ref_found : forall t name,
  cel_tree_wf t = true -> name_ok name = true -> occurs_steps_ref name t ->
  exists S, extract t = Done S /\ In (Some name) (needed_steps S).
Proof.
  intros t name Hw Hok Hocc. destruct (extract_total t Hw) as (S & HS).
  exists S. split; [assumption|]. eapply steps_ref_in_result; eassumption.
Qed.

(* valid labels are covered, in both forms, with no side condition on quotes *)
Lemma is_word_not_dot_bracket : forall a, is_word a = true -> not_dot_bracket a = true.
Proof.
  intros a H. unfold not_dot_bracket.
  destruct (Ascii.eqb_spec a "."%char) as [->|_]; [vm_compute in H; discriminate H|].
  destruct (Ascii.eqb_spec a "["%char) as [->|_]; [vm_compute in H; discriminate H|].
  reflexivity.
Qed.

Lemma all_chars_impl : forall (p q : ascii -> bool) s,
  (forall a, p a = true -> q a = true) -> all_chars p s = true -> all_chars q s = true.
Proof.
  intros p q s Hpq. induction s as [|a r IH]; intro H; [reflexivity|].
  cbn in *. apply andb_true_iff in H. destruct H as [Ha Hr]. now rewrite (Hpq a Ha), IH.
Qed.

Lemma label_ok_name_ok : forall name, label_ok name = true -> name_ok name = true.
Proof.
  intros name H. unfold label_ok, name_ok in *. apply andb_true_iff in H. destruct H as [H1 H2].
  rewrite H1. cbn. eapply all_chars_impl; [apply is_word_not_dot_bracket|exact H2].
Qed.

Lemma is_word_not_quote : forall a q, (q = "'"%char \/ q = """"%char) -> is_word a = true -> Ascii.eqb a q = false.
Proof.
  intros a q [->| ->] H.
  - destruct (Ascii.eqb_spec a "'"%char) as [->|_]; [vm_compute in H; discriminate H|reflexivity].
  - destruct (Ascii.eqb_spec a """"%char) as [->|_]; [vm_compute in H; discriminate H|reflexivity].
Qed.

Lemma label_ok_no_edge_quote : forall name q, (q = "'"%char \/ q = """"%char) ->
  label_ok name = true -> first_is q name = false /\ last_is q name = false.
Proof.
  intros name q Hq H. unfold label_ok in H. apply andb_true_iff in H. destruct H as [_ H].
  split.
  - destruct name as [|a r]; [reflexivity|]. cbn in *. apply andb_true_iff in H. destruct H as [Ha _].
    now apply is_word_not_quote.
  - induction name as [|a r IH]; [reflexivity|]. cbn in H. apply andb_true_iff in H. destruct H as [Ha Hr].
    destruct r as [|b r2]; [cbn; now apply is_word_not_quote|]. cbn [last_is]. now apply IH.
Qed.

(* ================================================================== *)
(* E. prepare_workflow: ordering and watch list *)

Lemma fold_max_ok : forall l a, fold_left oc_max l a = COk -> a = COk /\ Forall (fun c => c = COk) l.
Proof.
  induction l as [|c r IH]; intros a H; cbn in H.
  - split; [assumption|constructor].
  - apply IH in H. destruct H as [H Hr]. destruct a, c; try discriminate H.
    split; [reflexivity|]. constructor; [reflexivity|assumption].
Qed.

Lemma filter_nil : forall A (f : A -> bool) l, filter f l = [] -> forall x, In x l -> f x = false.
Proof.
  induction l as [|a r IH]; intros H x Hx; [contradiction|].
  cbn in H. destruct (f a) eqn:E; [discriminate H|].
  destruct Hx as [<-|Hx]; [assumption|now apply IH].
Qed.

Lemma order_check_step : forall label known keys l deps,
  order_check label known keys = SStep l deps ->
  l = label /\ deps = somes (needed_steps keys) /\
  forall n, In n (needed_steps keys) -> opt_mem n known = true.
Proof.
  intros label known keys l deps H. unfold order_check in H.
  destruct (filter _ (needed_steps keys)) as [|a r] eqn:E; [|discriminate H].
  inversion H; subst. repeat split; try reflexivity.
  intros n Hn. pose proof (filter_nil _ _ _ E n Hn) as Hf. now apply negb_false_iff in Hf.
Qed.

Lemma order_check_err : forall label known keys l c,
  order_check label known keys = SErr l c -> c = CPermFail.
Proof.
  intros label known keys l c H. unfold order_check in H.
  destruct (filter _ (needed_steps keys)) as [|a r]; [discriminate H|]. now inversion H.
Qed.

(* a needed name that is not an earlier label - or no name at all - is rejected *)
Lemma order_check_rejects : forall label known keys n,
  In n (needed_steps keys) -> opt_mem n known = false ->
  order_check label known keys = SErr label CPermFail.
Proof.
  intros label known keys n Hin Hm. unfold order_check.
  destruct (filter _ (needed_steps keys)) as [|a r] eqn:E; [|reflexivity].
  pose proof (filter_nil _ _ _ E n Hin) as Hf. cbv beta in Hf. rewrite Hm in Hf. discriminate Hf.
Qed.

Lemma field_keys_some : forall f k t, field_keys f = Done (Some k) -> In t (field_trees f) ->
  extract t = Done k.
Proof.
  intros [| |ast] k t H Hin; cbn in *; try contradiction.
  destruct Hin as [<-|[]]. destruct (extract ast) as [k'|e]; cbn in H; [|discriminate H].
  now inversion H.
Qed.

Lemma fe_keys_some : forall f k t, fe_keys f = Done (Some k) -> In t (fe_trees f) ->
  extract t = Done k.
Proof.
  intros [| |ast hk] k t H Hin; cbn in *; try contradiction.
  destruct Hin as [<-|[]]. destruct (extract ast) as [k'|e]; cbn in H; [|discriminate H].
  destruct hk; now inversion H.
Qed.

Lemma load_step_fields_ok : forall st k0 keys,
  load_step_fields st k0 = Done (true, keys) ->
  incl k0 keys /\
  forall t, In t (field_trees (st_skip_if st) ++ fe_trees (st_for_each st) ++
                  field_trees (st_inputs st) ++ field_trees (st_state st)) ->
            exists S, extract t = Done S /\ incl S keys.
Proof.
  intros st k0 keys H. unfold load_step_fields in H.
  destruct (field_keys (st_skip_if st)) as [[k1|]|e] eqn:E1; cbn [bind] in H; try discriminate H.
  destruct (fe_keys (st_for_each st)) as [[k2|]|e] eqn:E2; cbn [bind] in H; try discriminate H.
  destruct (field_keys (st_inputs st)) as [[k3|]|e] eqn:E3; cbn [bind] in H; try discriminate H.
  destruct (field_keys (st_state st)) as [[k4|]|e] eqn:E4; cbn [bind] in H; try discriminate H.
  inversion H; subst keys; clear H. split.
  - apply incl_appl, incl_refl.
  - intros t Ht. repeat (apply in_app_or in Ht; destruct Ht as [Ht|Ht]).
    + exists k1. split; [eapply field_keys_some; eassumption|].
      apply incl_appr, incl_appl, incl_refl.
    + exists k2. split; [eapply fe_keys_some; eassumption|].
      apply incl_appr, incl_appr, incl_appl, incl_refl.
    + exists k3. split; [eapply field_keys_some; eassumption|].
      apply incl_appr, incl_appr, incl_appr, incl_appl, incl_refl.
    + exists k4. split; [eapply field_keys_some; eassumption|].
      apply incl_appr, incl_appr, incl_appr, incl_appr, incl_refl.
Qed.

Lemma load_logic_switch_ok : forall sw rs keys,
  load_logic_switch sw = Done (rs, COk, keys) ->
  forall t, In t (field_trees (sw_on sw)) -> extract t = Done keys.
Proof.
  intros sw rs keys H t Ht. unfold load_logic_switch in H.
  destruct (sw_on sw) as [| |ast]; cbn in Ht; try contradiction; try discriminate H.
  destruct Ht as [<-|[]]. destruct (extract ast) as [k|e]; cbn [bind] in H; [|discriminate H].
  destruct (sw_cases sw) as [|c cs]; [discriminate H|].
  destruct (switch_loop (c :: cs) None [] []) as [[[dflt lmap] rs']|]; [|discriminate H].
  destruct (negb (oc_is_ok (fold_left oc_max (map snd lmap) COk))); [|destruct dflt]; now inversion H.
Qed.

Lemma load_step_logic_ok : forall st rs nologic k0,
  load_step_logic st = Done (rs, COk, nologic, k0) -> st_ref st = None ->
  forall sw, st_switch st = Some sw ->
  forall t, In t (field_trees (sw_on sw)) -> extract t = Done k0.
Proof.
  intros st rs nologic k0 H Hr sw Hsw t Ht. unfold load_step_logic in H. rewrite Hr, Hsw in H.
  destruct (load_logic_switch sw) as [[[rs' c] keys]|e] eqn:E; cbn [bind] in H; [|discriminate H].
  inversion H; subst; clear H. cbn [oc_is_ok].
  eapply load_logic_switch_ok; eassumption.
Qed.

Lemma needed_steps_incl : forall S keys n, incl S keys -> In n (needed_steps S) -> In n (needed_steps keys).
Proof.
  intros S keys n Hi Hn. unfold needed_steps in *. apply in_flat_map in Hn.
  destruct Hn as (k & Hk & Hn). apply in_flat_map. exists k. split; [now apply Hi|assumption].
Qed.

(* what it means that _load_step returned a Step *)
Lemma load_step_step_inv : forall st known r l deps p,
  load_step st known = Done (r, SStep l deps, p) ->
  l = st_label st /\
  exists keys,
    (forall t, In t (step_trees st) -> exists S, extract t = Done S /\ incl S keys) /\
    (forall n, In n (needed_steps keys) -> opt_mem n known = true) /\
    deps = somes (needed_steps keys).
Proof.
  intros st known r l deps p H. unfold load_step in H.
  assert (Hcases : (exists a b, st_ref st = Some a /\ st_switch st = Some b) \/
                   (st_ref st = None \/ st_switch st = None)).
  { destruct (st_ref st), (st_switch st); eauto. }
  destruct Hcases as [(a & b & Ha & Hb)|Hcase].
  { rewrite Ha, Hb in H. discriminate H. }
  assert (H' : bind (load_step_logic st) (fun '(rs, lc, nologic, k0) =>
      if String.eqb (st_label st) "<missing label>" then Done (rs, SErr "missing" CPermFail, needed_parent k0)
      else if negb (oc_is_ok lc) then Done (rs, SErr (st_label st) lc, needed_parent k0)
      else if nologic then Done (rs, SErr (st_label st) CPermFail, needed_parent k0)
      else
      bind (load_step_fields st k0) (fun '(ok, keys) =>
      if negb ok then Done (rs, SErr (st_label st) CPermFail, needed_parent keys)
      else Done (rs, order_check (st_label st) known keys, needed_parent keys)))
      = Done (r, SStep l deps, p)).
  { destruct (st_ref st), (st_switch st); try exact H. destruct Hcase; discriminate. }
  clear H. rename H' into H.
  destruct (load_step_logic st) as [[[[rs lc] nologic] k0]|e] eqn:EL; cbn [bind] in H; [|discriminate H].
  destruct (String.eqb (st_label st) "<missing label>"); [discriminate H|].
  destruct lc; cbn [oc_is_ok negb] in H; try discriminate H.
  destruct nologic; [discriminate H|].
  destruct (load_step_fields st k0) as [[ok keys]|e] eqn:EF; cbn [bind] in H; [|discriminate H].
  destruct ok; cbn [negb] in H; [|discriminate H].
  inversion H as [[Hr EO Hp]]; subst r p; clear H.
  apply order_check_step in EO. destruct EO as (-> & -> & Hmem).
  split; [reflexivity|]. exists keys. split; [|split; [exact Hmem|reflexivity]].
  apply load_step_fields_ok in EF. destruct EF as (Hk0 & Hfields).
  intros t Ht. unfold step_trees in Ht. apply in_app_or in Ht. destruct Ht as [Ht|Ht].
  - destruct (st_switch st) as [sw|] eqn:Hsw; [|contradiction].
    assert (Hr : st_ref st = None) by (destruct Hcase as [Hc|Hc]; [exact Hc|discriminate Hc]).
    exists k0. split; [|exact Hk0].
    eapply load_step_logic_ok; eassumption.
  - now apply Hfields.
Qed.

Lemma load_step_err_not_ok : forall st known r l c p,
  load_step st known = Done (r, SErr l c, p) -> c <> COk.
Proof.
  intros st known r l c p H. unfold load_step in H.
  assert (H' : c = CPermFail \/ bind (load_step_logic st) (fun '(rs, lc, nologic, k0) =>
      if String.eqb (st_label st) "<missing label>" then Done (rs, SErr "missing" CPermFail, needed_parent k0)
      else if negb (oc_is_ok lc) then Done (rs, SErr (st_label st) lc, needed_parent k0)
      else if nologic then Done (rs, SErr (st_label st) CPermFail, needed_parent k0)
      else
      bind (load_step_fields st k0) (fun '(ok, keys) =>
      if negb ok then Done (rs, SErr (st_label st) CPermFail, needed_parent keys)
      else Done (rs, order_check (st_label st) known keys, needed_parent keys)))
      = Done (r, SErr l c, p)).
  { destruct (st_ref st), (st_switch st); try (right; exact H). left. now inversion H. }
  clear H. destruct H' as [->|H]; [discriminate|].
  destruct (load_step_logic st) as [[[[rs lc] nologic] k0]|e] eqn:EL; cbn [bind] in H; [|discriminate H].
  destruct (String.eqb (st_label st) "<missing label>"); [inversion H; discriminate|].
  destruct lc; cbn [oc_is_ok negb] in H; try (inversion H; discriminate).
  destruct nologic; [inversion H; discriminate|].
  destruct (load_step_fields st k0) as [[ok keys]|e] eqn:EF; cbn [bind] in H; [|discriminate H].
  destruct ok; cbn [negb] in H; [|inversion H; discriminate].
  inversion H as [[Hr EO Hp]]. apply order_check_err in EO. subst. discriminate.
Qed.

Lemma existsb_eqb_In : forall s l, existsb (String.eqb s) l = true <-> In s l.
Proof.
  intros s l. rewrite existsb_exists. split.
  - intros (x & Hx & E). apply String.eqb_eq in E. now subst.
  - intro H. exists s. split; [assumption|apply String.eqb_refl].
Qed.

Lemma err_classes_cons_step : forall l d outs, err_classes (SStep l d :: outs) = err_classes outs.
Proof. reflexivity. Qed.

Lemma err_classes_cons_err : forall l c outs, err_classes (SErr l c :: outs) = c :: err_classes outs.
Proof. reflexivity. Qed.

(* the loop of _load_steps, when no step came out as an ErrorStep: every step was loaded with
   known_steps = the labels before it, none is a duplicate, and each came out as a Step *)
Lemma steps_loop_ok : forall pre st post known rs outs pp,
  steps_loop (pre ++ st :: post) known = Done (rs, outs, pp) ->
  Forall (fun c => c = COk) (err_classes outs) ->
  exists known' r deps p,
    (forall x, In x known' <-> In x (map st_label pre) \/ In x known) /\
    load_step st known' = Done (r, SStep (st_label st) deps, p) /\
    nth_error outs (List.length pre) = Some (SStep (st_label st) deps).
Proof.
  induction pre as [|a pre IH]; intros st post known rs outs pp H Hok.
  - cbn [app steps_loop] in H.
    destruct (existsb (String.eqb (st_label st)) known).
    + destruct (steps_loop post known) as [[[rs' outs'] pp']|e]; cbn [bind] in H; [|discriminate H].
      inversion H; subst. rewrite err_classes_cons_err in Hok. inversion Hok; discriminate.
    + destruct (load_step st known) as [[[r1 o1] p1]|e] eqn:EL; cbn [bind] in H; [|discriminate H].
      destruct (steps_loop post (st_label st :: known)) as [[[rs' outs'] pp']|e]; cbn [bind] in H; [|discriminate H].
      inversion H; subst; clear H.
      destruct o1 as [l c|l deps].
      * rewrite err_classes_cons_err in Hok. inversion Hok; subst.
        exfalso. eapply load_step_err_not_ok; [exact EL|reflexivity].
      * pose proof (load_step_step_inv _ _ _ _ _ _ EL) as (-> & _).
        exists known, r1, deps, p1. split; [|split; [exact EL|reflexivity]].
        intro x. cbn. tauto.
  - cbn [app steps_loop] in H.
    destruct (existsb (String.eqb (st_label a)) known).
    + destruct (steps_loop (pre ++ st :: post) known) as [[[rs' outs'] pp']|e]; cbn [bind] in H; [|discriminate H].
      inversion H; subst. rewrite err_classes_cons_err in Hok. inversion Hok; discriminate.
    + destruct (load_step a known) as [[[r1 o1] p1]|e] eqn:EL; cbn [bind] in H; [|discriminate H].
      destruct (steps_loop (pre ++ st :: post) (st_label a :: known)) as [[[rs' outs'] pp']|e] eqn:ER;
        cbn [bind] in H; [|discriminate H].
      inversion H; subst; clear H.
      assert (Hok' : Forall (fun c => c = COk) (err_classes outs')).
      { destruct o1; [rewrite err_classes_cons_err in Hok; now inversion Hok|exact Hok]. }
      destruct (IH st post (st_label a :: known) rs' outs' pp' ER Hok') as (known' & r & deps & p & Hk & HL & Hn).
      exists known', r, deps, p. split; [|split; [exact HL|exact Hn]].
      intro x. rewrite Hk. cbn. tauto.
Qed.

Lemma in_somes : forall l s, In s (somes l) <-> In (Some s) l.
Proof.
  induction l as [|[a|] r IH]; intro s; cbn; [tauto| |].
  - rewrite IH. split; intros [H|H]; auto; left; congruence.
  - rewrite IH. split; [auto|]. intros [H|H]; [discriminate|assumption].
Qed.

Lemma prepare_workflow_inv : forall steps w,
  prepare_workflow steps = Done w -> pw_ready w = COk ->
  exists rs outs pp, steps_loop steps [] = Done (rs, outs, pp) /\
    Forall (fun c => c = COk) (err_classes outs) /\
    pw_steps w = outs /\ pw_watched w = rs.
Proof.
  intros steps w H Hr. unfold prepare_workflow in H. destruct steps as [|s0 rest].
  - inversion H; subst. discriminate Hr.
  - destruct (steps_loop (s0 :: rest) []) as [[[rs outs] pp]|e]; cbn [bind] in H; [|discriminate H].
    inversion H; subst; clear H. cbn in Hr. apply fold_max_ok in Hr.
    exists rs, outs, pp. repeat split; try reflexivity. apply Hr.
Qed.

(* C14, first sentence (workflow level) + what reconcile relies on:
   in a Workflow that is reported ready, every step was prepared as a Step whose
   dependency set (dynamic_input_keys) contains every statically named step
   reference of each of its expressions, and consists of labels of EARLIER steps only *)
Theorem ready_deps_complete_and_earlier : forall steps w pre st post,
  prepare_workflow steps = Done w -> pw_ready w = COk -> steps = pre ++ st :: post ->
  exists deps,
    nth_error (pw_steps w) (List.length pre) = Some (SStep (st_label st) deps) /\
    (forall t name, In t (step_trees st) -> name_ok name = true -> occurs_steps_ref name t -> In name deps) /\
    (forall d, In d deps -> In d (map st_label pre)).
Proof.
  intros steps w pre st post H Hr ->.
  destruct (prepare_workflow_inv _ _ H Hr) as (rs & outs & pp & HL & Hok & Hs & _).
  destruct (steps_loop_ok _ _ _ _ _ _ _ HL Hok) as (known' & r & deps & p & Hk & HS & Hn).
  exists deps. rewrite Hs. split; [exact Hn|].
  apply load_step_step_inv in HS. destruct HS as (_ & keys & Htrees & Hmem & ->).
  split.
  - intros t name Ht Hok' Hocc. apply in_somes.
    destruct (Htrees t Ht) as (S & HS & Hincl).
    eapply needed_steps_incl; [exact Hincl|]. eapply steps_ref_in_result; eassumption.
  - intros d Hd. apply in_somes in Hd. specialize (Hmem _ Hd). cbn in Hmem.
    apply existsb_eqb_In in Hmem. apply Hk in Hmem. destruct Hmem as [Hm|[]]. exact Hm.
Qed.

(* C14, second sentence: a step naming a label that is not an earlier step (a later one, an
   unknown one, its own) makes the Workflow not ready *)
Theorem bad_order_rejected : forall steps w pre st post t name,
  prepare_workflow steps = Done w -> steps = pre ++ st :: post ->
  In t (step_trees st) -> name_ok name = true -> occurs_steps_ref name t ->
  ~ In name (map st_label pre) ->
  pw_ready w <> COk.
Proof.
  intros steps w pre st post t name H Hs Ht Hok Hocc Hnot Hr.
  destruct (ready_deps_complete_and_earlier _ _ _ _ _ H Hr Hs) as (deps & _ & Hc & He).
  apply Hnot, He. eapply Hc; eassumption.
Qed.

(* ... and a Workflow that is not ready is not run: reconcile_workflow creates no step task *)
Theorem not_ready_runs_nothing : forall w, pw_ready w <> COk -> started_steps w = [].
Proof. intros w H. unfold started_steps. destruct (pw_ready w); [congruence|reflexivity|reflexivity]. Qed.

(* duplicate labels, too, make the Workflow not ready *)
Theorem duplicate_label_rejected : forall steps w pre st post,
  prepare_workflow steps = Done w -> steps = pre ++ st :: post ->
  In (st_label st) (map st_label pre) -> pw_ready w <> COk.
Proof.
  intros steps w pre st post H -> Hdup Hr.
  destruct (prepare_workflow_inv _ _ H Hr) as (rs & outs & pp & HL & Hok & _ & _).
  clear H Hr. revert Hdup HL Hok. generalize (@nil string) as known. revert rs outs pp.
  induction pre as [|a pre IH]; intros rs outs pp known Hdup HL Hok; [contradiction|].
  cbn [app steps_loop] in HL.
  destruct (existsb (String.eqb (st_label a)) known).
  - destruct (steps_loop (pre ++ st :: post) known) as [[[rs' outs'] pp']|e]; cbn [bind] in HL; [|discriminate HL].
    inversion HL; subst. rewrite err_classes_cons_err in Hok. inversion Hok; discriminate.
  - destruct (load_step a known) as [[[r1 o1] p1]|e] eqn:EL; cbn [bind] in HL; [|discriminate HL].
    destruct (steps_loop (pre ++ st :: post) (st_label a :: known)) as [[[rs' outs'] pp']|e] eqn:ER;
      cbn [bind] in HL; [|discriminate HL].
    inversion HL; subst; clear HL.
    assert (Hok' : Forall (fun c => c = COk) (err_classes outs')).
    { destruct o1; [rewrite err_classes_cons_err in Hok; now inversion Hok|exact Hok]. }
    destruct Hdup as [Hd|Hd].
    + (* st has a's label: when st is reached, the label is known *)
      destruct (steps_loop_ok _ _ _ _ _ _ _ ER Hok') as (known' & r & deps & p & Hk & HS & _).
      clear IH. revert ER Hok'. clear - Hd.
      intros ER Hok'.
      assert (Hin : forall pre' known0 rs0 outs0 pp0,
                 In (st_label st) known0 ->
                 steps_loop (pre' ++ st :: post) known0 = Done (rs0, outs0, pp0) ->
                 Forall (fun c => c = COk) (err_classes outs0) -> False).
      { induction pre' as [|b pre' IHp]; intros known0 rs0 outs0 pp0 Hin0 HL0 Hok0.
        - cbn [app steps_loop] in HL0. apply existsb_eqb_In in Hin0. rewrite Hin0 in HL0.
          destruct (steps_loop post known0) as [[[x y] z]|e]; cbn [bind] in HL0; [|discriminate HL0].
          inversion HL0; subst. rewrite err_classes_cons_err in Hok0. inversion Hok0; discriminate.
        - cbn [app steps_loop] in HL0.
          destruct (existsb (String.eqb (st_label b)) known0).
          + destruct (steps_loop (pre' ++ st :: post) known0) as [[[x y] z]|e]; cbn [bind] in HL0; [|discriminate HL0].
            inversion HL0; subst. rewrite err_classes_cons_err in Hok0. inversion Hok0; discriminate.
          + destruct (load_step b known0) as [[[r2 o2] p2]|e]; cbn [bind] in HL0; [|discriminate HL0].
            destruct (steps_loop (pre' ++ st :: post) (st_label b :: known0)) as [[[x y] z]|e] eqn:ER0;
              cbn [bind] in HL0; [|discriminate HL0].
            inversion HL0; subst; clear HL0.
            eapply (IHp (st_label b :: known0)); [now right|exact ER0|].
            destruct o2; [rewrite err_classes_cons_err in Hok0; now inversion Hok0|exact Hok0]. }
      apply (Hin pre (st_label a :: known) rs' outs' pp'); [cbn; left; exact Hd|exact ER|exact Hok'].
    + exact (IH rs' outs' pp' (st_label a :: known) Hd ER Hok').
Qed.

(* ---- the watch list ---- *)

Definition ref_valid (r : ref_spec) : bool :=
  negb (String.eqb (rf_kind r) "") && negb (String.eqb (rf_name r) "") && valid_kind (rf_kind r).
Definition ref_resource (r : ref_spec) : resource := (rf_kind r, rf_name r).

(* the Logic a step names: its `ref`, or every case of its `refSwitch` (when the switch
   itself is well formed: switchOn compiles, at most one default) *)
Inductive names_logic (st : step_spec) : resource -> Prop :=
| nl_ref : forall r, st_ref st = Some r -> st_switch st = None -> ref_valid r = true ->
    names_logic st (ref_resource r)
| nl_case : forall sw ast c, st_ref st = None -> st_switch st = Some sw -> sw_on sw = FExpr ast ->
    List.length (filter cs_default (sw_cases sw)) <= 1 ->
    In c (sw_cases sw) -> ref_valid (cs_ref c) = true ->
    names_logic st (ref_resource (cs_ref c)).

Lemma load_logic_valid : forall r, ref_valid r = true ->
  exists c, load_logic r = (Some [ref_resource r], c).
Proof.
  intros r H. unfold ref_valid in H. apply andb_true_iff in H. destruct H as [H H3].
  apply andb_true_iff in H. destruct H as [H1 H2].
  apply negb_true_iff in H1. apply negb_true_iff in H2.
  unfold load_logic. rewrite H1, H2, H3. cbn. eexists; reflexivity.
Qed.

Lemma load_logic_res : forall r l c, load_logic r = (Some l, c) -> l = [ref_resource r].
Proof.
  intros r l c H. unfold load_logic in H.
  destruct (String.eqb (rf_kind r) ""); [discriminate H|].
  destruct (String.eqb (rf_name r) ""); [discriminate H|].
  destruct (negb (valid_kind (rf_kind r))); [discriminate H|]. now inversion H.
Qed.

Lemma switch_loop_res : forall cases dflt lmap rs dflt' lmap' rs',
  switch_loop cases dflt lmap rs = Some (dflt', lmap', rs') ->
  incl rs rs' /\
  forall c, In c cases -> ref_valid (cs_ref c) = true -> In (ref_resource (cs_ref c)) rs'.
Proof.
  induction cases as [|c0 rest IH]; intros dflt lmap rs dflt' lmap' rs' H.
  - inversion H; subst. split; [apply incl_refl|intros c []].
  - cbn [switch_loop] in H.
    destruct (if cs_default c0 then dflt else None); [discriminate H|].
    destruct (load_logic (cs_ref c0)) as [lr lc] eqn:EL.
    apply IH in H. destruct H as (Hincl & Hall). split.
    + intros x Hx. apply Hincl. destruct lr; [apply in_or_app; now left|assumption].
    + intros c [<-|Hc] Hv; [|now apply Hall].
      apply Hincl. destruct (load_logic_valid _ Hv) as (c' & E). rewrite E in EL. inversion EL; subst.
      apply in_or_app. right. now left.
Qed.

Lemma switch_loop_some : forall cases (dflt : option oclass) lmap rs,
  List.length (filter cs_default cases) + (if dflt then 1 else 0) <= 1 ->
  switch_loop cases dflt lmap rs <> None.
Proof.
  induction cases as [|c0 rest IH]; intros dflt lmap rs H; [discriminate|].
  cbn [switch_loop]. cbn [filter] in H.
  destruct (cs_default c0) eqn:Ed.
  - destruct dflt as [d|]; [cbn in H; lia|].
    destruct (load_logic (cs_ref c0)) as [lr lc]. apply IH. cbn in H |- *. lia.
  - destruct (load_logic (cs_ref c0)) as [lr lc]. apply IH. exact H.
Qed.

Lemma load_logic_switch_res : forall sw ast r1 c keys cs,
  load_logic_switch sw = Done (r1, c, keys) -> sw_on sw = FExpr ast ->
  List.length (filter cs_default (sw_cases sw)) <= 1 ->
  In cs (sw_cases sw) -> ref_valid (cs_ref cs) = true ->
  exists l, r1 = Some l /\ In (ref_resource (cs_ref cs)) l.
Proof.
  intros sw ast r1 c keys cs H Hon Hd Hin Hv. unfold load_logic_switch in H. rewrite Hon in H.
  destruct (extract ast) as [k|e]; cbn [bind] in H; [|discriminate H].
  destruct (sw_cases sw) as [|c0 rest] eqn:Ec; [contradiction|].
  destruct (switch_loop (c0 :: rest) None [] []) as [[[dflt lmap] rs']|] eqn:ES.
  - apply switch_loop_res in ES. destruct ES as (_ & Hall).
    exists rs'. split; [|now apply Hall].
    destruct (negb (oc_is_ok (fold_left oc_max (map snd lmap) COk))); [|destruct dflt]; now inversion H.
  - exfalso. eapply switch_loop_some; [|exact ES]. cbn [Nat.add]. lia.
Qed.

Lemma load_step_res : forall st known r1 o p,
  load_step st known = Done (r1, o, p) -> (st_ref st = None \/ st_switch st = None) ->
  exists lc nologic k0, load_step_logic st = Done (r1, lc, nologic, k0).
Proof.
  intros st known r1 o p H Hcase. unfold load_step in H.
  assert (H' : bind (load_step_logic st) (fun '(rs, lc, nologic, k0) =>
      if String.eqb (st_label st) "<missing label>" then Done (rs, SErr "missing" CPermFail, needed_parent k0)
      else if negb (oc_is_ok lc) then Done (rs, SErr (st_label st) lc, needed_parent k0)
      else if nologic then Done (rs, SErr (st_label st) CPermFail, needed_parent k0)
      else
      bind (load_step_fields st k0) (fun '(ok, keys) =>
      if negb ok then Done (rs, SErr (st_label st) CPermFail, needed_parent keys)
      else Done (rs, order_check (st_label st) known keys, needed_parent keys)))
      = Done (r1, o, p)).
  { destruct (st_ref st), (st_switch st); try exact H. destruct Hcase; discriminate. }
  clear H. rename H' into H.
  destruct (load_step_logic st) as [[[[rs lc] nologic] k0]|e] eqn:EL; cbn [bind] in H; [|discriminate H].
  exists lc, nologic, k0.
  destruct (String.eqb (st_label st) "<missing label>"); [now inversion H|].
  destruct (negb (oc_is_ok lc)); [now inversion H|].
  destruct nologic; [now inversion H|].
  destruct (load_step_fields st k0) as [[ok keys]|e]; cbn [bind] in H; [|discriminate H].
  destruct (negb ok); now inversion H.
Qed.

Lemma load_step_names : forall st known r1 o p r,
  load_step st known = Done (r1, o, p) -> names_logic st r ->
  exists l, r1 = Some l /\ In r l.
Proof.
  intros st known r1 o p r H Hn. destruct Hn as [r0 Hr Hs Hv|sw ast c Hr Hs Hon Hd Hin Hv].
  - destruct (load_step_res _ _ _ _ _ H (or_intror Hs)) as (lc & nl & k0 & EL).
    unfold load_step_logic in EL. rewrite Hr in EL.
    destruct (load_logic_valid _ Hv) as (c' & E). rewrite E in EL. inversion EL; subst.
    eexists; split; [reflexivity|now left].
  - destruct (load_step_res _ _ _ _ _ H (or_introl Hr)) as (lc & nl & k0 & EL).
    unfold load_step_logic in EL. rewrite Hr, Hs in EL.
    destruct (load_logic_switch sw) as [[[rs' c'] keys]|e] eqn:ES; cbn [bind] in EL; [|discriminate EL].
    inversion EL; subst. eapply load_logic_switch_res; eassumption.
Qed.

Lemma steps_loop_res : forall pre st post known rs outs pp,
  steps_loop (pre ++ st :: post) known = Done (rs, outs, pp) ->
  ~ In (st_label st) (map st_label pre) -> ~ In (st_label st) known ->
  exists known' r1 o p, load_step st known' = Done (r1, o, p) /\
                        forall l, r1 = Some l -> incl l rs.
Proof.
  induction pre as [|a pre IH]; intros st post known rs outs pp H Hn1 Hn2.
  - cbn [app steps_loop] in H.
    destruct (existsb (String.eqb (st_label st)) known) eqn:Ex.
    + apply existsb_eqb_In in Ex. contradiction.
    + destruct (load_step st known) as [[[r1 o1] p1]|e] eqn:EL; cbn [bind] in H; [|discriminate H].
      destruct (steps_loop post (st_label st :: known)) as [[[rs' outs'] pp']|e]; cbn [bind] in H; [|discriminate H].
      inversion H; subst. exists known, r1, o1, p1. split; [exact EL|].
      intros l ->. apply incl_appl, incl_refl.
  - cbn [app steps_loop] in H. cbn [map In] in Hn1.
    destruct (existsb (String.eqb (st_label a)) known).
    + destruct (steps_loop (pre ++ st :: post) known) as [[[rs' outs'] pp']|e] eqn:ER; cbn [bind] in H; [|discriminate H].
      inversion H; subst. eapply IH; [exact ER|tauto|assumption].
    + destruct (load_step a known) as [[[r1 o1] p1]|e]; cbn [bind] in H; [|discriminate H].
      destruct (steps_loop (pre ++ st :: post) (st_label a :: known)) as [[[rs' outs'] pp']|e] eqn:ER;
        cbn [bind] in H; [|discriminate H].
      inversion H; subst.
      destruct (IH st post (st_label a :: known) rs' outs' pp' ER) as (known' & r & o & p & HL & Hi).
      * tauto.
      * cbn [In]. tauto.
      * exists known', r, o, p. split; [exact HL|]. intros l Hl. apply incl_appr. now apply Hi.
Qed.

(* C14, third sentence (Workflow): every Logic a step names - its ref, every case of its
   refSwitch, whether or not it could be loaded from the cache - is in the watch list *)
Theorem watched_complete_workflow : forall steps w pre st post r,
  prepare_workflow steps = Done w -> steps = pre ++ st :: post ->
  ~ In (st_label st) (map st_label pre) ->
  names_logic st r -> In r (pw_watched w).
Proof.
  intros steps w pre st post r H -> Hnd Hn. unfold prepare_workflow in H.
  destruct (pre ++ st :: post) as [|s0 rest] eqn:E; [destruct pre; discriminate E|].
  rewrite <- E in H.
  destruct (steps_loop (pre ++ st :: post) []) as [[[rs outs] pp]|e] eqn:EL; cbn [bind] in H; [|discriminate H].
  inversion H; subst; clear H. cbn [pw_watched].
  destruct (steps_loop_res _ _ _ _ _ _ _ EL Hnd (fun x => x)) as (known' & r1 & o & p & HL & Hi).
  destruct (load_step_names _ _ _ _ _ _ HL Hn) as (l & -> & Hin).
  now apply (Hi l eq_refl).
Qed.

(* ResourceFunction: every overlayRef function is reported whenever a prepared function is returned *)
Theorem watched_complete_rf : forall ovs W o name,
  rf_watched true ovs = Some W -> In o ovs -> ov_skip_if o <> FFail -> ov_body o = ORef name ->
  In name W.
Proof.
  intros ovs W o name H Hin Hs Hb. cbn in H. inversion H; subst; clear H.
  unfold overlay_watched. apply in_flat_map. exists o. split; [assumption|].
  rewrite Hb. destruct (ov_skip_if o); [now left|congruence|now left].
Qed.

(* FunctionTest: the function under test is the first watched resource *)
Theorem watched_complete_ft : forall kind name r,
  ft_watched_head kind name true true = Some r -> r = (kind, name).
Proof.
  intros kind name r H. unfold ft_watched_head, ft_function in H.
  destruct (String.eqb kind ""); [discriminate H|].
  destruct (String.eqb name ""); [discriminate H|].
  destruct (String.eqb kind "ValueFunction" || String.eqb kind "ResourceFunction"); [|discriminate H].
  cbn in H. now inversion H.
Qed.

Theorem ft_watched_some : forall kind name,
  (kind = "ValueFunction" \/ kind = "ResourceFunction") -> name <> "" ->
  ft_watched_head kind name true true = Some (kind, name).
Proof.
  intros kind name Hk Hn. unfold ft_watched_head, ft_function.
  apply String.eqb_neq in Hn. rewrite Hn. destruct Hk as [->| ->]; reflexivity.
Qed.

(* ---- what prepare_workflow can raise ---- *)

Definition trees_wf (ts : list node) : Prop := Forall (fun t => cel_tree_wf t = true) ts.

Lemma field_keys_total : forall f, trees_wf (field_trees f) -> exists o, field_keys f = Done o.
Proof.
  intros [| |ast] H; cbn; try (eexists; reflexivity).
  inversion H as [|? ? Hw _]; subst. destruct (extract_total ast Hw) as (S & ->). cbn. eexists; reflexivity.
Qed.

Lemma fe_keys_total : forall f, trees_wf (fe_trees f) -> exists o, fe_keys f = Done o.
Proof.
  intros [| |ast hk] H; cbn; try (eexists; reflexivity).
  inversion H as [|? ? Hw _]; subst. destruct (extract_total ast Hw) as (S & ->). cbn. eexists; reflexivity.
Qed.

Lemma load_logic_switch_total : forall sw, trees_wf (field_trees (sw_on sw)) ->
  exists x, load_logic_switch sw = Done x.
Proof.
  intros sw H. unfold load_logic_switch. destruct (sw_on sw) as [| |ast]; try (eexists; reflexivity).
  inversion H as [|? ? Hw _]; subst. destruct (extract_total ast Hw) as (S & ->). cbn [bind].
  destruct (sw_cases sw) as [|c cs]; [eexists; reflexivity|].
  destruct (switch_loop (c :: cs) None [] []) as [[[dflt lmap] rs']|]; [|eexists; reflexivity].
  destruct (negb (oc_is_ok (fold_left oc_max (map snd lmap) COk))); [|destruct dflt]; eexists; reflexivity.
Qed.

Lemma trees_wf_app : forall a b, trees_wf (a ++ b) -> trees_wf a /\ trees_wf b.
Proof. intros a b H. unfold trees_wf in *. now apply Forall_app in H. Qed.

Lemma load_step_total : forall st known,
  trees_wf (step_trees st) -> exists x, load_step st known = Done x.
Proof.
  intros st known Hw. unfold step_trees in Hw.
  apply trees_wf_app in Hw. destruct Hw as [Hsw Hw].
  apply trees_wf_app in Hw. destruct Hw as [H1 Hw].
  apply trees_wf_app in Hw. destruct Hw as [H2 Hw].
  apply trees_wf_app in Hw. destruct Hw as [H3 H4].
  unfold load_step.
  assert (HL : exists x, load_step_logic st = Done x).
  { unfold load_step_logic. destruct (st_ref st) as [r|].
    - destruct (load_logic r). eexists; reflexivity.
    - destruct (st_switch st) as [sw|]; [|eexists; reflexivity].
      destruct (load_logic_switch_total sw Hsw) as ([[rs c] keys] & ->). cbn. eexists; reflexivity. }
  destruct HL as ([[[rs lc] nologic] k0] & HL).
  assert (HF : exists x, load_step_fields st k0 = Done x).
  { unfold load_step_fields.
    destruct (field_keys_total _ H1) as ([k1|] & ->); cbn [bind]; [|eexists; reflexivity].
    destruct (fe_keys_total _ H2) as ([k2|] & ->); cbn [bind]; [|eexists; reflexivity].
    destruct (field_keys_total _ H3) as ([k3|] & ->); cbn [bind]; [|eexists; reflexivity].
    destruct (field_keys_total _ H4) as ([k4|] & ->); cbn [bind]; eexists; reflexivity. }
  destruct HF as ([ok keys] & HF).
  assert (Hgoal : exists x,
     bind (load_step_logic st) (fun '(rs, lc, nologic, k0) =>
      if String.eqb (st_label st) "<missing label>" then Done (rs, SErr "missing" CPermFail, needed_parent k0)
      else if negb (oc_is_ok lc) then Done (rs, SErr (st_label st) lc, needed_parent k0)
      else if nologic then Done (rs, SErr (st_label st) CPermFail, needed_parent k0)
      else
      bind (load_step_fields st k0) (fun '(ok, keys) =>
      if negb ok then Done (rs, SErr (st_label st) CPermFail, needed_parent keys)
      else Done (rs, order_check (st_label st) known keys, needed_parent keys))) = Done x).
  { rewrite HL. cbn [bind].
    destruct (String.eqb (st_label st) "<missing label>"); [eexists; reflexivity|].
    destruct (negb (oc_is_ok lc)); [eexists; reflexivity|].
    destruct nologic; [eexists; reflexivity|].
    rewrite HF. cbn [bind]. destruct (negb ok); eexists; reflexivity. }
  destruct (st_ref st), (st_switch st); try exact Hgoal. eexists; reflexivity.
Qed.

Lemma steps_loop_total : forall steps known,
  Forall (fun st => trees_wf (step_trees st)) steps ->
  exists x, steps_loop steps known = Done x.
Proof.
  induction steps as [|st rest IH]; intros known Hw; [eexists; reflexivity|].
  inversion Hw as [|? ? Hst Hrest]; subst. cbn [steps_loop].
  destruct (existsb (String.eqb (st_label st)) known).
  - destruct (IH known Hrest) as ([[rs outs] pp] & ->). cbn. eexists; reflexivity.
  - destruct (load_step_total st known Hst) as ([[r1 o1] p1] & ->). cbn [bind].
    destruct (IH (st_label st :: known) Hrest) as ([[rs outs] pp] & ->). cbn. eexists; reflexivity.
Qed.

(* C20-style totality of the modelled part of prepare_workflow: with expressions from the
   CEL grammar it always returns a Workflow (errors live in steps_ready) *)
Theorem prepare_workflow_total : forall steps,
  Forall (fun st => trees_wf (step_trees st)) steps -> exists w, prepare_workflow steps = Done w.
Proof.
  intros steps Hw. unfold prepare_workflow. destruct steps as [|s0 rest]; [eexists; reflexivity|].
  destruct (steps_loop_total (s0 :: rest) [] Hw) as ([[rs outs] pp] & ->). cbn. eexists; reflexivity.
Qed.

(* ---- exactly which names the regular expression gives back ---- *)

Lemma take_name_fix : forall s, take_name s = s -> all_chars not_dot_bracket s = true.
Proof.
  induction s as [|a r IH]; intro H; [reflexivity|].
  cbn [take_name] in H. cbn [all_chars]. unfold not_dot_bracket at 1.
  destruct (Ascii.eqb a "."%char || Ascii.eqb a "["%char); [discriminate H|].
  inversion H as [H']. rewrite H'. cbn. now apply IH.
Qed.

Theorem steps_name_exact : forall name,
  steps_name ("steps." +++ name) = Some (Some name) <-> name_ok name = true.
Proof.
  intro name. split; [|apply steps_name_key].
  unfold steps_name. rewrite strip_prefix_steps, any_char_dot. intro H.
  destruct (String.eqb_spec (take_name name) "") as [E|E]; [discriminate H|].
  assert (H' : take_name name = name) by congruence. clear H.
  unfold name_ok. rewrite H' in E.
  apply String.eqb_neq in E. rewrite E. cbn. now apply take_name_fix.
Qed.

(* a longer access path on the same step gives the same name *)
Lemma take_name_app_dot : forall name rest, all_chars not_dot_bracket name = true ->
  take_name (name +++ String "."%char rest) = name.
Proof.
  induction name as [|a r IH]; intros rest H; [reflexivity|].
  cbn in H. apply andb_true_iff in H. destruct H as [Ha Hr].
  rewrite sapp_cons. cbn [take_name]. unfold not_dot_bracket in Ha. apply negb_true_iff in Ha.
  rewrite Ha. now rewrite IH.
Qed.

Theorem steps_name_path : forall name rest, name_ok name = true ->
  steps_name ("steps." +++ name +++ "." +++ rest) = Some (Some name).
Proof.
  intros name rest H. unfold name_ok in H. apply andb_true_iff in H. destruct H as [Hne Hc].
  unfold steps_name. rewrite strip_prefix_steps, any_char_dot.
  change ("." +++ rest) with (String "."%char rest).
  rewrite take_name_app_dot by assumption.
  apply negb_true_iff in Hne. now rewrite Hne.
Qed.

(* valid labels in every supported written form *)
Theorem label_forms : forall name, label_ok name = true ->
  name_ok name = true /\
  direct_ref name (N "member_dot" [steps_member; Tok "IDENT" name]) /\
  forall q, q = "'"%char \/ q = """"%char ->
    direct_ref name (N "member_index" [steps_member; lit_expr "STRING_LIT" (quote1 q +++ name +++ quote1 q)]) /\
    direct_ref name (N "member_index" [steps_member; lit_expr "MLSTRING_LIT" (quote3 q +++ name +++ quote3 q)]).
Proof.
  intros name H. split; [now apply label_ok_name_ok|]. split; [constructor|].
  intros q Hq. destruct (label_ok_no_edge_quote name q Hq H) as (Hf & Hl).
  split; apply (dr_index name q); try assumption; [left|right]; split; reflexivity.
Qed.

(* ---- after repair 2f140bc: nameless references are reported, nothing raises ---- *)

(* a key that matches STEPS_NAME_PATTERN without a name (stepsX.foo, steps['.a'], steps['[a'])
   makes the Workflow not ready *)
Theorem nameless_ref_rejected : forall steps w pre st post t S k,
  prepare_workflow steps = Done w -> steps = pre ++ st :: post ->
  In t (step_trees st) -> extract t = Done S -> In k S -> steps_name k = Some None ->
  pw_ready w <> COk.
Proof.
  intros steps w pre st post t S k H -> Ht HS Hk Hn Hr.
  destruct (prepare_workflow_inv _ _ H Hr) as (rs & outs & pp & HL & Hok & _ & _).
  destruct (steps_loop_ok _ _ _ _ _ _ _ HL Hok) as (known' & r & deps & p & _ & HStep & _).
  apply load_step_step_inv in HStep. destruct HStep as (_ & keys & Htrees & Hmem & _).
  destruct (Htrees t Ht) as (S' & HS' & Hincl). rewrite HS in HS'. inversion HS'; subst S'.
  assert (Hin : In None (needed_steps keys)).
  { eapply needed_steps_incl; [exact Hincl|]. eapply needed_steps_in; eassumption. }
  specialize (Hmem None Hin). discriminate Hmem.
Qed.

(* C14, second sentence, in one statement: for every Workflow whose expressions are CEL,
   prepare_workflow returns, and if some step names (anywhere in any of its expressions) a
   label that is not an earlier step - a later one, its own, an unknown one - the returned
   Workflow is not ready and reconcile_workflow starts none of its steps *)
Theorem bad_order_reported : forall steps pre st post t name,
  Forall (fun st => trees_wf (step_trees st)) steps -> steps = pre ++ st :: post ->
  In t (step_trees st) -> name_ok name = true -> occurs_steps_ref name t ->
  ~ In name (map st_label pre) ->
  exists w, prepare_workflow steps = Done w /\ pw_ready w <> COk /\ started_steps w = [].
Proof.
  intros steps pre st post t name Hw Hs Ht Hok Hocc Hnot.
  destruct (prepare_workflow_total steps Hw) as (w & H). exists w. split; [exact H|].
  assert (Hr : pw_ready w <> COk) by (eapply bad_order_rejected; eassumption).
  split; [exact Hr|now apply not_ready_runs_nothing].
Qed.

(* the inputs that raised TypeError before 2f140bc *)
Definition tree_stepsX_foo : node :=
  ch 0 7 (N "member_dot" [N "member" [N "primary" [N "ident" [Tok "IDENT" "stepsX"]]]; Tok "IDENT" "foo"]).
Definition tree_steps_dot_a : node :=
  ch 0 7 (N "member_index" [steps_member; lit_expr "STRING_LIT" "'.a'"]).

Definition one_step (t : node) : list step_spec :=
  [{| st_label := "aaa";
      st_ref := Some {| rf_kind := "ValueFunction"; rf_name := "f"; rf_cache := CHealthy |};
      st_switch := None; st_skip_if := FNone; st_for_each := FENone;
      st_inputs := FExpr t; st_state := FNone |}].

Lemma nameless_examples :
  cel_expr_wf tree_stepsX_foo = true /\ cel_expr_wf tree_steps_dot_a = true /\
  extract tree_stepsX_foo = Done ["stepsX.foo"] /\ steps_name "stepsX.foo" = Some None /\
  extract tree_steps_dot_a = Done ["steps..a"] /\ steps_name "steps..a" = Some None /\
  (exists w, prepare_workflow (one_step tree_stepsX_foo) = Done w /\ pw_ready w = CPermFail /\
             pw_steps w = [SErr "aaa" CPermFail] /\ started_steps w = []) /\
  (exists w, prepare_workflow (one_step tree_steps_dot_a) = Done w /\ pw_ready w = CPermFail /\
             pw_steps w = [SErr "aaa" CPermFail] /\ started_steps w = []).
Proof.
  repeat split; try (vm_compute; reflexivity); eexists; vm_compute; repeat split; reflexivity.
Qed.
