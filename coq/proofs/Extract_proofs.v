(* Extract_proofs.v — lemmas and proofs about model/Tree.v and model/Extract.v
   (properties C14 and the extractor-totality part of C20). *)
From Koreo Require Import Tree Extract.
From Coq Require Import Lia.
Local Open Scope string_scope.
Local Open Scope list_scope.
Local Open Scope nat_scope.

(* ================================================================== *)
(* A. nonterminal names *)

Lemma nt_of_string_name : forall d x, nt_of_string d = Some x -> d = nt_name x.
Proof.
  intros d x. unfold nt_of_string, all_nts. cbn [find nt_name].
  repeat match goal with
         | |- context [String.eqb ?a d] =>
             destruct (String.eqb_spec a d);
             [ intro H; inversion H; subst; reflexivity | ]
         end.
  discriminate.
Qed.

Lemma nt_of_string_nt_name : forall x, nt_of_string (nt_name x) = Some x.
Proof. destruct x; reflexivity. Qed.

Lemma nt_name_inj : forall x y, nt_name x = nt_name y -> x = y.
Proof.
  intros x y H. pose proof (nt_of_string_nt_name x) as Hx. rewrite H in Hx.
  rewrite nt_of_string_nt_name in Hx. congruence.
Qed.

Lemma is_sub_inv : forall x c, is_sub x (head_of c) = true -> exists cs, c = N (nt_name x) cs.
Proof.
  intros x [d cs|ty v] H; [|discriminate H].
  unfold is_sub, head_of in H.
  destruct (nt_of_string d) as [y|] eqn:E; [|discriminate H].
  apply String.eqb_eq in H. apply nt_of_string_name in E. subst d.
  exists cs. now rewrite H.
Qed.

Lemma is_tok_inv : forall ty c, is_tok ty (head_of c) = true -> exists v, c = Tok ty v.
Proof.
  intros ty [d cs|t v] H; [discriminate H|].
  cbn in H. apply String.eqb_eq in H. subst. now exists v.
Qed.

Lemma is_sub_any_inv : forall xs c, is_sub_any xs (head_of c) = true ->
  exists x cs, In x xs /\ c = N (nt_name x) cs.
Proof.
  intros xs c H. unfold is_sub_any in H. apply existsb_exists in H.
  destruct H as (x & Hin & Hx). apply is_sub_inv in Hx. destruct Hx as (cs & ->).
  now exists x, cs.
Qed.

(* ================================================================== *)
(* B. what well-formedness gives *)

Definition child_wf (c : node) : bool :=
  match c with Tok _ _ => true | N _ _ => cel_tree_wf c end.

Lemma wf_inv : forall d cs, cel_tree_wf (N d cs) = true ->
  exists x, d = nt_name x /\ shape x (map head_of cs) = true /\
            forallb tok_ok cs = true /\ forallb child_wf cs = true.
Proof.
  intros d cs H. cbn [cel_tree_wf] in H. destruct (nt_of_string d) as [x|] eqn:E; [|discriminate H].
  apply andb_true_iff in H. destruct H as [H H3]. apply andb_true_iff in H. destruct H as [H1 H2].
  exists x. split; [now apply nt_of_string_name|]. repeat split; assumption.
Qed.

Lemma wf_intro : forall x cs, shape x (map head_of cs) = true -> forallb tok_ok cs = true ->
  forallb child_wf cs = true -> cel_tree_wf (N (nt_name x) cs) = true.
Proof.
  intros x cs H1 H2 H3. cbn [cel_tree_wf]. rewrite nt_of_string_nt_name.
  unfold child_wf in H3. rewrite H1, H2. cbn [andb]. exact H3.
Qed.

Lemma wf_is_tree : forall n, cel_tree_wf n = true -> exists d cs, n = N d cs.
Proof. intros [d cs|ty v] H; [now exists d, cs|discriminate]. Qed.

Lemma child_wf_sub : forall d cs, child_wf (N d cs) = true -> cel_tree_wf (N d cs) = true.
Proof. intros; assumption. Qed.

(* every subtree of a grammar tree is a grammar tree *)
Lemma subtrees_wf : forall n, cel_tree_wf n = true ->
  Forall (fun s => cel_tree_wf s = true) (subtrees n).
Proof.
  induction n as [d cs IH|ty v] using node_ind'; intro H; [|discriminate].
  cbn [subtrees]. constructor; [assumption|].
  apply wf_inv in H. destruct H as (x & _ & _ & _ & Hc).
  rewrite forallb_forall in Hc. rewrite Forall_forall in IH.
  apply Forall_forall. intros s Hs. apply in_flat_map in Hs. destruct Hs as (c & Hc1 & Hc2).
  specialize (IH c Hc1). specialize (Hc c Hc1).
  destruct c as [d' cs'|ty v]; [|cbn in Hc2; contradiction].
  pose proof (IH Hc) as HF. rewrite Forall_forall in HF. now apply HF.
Qed.

Lemma subtrees_are_trees : forall n s, In s (subtrees n) -> is_tree s = true.
Proof.
  induction n as [d cs IH|ty v] using node_ind'; intros s Hs; [|contradiction].
  cbn [subtrees] in Hs. destruct Hs as [<-|Hs]; [reflexivity|].
  apply in_flat_map in Hs. destruct Hs as (c & Hc1 & Hc2).
  rewrite Forall_forall in IH. eapply IH; eassumption.
Qed.

(* ---- tactics for reading a production off [shape] ---- *)

Ltac split_and H :=
  repeat match type of H with
         | (_ && _) = true =>
             let H1 := fresh H in
             apply andb_true_iff in H; destruct H as [H1 H]; split_and H1
         end.

Ltac inv_heads :=
  repeat match goal with
         | H : is_sub _ (head_of _) = true |- _ =>
             apply is_sub_inv in H; destruct H as (? & ->)
         | H : is_tok _ (head_of _) = true |- _ =>
             apply is_tok_inv in H; destruct H as (? & ->)
         end.

(* x is now known: read the children off the rule *)
Ltac read_shape Hs cs :=
  destruct cs as [|? [|? [|? [|? ?]]]];
  cbn [shape opt_left ident_optargs map] in Hs; try discriminate Hs;
  split_and Hs; inv_heads.

Lemma wf_name_inv : forall x cs, cel_tree_wf (N (nt_name x) cs) = true ->
  shape x (map head_of cs) = true /\ forallb tok_ok cs = true /\ forallb child_wf cs = true.
Proof.
  intros x cs H. apply wf_inv in H. destruct H as (y & Hn & H).
  apply nt_name_inj in Hn. now subst y.
Qed.

(* ---- the productions the extractor walks through ---- *)

Lemma wf_member_dot : forall cs, cel_tree_wf (N "member_dot" cs) = true ->
  exists mcs v, cs = [N "member" mcs; Tok "IDENT" v] /\ cel_tree_wf (N "member" mcs) = true.
Proof.
  intros cs H. apply (wf_name_inv Member_dot) in H. destruct H as (Hs & _ & Hc).
  read_shape Hs cs. cbn [forallb child_wf] in Hc. split_and Hc.
  eexists _, _. split; [reflexivity|assumption].
Qed.

Lemma wf_member_dot_arg : forall cs, cel_tree_wf (N "member_dot_arg" cs) = true ->
  exists mcs v, cel_tree_wf (N "member" mcs) = true /\
    (cs = [N "member" mcs; Tok "IDENT" v] \/
     exists es, cs = [N "member" mcs; Tok "IDENT" v; N "exprlist" es]).
Proof.
  intros cs H. apply (wf_name_inv Member_dot_arg) in H. destruct H as (Hs & _ & Hc).
  read_shape Hs cs; cbn [forallb child_wf] in Hc; split_and Hc;
    eexists _, _; (split; [eassumption|]); [left; reflexivity|right; eexists; reflexivity].
Qed.

Lemma wf_member_index : forall cs, cel_tree_wf (N "member_index" cs) = true ->
  exists mcs ecs, cs = [N "member" mcs; N "expr" ecs] /\
    cel_tree_wf (N "member" mcs) = true /\ cel_tree_wf (N "expr" ecs) = true.
Proof.
  intros cs H. apply (wf_name_inv Member_index) in H. destruct H as (Hs & _ & Hc).
  read_shape Hs cs. cbn [forallb child_wf] in Hc. split_and Hc.
  eexists _, _. split; [reflexivity|split; assumption].
Qed.

Lemma wf_member : forall cs, cel_tree_wf (N "member" cs) = true ->
  exists x rcs, cs = [N (nt_name x) rcs] /\ cel_tree_wf (N (nt_name x) rcs) = true /\
    In x [Member_dot; Member_dot_arg; Member_index; Member_object; Primary].
Proof.
  intros cs H. apply (wf_name_inv Member) in H. destruct H as (Hs & _ & Hc).
  read_shape Hs cs. apply is_sub_any_inv in Hs. destruct Hs as (x & rcs & Hin & ->).
  cbn [forallb child_wf] in Hc. split_and Hc.
  exists x, rcs. split; [reflexivity|split; assumption].
Qed.

Lemma wf_primary : forall cs, cel_tree_wf (N "primary" cs) = true ->
  exists x pcs, cs = [N (nt_name x) pcs] /\ cel_tree_wf (N (nt_name x) pcs) = true /\
    In x [Literal; Dot_ident_arg; Dot_ident; Ident_arg; Paren_expr; List_lit; Map_lit; Ident].
Proof.
  intros cs H. apply (wf_name_inv Primary) in H. destruct H as (Hs & _ & Hc).
  read_shape Hs cs. apply is_sub_any_inv in Hs. destruct Hs as (x & rcs & Hin & ->).
  cbn [forallb child_wf] in Hc. split_and Hc.
  exists x, rcs. split; [reflexivity|split; assumption].
Qed.

Lemma wf_ident : forall cs, cel_tree_wf (N "ident" cs) = true -> exists v, cs = [Tok "IDENT" v].
Proof.
  intros cs H. apply (wf_name_inv Ident) in H. destruct H as (Hs & _ & _).
  read_shape Hs cs. eexists; reflexivity.
Qed.

Lemma wf_literal : forall cs, cel_tree_wf (N "literal" cs) = true ->
  exists ty a r, cs = [Tok ty (String a r)] /\ In ty literal_token_types.
Proof.
  intros cs H. apply (wf_name_inv Literal) in H. destruct H as (Hs & Ht & _).
  read_shape Hs cs. apply existsb_exists in Hs. destruct Hs as (ty & Hin & Hty).
  apply is_tok_inv in Hty. destruct Hty as (v & ->).
  cbn [forallb tok_ok] in Ht.
  assert (Hne : String.eqb ty "IDENT" = false).
  { cbn [literal_token_types In] in Hin.
    repeat (destruct Hin as [<-|Hin]; [reflexivity|]). contradiction. }
  rewrite Hne in Ht. destruct v as [|a r]; [discriminate Ht|].
  exists ty, a, r. split; [reflexivity|assumption].
Qed.

(* ================================================================== *)
(* C. the extractor raises nothing but UnsupportedStructure inside, and nothing at all outside *)

Definition safe {A} (r : res A) : Prop :=
  match r with
  | Done _ => True
  | Raised EUnsupported => True
  | Raised _ => False
  end.

Lemma safe_bind : forall A B (r : res A) (f : A -> res B),
  safe r -> (forall a, r = Done a -> safe (f a)) -> safe (bind r f).
Proof.
  intros A B [a|e] f Hr Hf; cbn.
  - now apply Hf.
  - exact Hr.
Qed.

Lemma primary_safe : forall cs, cel_tree_wf (N "primary" cs) = true ->
  safe (process_primary (N "primary" cs)).
Proof.
  intros cs H. apply wf_primary in H. destruct H as (x & pcs & -> & Hw & Hin).
  cbn [In] in Hin.
  repeat (destruct Hin as [<-|Hin]); try contradiction; cbn [nt_name] in *;
    try (cbn; exact I).
  - (* literal *)
    apply wf_literal in Hw. destruct Hw as (ty & a & r & -> & _).
    cbn. destruct (String.eqb ty "INT_LIT"); exact I.
  - (* ident *)
    apply wf_ident in Hw. destruct Hw as (v & ->). cbn. exact I.
Qed.

(* the nonterminals the index-expression descent can pass through *)
Definition desc_nt (x : nt) : bool :=
  match x with
  | Expr | Conditionalor | Conditionaland
  | Relation | Relation_lt | Relation_le | Relation_gt | Relation_ge | Relation_eq | Relation_ne | Relation_in
  | Addition | Addition_add | Addition_sub
  | Multiplication | Multiplication_mul | Multiplication_div | Multiplication_mod
  | Unary | Unary_not | Unary_neg
  | Member | Member_dot | Member_dot_arg | Member_index | Member_object | Primary => true
  | _ => false
  end.

(* children[0] of such a node is again such a node (or there are no children) *)
Lemma first_child_desc : forall x cs,
  desc_nt x = true -> x <> Primary -> cel_tree_wf (N (nt_name x) cs) = true ->
  cs = [] \/ exists y ccs rest, cs = N (nt_name y) ccs :: rest /\ desc_nt y = true /\
                                 cel_tree_wf (N (nt_name y) ccs) = true.
Proof.
  intros x cs Hd Hp H. apply wf_name_inv in H. destruct H as (Hs & _ & Hc).
  destruct x; try discriminate Hd; try congruence;
    read_shape Hs cs; try (left; reflexivity); right;
    repeat match goal with
           | H : is_sub_any _ (head_of _) = true |- _ =>
               apply is_sub_any_inv in H; destruct H as (? & ? & H & ->); cbn [In] in H
           end;
    cbn [forallb child_wf] in Hc; split_and Hc;
    repeat match goal with
           | H : _ = _ \/ _ |- _ => destruct H as [<-|H]
           | H : False |- _ => contradiction
           end;
    eexists _, _, _; (split; [reflexivity|split; [reflexivity|eassumption]]).
Qed.

Lemma nt_eq_dec : forall x y : nt, {x = y} + {x <> y}.
Proof. decide equality. Qed.

Lemma nt_name_not_primary : forall x, x <> Primary -> String.eqb (nt_name x) "primary" = false.
Proof. destruct x; intro H; try reflexivity; congruence. Qed.

Lemma descend_safe : forall n x cs, n = N (nt_name x) cs -> desc_nt x = true ->
  cel_tree_wf n = true -> safe (descend n).
Proof.
  induction n as [d cs0 IH|ty v] using node_ind'; intros x cs E Hd Hw; [|discriminate E].
  inversion E; subst d cs0; clear E.
  destruct (nt_eq_dec x Primary) as [->|Hne].
  - cbn [nt_name] in *. pose proof (primary_safe _ Hw) as Hs.
    apply wf_primary in Hw. destruct Hw as (y & pcs & -> & _ & _).
    cbn [descend]. replace (String.eqb "primary" "primary") with true by reflexivity.
    apply safe_bind; [exact Hs|]. intros; exact I.
  - destruct (first_child_desc x cs Hd Hne Hw) as [->|(y & ccs & rest & -> & Hdy & Hwy)].
    + cbn. exact I.
    + cbn [descend]. rewrite (nt_name_not_primary x Hne).
      inversion IH as [|? ? IHc _]; subst. eapply IHc; [reflexivity|exact Hdy|exact Hwy].
Qed.

Definition mode_nt (m : mode) : nt :=
  match m with MDot => Member_dot | MDotArg => Member_dot_arg | MIndex => Member_index end.

(* one unfolding of [proc] on a node whose receiver has a tree as first child *)
Definition dispatch (m : mode) (rd : string) (root : node) : res string :=
  if String.eqb rd "member_dot" then proc MDot root
  else if String.eqb rd "member_index" then proc MIndex root
  else if String.eqb rd "member_dot_arg" then proc MDotArg root
  else if String.eqb rd "primary" then process_primary root
  else if match m with MDotArg => String.eqb rd "ident" | _ => false end then process_primary root
  else Raised EUnsupported.

Lemma proc_eq : forall m d d0 rd rcs rest0 c1 tail,
  match m, tail with
  | MDotArg, [_] | MDot, [] | MIndex, [] => True
  | _, _ => False
  end ->
  proc m (N d (N d0 (N rd rcs :: rest0) :: c1 :: tail)) =
  bind (terminal m c1) (fun term =>
    bind (dispatch m rd (N rd rcs)) (fun r => Done (r +++ "." +++ term))).
Proof.
  intros m d d0 rd rcs rest0 c1 tail H.
  destruct m, tail as [|? [|? ?]]; try contradiction; reflexivity.
Qed.

Lemma dispatch_safe : forall k m x rcs,
  (forall (n : node) (m : mode) (cs : list node),
      size n <= k -> n = N (nt_name (mode_nt m)) cs -> cel_tree_wf n = true -> safe (proc m n)) ->
  size (N (nt_name x) rcs) <= k ->
  In x [Member_dot; Member_dot_arg; Member_index; Member_object; Primary] ->
  cel_tree_wf (N (nt_name x) rcs) = true ->
  safe (dispatch m (nt_name x) (N (nt_name x) rcs)).
Proof.
  intros k m x rcs IHk Hsz Hin Hroot. cbn [In] in Hin. unfold dispatch.
  repeat (destruct Hin as [<-|Hin]); try contradiction; cbn [nt_name] in *;
    cbn [String.eqb Ascii.eqb Bool.eqb].
  - apply (IHk _ MDot rcs); [exact Hsz|reflexivity|exact Hroot].
  - apply (IHk _ MDotArg rcs); [exact Hsz|reflexivity|exact Hroot].
  - apply (IHk _ MIndex rcs); [exact Hsz|reflexivity|exact Hroot].
  - destruct m; exact I.
  - apply primary_safe; exact Hroot.
Qed.

Lemma terminal_index_safe : forall ecs, cel_tree_wf (N "expr" ecs) = true ->
  safe (terminal MIndex (N "expr" ecs)).
Proof.
  intros ecs H. cbn [terminal]. cbn [String.eqb Ascii.eqb Bool.eqb].
  apply safe_bind.
  - eapply (descend_safe _ Expr); [reflexivity|reflexivity|exact H].
  - intros [v|] _; [|exact I]. destruct (String.eqb v ""); exact I.
Qed.

Lemma proc_safe_k : forall k n m cs, size n <= k -> n = N (nt_name (mode_nt m)) cs ->
  cel_tree_wf n = true -> safe (proc m n).
Proof.
  induction k as [|k IHk]; intros n m cs Hk E Hw.
  - subst n. cbn [size] in Hk. exfalso. lia.
  - subst n. destruct m; cbn [mode_nt nt_name] in *.
    + (* _process_member_dot *)
      apply wf_member_dot in Hw. destruct Hw as (mcs & v & -> & Hm).
      apply wf_member in Hm. destruct Hm as (x & rcs & -> & Hroot & Hin).
      assert (Hsz : size (N (nt_name x) rcs) <= k)
        by (cbn [size map list_sum fold_right] in Hk |- *; lia).
      rewrite proc_eq by exact I. cbn [terminal fmt bind].
      apply safe_bind; [eapply dispatch_safe; eassumption|intros; exact I].
    + (* _process_member_dot_arg *)
      apply wf_member_dot_arg in Hw. destruct Hw as (mcs & v & Hm & Hcs).
      apply wf_member in Hm. destruct Hm as (x & rcs & -> & Hroot & Hin).
      destruct Hcs as [->|(es & ->)].
      * cbn. exact I.
      * assert (Hsz : size (N (nt_name x) rcs) <= k)
          by (cbn [size map list_sum fold_right] in Hk |- *; lia).
        rewrite proc_eq by exact I. cbn [terminal fmt bind].
        apply safe_bind; [eapply dispatch_safe; eassumption|intros; exact I].
    + (* _process_member_index *)
      apply wf_member_index in Hw. destruct Hw as (mcs & ecs & -> & Hm & He).
      apply wf_member in Hm. destruct Hm as (x & rcs & -> & Hroot & Hin).
      assert (Hsz : size (N (nt_name x) rcs) <= k)
        by (cbn [size map list_sum fold_right] in Hk |- *; lia).
      rewrite proc_eq by exact I.
      apply safe_bind; [apply terminal_index_safe; exact He|]. intros term _.
      apply safe_bind; [eapply dispatch_safe; eassumption|intros; exact I].
Qed.

Lemma proc_safe : forall m cs, cel_tree_wf (N (nt_name (mode_nt m)) cs) = true ->
  safe (proc m (N (nt_name (mode_nt m)) cs)).
Proof. intros m cs H. eapply proc_safe_k; [apply le_n|reflexivity|exact H]. Qed.

Lemma visit_total : forall n, cel_tree_wf n = true -> exists o, visit n = Done o.
Proof.
  intros n Hw. destruct (wf_is_tree n Hw) as (d & cs & ->).
  unfold visit.
  destruct (String.eqb_spec d "member_dot") as [->|_].
  - pose proof (proc_safe MDot cs Hw) as Hs. cbn [mode_nt nt_name] in Hs.
    destruct (proc MDot (N "member_dot" cs)) as [s|[]]; cbn in *; try contradiction; eexists; reflexivity.
  - destruct (String.eqb_spec d "member_index") as [->|_].
    + pose proof (proc_safe MIndex cs Hw) as Hs. cbn [mode_nt nt_name] in Hs.
      destruct (proc MIndex (N "member_index" cs)) as [s|[]]; cbn in *; try contradiction; eexists; reflexivity.
    + eexists; reflexivity.
Qed.

Lemma collect_total : forall ns, Forall (fun s => cel_tree_wf s = true) ns ->
  exists S, collect ns = Done S.
Proof.
  induction ns as [|n r IH]; intro H.
  - eexists; reflexivity.
  - inversion H as [|? ? Hn Hr]; subst. destruct (visit_total n Hn) as (o & Ho).
    destruct (IH Hr) as (S & HS). cbn [collect]. rewrite Ho, HS. cbn. eexists; reflexivity.
Qed.

(* C20 (extractor part) / first half of C14: on every tree of the CEL grammar the
   extractor returns a set and raises nothing *)
Theorem extract_total : forall t, cel_tree_wf t = true -> exists S, extract t = Done S.
Proof.
  intros t Hw. destruct (wf_is_tree t Hw) as (d & cs & ->). unfold extract.
  apply collect_total. now apply subtrees_wf.
Qed.

(* ================================================================== *)
(* D. completeness: every member access the extractor can process is in the result *)

Lemma collect_complete : forall ns S n k,
  collect ns = Done S -> In n ns -> visit n = Done (Some k) -> In k S.
Proof.
  induction ns as [|a r IH]; intros S n k HS Hin Hv; [contradiction|].
  cbn [collect] in HS. destruct (visit a) as [o|e] eqn:Ea; [|discriminate HS].
  cbn [bind] in HS. destruct (collect r) as [S'|e] eqn:Er; [|discriminate HS].
  cbn [bind] in HS. inversion HS; subst S; clear HS.
  destruct Hin as [->|Hin].
  - rewrite Hv in Ea. inversion Ea; subst o. now left.
  - specialize (IH S' n k eq_refl Hin Hv). destruct o; [right|]; assumption.
Qed.

(* the only keys in the result are those of member_dot / member_index subtrees *)
Lemma collect_sound : forall ns S k,
  collect ns = Done S -> In k S -> exists n, In n ns /\ visit n = Done (Some k).
Proof.
  induction ns as [|a r IH]; intros S k HS Hk.
  - inversion HS; subst. contradiction.
  - cbn [collect] in HS. destruct (visit a) as [o|e] eqn:Ea; [|discriminate HS].
    cbn [bind] in HS. destruct (collect r) as [S'|e] eqn:Er; [|discriminate HS].
    cbn [bind] in HS. inversion HS; subst S; clear HS.
    destruct o as [s|].
    + destruct Hk as [<-|Hk].
      * exists a. split; [now left|assumption].
      * destruct (IH S' k eq_refl Hk) as (n & Hn & Hv). exists n. split; [now right|assumption].
    + destruct (IH S' k eq_refl Hk) as (n & Hn & Hv). exists n. split; [now right|assumption].
Qed.

(* ---- statically named step references, defined without the extractor ---- *)

(* the identifier `steps` as a receiver *)
Definition steps_member : node := N "member" [N "primary" [N "ident" [Tok "IDENT" "steps"]]].

(* a string literal, alone, as an index expression: expr -> ... -> primary -> literal *)
Definition lit_expr (ty v : string) : node := ch 0 8 (N "literal" [Tok ty v]).

Definition first_is (c : ascii) (s : string) : bool :=
  match s with String a _ => Ascii.eqb a c | EmptyString => false end.
Fixpoint last_is (c : ascii) (s : string) : bool :=
  match s with
  | EmptyString => false
  | String a EmptyString => Ascii.eqb a c
  | String _ r => last_is c r
  end.

Definition quote1 (q : ascii) : string := String q EmptyString.
Definition quote3 (q : ascii) : string := String q (String q (String q EmptyString)).

(* steps.NAME  /  steps['NAME'], steps["NAME"], steps['''NAME'''], steps["""NAME"""] *)
Inductive direct_ref (name : string) : node -> Prop :=
| dr_dot : direct_ref name (N "member_dot" [steps_member; Tok "IDENT" name])
| dr_index : forall (q : ascii) (qs ty : string),
    (q = "'"%char \/ q = """"%char) ->
    (qs = quote1 q /\ ty = "STRING_LIT" \/ qs = quote3 q /\ ty = "MLSTRING_LIT") ->
    first_is q name = false -> last_is q name = false ->
    direct_ref name (N "member_index" [steps_member; lit_expr ty (qs +++ name +++ qs)]).

(* ... at any depth: operands, call arguments, macro bodies, literals, conditionals, indexes *)
Inductive occurs_steps_ref (name : string) : node -> Prop :=
| occ_here : forall n, direct_ref name n -> occurs_steps_ref name n
| occ_child : forall d cs c, In c cs -> occurs_steps_ref name c -> occurs_steps_ref name (N d cs).

(* the names the regular expression returns unchanged *)
Definition not_dot_bracket (a : ascii) : bool := negb (Ascii.eqb a "."%char || Ascii.eqb a "["%char).
Definition name_ok (name : string) : bool :=
  negb (String.eqb name "") && all_chars not_dot_bracket name.

(* valid step labels: the CRD's [[:word:]]+ *)
Definition label_ok (name : string) : bool :=
  negb (String.eqb name "") && all_chars is_word name.

Lemma occurs_subtree : forall name t, occurs_steps_ref name t ->
  exists n, In n (subtrees t) /\ direct_ref name n.
Proof.
  intros name t H. induction H as [n Hd|d cs c Hin Hc IH].
  - exists n. split; [|assumption]. destruct Hd; cbn [subtrees]; now left.
  - destruct IH as (n & Hn & Hd). exists n. split; [|assumption].
    cbn [subtrees]. right. apply in_flat_map. now exists c.
Qed.

(* ---- Python's str.strip on a quoted literal ---- *)

Lemma sapp_cons : forall a r s, String a r +++ s = String a (r +++ s).
Proof. reflexivity. Qed.

Lemma sapp_nil : forall s, "" +++ s = s.
Proof. reflexivity. Qed.

Lemma lstrip_first : forall c s, first_is c s = false -> lstrip c s = s.
Proof. intros c [|a r] H; [reflexivity|]. cbn in *. now rewrite H. Qed.

Lemma rstrip_app : forall c qs name,
  rstrip c qs = "" -> name <> "" -> last_is c name = false -> rstrip c (name +++ qs) = name.
Proof.
  intros c qs name Hq. induction name as [|a r IH]; intros Hne Hl; [congruence|].
  rewrite sapp_cons. cbn [rstrip]. destruct r as [|b r2].
  - rewrite sapp_nil, Hq. cbn in Hl. now rewrite Hl.
  - rewrite IH; [reflexivity|discriminate|exact Hl].
Qed.

Lemma rstrip_quote1 : forall c, rstrip c (quote1 c) = "".
Proof. intro c. cbn. now rewrite Ascii.eqb_refl. Qed.

Lemma rstrip_quote3 : forall c, rstrip c (quote3 c) = "".
Proof. intro c. cbn. now rewrite Ascii.eqb_refl. Qed.

Lemma lstrip_quote1 : forall c s, lstrip c (quote1 c +++ s) = lstrip c s.
Proof. intros. cbn. now rewrite Ascii.eqb_refl. Qed.

Lemma lstrip_quote3 : forall c s, lstrip c (quote3 c +++ s) = lstrip c s.
Proof. intros. cbn. now rewrite !Ascii.eqb_refl. Qed.

Lemma first_is_app : forall c name s, name <> "" -> first_is c (name +++ s) = first_is c name.
Proof. intros c [|a r] s H; [congruence|reflexivity]. Qed.

Lemma strip_quoted : forall q qs name,
  qs = quote1 q \/ qs = quote3 q -> name <> "" ->
  first_is q name = false -> last_is q name = false ->
  strip_char q (qs +++ name +++ qs) = name.
Proof.
  intros q qs name Hqs Hne Hf Hl. unfold strip_char.
  assert (Hr : rstrip q qs = "") by (destruct Hqs as [->| ->]; [apply rstrip_quote1|apply rstrip_quote3]).
  assert (Hls : lstrip q (qs +++ name +++ qs) = name +++ qs).
  { destruct Hqs as [->| ->]; [rewrite lstrip_quote1|rewrite lstrip_quote3];
      apply lstrip_first; now rewrite first_is_app. }
  rewrite Hls. now apply rstrip_app.
Qed.

Lemma name_ok_nonempty : forall name, name_ok name = true -> name <> "".
Proof.
  intros name H. unfold name_ok in H. apply andb_true_iff in H. destruct H as [H _].
  intro E. subst. discriminate H.
Qed.

(* a literal, alone, as index expression: the descent finds it *)
Lemma terminal_lit : forall ty a r,
  String.eqb ty "INT_LIT" = false -> strip_char a (String a r) <> "" ->
  terminal MIndex (lit_expr ty (String a r)) = Done (strip_char a (String a r)).
Proof.
  intros ty a r Hty Hne. unfold lit_expr, ch, levels.
  cbn [skipn firstn Nat.sub chain fold_right terminal descend process_primary bind String.eqb Ascii.eqb Bool.eqb].
  rewrite Hty. cbn [bind].
  destruct (String.eqb_spec (strip_char a (String a r)) "") as [E|_]; [contradiction|reflexivity].
Qed.

Lemma direct_ref_visit : forall name n, name_ok name = true -> direct_ref name n ->
  visit n = Done (Some ("steps." +++ name)).
Proof.
  intros name n Hok Hd. pose proof (name_ok_nonempty name Hok) as Hne.
  destruct Hd as [|q qs ty Hq Hqs Hf Hl].
  - reflexivity.
  - assert (Hs : strip_char q (qs +++ name +++ qs) = name).
    { apply strip_quoted; try assumption. destruct Hqs as [[-> _]|[-> _]]; [now left|now right]. }
    assert (Hty : String.eqb ty "INT_LIT" = false) by (destruct Hqs as [[_ ->]|[_ ->]]; reflexivity).
    assert (Hv : exists r, qs +++ name +++ qs = String q r).
    { destruct Hqs as [[-> _]|[-> _]]; eexists; reflexivity. }
    destruct Hv as (r & Hv).
    unfold visit. cbn [String.eqb Ascii.eqb Bool.eqb].
    unfold steps_member. rewrite proc_eq by exact I.
    rewrite Hv in *. rewrite terminal_lit; [|exact Hty|now rewrite Hs].
    rewrite Hs. reflexivity.
Qed.

(* ---- the regular expression gives the name back ---- *)

Lemma take_name_id : forall s, all_chars not_dot_bracket s = true -> take_name s = s.
Proof.
  induction s as [|a r IH]; intro H; [reflexivity|].
  cbn in H. apply andb_true_iff in H. destruct H as [Ha Hr].
  cbn [take_name]. unfold not_dot_bracket in Ha. apply negb_true_iff in Ha. rewrite Ha.
  now rewrite IH.
Qed.

Lemma strip_prefix_steps : forall s, strip_prefix "steps" ("steps." +++ s) = Some (String "."%char s).
Proof. reflexivity. Qed.

Lemma any_char_dot : forall s, any_char (String "."%char s) = Some s.
Proof. reflexivity. Qed.

Lemma steps_name_key : forall name, name_ok name = true ->
  steps_name ("steps." +++ name) = Some (Some name).
Proof.
  intros name H. unfold name_ok in H. apply andb_true_iff in H. destruct H as [Hne Hc].
  unfold steps_name. rewrite strip_prefix_steps, any_char_dot.
  rewrite take_name_id by assumption.
  apply negb_true_iff in Hne. now rewrite Hne.
Qed.

Lemma needed_steps_in : forall keys k n, In k keys -> steps_name k = Some n -> In n (needed_steps keys).
Proof.
  intros keys k n Hin Hn. unfold needed_steps. apply in_flat_map. exists k. split; [assumption|].
  rewrite Hn. now left.
Qed.

(* C14, first sentence (expression level), without assuming anything about the tree:
   whenever the extractor returns, every statically named step reference is among the
   step names derived from its result *)
Theorem steps_ref_in_result : forall t S name,
  extract t = Done S -> name_ok name = true -> occurs_steps_ref name t ->
  In (Some name) (needed_steps S).
Proof.
  intros t S name HS Hok Hocc.
  destruct (occurs_subtree name t Hocc) as (n & Hn & Hd).
  destruct t as [d cs|ty v]; [|contradiction].
  unfold extract in HS.
  eapply needed_steps_in; [|apply steps_name_key; exact Hok].
  eapply collect_complete; [exact HS|exact Hn|now apply direct_ref_visit].
Qed.

(* ... and on grammar trees the extractor does return *)
Theorem steps_ref_found : forall t name,
  cel_tree_wf t = true -> name_ok name = true -> occurs_steps_ref name t ->
  exists S, extract t = Done S /\ In (Some name) (needed_steps S).
Proof.
  intros t name Hw Hok Hocc. destruct (extract_total t Hw) as (S & HS).
  exists S. split; [assumption|]. eapply steps_ref_in_result; eassumption.
Qed.

(* valid labels are covered, in both forms, with no side condition on quotes *)
Lemma is_word_not_dot_bracket : forall a, is_word a = true -> not_dot_bracket a = true.
Proof.
  intros a H. unfold not_dot_bracket.
  destruct (Ascii.eqb_spec a "."%char) as [->|_]; [vm_compute in H; discriminate H|].
  destruct (Ascii.eqb_spec a "["%char) as [->|_]; [vm_compute in H; discriminate H|].
  reflexivity.
Qed.

Lemma all_chars_impl : forall (p q : ascii -> bool) s,
  (forall a, p a = true -> q a = true) -> all_chars p s = true -> all_chars q s = true.
Proof.
  intros p q s Hpq. induction s as [|a r IH]; intro H; [reflexivity|].
  cbn in *. apply andb_true_iff in H. destruct H as [Ha Hr]. now rewrite (Hpq a Ha), IH.
Qed.

Lemma label_ok_name_ok : forall name, label_ok name = true -> name_ok name = true.
Proof.
  intros name H. unfold label_ok, name_ok in *. apply andb_true_iff in H. destruct H as [H1 H2].
  rewrite H1. cbn. eapply all_chars_impl; [apply is_word_not_dot_bracket|exact H2].
Qed.

Lemma is_word_not_quote : forall a q, (q = "'"%char \/ q = """"%char) -> is_word a = true -> Ascii.eqb a q = false.
Proof.
  intros a q [->| ->] H.
  - destruct (Ascii.eqb_spec a "'"%char) as [->|_]; [vm_compute in H; discriminate H|reflexivity].
  - destruct (Ascii.eqb_spec a """"%char) as [->|_]; [vm_compute in H; discriminate H|reflexivity].
Qed.

Lemma label_ok_no_edge_quote : forall name q, (q = "'"%char \/ q = """"%char) ->
  label_ok name = true -> first_is q name = false /\ last_is q name = false.
Proof.
  intros name q Hq H. unfold label_ok in H. apply andb_true_iff in H. destruct H as [_ H].
  split.
  - destruct name as [|a r]; [reflexivity|]. cbn in *. apply andb_true_iff in H. destruct H as [Ha _].
    now apply is_word_not_quote.
  - induction name as [|a r IH]; [reflexivity|]. cbn in H. apply andb_true_iff in H. destruct H as [Ha Hr].
    destruct r as [|b r2]; [cbn; now apply is_word_not_quote|]. cbn [last_is]. now apply IH.
Qed.
