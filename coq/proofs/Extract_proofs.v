(* Extract_proofs.v — lemmas and proofs about model/Tree.v and model/Extract.v
   (properties C14 and the extractor-totality part of C20). *)
From Koreo Require Import Tree Extract.
From Coq Require Import Lia.
Local Open Scope string_scope.
Local Open Scope list_scope.
Local Open Scope nat_scope.

(* ================================================================== *)
(* A. nonterminal names *)

Lemma nt_of_string_name : forall d x, nt_of_string d = Some x -> d = nt_name x.
Proof.
  intros d x. unfold nt_of_string, all_nts. cbn [find nt_name].
  repeat match goal with
         | |- context [String.eqb ?a d] =>
             destruct (String.eqb_spec a d);
             [ intro H; inversion H; subst; reflexivity | ]
         end.
  discriminate.
Qed.

Lemma nt_of_string_nt_name : forall x, nt_of_string (nt_name x) = Some x.
Proof. destruct x; reflexivity. Qed.

Lemma nt_name_inj : forall x y, nt_name x = nt_name y -> x = y.
Proof.
  intros x y H. pose proof (nt_of_string_nt_name x) as Hx. rewrite H in Hx.
  rewrite nt_of_string_nt_name in Hx. congruence.
Qed.

Lemma is_sub_inv : forall x c, is_sub x (head_of c) = true -> exists cs, c = N (nt_name x) cs.
Proof.
  intros x [d cs|ty v] H; [|discriminate H].
  unfold is_sub, head_of in H.
  destruct (nt_of_string d) as [y|] eqn:E; [|discriminate H].
  apply String.eqb_eq in H. apply nt_of_string_name in E. subst d.
  exists cs. now rewrite H.
Qed.

Lemma is_tok_inv : forall ty c, is_tok ty (head_of c) = true -> exists v, c = Tok ty v.
Proof.
  intros ty [d cs|t v] H; [discriminate H|].
  cbn in H. apply String.eqb_eq in H. subst. now exists v.
Qed.

Lemma is_sub_any_inv : forall xs c, is_sub_any xs (head_of c) = true ->
  exists x cs, In x xs /\ c = N (nt_name x) cs.
Proof.
  intros xs c H. unfold is_sub_any in H. apply existsb_exists in H.
  destruct H as (x & Hin & Hx). apply is_sub_inv in Hx. destruct Hx as (cs & ->).
  now exists x, cs.
Qed.

(* ================================================================== *)
(* B. what well-formedness gives *)

Definition child_wf (c : node) : bool :=
  match c with Tok _ _ => true | N _ _ => cel_tree_wf c end.

Lemma wf_inv : forall d cs, cel_tree_wf (N d cs) = true ->
  exists x, d = nt_name x /\ shape x (map head_of cs) = true /\
            forallb tok_ok cs = true /\ forallb child_wf cs = true.
Proof.
  intros d cs H. cbn [cel_tree_wf] in H. destruct (nt_of_string d) as [x|] eqn:E; [|discriminate H].
  apply andb_true_iff in H. destruct H as [H H3]. apply andb_true_iff in H. destruct H as [H1 H2].
  exists x. split; [now apply nt_of_string_name|]. repeat split; assumption.
Qed.

Lemma wf_intro : forall x cs, shape x (map head_of cs) = true -> forallb tok_ok cs = true ->
  forallb child_wf cs = true -> cel_tree_wf (N (nt_name x) cs) = true.
Proof.
  intros x cs H1 H2 H3. cbn [cel_tree_wf]. rewrite nt_of_string_nt_name.
  unfold child_wf in H3. rewrite H1, H2. cbn [andb]. exact H3.
Qed.

Lemma wf_is_tree : forall n, cel_tree_wf n = true -> exists d cs, n = N d cs.
Proof. intros [d cs|ty v] H; [now exists d, cs|discriminate]. Qed.

Lemma child_wf_sub : forall d cs, child_wf (N d cs) = true -> cel_tree_wf (N d cs) = true.
Proof. intros; assumption. Qed.

(* every subtree of a grammar tree is a grammar tree *)
Lemma subtrees_wf : forall n, cel_tree_wf n = true ->
  Forall (fun s => cel_tree_wf s = true) (subtrees n).
Proof.
  induction n as [d cs IH|ty v] using node_ind'; intro H; [|discriminate].
  cbn [subtrees]. constructor; [assumption|].
  apply wf_inv in H. destruct H as (x & _ & _ & _ & Hc).
  rewrite forallb_forall in Hc. rewrite Forall_forall in IH.
  apply Forall_forall. intros s Hs. apply in_flat_map in Hs. destruct Hs as (c & Hc1 & Hc2).
  specialize (IH c Hc1). specialize (Hc c Hc1).
  destruct c as [d' cs'|ty v]; [|cbn in Hc2; contradiction].
  pose proof (IH Hc) as HF. rewrite Forall_forall in HF. now apply HF.
Qed.

Lemma subtrees_are_trees : forall n s, In s (subtrees n) -> is_tree s = true.
Proof.
  induction n as [d cs IH|ty v] using node_ind'; intros s Hs; [|contradiction].
  cbn [subtrees] in Hs. destruct Hs as [<-|Hs]; [reflexivity|].
  apply in_flat_map in Hs. destruct Hs as (c & Hc1 & Hc2).
  rewrite Forall_forall in IH. eapply IH; eassumption.
Qed.

(* ---- tactics for reading a production off [shape] ---- *)

Ltac split_and H :=
  repeat match type of H with
         | (_ && _) = true =>
             let H1 := fresh H in
             apply andb_true_iff in H; destruct H as [H1 H]; split_and H1
         end.

Ltac inv_heads :=
  repeat match goal with
         | H : is_sub _ (head_of _) = true |- _ =>
             apply is_sub_inv in H; destruct H as (? & ->)
         | H : is_tok _ (head_of _) = true |- _ =>
             apply is_tok_inv in H; destruct H as (? & ->)
         end.

(* x is now known: read the children off the rule *)
Ltac read_shape Hs cs :=
  destruct cs as [|? [|? [|? [|? ?]]]];
  cbn [shape opt_left ident_optargs map] in Hs; try discriminate Hs;
  split_and Hs; inv_heads.

Lemma wf_name_inv : forall x cs, cel_tree_wf (N (nt_name x) cs) = true ->
  shape x (map head_of cs) = true /\ forallb tok_ok cs = true /\ forallb child_wf cs = true.
Proof.
  intros x cs H. apply wf_inv in H. destruct H as (y & Hn & H).
  apply nt_name_inj in Hn. now subst y.
Qed.

(* ---- the productions the extractor walks through ---- *)

Lemma wf_member_dot : forall cs, cel_tree_wf (N "member_dot" cs) = true ->
  exists mcs v, cs = [N "member" mcs; Tok "IDENT" v] /\ cel_tree_wf (N "member" mcs) = true.
Proof.
  intros cs H. apply (wf_name_inv Member_dot) in H. destruct H as (Hs & _ & Hc).
  read_shape Hs cs. cbn [forallb child_wf] in Hc. split_and Hc.
  eexists _, _. split; [reflexivity|assumption].
Qed.

Lemma wf_member_dot_arg : forall cs, cel_tree_wf (N "member_dot_arg" cs) = true ->
  exists mcs v, cel_tree_wf (N "member" mcs) = true /\
    (cs = [N "member" mcs; Tok "IDENT" v] \/
     exists es, cs = [N "member" mcs; Tok "IDENT" v; N "exprlist" es]).
Proof.
  intros cs H. apply (wf_name_inv Member_dot_arg) in H. destruct H as (Hs & _ & Hc).
  read_shape Hs cs; cbn [forallb child_wf] in Hc; split_and Hc;
    eexists _, _; (split; [eassumption|]); [left; reflexivity|right; eexists; reflexivity].
Qed.

Lemma wf_member_index : forall cs, cel_tree_wf (N "member_index" cs) = true ->
  exists mcs ecs, cs = [N "member" mcs; N "expr" ecs] /\
    cel_tree_wf (N "member" mcs) = true /\ cel_tree_wf (N "expr" ecs) = true.
Proof.
  intros cs H. apply (wf_name_inv Member_index) in H. destruct H as (Hs & _ & Hc).
  read_shape Hs cs. cbn [forallb child_wf] in Hc. split_and Hc.
  eexists _, _. split; [reflexivity|split; assumption].
Qed.

Lemma wf_member : forall cs, cel_tree_wf (N "member" cs) = true ->
  exists x rcs, cs = [N (nt_name x) rcs] /\ cel_tree_wf (N (nt_name x) rcs) = true /\
    In x [Member_dot; Member_dot_arg; Member_index; Member_object; Primary].
Proof.
  intros cs H. apply (wf_name_inv Member) in H. destruct H as (Hs & _ & Hc).
  read_shape Hs cs. apply is_sub_any_inv in Hs. destruct Hs as (x & rcs & Hin & ->).
  cbn [forallb child_wf] in Hc. split_and Hc.
  exists x, rcs. split; [reflexivity|split; assumption].
Qed.

Lemma wf_primary : forall cs, cel_tree_wf (N "primary" cs) = true ->
  exists x pcs, cs = [N (nt_name x) pcs] /\ cel_tree_wf (N (nt_name x) pcs) = true /\
    In x [Literal; Dot_ident_arg; Dot_ident; Ident_arg; Paren_expr; List_lit; Map_lit; Ident].
Proof.
  intros cs H. apply (wf_name_inv Primary) in H. destruct H as (Hs & _ & Hc).
  read_shape Hs cs. apply is_sub_any_inv in Hs. destruct Hs as (x & rcs & Hin & ->).
  cbn [forallb child_wf] in Hc. split_and Hc.
  exists x, rcs. split; [reflexivity|split; assumption].
Qed.

Lemma wf_ident : forall cs, cel_tree_wf (N "ident" cs) = true -> exists v, cs = [Tok "IDENT" v].
Proof.
  intros cs H. apply (wf_name_inv Ident) in H. destruct H as (Hs & _ & _).
  read_shape Hs cs. eexists; reflexivity.
Qed.

Lemma wf_literal : forall cs, cel_tree_wf (N "literal" cs) = true ->
  exists ty a r, cs = [Tok ty (String a r)] /\ In ty literal_token_types.
Proof.
  intros cs H. apply (wf_name_inv Literal) in H. destruct H as (Hs & Ht & _).
  read_shape Hs cs. apply existsb_exists in Hs. destruct Hs as (ty & Hin & Hty).
  apply is_tok_inv in Hty. destruct Hty as (v & ->).
  cbn [forallb tok_ok] in Ht.
  assert (Hne : String.eqb ty "IDENT" = false).
  { cbn [literal_token_types In] in Hin.
    repeat (destruct Hin as [<-|Hin]; [reflexivity|]). contradiction. }
  rewrite Hne in Ht. destruct v as [|a r]; [discriminate Ht|].
  exists ty, a, r. split; [reflexivity|assumption].
Qed.

(* ================================================================== *)
(* C. the extractor raises nothing but UnsupportedStructure inside, and nothing at all outside *)

Definition safe {A} (r : res A) : Prop :=
  match r with
  | Done _ => True
  | Raised EUnsupported => True
  | Raised _ => False
  end.

Lemma safe_bind : forall A B (r : res A) (f : A -> res B),
  safe r -> (forall a, r = Done a -> safe (f a)) -> safe (bind r f).
Proof.
  intros A B [a|e] f Hr Hf; cbn.
  - now apply Hf.
  - exact Hr.
Qed.

Lemma primary_safe : forall cs, cel_tree_wf (N "primary" cs) = true ->
  safe (process_primary (N "primary" cs)).
Proof.
  intros cs H. apply wf_primary in H. destruct H as (x & pcs & -> & Hw & Hin).
  cbn [In] in Hin.
  repeat (destruct Hin as [<-|Hin]); try contradiction; cbn [nt_name] in *;
    try (cbn; exact I).
  - (* literal *)
    apply wf_literal in Hw. destruct Hw as (ty & a & r & -> & _).
    cbn. destruct (String.eqb ty "INT_LIT"); exact I.
  - (* ident *)
    apply wf_ident in Hw. destruct Hw as (v & ->). cbn. exact I.
Qed.

(* the nonterminals the index-expression descent can pass through *)
Definition desc_nt (x : nt) : bool :=
  match x with
  | Expr | Conditionalor | Conditionaland
  | Relation | Relation_lt | Relation_le | Relation_gt | Relation_ge | Relation_eq | Relation_ne | Relation_in
  | Addition | Addition_add | Addition_sub
  | Multiplication | Multiplication_mul | Multiplication_div | Multiplication_mod
  | Unary | Unary_not | Unary_neg
  | Member | Member_dot | Member_dot_arg | Member_index | Member_object | Primary => true
  | _ => false
  end.

(* children[0] of such a node is again such a node (or there are no children) *)
Lemma first_child_desc : forall x cs,
  desc_nt x = true -> x <> Primary -> cel_tree_wf (N (nt_name x) cs) = true ->
  cs = [] \/ exists y ccs rest, cs = N (nt_name y) ccs :: rest /\ desc_nt y = true /\
                                 cel_tree_wf (N (nt_name y) ccs) = true.
Proof.
  intros x cs Hd Hp H. apply wf_name_inv in H. destruct H as (Hs & _ & Hc).
  destruct x; try discriminate Hd; try congruence;
    read_shape Hs cs; try (left; reflexivity); right;
    repeat match goal with
           | H : is_sub_any _ (head_of _) = true |- _ =>
               apply is_sub_any_inv in H; destruct H as (? & ? & H & ->); cbn [In] in H
           end;
    cbn [forallb child_wf] in Hc; split_and Hc;
    repeat match goal with
           | H : _ = _ \/ _ |- _ => destruct H as [<-|H]
           | H : False |- _ => contradiction
           end;
    eexists _, _, _; (split; [reflexivity|split; [reflexivity|eassumption]]).
Qed.

Lemma nt_eq_dec : forall x y : nt, {x = y} + {x <> y}.
Proof. decide equality. Qed.

Lemma nt_name_not_primary : forall x, x <> Primary -> String.eqb (nt_name x) "primary" = false.
Proof. destruct x; intro H; try reflexivity; congruence. Qed.

Lemma descend_safe : forall n x cs, n = N (nt_name x) cs -> desc_nt x = true ->
  cel_tree_wf n = true -> safe (descend n).
Proof.
  induction n as [d cs0 IH|ty v] using node_ind'; intros x cs E Hd Hw; [|discriminate E].
  inversion E; subst d cs0; clear E.
  destruct (nt_eq_dec x Primary) as [->|Hne].
  - cbn [nt_name] in *. pose proof (primary_safe _ Hw) as Hs.
    apply wf_primary in Hw. destruct Hw as (y & pcs & -> & _ & _).
    cbn [descend]. replace (String.eqb "primary" "primary") with true by reflexivity.
    apply safe_bind; [exact Hs|]. intros; exact I.
  - destruct (first_child_desc x cs Hd Hne Hw) as [->|(y & ccs & rest & -> & Hdy & Hwy)].
    + cbn. exact I.
    + cbn [descend]. rewrite (nt_name_not_primary x Hne).
      inversion IH as [|? ? IHc _]; subst. eapply IHc; [reflexivity|exact Hdy|exact Hwy].
Qed.

Definition mode_nt (m : mode) : nt :=
  match m with MDot => Member_dot | MDotArg => Member_dot_arg | MIndex => Member_index end.

(* the root dispatch shared by the three functions, once the receiver [member] node is known *)
Ltac root_cases Hin IHk Hroot :=
  cbn [In] in Hin;
  repeat (destruct Hin as [<-|Hin]); try contradiction; cbn [nt_name] in *;
  cbn [String.eqb Ascii.eqb Bool.eqb];
  [ apply safe_bind; [apply (IHk _ MDot _); [|reflexivity|exact Hroot]|intros; exact I]
  | apply safe_bind; [apply (IHk _ MDotArg _); [|reflexivity|exact Hroot]|intros; exact I]
  | apply safe_bind; [apply (IHk _ MIndex _); [|reflexivity|exact Hroot]|intros; exact I]
  | exact I
  | apply safe_bind; [apply primary_safe; exact Hroot|intros; exact I] ].

Lemma terminal_index_safe : forall ecs, cel_tree_wf (N "expr" ecs) = true ->
  safe (terminal MIndex (N "expr" ecs)).
Proof.
  intros ecs H. cbn [terminal]. cbn [String.eqb Ascii.eqb Bool.eqb].
  apply safe_bind.
  - eapply (descend_safe _ Expr); [reflexivity|reflexivity|exact H].
  - intros [v|] _; [|exact I]. destruct (String.eqb v ""); exact I.
Qed.

Lemma proc_safe_k : forall k n m cs, size n <= k -> n = N (nt_name (mode_nt m)) cs ->
  cel_tree_wf n = true -> safe (proc m n).
Proof.
  induction k as [|k IHk]; intros n m cs Hk E Hw.
  - subst n. cbn [size] in Hk. exfalso. lia.
  - subst n. destruct m; cbn [mode_nt nt_name] in *.
    + (* _process_member_dot *)
      apply wf_member_dot in Hw. destruct Hw as (mcs & v & -> & Hm).
      apply wf_member in Hm. destruct Hm as (x & rcs & -> & Hroot & Hin).
      cbn [proc terminal fmt bind].
      assert (Hsz : size (N (nt_name x) rcs) <= k) by (cbn [size map list_sum fold_right] in Hk |- *; lia).
      root_cases Hin IHk Hroot; exact Hsz.
    + (* _process_member_dot_arg *)
      apply wf_member_dot_arg in Hw. destruct Hw as (mcs & v & Hm & Hcs).
      apply wf_member in Hm. destruct Hm as (x & rcs & -> & Hroot & Hin).
      destruct Hcs as [->|(es & ->)].
      * cbn. exact I.
      * cbn [proc terminal fmt bind].
        assert (Hsz : size (N (nt_name x) rcs) <= k) by (cbn [size map list_sum fold_right] in Hk |- *; lia).
        root_cases Hin IHk Hroot; exact Hsz.
    + (* _process_member_index *)
      apply wf_member_index in Hw. destruct Hw as (mcs & ecs & -> & Hm & He).
      apply wf_member in Hm. destruct Hm as (x & rcs & -> & Hroot & Hin).
      cbn [proc]. apply safe_bind; [apply terminal_index_safe; exact He|]. intros term _.
      assert (Hsz : size (N (nt_name x) rcs) <= k) by (cbn [size map list_sum fold_right] in Hk |- *; lia).
      root_cases Hin IHk Hroot; exact Hsz.
Qed.

Lemma proc_safe : forall m cs, cel_tree_wf (N (nt_name (mode_nt m)) cs) = true ->
  safe (proc m (N (nt_name (mode_nt m)) cs)).
Proof. intros m cs H. eapply proc_safe_k; [apply le_n|reflexivity|exact H]. Qed.
