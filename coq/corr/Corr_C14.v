(* Corr_C14.v — what a C14 correspondence case is and how it is decided.
   Every case pairs an input on which the REAL koreo code was run with what was
   observed; [check_case] evaluates the model on the same input and compares. *)
From Koreo Require Export CorrLib Tree Extract.
Local Open Scope string_scope.
Local Open Scope list_scope.
Local Open Scope nat_scope.

Definition exn_eqb (a b : exn) : bool :=
  match a, b with
  | EAttributeError, EAttributeError | EIndexError, EIndexError | ETypeError, ETypeError
  | EUnsupported, EUnsupported | EOutOfModel, EOutOfModel => true
  | _, _ => false
  end.

Definition smem (s : string) (l : list string) : bool := existsb (String.eqb s) l.
Definition sset_eqb (a b : list string) : bool := forallb (fun x => smem x b) a && forallb (fun x => smem x a) b.

Definition ostr_eqb (a b : option string) : bool := opt_eqb String.eqb a b.
Definition omem (s : option string) (l : list (option string)) : bool := existsb (ostr_eqb s) l.
Definition oset_eqb (a b : list (option string)) : bool :=
  forallb (fun x => omem x b) a && forallb (fun x => omem x a) b.

Definition rmem (r : resource) (l : list resource) : bool := existsb (resource_eqb r) l.
Definition rset_eqb (a b : list resource) : bool := forallb (fun x => rmem x b) a && forallb (fun x => rmem x a) b.

(* observed result of extract_argument_structure *)
Inductive xobs := XDone (keys : list string) | XRaised (e : exn).

Definition xobs_ok (r : res (list string)) (o : xobs) : bool :=
  match r, o with
  | Done a, XDone b => sset_eqb a b
  | Raised e, XRaised e' => exn_eqb e e'
  | _, _ => false
  end.

(* observed result of prepare_workflow *)
Inductive wobs :=
| WRaised (e : exn)
| WDone (ready : oclass) (steps : list step_out) (parent : list string) (watched : list resource).

Definition step_out_eqb (a b : step_out) : bool :=
  match a, b with
  | SErr l c, SErr l' c' => String.eqb l l' && oc_eqb c c'
  | SStep l d, SStep l' d' => String.eqb l l' && sset_eqb d d'
  | _, _ => false
  end.

Definition wobs_ok (r : res prepared_workflow) (o : wobs) : bool :=
  match r, o with
  | Raised e, WRaised e' => exn_eqb e e'
  | Done w, WDone ready steps parent watched =>
      oc_eqb (pw_ready w) ready && list_eqb step_out_eqb (pw_steps w) steps &&
      sset_eqb (pw_parent w) parent && rset_eqb (pw_watched w) watched
  | _, _ => false
  end.

Inductive case :=
(* a tree the real parser produced (from_parser = true: it must satisfy the grammar
   predicate) or a hand-damaged one; the real extractor's result; the names the
   real regexes derive from that result *)
| CExtract (t : node) (from_parser : bool) (o : xobs)
           (steps : list (option string)) (parent : list string)
(* one key through the two real regexes *)
| CRegex (key : string) (s : option (option string)) (p : option string)
(* prepare_workflow *)
| CWorkflow (steps : list step_spec) (o : wobs) (gate_started : list string)
(* prepare_resource_function's watch list (None = PermFail) *)
| CRF (rest_ok : bool) (ovs : list overlay_spec) (o : option (list string))
(* prepare_function_test's first watched resource (None = PermFail) *)
| CFT (kind name : string) (cases_ok inputs_ok : bool) (o : option resource).

Definition check_case (c : case) : bool :=
  match c with
  | CExtract t from_parser o steps parent =>
      (if from_parser then cel_expr_wf t else true) &&
      xobs_ok (extract t) o &&
      match o with
      | XDone keys => oset_eqb (needed_steps keys) steps && sset_eqb (needed_parent keys) parent
      | XRaised _ => true
      end
  | CRegex key s p =>
      opt_eqb ostr_eqb (steps_name key) s && ostr_eqb (parent_name key) p
  | CWorkflow steps o started =>
      (* every compiled expression came from the real parser: it must be a grammar tree *)
      forallb (fun st => forallb cel_expr_wf (step_trees st)) steps &&
      wobs_ok (prepare_workflow steps) o &&
      match prepare_workflow steps with
      | Done w => sset_eqb (started_steps w) started
      | Raised _ => true
      end
  | CRF rest_ok ovs o =>
      match rf_watched rest_ok ovs, o with
      | None, None => true
      | Some a, Some b => sset_eqb a b
      | _, _ => false
      end
  | CFT kind name cases_ok inputs_ok o =>
      opt_eqb resource_eqb (ft_watched_head kind name cases_ok inputs_ok) o
  end.

(* hand-damaged (non-grammar) trees: when the model says the real code formats a lark Tree
   into a key (its repr is not modelled) the case is not compared *)
Definition check_case_damaged (c : case) : bool :=
  match c with
  | CExtract t _ o _ _ =>
      match extract t with
      | Raised EOutOfModel => true
      | _ => check_case c
      end
  | _ => false
  end.
