(* Corr_C01.v — correspondence of model/Workflow.v with the real
   koreo.workflow.reconcile.reconcile_workflow: for a generated Workflow
   (prepared by the real prepare_workflow through the real cache), trigger and
   cluster content, the real pass must produce exactly the per-step outcomes,
   overall result, conditions, state, state errors, resource ids and — as
   recorded by the harness's shims — exactly the evaluations of Logic (which
   target, under which step / forEach index, with which inputs, making which
   API calls) that the model computes.

   [std_fn_sem] is the harness's function library (harness/wf_model.py
   FUNCTIONS): the instance of the abstract [fn_sem] used here. *)
From Koreo Require Export CorrLib Workflow.
Local Open Scope list_scope.

(* ---------- the function library ---------- *)

Definition RES_CREATE_DELAY : Z := 11.
Definition RES_PATCH_DELAY : Z := 13.

Definition res_rid_of (kind plural fn n : string) : json :=
  JMap [("apiVersion", JStr "example.dev/v1"); ("kind", JStr kind); ("plural", JStr plural);
        ("name", JStr n); ("readonly", JBool false); ("namespace", JStr "ns1");
        ("resourceFunction", JStr fn)].
(* res: Widget with an explicit plural; resl: Gadget whose plural is looked up (api.lookup_kind);
   resd: Dwidget whose present object has drifted inside a list compared as a set *)
Definition res_rid (f n : string) : json :=
  if String.eqb f "res" then res_rid_of "Widget" "widgets" "res" n
  else if String.eqb f "resd" then res_rid_of "Dwidget" "dwidgets" "resd" n
  else res_rid_of "Gadget" "gadgets" "resl" n.

Definition plain (o : sout) : fres := {| f_out := o; f_rid := None; f_calls := [] |}.

Definition std_fn_sem (existing : list string) (f : fid) (inputs : json) : fres :=
  if String.eqb f "echo" then plain (SVal (JMap [("got", inputs)]))
  else if String.eqb f "null" then plain (SVal JNull)
  else if String.eqb f "bycls" then
    match inputs with
    | JMap kvs =>
        match lookup "cls" kvs with
        | Some (JStr c) =>
            if String.eqb c "skip" then plain (SNon NSkip)
            else if String.eqb c "depskip" then plain (SNon NDepSkip)
            else if String.eqb c "retry7" then plain (SNon (NRetry 7))
            else if String.eqb c "retry30" then plain (SNon (NRetry 30))
            else if String.eqb c "permfail" then plain (SNon NPermFail)
            else if String.eqb c "err" then plain (SNon NPermFail)
            else plain (SVal (JMap [("got", inputs); ("chk", JInt 0)]))
        | _ => plain (SNon NPermFail)     (* not generated: cls is always a string *)
        end
    | _ => plain (SNon NPermFail)
    end
  else if String.eqb f "res" || String.eqb f "resl" || String.eqb f "resd" then
    match inputs with
    | JMap kvs =>
        match lookup "name" kvs with
        | Some (JStr n) =>
            if mem_str n existing && String.eqb f "resd"
            then {| f_out := SNon (NRetry RES_PATCH_DELAY); f_rid := Some (res_rid f n);
                    f_calls := [("GET", n); ("PATCH", n)] |}
            else if mem_str n existing
            then {| f_out := SVal (JMap [("got", inputs)]); f_rid := Some (res_rid f n);
                    f_calls := [("GET", n)] |}
            else {| f_out := SNon (NRetry RES_CREATE_DELAY); f_rid := Some (res_rid f n);
                    f_calls := [("GET", n); ("POST", n)] |}
        | _ => plain (SNon NPermFail)     (* not generated: name is always a string *)
        end
    | _ => plain (SNon NPermFail)
    end
  else plain (SNon NPermFail).

(* ---------- observations ---------- *)

Inductive oresult := OList (vs : list json) | ONon (o : nonok).

Record obs := { o_result : oresult;
                o_outcomes : list (string * sout);
                o_conds : list (string * string);
                o_state : json;
                o_state_errs : list string;
                o_rids : rids;
                o_trace : list inv;
                o_calls : list call }.

Record case := mkCase { c_existing : list string; c_name : string; c_ready : option nonok;
                        c_steps : list step; c_trigger : json; c_obs : obs }.

Definition nonok_eqb (a b : nonok) : bool :=
  match a, b with
  | NDepSkip, NDepSkip | NSkip, NSkip | NPermFail, NPermFail => true
  | NRetry x, NRetry y => Z.eqb x y
  | _, _ => false
  end.

Definition sout_eqb (a b : sout) : bool :=
  match a, b with
  | SVal x, SVal y => json_eqb x y
  | SNon x, SNon y => nonok_eqb x y
  | _, _ => false
  end.

Definition pair_eqb {A B} (ea : A -> A -> bool) (eb : B -> B -> bool) (x y : A * B) : bool :=
  ea (fst x) (fst y) && eb (snd x) (snd y).

Definition result_eqb (m : uresult json) (o : oresult) : bool :=
  match m, o with
  | UList vs, OList ws => list_eqb json_eqb vs ws
  | UNon x, ONon y => sout_eqb (of_outcome x) (SNon y)
  | _, _ => false
  end.

Fixpoint rids_eqb (a b : rids) {struct a} : bool :=
  match a, b with
  | RNone, RNone => true
  | REmpty, REmpty => true
  | RRes x, RRes y => json_eqb x y
  | RMany xs, RMany ys =>
      (fix go (xs ys : list rids) : bool :=
         match xs, ys with
         | [], [] => true
         | x :: xr, y :: yr => rids_eqb x y && go xr yr
         | _, _ => false
         end) xs ys
  | RWf n xs, RWf n' ys =>
      String.eqb n n' &&
      (fix go (xs ys : list (string * rids)) : bool :=
         match xs, ys with
         | [], [] => true
         | (k, x) :: xr, (k', y) :: yr => String.eqb k k' && rids_eqb x y && go xr yr
         | _, _ => false
         end) xs ys
  | _, _ => false
  end.

Definition onat_eqb := opt_eqb Nat.eqb.
Definition pseg_eqb : pseg -> pseg -> bool := pair_eqb String.eqb onat_eqb.
Definition call_eqb : call -> call -> bool := pair_eqb String.eqb String.eqb.

Definition target_eqb (a b : target) : bool :=
  match a, b with
  | TgFn x, TgFn y | TgSub x, TgSub y => String.eqb x y
  | _, _ => false
  end.

Definition inv_eqb (a b : inv) : bool :=
  list_eqb pseg_eqb (i_path a) (i_path b) && target_eqb (i_tgt a) (i_tgt b) &&
  json_eqb (i_inputs a) (i_inputs b) && list_eqb call_eqb (i_calls a) (i_calls b).

(* equality of multisets (the real trace is in execution order, the model's in listed order) *)
Fixpoint remove_first {A} (eqb : A -> A -> bool) (x : A) (l : list A) : option (list A) :=
  match l with
  | [] => None
  | y :: r => if eqb x y then Some r
              else match remove_first eqb x r with
                   | Some r' => Some (y :: r')
                   | None => None
                   end
  end.

Fixpoint multiset_eqb {A} (eqb : A -> A -> bool) (a b : list A) : bool :=
  match a with
  | [] => match b with [] => true | _ => false end
  | x :: r => match remove_first eqb x b with
              | Some b' => multiset_eqb eqb r b'
              | None => false
              end
  end.

Definition check_fields (w : wres) (o : obs) : list bool :=
  [ result_eqb (w_result w) (o_result o);
    list_eqb (pair_eqb String.eqb sout_eqb) (w_outcomes w) (o_outcomes o);
    list_eqb (pair_eqb String.eqb String.eqb) (w_conds w) (o_conds o);
    json_eqb (JMap (w_state w)) (o_state o);
    list_eqb String.eqb (w_state_errs w) (o_state_errs o);
    rids_eqb (w_rids w) (o_rids o);
    multiset_eqb inv_eqb (w_trace w) (o_trace o);
    multiset_eqb call_eqb (map snd (calls_of (w_trace w))) (o_calls o) ].

Definition model_of (c : case) : wres :=
  run_workflow (std_fn_sem (c_existing c)) (c_name c) (c_ready c) (c_steps c) (c_trigger c).

Definition check_case (c : case) : bool :=
  forallb (fun b => b) (check_fields (model_of c) (c_obs c)).

(* which fields disagree (for debugging a mismatch) *)
Definition explain (c : case) : list bool := check_fields (model_of c) (c_obs c).
