(* CorrLib.v — helpers for the generated correspondence case files. *)
From Koreo Require Export Json.
Local Open Scope nat_scope.

Fixpoint bad_from {A} (f : A -> bool) (n : nat) (l : list A) : list nat :=
  match l with
  | [] => []
  | x :: r => if f x then bad_from f (S n) r else n :: bad_from f (S n) r
  end.

(* indices (from 0) of the cases on which model and observation disagree *)
Definition bad_indices {A} (f : A -> bool) (l : list A) : list nat := bad_from f 0 l.

Definition opt_eqb {A} (eqb : A -> A -> bool) (a b : option A) : bool :=
  match a, b with
  | None, None => true
  | Some x, Some y => eqb x y
  | _, _ => false
  end.

Fixpoint list_eqb {A} (eqb : A -> A -> bool) (a b : list A) : bool :=
  match a, b with
  | [], [] => true
  | x :: xr, y :: yr => eqb x y && list_eqb eqb xr yr
  | _, _ => false
  end.
