(* Corr_C02.v — correspondence for C02: the real reconcile_workflow is run under
   a virtual-time loop with injected API latencies; the harness records the
   ORDER in which the step tasks and forEach item tasks finished.  The
   completion-order semantics (model/Sched.v) must accept exactly that order
   (a step / item only after the step's dependencies, a forEach join only after
   its items) and, assembled the way the code does, give exactly the observed
   Result; and so must the sequential model (Corr_C01.check_case). *)
From Koreo Require Export CorrLib Workflow Sched.
From Koreo Require Import Corr_C01.
Local Open Scope list_scope.

Record scase := mkSCase { k_case : Corr_C01.case; k_sched : list event }.
Definition case := scase.

Definition sched_model (c : scase) : option wres :=
  let k := k_case c in
  sched_result (run_logic (std_fn_sem (c_existing k))) (c_steps k) (c_trigger k) (c_name k) (k_sched c).

Definition check_sched_case (c : scase) : bool :=
  Corr_C01.check_case (k_case c) &&
  match c_ready (k_case c) with
  | Some _ => true                      (* steps not ready: nothing is scheduled *)
  | None =>
      match sched_model c with
      | Some w => forallb (fun b => b) (check_fields w (c_obs (k_case c)))
      | None => false
      end
  end.

Definition check_case := check_sched_case.

Definition explain_sched (c : scase) :=
  (Corr_C01.explain (k_case c),
   match sched_model c with
   | Some w => Some (check_fields w (c_obs (k_case c)))
   | None => None
   end).
