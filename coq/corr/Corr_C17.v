(* Corr_C17.v — what a C17 correspondence case is and how it is decided.
   A case is a sequence of registry operations run from the empty registry
   together with what the harness saw of the real module after EVERY operation:
   the operation's result / exception class, both dict views as edge lists, the
   queue dict, and every queue object ever created (items, shutdown flag,
   unfinished-task count). *)
From Koreo Require Export CorrLib Registry.
Local Open Scope nat_scope.
Local Open Scope list_scope.

Inductive eo := Ed (a b : nat).
(* a queue object: queue._queue (Python order: oldest first, get_nowait takes
   the LAST), queue._is_shutdown, queue._unfinished_tasks, queue.maxsize *)
Inductive qo := QO (its : list event) (sh : bool) (unf : nat) (maxsize : nat).
(* _RESOURCE_SUBSCRIBERS as (resource, subscriber) pairs, _SUBSCRIBER_RESOURCES
   as (subscriber, resource) pairs, _SUBSCRIPTION_QUEUES as (resource, queue
   index) pairs; all sorted, empty sets dropped *)
Inductive so := SO (o_subs o_watches o_queues : list eo) (o_heap : list qo).
Inductive stepo := Step (o : op) (r : result) (s : so).
Inductive case := CSeq (steps : list stepo).

Definition event_eqb (a b : event) : bool :=
  match a, b with
  | EKill, EKill => true
  | ERes n t, ERes n' t' => Nat.eqb n n' && Nat.eqb t t'
  | _, _ => false
  end.

Definition exn_eqb (a b : exn) : bool :=
  match a, b with
  | Cycle, Cycle | KeyError, KeyError | QueueShutDown, QueueShutDown
  | QueueEmpty, QueueEmpty | ValueError, ValueError => true
  | _, _ => false            (* OtherExn never matches *)
  end.

Definition set_eqb (a b : list nat) : bool :=
  Nat.eqb (List.length a) (List.length b) &&
  forallb (fun x => mem x b) a && forallb (fun x => mem x a) b.

Definition result_eqb (a b : result) : bool :=
  match a, b with
  | RNone, RNone => true
  | RQueue q, RQueue q' => Nat.eqb q q'
  | RItem e, RItem e' => event_eqb e e'
  | RSet l, RSet l' => set_eqb l l'
  | Raised x, Raised x' => exn_eqb x x'
  | _, _ => false            (* ROutOfFuel never matches *)
  end.

Definition edges_eqb (m : list edge) (o : list eo) : bool :=
  let o' := map (fun e => match e with Ed a b => (a, b) end) o in
  Nat.eqb (List.length m) (List.length o') &&
  forallb (fun e => emem e o') m && forallb (fun e => emem e m) o'.

Definition queue_eqb (q : queue) (o : qo) : bool :=
  match o with
  | QO its sh unf c =>
      list_eqb event_eqb (items q) (rev its) && Bool.eqb (shut q) sh &&
      Nat.eqb (unfinished q) unf && Nat.eqb (cap q) c
  end.

Fixpoint list_eqb2 {A B} (eqb : A -> B -> bool) (a : list A) (b : list B) : bool :=
  match a, b with
  | [], [] => true
  | x :: xr, y :: yr => eqb x y && list_eqb2 eqb xr yr
  | _, _ => false
  end.

Definition state_eqb (s : state) (o : so) : bool :=
  match o with
  | SO os ow oq oh =>
      edges_eqb (subs s) os && edges_eqb (watches s) ow && edges_eqb (queues s) oq &&
      list_eqb2 queue_eqb (heap s) oh
  end.

Fixpoint check_steps (s : state) (l : list stepo) : bool :=
  match l with
  | [] => true
  | Step o r so :: rest =>
      let (s', r') := step o s in
      result_eqb r' r && state_eqb s' so && check_steps s' rest
  end.

Definition check_case (c : case) : bool :=
  match c with CSeq l => check_steps empty l end.
