(* Corr_C12.v — what a C12 correspondence case is and how it is decided. *)
From Koreo Require Export CorrLib Overlay.
Local Open Scope list_scope.
Local Open Scope nat_scope.

(* what the harness observes of an UnwrappedOutcome *)
Inductive obs :=
| ODone (j : json)
| OPermFail
| ORetry
| ORaised (cls : string)
| ONone.                     (* prepare returned None (no overlay) *)

Definition exn_name (e : exn) : string :=
  match e with IndexError => "IndexError" | AttributeError => "AttributeError" end.

Definition obs_of (r : res json) : obs :=
  match r with
  | Done j => ODone j
  | PermFail => OPermFail
  | Retry => ORetry
  | Raised e => ORaised (exn_name e)
  end.

Definition obs_of_m (r : res kvs) : obs := obs_of (rmap JMap r).

Definition obs_eqb (a b : obs) : bool :=
  match a, b with
  | ODone x, ODone y => json_eqb x y
  | OPermFail, OPermFail => true
  | ORetry, ORetry => true
  | ORaised x, ORaised y => String.eqb x y
  | ONone, ONone => true
  | _, _ => false
  end.

(* Index dicts compare like Python dicts: by key, order-insensitively *)
Fixpoint index_eqb (a b : index) {struct a} : bool :=
  match a, b with
  | IPos x, IPos y => Nat.eqb x y
  | INode xs, INode ys =>
      Nat.eqb (List.length xs) (List.length ys) &&
      forallb (fun ki : string * index =>
                 let (k, i) := ki in
                 match lookup k ys with
                 | Some j => index_eqb i j
                 | None => false
                 end) xs
  | _, _ => false
  end.

(* the RF pipeline as driven by the harness: template, overlays, create *)
Record rf_obs := { ro_template : obs; ro_target : obs; ro_create : obs }.

Definition run_pipeline (en : env) (tc : tcache) (t : stemplate) (ss : list sstep)
           (forced : kvs) (create : dkvs) : rf_obs :=
  let tmpl := construct_template en tc t forced in
  match mapM prepare_step ss with
  | None => {| ro_template := obs_of_m tmpl; ro_target := ONone; ro_create := ONone |}
  | Some ps =>
      let tgt := target en tc t ps forced in
      {| ro_template := obs_of_m tmpl;
         ro_target := obs_of_m tgt;
         ro_create := obs_of_m (rbind tgt (fun v => create_view en (prepare_overlay create) v forced)) |}
  end.

Definition rf_obs_eqb (a b : rf_obs) : bool :=
  obs_eqb (ro_template a) (ro_template b) &&
  obs_eqb (ro_target a) (ro_target b) &&
  obs_eqb (ro_create a) (ro_create b).

Inductive case :=
(* prepare_overlay_expression + evaluate_overlay: observed index, number of
   leaf expressions, and the outcome *)
| COverlay (base : kvs) (spec : dkvs) (en : env) (idx : index) (n : nat) (o : obs)
(* prepare_overlay_expression returned None *)
| CNoOverlay (spec : dkvs)
(* functions._overlay(resource, overlay) *)
| CDeep (resource ov : kvs) (o : json)
(* prepare_value_function + reconcile_value_function *)
| CVf (f : svf) (inputs : option json) (vb : option kvs) (o : obs)
(* prepare_resource_function + _construct_resource_template +
   _materialize_from_overlays + _create_api_resource *)
| CRf (en : env) (tc : tcache) (t : stemplate) (ss : list sstep) (forced : kvs)
      (create : dkvs) (o : rf_obs).

Definition check_case (c : case) : bool :=
  match c with
  | COverlay base spec en idx n o =>
      match prepare_overlay spec with
      | None => false
      | Some ov =>
          index_eqb (ov_index ov) idx && index_eqb idx (ov_index ov) &&
          Nat.eqb (List.length (ov_values ov)) n &&
          obs_eqb (obs_of (evaluate_overlay en ov base)) o
      end
  | CNoOverlay spec => match prepare_overlay spec with None => true | Some _ => false end
  | CDeep r ov o => json_eqb (JMap (deep_overlay ov r)) o && json_eqb o (JMap (deep_overlay ov r))
  | CVf f i vb o => obs_eqb (obs_of (reconcile_vf (prepare_vf f) i vb)) o
  | CRf en tc t ss forced create o => rf_obs_eqb (run_pipeline en tc t ss forced create) o
  end.
