(* Corr_RF.v — general correspondence of model/ResourceFn.v with the real
   reconcile_resource_function: given what the expression sites evaluated to
   (the scenario), the real function must make exactly the calls and return
   exactly the class of result the model computes. *)
From Koreo Require Export CorrLib ResourceFn.
Local Open Scope list_scope.

Inductive ocls := OOk | ORetry | OPermFail | OSkip | ODepSkip | ORaise.

Inductive ocall :=
| OGet (plural : string) (ns : option string) (name : string)
| OPost (plural : string) (ns : option string) (body recorded : json)
| OPatch (plural : string) (ns : option string) (name : string) (body recorded : json)
| ODelete (plural : string) (ns : option string) (name : string).

Record obs := { ob_cls : ocls; ob_delay : option Z; ob_value : option json; ob_calls : list ocall }.

Definition ocls_eqb (a b : ocls) : bool :=
  match a, b with
  | OOk, OOk | ORetry, ORetry | OPermFail, OPermFail | OSkip, OSkip | ODepSkip, ODepSkip | ORaise, ORaise => true
  | _, _ => false
  end.

Definition stop_cls (s : stop) : ocls * option Z :=
  match s with
  | StopPermFail _ => (OPermFail, None)
  | StopRetry d _ => (ORetry, Some d)
  | StopSkip _ => (OSkip, None)
  | StopDepSkip _ => (ODepSkip, None)
  end.

Definition ostr_eqb := opt_eqb String.eqb.

Definition call_eqb (c : call) (o : ocall) : bool :=
  match c, o with
  | CGet p ns n, OGet p' ns' n' => String.eqb p p' && ostr_eqb ns ns' && String.eqb n n'
  | CPost p ns b, OPost p' ns' b' r' =>
      String.eqb p p' && ostr_eqb ns ns' && json_eqb (body b) b' && json_eqb (recorded b) r'
  | CPatch p ns n b, OPatch p' ns' n' b' r' =>
      String.eqb p p' && ostr_eqb ns ns' && String.eqb n n' && json_eqb (body b) b' && json_eqb (recorded b) r'
  | CDelete p ns n, ODelete p' ns' n' => String.eqb p p' && ostr_eqb ns ns' && String.eqb n n'
  | _, _ => false
  end.

Fixpoint calls_eqb (a : list call) (b : list ocall) : bool :=
  match a, b with
  | [], [] => true
  | x :: xr, y :: yr => call_eqb x y && calls_eqb xr yr
  | _, _ => false
  end.

Definition check_case (c : scenario * obs) : bool :=
  let '(s, o) := c in
  let '(r, calls) := reconcile_rf s in
  calls_eqb calls (ob_calls o) &&
  match r with
  | FStop st => let '(k, d) := stop_cls st in
                ocls_eqb k (ob_cls o) && opt_eqb Z.eqb d (ob_delay o)
  | FValue v => ocls_eqb OOk (ob_cls o) && opt_eqb json_eqb v (ob_value o)
  | FRaise => ocls_eqb ORaise (ob_cls o)
  end.
