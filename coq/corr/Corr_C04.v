(* Corr_C04.v — correspondence cases for C04: the unit / tail cases of C05
   (same model), plus two consecutive passes of the tail against the RFC 7386
   cluster: the model computes the first pass, applies its calls to the live
   object itself, and must predict the stored object and the second pass. *)
From Koreo Require Export CorrLib Validate Corr_C05.
Local Open Scope list_scope.

Inductive case :=
| C4 (c : Corr_C05.case)
| C4Two (cfg : tail_cfg) (target live : json) (ann : option json)
        (r1 : tobs_result) (calls1 : list tobs_call)
        (stored2 : option json)       (* the stored object after pass 1, annotation text replaced by the placeholder *)
        (r2 : tobs_result) (calls2 : list tobs_call).

Definition opt_json_eqb (a b : option json) : bool :=
  match a, b with
  | Some x, Some y => json_eqb x y
  | None, None => true
  | _, _ => false
  end.

(* the last-applied document the object carries after the calls *)
Definition ann_after (ann : option json) (calls : list call) : option json :=
  match calls with
  | [CPatch p] => Some (recorded p)
  | _ => ann
  end.

Definition check_case (c : case) : bool :=
  match c with
  | C4 c5 => Corr_C05.check_case c5
  | C4Two cfg t live ann r1 calls1 stored2 r2 calls2 =>
      match tail cfg t live ann with
      | Some (mr1, mc1) =>
          tres_eqb mr1 r1 && list_eqb2 tcall_eqb mc1 calls1 &&
          let live2 := fold_left apply_call mc1 (Some live) in
          opt_json_eqb live2 stored2 &&
          match live2 with
          | Some l2 =>
              match tail cfg t l2 (ann_after ann mc1) with
              | Some (mr2, mc2) => tres_eqb mr2 r2 && list_eqb2 tcall_eqb mc2 calls2
              | None => false
              end
          | None => true            (* deleted: the next pass is a create (not the tail) *)
          end
      | None =>
          (* the first pass's verdict depends on the key order: only membership is checked *)
          existsb (fun m => tres_eqb (fst m) r1 && list_eqb2 tcall_eqb (snd m) calls1) (tail_all cfg t live ann)
      end
  end.

Definition definite_case (c : case) : bool :=
  match c with
  | C4 c5 => Corr_C05.definite_case c5
  | C4Two cfg t live ann _ _ _ _ _ => match tail cfg t live ann with Some _ => true | None => false end
  end.
