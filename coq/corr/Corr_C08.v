(* Corr_C08.v — what a C08 correspondence case is and how it is decided:
   the real helpers / the real reconcile flow were run on the inputs below and
   produced the observation; the model must predict exactly that. *)
From Koreo Require Export CorrLib Payload.
Local Open Scope list_scope.

(* order-sensitive structural equality: Python dicts are insertion ordered and
   every function modelled here is deterministic about the order it produces,
   so the comparison is as tight as it can be (ints and floats are distinct) *)
Fixpoint json_seqb (a b : json) {struct a} : bool :=
  match a, b with
  | JNull, JNull => true
  | JBool x, JBool y => Bool.eqb x y
  | JInt x, JInt y => Z.eqb x y
  | JFloat m1 e1, JFloat m2 e2 => float_eqb m1 e1 m2 e2
  | JStr x, JStr y => String.eqb x y
  | JList xs, JList ys =>
      (fix go (xs ys : list json) : bool :=
         match xs, ys with
         | [], [] => true
         | x :: xr, y :: yr => json_seqb x y && go xr yr
         | _, _ => false
         end) xs ys
  | JMap xs, JMap ys =>
      (fix go (xs ys : list (string * json)) : bool :=
         match xs, ys with
         | [], [] => true
         | (k, v) :: xr, (k', w) :: yr => String.eqb k k' && json_seqb v w && go xr yr
         | _, _ => false
         end) xs ys
  | _, _ => false
  end.

Definition exn_eqb (a b : exn) : bool :=
  match a, b with
  | ExKeyError, ExKeyError | ExTypeError, ExTypeError
  | ExAttributeError, ExAttributeError | ExValueError, ExValueError => true
  | _, _ => false
  end.

Definition res_eqb {A} (eqb : A -> A -> bool) (a b : res A) : bool :=
  match a, b with
  | Done x, Done y => eqb x y
  | Raised e, Raised f => exn_eqb e f
  | _, _ => false
  end.

Definition prepared_eqb (a b : prepared) : bool :=
  json_seqb (body a) (body b) && json_seqb (recorded a) (recorded b).

Definition owner_result_eqb (a b : owner_result) : bool :=
  match a, b with
  | OwnerRefs x, OwnerRefs y => list_eqb json_seqb x y
  | OwnerPermFail, OwnerPermFail => true
  | _, _ => false
  end.

Definition reffed_result_eqb (a b : reffed_result) : bool :=
  match a, b with
  | Reffed x, Reffed y => Bool.eqb x y
  | ReffedPermFail, ReffedPermFail => true
  | _, _ => false
  end.

Definition sent_eqb (a b : sent) : bool :=
  match a, b with
  | NoCall, NoCall => true
  | Sent p, Sent q => prepared_eqb p q
  | _, _ => false
  end.

(* observation of one patch-path reconcile *)
Record patch_obs := {
  po_sent : res sent;        (* what _prepare_for_api returned / PermFail before it / exception *)
  po_wire : option json;     (* the PATCH body the cluster received, if any *)
  po_stored : json           (* the cluster's object afterwards *)
}.

Inductive case :=
(* unit level: the helpers called directly *)
| CStrip (j : json) (obs : json)
| CHasDirective (j : json) (obs : bool)          (* the harness's oracle scan vs has_directive *)
| CPrepare (obj : json) (obs : res prepared)
| CExtract (live : json) (ann : option json) (obs : res (option json))
| CUpdated (view o : json) (obs : res owner_result)
| CValidate (view o : json) (obs : res reffed_result)
| CMerge (target patch : json) (obs : json)      (* harness/cluster.py merge_patch *)
(* flow level: reconcile_resource_function against the in-memory cluster *)
| CFlowCreate (owned : bool) (owner_ns ns : option string) (view o : json)
              (kind version : string)
              (obs : res sent) (wire : option json)   (* wire = the POST body received *)
| CFlowPatch (owned : bool) (owner_ns ns : option string) (live target o : json)
             (matched : bool) (obs : patch_obs).

Definition opt_json_eqb := opt_eqb json_seqb.

(* what the model predicts the cluster received for a create *)
Definition create_wire (ns : option string) (kind version : string) (r : res sent) : option json :=
  match r with
  | Done (Sent p) => Some (kr8s_post ns kind version (body p))
  | _ => None
  end.

Definition check_case (c : case) : bool :=
  match c with
  | CStrip j obs => json_seqb (strip j) obs
  | CHasDirective j obs => Bool.eqb (has_directive j) obs
  | CPrepare obj obs => res_eqb prepared_eqb (prepare_for_api obj) obs
  | CExtract live ann obs =>
      res_eqb opt_json_eqb (extract_last_applied_r live ann) obs &&
      (* the exception-free view agrees wherever the code returns *)
      match obs with
      | Done o => opt_json_eqb (extract_last_applied live ann) o
      | Raised _ => true
      end
  | CUpdated view o obs =>
      res_eqb owner_result_eqb (updated_owner_refs_r view o) obs &&
      match obs with
      | Done r => owner_result_eqb (updated_owner_refs view o) r
      | Raised _ => true
      end
  | CValidate view o obs =>
      res_eqb reffed_result_eqb (validate_owner_reffed_r view o) obs &&
      match obs with
      | Done r => reffed_result_eqb (validate_owner_reffed view o) r
      | Raised _ => true
      end
  | CMerge target patch obs => json_seqb (merge_patch target patch) obs
  | CFlowCreate owned owner_ns ns view o kind version obs wire =>
      let m := create_payload owned owner_ns ns view o in
      res_eqb sent_eqb m obs && opt_json_eqb (create_wire ns kind version m) wire
  | CFlowPatch owned owner_ns ns live target o matched obs =>
      match owner_reffed_r owned owner_ns ns live o with
      | Raised e =>
          res_eqb sent_eqb (Raised e) (po_sent obs) && opt_json_eqb None (po_wire obs) &&
          json_seqb live (po_stored obs)
      | Done rr =>
          if needs_update matched rr then
            let m := patch_payload owned owner_ns ns live target o in
            res_eqb sent_eqb m (po_sent obs) &&
            match m with
            | Done (Sent p) =>
                opt_json_eqb (Some (body p)) (po_wire obs) &&
                json_seqb (merge_patch live (body p)) (po_stored obs)
            | _ => opt_json_eqb None (po_wire obs) && json_seqb live (po_stored obs)
            end
          else
            (* matched and referenced: nothing is sent *)
            res_eqb sent_eqb (Done NoCall) (po_sent obs) && opt_json_eqb None (po_wire obs) &&
            json_seqb live (po_stored obs)
      end
  end.
