(* Corr_C03.v — what a C03 correspondence case is and how it is decided. *)
From Koreo Require Export CorrLib Outcome.

(* what the harness observes of a result of result.combine /
   result.unwrapped_combine *)
Record obs := { o_sev : nat; o_values : list json; o_delay : option Z;
                o_msg : option string; o_loc : option string }.

Inductive case :=
| CCombine (xs : list (outcome json)) (o : obs)
| CUnwrapped (us : list (uoutcome json)) (o : obs).

Definition obs_of (r : outcome json) : obs :=
  {| o_sev := sev r; o_values := okvalues r; o_delay := delay r;
     o_msg := msg r; o_loc := loc r |}.

Definition obs_of_u (r : uresult json) : obs :=
  match r with
  | UList vs => {| o_sev := 2; o_values := vs; o_delay := None; o_msg := None; o_loc := None |}
  | UNon o => obs_of o
  end.

Definition obs_eqb (a b : obs) : bool :=
  Nat.eqb (o_sev a) (o_sev b) &&
  list_eqb json_eqb (o_values a) (o_values b) &&
  opt_eqb Z.eqb (o_delay a) (o_delay b) &&
  opt_eqb String.eqb (o_msg a) (o_msg b) &&
  opt_eqb String.eqb (o_loc a) (o_loc b).

Definition check_case (c : case) : bool :=
  match c with
  | CCombine xs o => obs_eqb (obs_of (combine xs)) o
  | CUnwrapped us o => obs_eqb (obs_of_u (unwrapped_combine us)) o
  end.
