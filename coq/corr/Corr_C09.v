(* Corr_C09.v — what a C09 correspondence case is and how it is decided.
   Four kinds of case, all observed on the real code under fault injection:
     CSteps   one _reconcile_steps / reconcile_workflow invocation: the end state
              of every step task  ->  per-step outcomes, conditions, overall outcome
     CGate    one pass: dependencies + what each step's own work did + which tasks
              the group cancelled early  ->  end state of every task, invocation trace
     CForEach one _for_each_reconciler invocation: end states of the item tasks -> result
     CRf      one reconcile_resource_function call under a fault plan
              -> result, API calls, cluster content afterwards *)
From Koreo Require Export CorrLib Faults Corr_RF.
Local Open Scope list_scope.

(* an outcome as observed: class, delay, value (messages / locations are prose) *)
Record oc := { oc_cls : ocls; oc_delay : option Z; oc_value : option json }.

Definition oc_of_sres (o : sres) : oc :=
  match o with
  | UVal v => {| oc_cls := OOk; oc_delay := None; oc_value := Some v |}
  | UOut (Ok (Single v) _) => {| oc_cls := OOk; oc_delay := None; oc_value := Some v |}
  | UOut (Ok (Many vs) _) => {| oc_cls := OOk; oc_delay := None; oc_value := Some (JList vs) |}
  | UOut (Retry d _ _) => {| oc_cls := ORetry; oc_delay := Some d; oc_value := None |}
  | UOut (PermFail _ _) => {| oc_cls := OPermFail; oc_delay := None; oc_value := None |}
  | UOut (Skip _ _) => {| oc_cls := OSkip; oc_delay := None; oc_value := None |}
  | UOut (DepSkip _ _) => {| oc_cls := ODepSkip; oc_delay := None; oc_value := None |}
  end.

Definition oc_eqb (a b : oc) : bool :=
  ocls_eqb (oc_cls a) (oc_cls b) && opt_eqb Z.eqb (oc_delay a) (oc_delay b) &&
  opt_eqb json_eqb (oc_value a) (oc_value b).

(* observed end state of a task *)
Inductive otend := OFinished (o : oc) | OCancelled | OExcepted.

Definition otend_of (e : tend) : otend :=
  match e with
  | Finished r => OFinished (oc_of_sres r)
  | Cancelled => OCancelled
  | Excepted => OExcepted
  end.

Definition otend_eqb (a b : otend) : bool :=
  match a, b with
  | OFinished x, OFinished y => oc_eqb x y
  | OCancelled, OCancelled => true
  | OExcepted, OExcepted => true
  | _, _ => false
  end.

Record wobs := {
  wo_raised : bool;
  wo_outcomes : list oc;
  wo_conds : list (string * string);     (* (type, reason) in emission order *)
  wo_overall : oc }.

Definition cond_eqb (a b : string * string) : bool :=
  String.eqb (fst a) (fst b) && String.eqb (snd a) (snd b).

Definition check_steps (ws : list wstep) (ends : list tend) (o : wobs) : bool :=
  match reconcile_workflow_m ws ends with
  | WRaised => wo_raised o
  | WDone r =>
      negb (wo_raised o) &&
      list_eqb oc_eqb (map oc_of_sres (wr_outcomes r)) (wo_outcomes o) &&
      list_eqb cond_eqb (map (fun sc => (cd_type (snd sc), cd_reason (snd sc))) (wr_conditions r)) (wo_conds o) &&
      oc_eqb (oc_of_sres (wr_overall r)) (wo_overall o)
  end.

Definition check_gate (ws : list wstep) (ps : list splan) (ends : list otend) (trace : list nat) : bool :=
  let '(es, tr) := run_steps ws ps in
  list_eqb otend_eqb (map otend_of es) ends && list_eqb Nat.eqb tr trace.

Definition check_foreach (ends : list tend) (raised : bool) (o : oc) : bool :=
  match foreach_result ends with
  | WRaised => raised
  | WDone r => negb raised && oc_eqb (oc_of_sres r) o
  end.

Inductive fkind := FoReturned | FoHung | FoCancelled.

Record fobs := {
  fo_kind : fkind;
  fo_cls : ocls; fo_delay : option Z; fo_value : option json;
  fo_calls : list ocall;
  fo_after : option json }.

Definition fkind_eqb (a b : fkind) : bool :=
  match a, b with
  | FoReturned, FoReturned | FoHung, FoHung | FoCancelled, FoCancelled => true
  | _, _ => false
  end.

Definition check_rf (s : scenario) (fp : fplan) (o : fobs) : bool :=
  let '(r, calls, after) := reconcile_rf_faulty s fp in
  calls_eqb calls (fo_calls o) &&
  opt_eqb json_eqb after (fo_after o) &&
  match r with
  | FRes (FStop st) => let '(k, d) := stop_cls st in
                       fkind_eqb (fo_kind o) FoReturned && ocls_eqb k (fo_cls o) && opt_eqb Z.eqb d (fo_delay o)
  | FRes (FValue v) => fkind_eqb (fo_kind o) FoReturned && ocls_eqb OOk (fo_cls o) && opt_eqb json_eqb v (fo_value o)
  | FRes FRaise => fkind_eqb (fo_kind o) FoReturned && ocls_eqb ORaise (fo_cls o)
  | FHung => fkind_eqb (fo_kind o) FoHung
  | FCancelRaised => fkind_eqb (fo_kind o) FoCancelled
  end.

Inductive c9case :=
| CSteps (ws : list wstep) (ends : list tend) (o : wobs)
| CGate (ws : list wstep) (ps : list splan) (ends : list otend) (trace : list nat)
| CForEach (ends : list tend) (raised : bool) (o : oc)
| CRf (s : scenario) (fp : fplan) (o : fobs).

Definition check_c09 (c : c9case) : bool :=
  match c with
  | CSteps ws ends o => check_steps ws ends o
  | CGate ws ps ends trace => check_gate ws ps ends trace
  | CForEach ends raised o => check_foreach ends raised o
  | CRf s fp o => check_rf s fp o
  end.

Definition case := c9case.
Definition check_case := check_c09.
