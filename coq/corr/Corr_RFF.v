(* Corr_RFF.v — correspondence of model/RfFaults.v with the real reconcile_resource_function when
   the API answers the read and/or the write with an error (or "not found"): given the scenario and
   the two answers, the real function must make exactly the calls and return exactly the class of
   result (and delay) the faulted model computes. *)
From Koreo Require Export Corr_RF RfFaults.
Local Open Scope list_scope.

Definition check_fault_case (c : scenario * (answer * answer) * obs) : bool :=
  let '(s, (ag, am), o) := c in
  let '(r, calls) := reconcile_rf_f s ag am in
  calls_eqb calls (ob_calls o) &&
  match r with
  | FStop st => let '(k, d) := stop_cls st in
                ocls_eqb k (ob_cls o) && opt_eqb Z.eqb d (ob_delay o)
  | FValue v => ocls_eqb OOk (ob_cls o) && opt_eqb json_eqb v (ob_value o)
  | FRaise => ocls_eqb ORaise (ob_cls o)
  end.
