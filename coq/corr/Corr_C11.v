(* Corr_C11.v — what a C11 correspondence case is and how it is decided. *)
From Koreo Require Export CorrLib Encode CelLit.
Local Open Scope list_scope.

Definition nkind_eqb (a b : nkind) : bool :=
  match a, b with KInt, KInt | KFloat, KFloat => true | _, _ => false end.

Definition zz_eqb (a b : Z * Z) : bool := (fst a =? fst b) && (snd a =? snd b).

(* ftable / fprint_of / ftable_ok (repr(float) as observed from CPython, and the
   two facts the proofs assume of it) are defined in CelLit.v *)

(* order-sensitive structural equality *)
Fixpoint json_same (a b : json) {struct a} : bool :=
  match a, b with
  | JNull, JNull => true
  | JBool x, JBool y => Bool.eqb x y
  | JInt x, JInt y => x =? y
  | JFloat m1 e1, JFloat m2 e2 => (m1 =? m2) && (e1 =? e2)
  | JStr x, JStr y => String.eqb x y
  | JList xs, JList ys =>
      (fix go (xs ys : list json) : bool :=
         match xs, ys with
         | [], [] => true
         | x :: xr, y :: yr => json_same x y && go xr yr
         | _, _ => false
         end) xs ys
  | JMap xs, JMap ys =>
      (fix go (xs ys : list (string * json)) : bool :=
         match xs, ys with
         | [], [] => true
         | (k, x) :: xr, (k', y) :: yr => String.eqb k k' && json_same x y && go xr yr
         | _, _ => false
         end) xs ys
  | _, _ => false
  end.

(* what the harness observes of compile + evaluate + convert_bools *)
Inductive obs :=
| OVal (v : json)      (* a JSON-shaped value *)
| OParse               (* CELParseError (or lark's position assertion) at compile *)
| OEval                (* evaluate returned PermFail *)
| OOther               (* a value that is not JSON-shaped (inf, non-string keys, bytes ...) *)
| ORaise.              (* evaluate() itself raised: celpy's tree_dump fails while an evaluation
                          error is being reported (a defect outside C11, see notes/C11.md) *)

Inductive case :=
| CEncode (v : json) (tb : ftable) (out : string)   (* encode_cel(v) = out *)
| CEval (t : string) (o : obs)                      (* compile/evaluate of text t *)
| CEvalImg (t : string) (o : obs)                   (* same, t = encode_cel of a value meeting the
                                                       hypotheses: the model may not decline it *)
| CNumeral (t : string) (k : option nkind)          (* _NUMERAL.fullmatch, int vs float *)
| CFloat (t : string) (r : option (Z * Z))          (* float(t): finite dyadic or inf *)
| CInt (t : string) (z : Z).                        (* int(t) *)

Definition check_case (c : case) : bool :=
  match c with
  | CEncode v tb out => String.eqb (str (encode (fprint_of tb) v)) out && ftable_ok tb
  | CEval t o =>
      match eval_lit (txt t), o with
      | ROOF, _ => true                      (* counted as skipped by [in_fragment] *)
      | ROk v, OVal w => json_same v w
      | RParse, OParse => true
      | REval, OEval => true
      | REval, ORaise => true                (* an evaluation error either way *)
      | _, _ => false
      end
  | CEvalImg t o =>
      match eval_lit (txt t), o with
      | ROk v, OVal w => json_same v w
      | _, _ => false
      end
  | CNumeral t k => opt_eqb nkind_eqb (numeral_kind (txt t)) k
  | CFloat t r => opt_eqb zz_eqb (fparse (txt t)) r
  | CInt t z => int_of_text (txt t) =? z
  end.

(* false exactly for the CEval cases the model declines to judge *)
Definition in_fragment (c : case) : bool :=
  match c with
  | CEval t _ => match eval_lit (txt t) with ROOF => false | _ => true end
  | _ => true
  end.
