(* Corr_C13.v — what a C13 correspondence case is and how it is decided. *)
From Koreo Require Export CorrLib Predicates.
Local Open Scope list_scope.

(* what the harness observes of evaluate_predicates / reconcile_value_function *)
Inductive oobs :=
| ONone                                   (* None: continue *)
| OOut (cls : nat) (delay : option Z)     (* a non-Ok outcome: severity class as in Outcome.sev, *)
       (msg : string) (loc : option string)  (* delay, message (prose after the modelled prefix cut), location *)
| OVal (v : vtree)                        (* a value *)
| ORaised.                                (* an exception escaped *)

Definition raw_eqb (a b : raw) : bool :=
  match a, b with
  | RRaise, RRaise | RRaiseOther, RRaiseOther => true
  | RVal x, RVal y => vtree_eqb x y
  | _, _ => false
  end.

(* model text [None] = "not modelled": anything is accepted *)
Definition text_ok (model : option string) (seen : string) : bool :=
  match model with None => true | Some m => String.eqb m seen end.
Definition loc_ok (model : option string) (seen : option string) : bool :=
  match model with None => true | Some m => opt_eqb String.eqb (Some m) seen end.

Definition outcome_ok (o : outcome) (cls : nat) (d : option Z) (m : string) (l : option string) : bool :=
  Nat.eqb (sev o) cls && opt_eqb Z.eqb (delay o) d && text_ok (msg o) m && loc_ok (loc o) l.

Definition pred_ok (model : option outcome) (seen : oobs) : bool :=
  match model, seen with
  | None, ONone => true
  | Some o, OOut c d m l => outcome_ok o c d m l
  | _, _ => false
  end.

Definition site_eqb (a b : site) : bool :=
  match a, b with
  | SPre, SPre | SLocals, SLocals | SResource, SResource | SPost, SPost | SReturn, SReturn => true
  | _, _ => false
  end.

Definition vf_ok (model : res (uoutcome vtree)) (seen : oobs) : bool :=
  match model, seen with
  | Done (UVal v), OVal w => vtree_eqb v w
  | Done (UOut o), OOut c d m l => outcome_ok o c d m l
  | Raised _, ORaised => true
  | _, _ => false
  end.

Inductive case :=
(* predicate_extractor + evaluate_predicates on a predicate list with evaluated elements
   [es]; [r] is what Runner.evaluate really did, [o] what evaluate_predicates returned *)
| CPred (es : list vtree) (loc : string) (r : raw) (o : oobs)
(* a real ValueFunction: preconditions (evaluated elements + what celpy did, if it was
   asked), what celpy did at locals / return (placeholder RRaise when it was not asked),
   the return overlay's index, value_base; observed result and the sites evaluated *)
| CVf (pre : option (list vtree)) (pre_raw : option raw) (locals : option raw)
      (ret : option (index * raw)) (base : option (list (vtree * vtree))) (loc : string)
      (o : oobs) (t : list site)
(* a real ResourceFunction run against an API object that records and refuses every use:
   [touched] = the API object was used; the outcome is compared when the Kubernetes part
   (reconcile_krm_resource, not modelled) was not entered *)
| CRf (pre : option (list vtree)) (pre_raw : option raw) (locals : option raw) (loc : string)
      (touched : bool) (o : oobs) (t : list site)
(* a real readonly ResourceFunction against the in-memory cluster that holds its object (so the
   Kubernetes part returns the object after [ncalls] uses of the API, kind lookups included):
   preconditions, locals, postconditions (evaluated elements + what celpy did), return;
   observed result, sites *)
| CRfc (pre : option (list vtree)) (pre_raw : option raw) (locals : option raw)
       (post : option (list vtree)) (post_raw : option raw) (ret : option raw) (loc : string)
       (ncalls : nat) (o : oobs) (t : list site).

Definition raw_agrees (es : option (list vtree)) (r : option raw) : bool :=
  match es, r with
  | Some es, Some r => raw_eqb (cel_filter es) r
  | None, Some _ => false
  | _, None => true
  end.

Definition rf_ok (model : option (uoutcome vtree)) (seen : oobs) : bool :=
  match model, seen with
  | Some (UVal v), OVal w => vtree_eqb v w
  | Some (UOut o), OOut c d m l => outcome_ok o c d m l
  | None, OVal VNull => true
  | _, _ => false
  end.

Definition check_case (c : case) : bool :=
  match c with
  | CPred es loc r o =>
      raw_eqb (cel_filter es) r && pred_ok (evaluate_predicates es loc) o
  | CVf pre pre_raw locals ret base loc o t =>
      let f := {| vf_pre := option_map cel_filter pre; vf_locals := locals; vf_return := ret |} in
      match pre, pre_raw with
      | Some es, Some r => raw_eqb (cel_filter es) r
      | None, Some _ => false
      | _, None => true
      end &&
      let '(r, t') := reconcile_vf f base loc in
      vf_ok r o && list_eqb site_eqb t' t
  | CRf pre pre_raw locals loc touched o t =>
      let f := {| rf_pre := option_map cel_filter pre; rf_locals := locals;
                  rf_post := None; rf_return := None |} in
      (* the Kubernetes part: an unknown outcome; it used the API iff [touched] *)
      let krm := fun _ : option raw =>
                   (UOut (PermFail None None) : uoutcome vtree, if touched then [tt] else []) in
      match pre, pre_raw with
      | Some es, Some r => raw_eqb (cel_filter es) r
      | None, Some _ => false
      | _, None => true
      end &&
      let '(r, t', calls) := reconcile_rf unit krm f loc in
      list_eqb site_eqb t' t &&
      Bool.eqb (match calls with [] => false | _ => true end) touched &&
      (if existsb (site_eqb SResource) t' then true else rf_ok r o)
  | CRfc pre pre_raw locals post post_raw ret loc ncalls o t =>
      let f := {| rf_pre := option_map cel_filter pre; rf_locals := locals;
                  rf_post := option_map cel_filter post; rf_return := ret |} in
      let krm := fun _ : option raw => (UVal VNull : uoutcome vtree, repeat tt ncalls) in
      raw_agrees pre pre_raw && raw_agrees post post_raw &&
      let '(r, t', calls) := reconcile_rf unit krm f loc in
      list_eqb site_eqb t' t && rf_ok r o &&
      (* when the Kubernetes part was not entered there must be no use of the API at all *)
      Nat.eqb (List.length calls) (if existsb (site_eqb SResource) t' then ncalls else 0) &&
      (if existsb (site_eqb SResource) t' then true else Nat.eqb ncalls 0)
  end.
