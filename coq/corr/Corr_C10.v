(* Corr_C10.v — what a C10 correspondence case is and how it is decided. *)
From Koreo Require Export CorrLib ErrScan Predicates.
Local Open Scope list_scope.

(* what the harness observes of evaluate / evaluate_overlay / evaluate_predicates /
   reconcile_value_function *)
Inductive oobs :=
| ONone                                   (* None *)
| OOut (cls : nat) (delay : option Z)     (* a non-Ok outcome: class as Outcome.sev, delay, *)
       (msg : string) (loc : option string)  (* message (prose after the modelled prefix cut), location *)
| OVal (v : vtree)                        (* a value *)
| ORaised.                                (* an exception escaped *)

Definition raw_eqb (a b : raw) : bool :=
  match a, b with
  | RRaise, RRaise | RRaiseOther, RRaiseOther => true
  | RVal x, RVal y => vtree_eqb x y
  | _, _ => false
  end.

Definition text_ok (model : option string) (seen : string) : bool :=
  match model with None => true | Some m => String.eqb m seen end.
Definition loc_ok (model : option string) (seen : option string) : bool :=
  match model with None => true | Some m => opt_eqb String.eqb (Some m) seen end.

Definition outcome_ok (o : outcome) (cls : nat) (d : option Z) (m : string) (l : option string) : bool :=
  Nat.eqb (sev o) cls && opt_eqb Z.eqb (delay o) d && text_ok (msg o) m && loc_ok (loc o) l.

Definition site_eqb (a b : site) : bool :=
  match a, b with
  | SPre, SPre | SLocals, SLocals | SResource, SResource | SPost, SPost | SReturn, SReturn => true
  | _, _ => false
  end.

Definition eres_ok (model : eres) (seen : oobs) : bool :=
  match model, seen with
  | ENone, ONone => true
  | EVal VNull, ONone => true            (* a null value IS Python's None *)
  | EVal v, OVal w => vtree_eqb v w
  | EFail o, OOut c d m l => outcome_ok o c d m l
  | _, _ => false
  end.

Definition ures_ok (model : res (uoutcome vtree)) (seen : oobs) : bool :=
  match model, seen with
  | Done (UVal v), OVal w => vtree_eqb v w
  | Done (UOut o), OOut c d m l => outcome_ok o c d m l
  | Raised _, ORaised => true
  | _, _ => false
  end.

Definition pres_ok (model : option outcome) (seen : oobs) : bool :=
  match model, seen with
  | None, ONone => true
  | Some o, OOut c d m l => outcome_ok o c d m l
  | _, _ => false
  end.

Inductive case :=
(* check_for_celevalerror on a Python value: did it return a PermFail? *)
| CScan (v : vtree) (found : bool)
(* evaluate(expression, inputs, loc): what celpy did ([None]: no expression), what came back *)
| CEval (r : option raw) (loc : string) (o : oobs)
(* evaluate_overlay(overlay, inputs, base, loc) *)
| COverlay (idx : index) (r : raw) (base : list (vtree * vtree)) (loc : string) (o : oobs)
(* evaluate_predicates(program, inputs, loc) on an arbitrary program *)
| CPredRaw (r : option raw) (loc : string) (o : oobs)
(* a real ValueFunction: what celpy did at each site (placeholder RRaise where it was not
   asked), the return overlay's index, value_base; observed result and evaluated sites *)
| CVf (pre : option raw) (locals : option raw) (ret : option (index * raw))
      (base : option (list (vtree * vtree))) (loc : string) (o : oobs) (t : list site).

Definition check_case (c : case) : bool :=
  match c with
  | CScan v found => Bool.eqb (scan v) found
  | CEval r loc o => eres_ok (evaluate r loc) o
  | COverlay idx r base loc o => ures_ok (evaluate_overlay idx r base loc) o
  | CPredRaw r loc o => pres_ok (evaluate_predicates_opt r loc) o
  | CVf pre locals ret base loc o t =>
      let f := {| vf_pre := pre; vf_locals := locals; vf_return := ret |} in
      let '(r, t') := reconcile_vf f base loc in
      ures_ok r o && list_eqb site_eqb t' t
  end.
