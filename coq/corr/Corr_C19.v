(* Corr_C19.v — what a C19 correspondence case is and how it is decided.
   The key-text function is instantiated with [py_key_text]. *)
From Koreo Require Export CorrLib FnTestMatch.
Local Open Scope list_scope.

(* observed result of a comparison / verdict: 0 = False, 1 = True, 2 = raised *)
Definition mres_code (r : mres) : nat :=
  match r with MDone false => 0 | MDone true => 1 | MRaised => 2 | MFuel => 3 end%nat.

(* observed class of the ExpectOutcome built by prepare (ORaises: an exception
   escaped — the model never predicts it; ORejected: a PermFail was returned) *)
Inductive pobs :=
| ORaises | ORejected | OUnknown | OOk
| OOut (cls : nat) (msg : string) (delay : option Z).   (* sev numbering of Outcome.v *)

Inductive case :=
(* run._validate_match(target, actual, compare_list_as_set) *)
| CMatch (t a : json) (as_set : bool) (r : nat)
(* run._strip_last_applied_annotation(actual): None = raised *)
| CStrip (a : json) (r : option json)
(* run._validate_outcome_match(expected, actual).test_pass *)
| COutcome (e : option (outcome json)) (a : uoutcome json) (r : nat)
(* the assertion dispatch of _run_test_case on a recorded observation *)
| CVerdict (asrt : assertion) (o : observed) (r : nat)
(* MockApi(current) driven by a call list: None = raised, else
   (materialized, _api_called, _delete_called) *)
| CMock (cur : option json) (cs : list api_call) (r : option (option json * bool * bool))
(* run._merge_overlay *)
| CMerge (b o : json) (r : option json)
(* prepare._prepare_test_case: the ExpectOutcome it builds *)
| CParse (spec : list (string * json)) (r : pobs).

Definition ojson_eqb := opt_eqb json_eqb.

Definition pobs_of (p : parsed) : option pobs :=
  match p with
  | PRejected => Some ORejected
  | PUnknown => Some OUnknown
  | PUnmodelled => None
  | PExpect None => Some OOk
  | PExpect (Some o) => Some (OOut (sev o) (opt_text (msg o)) (delay o))
  end.

Definition pobs_eqb (a b : pobs) : bool :=
  match a, b with
  | ORaises, ORaises | ORejected, ORejected | OUnknown, OUnknown | OOk, OOk => true
  | OOut c m d, OOut c' m' d' => Nat.eqb c c' && String.eqb m m' && opt_eqb Z.eqb d d'
  | _, _ => false
  end.

Definition check_case (c : case) : bool :=
  match c with
  | CMatch t a s r => Nat.eqb (mres_code (tmatch_fuel py_key_text (depth t) t a s)) r
  | CStrip a r => ojson_eqb (strip_last_applied a) r
  | COutcome e a r => Nat.eqb (mres_code (outcome_match py_key_text e a)) r
  | CVerdict asrt o r => Nat.eqb (mres_code (verdict py_key_text asrt o)) r
  | CMock cur cs r =>
      match mock_calls (mock_init cur) cs, r with
      | None, None => true
      | Some m, Some (mat, called, deleted) =>
          ojson_eqb (m_mat m) mat && Bool.eqb (m_called m) called && Bool.eqb (m_deleted m) deleted
      | _, _ => false
      end
  | CMerge b o r => ojson_eqb (merge_overlay b o) r
  | CParse spec r =>
      match pobs_of (expect_outcome_of spec) with
      | Some p => pobs_eqb p r
      | None => true              (* shape outside the model: nothing to compare *)
      end
  end.
