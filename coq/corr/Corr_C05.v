(* Corr_C05.v — correspondence cases for C05 (and the unit level of C04):
   validate_match on (target, actual, last_applied, compare_list_as_set) triples,
   and the comparison/dispatch tail of reconcile_krm_resource. *)
From Koreo Require Export CorrLib Validate.
Local Open Scope list_scope.

(* what the harness saw validate_match do *)
Inductive obs :=
| ObsMatch | ObsMismatch
| ObsRaise (e : vexn)
| ObsOther.                  (* an exception class the model never predicts *)

(* the observation must be one of the outcomes the model allows; for a
   definite model verdict (empty or singleton set) this is equality *)
Definition obs_ok (o : outs) (ob : obs) (may_oom : bool) : bool :=
  (* [may_oom]: the harness saw a compare-as-map key field whose f-string the
     model does not cover; only then may the model answer "out of model" *)
  if o_oom o then may_oom else
  match ob with
  | ObsMatch => is_match o
  | ObsMismatch => o_false o
  | ObsRaise VTypeError => o_type o
  | ObsRaise VAttributeError => o_attr o
  | ObsRaise VKeyError => o_key o
  | ObsOther => false
  end.

(* the model's verdict is definite (does not depend on set iteration order) *)
Definition definite (o : outs) : bool :=
  match as_res o with Some _ => true | None => false end.

(* ---- tail observations ---- *)
Inductive tobs_result :=
| RLive (obj : json) | RRetry (d : Z) (loc : string) | RPermFail
| RRaised (cls : string).

Inductive tobs_call := OPatch (body : json) (recorded : json) | ODelete.

Definition exn_name (e : exn) : string :=
  match e with
  | ExKeyError => "KeyError" | ExTypeError => "TypeError"
  | ExAttributeError => "AttributeError" | _ => "ValueError"
  end.

Definition tres_eqb (m : tail_result) (o : tobs_result) : bool :=
  match m, o with
  | TLive a, RLive b => json_eqb a b
  | TRetry d l, RRetry d' l' => Z.eqb d d' && String.eqb l l'
  | TPermFail, RPermFail => true
  | TRaised e, RRaised c => String.eqb (exn_name e) c
  | _, _ => false
  end.

Definition tcall_eqb (m : call) (o : tobs_call) : bool :=
  match m, o with
  | CPatch p, OPatch b r => json_eqb (body p) b && json_eqb (recorded p) r
  | CDelete, ODelete => true
  | _, _ => false
  end.

Fixpoint list_eqb2 {A B} (f : A -> B -> bool) (a : list A) (b : list B) : bool :=
  match a, b with
  | [], [] => true
  | x :: xr, y :: yr => f x y && list_eqb2 f xr yr
  | _, _ => false
  end.

Inductive case :=
| CUnit (t a : json) (la : option json) (as_set : bool) (ob : obs) (may_oom : bool)
| CTail (cfg : tail_cfg) (target live : json) (ann : option json)
        (r : tobs_result) (calls : list tobs_call).

Definition check_case (c : case) : bool :=
  match c with
  | CUnit t a la s ob mo => obs_ok (vmatch t a la s) ob mo
  | CTail cfg t l ann r calls =>
      (* equality when the comparator's verdict is definite; otherwise the
         observation must be one of the outcomes some key order produces *)
      existsb (fun m => tres_eqb (fst m) r && list_eqb2 tcall_eqb (snd m) calls) (tail_all cfg t l ann)
  end.

(* statistics only: is the model verdict definite on this case? *)
Definition definite_case (c : case) : bool :=
  match c with
  | CUnit t a la s _ _ => definite (vmatch t a la s)
  | CTail cfg t l ann _ _ => match tail cfg t l ann with Some _ => true | None => false end
  end.
