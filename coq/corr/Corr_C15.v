(* Corr_C15.v — what a C15 correspondence case is and how it is decided.
   A case is a history of cache operations run from the empty cache with the
   harness's scripted preparer, together with what the harness saw after EVERY
   operation: the result (identity of the returned object / exception class),
   the whole __CACHE (spec, result, version, prepared_at, system data per key),
   the number of time.monotonic() calls and the preparer invocation log
   (written as a delta against the previous observation). *)
From Koreo Require Export CorrLib Cache.
Local Open Scope list_scope.
Local Open Scope nat_scope.

(* the harness's preparer: behaviour chosen by spec["mode"]; the object it
   returns is identified by the global invocation index n *)
Definition prep_h (k : key) (spec : json) (n : nat) : presult :=
  match spec with
  | JMap kvs =>
      match Json.lookup "mode" kvs with
      | Some (JStr "ok") => POk n false            (* (Prepared(n), None) *)
      | Some (JStr "ok_list") => POk n true        (* (Prepared(n), [])   *)
      | Some (JStr "raise") => PRaise
      | _ => PErr n                                (* PermFail / Retry / Skip / DepSkip object n *)
      end
  | _ => PErr n
  end.

(* one __CACHE item *)
Inductive eo := EO (cls : nat) (name : string) (spec : json) (v : value) (ver : string)
                   (at_ : nat) (sys : option json).
(* the state after an operation, relative to the state before it (to keep the
   generated files small; since every step is checked, this pins the whole
   state by induction): the items that are new or differ from the previous
   observation, the keys now present, the clock, the length of the preparer
   log and the calls this operation added (oldest first) *)
Inductive so := SO (changed : list eo) (keys : list (nat * string)) (clk : nat)
                   (nlog : nat) (newcalls : list (nat * string)).
Inductive stepo := Step (o : op) (r : result) (s : so).
Inductive case := CHist (steps : list stepo).

Definition value_eqb (a b : value) : bool :=
  match a, b with
  | VOk x, VOk y | VErr x, VErr y => Nat.eqb x y
  | _, _ => false
  end.

Definition entry_eqb (e : entry) (spec : json) (v : value) (ver : string) (at_ : nat)
           (sys : option json) : bool :=
  json_eqb (e_spec e) spec && value_eqb (e_value e) v && String.eqb (e_version e) ver &&
  Nat.eqb (e_prepared_at e) at_ && opt_eqb json_eqb (e_sysdata e) sys.

Definition exn_eqb (a b : exn) : bool :=
  match a, b with
  | TypeError, TypeError | AttributeError, AttributeError | PreparerError, PreparerError => true
  | _, _ => false
  end.

Definition result_eqb (a b : result) : bool :=
  match a, b with
  | RNone, RNone => true
  | RValue x, RValue y => value_eqb x y
  | REntry e, REntry e' =>
      entry_eqb e (e_spec e') (e_value e') (e_version e') (e_prepared_at e') (e_sysdata e')
  | Raised x, Raised y => exn_eqb x y
  | _, _ => false
  end.

Definition entry_same (a b : entry) : bool :=
  entry_eqb a (e_spec b) (e_value b) (e_version b) (e_prepared_at b) (e_sysdata b).

Fixpoint find_changed (k : key) (l : list eo) : option eo :=
  match l with
  | [] => None
  | (EO cls name _ _ _ _ _ as it) :: r => if key_eqb k (cls, name) then Some it else find_changed k r
  end.

(* [s]: model state before the operation, [s']: after *)
Definition state_eqb (s s' : state) (o : so) : bool :=
  match o with
  | SO changed keys clk nlog newcalls =>
      Nat.eqb (List.length (cache s')) (List.length keys) &&
      forallb (fun k =>
                 match lookup k (cache s') with
                 | None => false
                 | Some e' =>
                     match find_changed k changed with
                     | Some (EO _ _ spec v ver at_ sys) => entry_eqb e' spec v ver at_ sys
                     | None => match lookup k (cache s) with
                               | Some e => entry_same e e'
                               | None => false
                               end
                     end
                 end) keys &&
      forallb (fun it => match it with EO cls name _ _ _ _ _ =>
                           existsb (key_eqb (cls, name)) keys end) changed &&
      Nat.eqb (clock s') clk &&
      Nat.eqb (List.length (preps s')) nlog &&
      list_eqb key_eqb (firstn (List.length newcalls) (preps s')) (rev newcalls) &&
      list_eqb key_eqb (skipn (List.length newcalls) (preps s')) (preps s)
  end.

Fixpoint check_steps (s : state) (l : list stepo) : bool :=
  match l with
  | [] => true
  | Step o r so :: rest =>
      let (s', r') := step prep_h o s in
      result_eqb r' r && state_eqb s s' so && check_steps s' rest
  end.

Definition check_case (c : case) : bool :=
  match c with CHist l => check_steps init l end.
