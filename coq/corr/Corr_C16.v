(* Corr_C16.v — what a C16 correspondence case is and how it is decided.

   A case is one history (operations of the driver, run from the empty system
   inside one asyncio.run) together with what the harness read from the real
   koreo.cache / koreo.registry modules and from the event loop after EVERY
   operation, and the order in which each notify_subscribers call iterated over
   its set of subscribers (the model's [ord] parameter).  The model is run on
   the same operations and its whole state is compared after every operation:
   this is what validates the asyncio part of the model. *)
From Koreo Require Export CorrLib Loop.
Local Open Scope nat_scope.
Local Open Scope list_scope.

(* what is read for one key *)
Record kobs := KO {
  o_cache : option (nat * list (nat * nat)); (* resource_version, generations seen by the cached value *)
  o_subs : list nat;                         (* _SUBSCRIBER_RESOURCES.get(k), sorted *)
  o_rsubs : list nat;                        (* _RESOURCE_SUBSCRIBERS.get(k), sorted *)
  o_queue : option (list event * bool);      (* queue._queue (Python order: get takes the LAST), _is_shutdown *)
  o_task : option bool;                      (* k in _REPREPARE_TASKS: task.done() *)
  o_ptime : option nat }.                    (* _PREPARE_TIMES.get(k) *)

Record sobs := SO {
  o_keys : list kobs;      (* keys 0, 1, ... of the universe *)
  o_gens : list nat;       (* the harness's generation counters, same keys *)
  o_clock : nat;           (* readings of time.monotonic() so far *)
  o_nready : nat }.        (* len(loop._ready) *)

Inductive stepo := Step (o : op) (s : sobs).

(* [tab]: (event time, iteration order of the subscriber set) for every
   notify_subscribers call *)
Inductive case := CHist (tab : list (nat * list nat)) (steps : list stepo).

Fixpoint assoc (t : nat) (tab : list (nat * list nat)) : option (list nat) :=
  match tab with
  | [] => None
  | (t', l) :: r => if Nat.eqb t t' then Some l else assoc t r
  end.

(* the observed order, restricted to the model's set (and completed by it, so
   that the result is always a permutation of [l]) *)
Definition ord_of (tab : list (nat * list nat)) (t : nat) (l : list nat) : list nat :=
  match assoc t tab with
  | None => l
  | Some o => filter (fun x => memb x l) o ++ filter (fun x => negb (memb x o)) l
  end.

Definition event_eqb (a b : event) : bool :=
  match a, b with
  | EKill, EKill => true
  | ERes n t, ERes n' t' => Nat.eqb n n' && Nat.eqb t t'
  | _, _ => false
  end.

Definition set_eqb (a b : list nat) : bool :=
  Nat.eqb (List.length a) (List.length b) &&
  forallb (fun x => memb x b) a && forallb (fun x => memb x a) b.

Definition pair_eqb (a b : nat * nat) : bool :=
  Nat.eqb (fst a) (fst b) && Nat.eqb (snd a) (snd b).

Definition key_eqb (s : state) (k : nat) (o : kobs) : bool :=
  opt_eqb (fun a b => Nat.eqb (fst a) (fst b) && list_eqb pair_eqb (snd a) (snd b))
          (match cache s k with Some e => Some (c_version e, c_seen e) | None => None end)
          (o_cache o) &&
  set_eqb (subs s k) (o_subs o) &&
  set_eqb (rsubs s k) (o_rsubs o) &&
  opt_eqb (fun a b => list_eqb event_eqb (fst a) (rev (fst b)) && Bool.eqb (snd a) (snd b))
          (match queues s k with
           | Some q => Some (q_items (heap s q), q_shut (heap s q))
           | None => None
           end)
          (o_queue o) &&
  opt_eqb Bool.eqb
          (match rtasks s k with
           | Some tid => Some (match t_status (tasks s tid) with TDone => true | _ => false end)
           | None => None
           end)
          (o_task o) &&
  opt_eqb Nat.eqb (ptimes s k) (o_ptime o).

Fixpoint keys_eqb (s : state) (k : nat) (l : list kobs) : bool :=
  match l with
  | [] => true
  | o :: r => key_eqb s k o && keys_eqb s (S k) r
  end.

Definition state_eqb (s : state) (o : sobs) : bool :=
  match err s with
  | Some _ => false
  | None =>
      keys_eqb s 0 (o_keys o) &&
      list_eqb Nat.eqb (map (gens s) (seq 0 (List.length (o_gens o)))) (o_gens o) &&
      Nat.eqb (clock s) (o_clock o) &&
      Nat.eqb (List.length (ready s)) (o_nready o)
  end.

Fixpoint check_steps (ord : nat -> list nat -> list nat) (s : state) (l : list stepo) : bool :=
  match l with
  | [] => true
  | Step o obs :: rest =>
      let s' := step ord s o in
      state_eqb s' obs && check_steps ord s' rest
  end.

Definition check_case (c : case) : bool :=
  match c with CHist tab l => check_steps (ord_of tab) init l end.

(* for debugging a disagreement: index of the first step that differs *)
Fixpoint first_bad (ord : nat -> list nat -> list nat) (s : state) (l : list stepo) (i : nat) : option nat :=
  match l with
  | [] => None
  | Step o obs :: rest =>
      let s' := step ord s o in
      if state_eqb s' obs then first_bad ord s' rest (S i) else Some i
  end.
