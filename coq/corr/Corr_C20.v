(* Corr_C20.v — what a C20 correspondence case is and how it is decided.
   The schema terms come from gen/Schemas_gen.v (regenerated from the CRD YAML
   on every run), so these cases tie  YAML -> translator -> Schema.validate  to
   YAML -> fastjsonschema -> koreo.schema.validate  on the same specs. *)
From Koreo Require Export CorrLib Schema Schemas_gen.
Local Open Scope list_scope.

(* one spec of one kind, with everything observed of the real code on it *)
Record gate_obs := { g_cls : string; g_compiles : nat; g_lookups : nat }.

Inductive filled_obs :=
| FNone                 (* not observed (the spec was rejected) *)
| FSame                 (* the validator left the spec as it was *)
| FDoc (j : json).      (* the spec after validation, defaults written in *)

Inductive case :=
(* koreo.schema.validate(kind, spec) observed: accepted?, the `rule` of the
   JsonSchemaValueException of the compiled validator ("" if accepted or not
   observable), the spec as the validator left it (defaults written in);
   then what prepare_K(spec) and prepare_and_cache(K, prepare_K, spec) did:
   class of what came back ("PermFail", "Retry", "prepared", "raised"),
   number of celpy compiles and of cache look-ups made *)
| CSpec (k : kind) (spec : json) (accepted : bool) (rule : string) (filled : filled_obs)
        (gates : list gate_obs).

Definition check_validate (k : kind) (spec : json) (accepted : bool) (rule : string)
           (filled : filled_obs) : bool :=
  match validate (schema_of k) spec with
  | None =>
      accepted &&
      match filled with
      | FDoc f => json_eqb (fill (schema_of k) spec) f
      | FSame => json_eqb (fill (schema_of k) spec) spec
      | FNone => true
      end
  | Some r => negb accepted && (String.eqb rule "" || String.eqb r rule)
  end.

Definition check_gate (k : kind) (spec : json) (g : gate_obs) : bool :=
  match prepare_gate (schema_of k) spec with
  | Rejected _ log =>
      String.eqb (g_cls g) "PermFail" && Nat.eqb (g_compiles g) (List.length log) &&
      Nat.eqb (g_lookups g) 0
  | Proceeds _ => true
  end.

Definition check_case (c : case) : bool :=
  match c with
  | CSpec k spec accepted rule filled gates =>
      check_validate k spec accepted rule filled && forallb (check_gate k spec) gates
  end.
