(* Corr_C20.v — what a C20 correspondence case is and how it is decided.
   The schema terms come from gen/Schemas_gen.v (regenerated from the CRD YAML
   on every run), so these cases tie  YAML -> translator -> Schema.validate  to
   YAML -> fastjsonschema -> koreo.schema.validate  on the same specs. *)
From Koreo Require Export CorrLib Schema Schemas_gen.
Local Open Scope list_scope.

Inductive case :=
(* koreo.schema.validate(kind, spec) observed: accepted?, the `rule` of the
   JsonSchemaValueException of the compiled validator ("" if accepted or not
   observable), and the spec as the validator left it (defaults written in) *)
| CValidate (k : kind) (spec : json) (accepted : bool) (rule : string) (filled : option json)
(* prepare_K(spec) observed: class of what came back ("PermFail", "Retry",
   "prepared", ...), number of celpy compiles and cache look-ups it made *)
| CGate (k : kind) (spec : json) (cls : string) (compiles lookups : nat).

Definition check_case (c : case) : bool :=
  match c with
  | CValidate k spec accepted rule filled =>
      match validate (schema_of k) spec with
      | None =>
          accepted &&
          match filled with
          | Some f => json_eqb (fill (schema_of k) spec) f
          | None => true
          end
      | Some r => negb accepted && (String.eqb rule "" || String.eqb r rule)
      end
  | CGate k spec cls compiles lookups =>
      match prepare_gate (schema_of k) spec with
      | Rejected _ log =>
          String.eqb cls "PermFail" && Nat.eqb compiles (List.length log) && Nat.eqb lookups 0
      | Proceeds _ => true
      end
  end.
