(* Corr_C18.v — what a C18 correspondence case is and how it is decided.

   One case = one real run of run_function_test on a generated FunctionTest.
   The function under test, the verdict functions and evaluate_overlay are
   ABSTRACT in model/FnTestRun.v; here they are realised as the lookup tables
   the harness recorded during that very run:
     fut      keyed by the (inputs, resource) handed to reconcile_* / MockApi,
     verdict  keyed by (case index, outcome, api.materialized, api._delete_called),
     roverlay keyed by (case index, inputs, base resource).
   The model then has to reproduce, from the base fixtures and the case list
   alone, the state every case started from, its pass flag / kind / outcome,
   its abort flag, the state it returned, and what run_function_test reported. *)
From Koreo Require Export CorrLib FnTestRun.
Local Open Scope list_scope.

Definition oj := option json.
Definition oj_eqb : oj -> oj -> bool := opt_eqb json_eqb.

(* JSON documents are pooled: the case file lists each distinct document once *)
Definition pool := list oj.
Definition pget (p : pool) (i : nat) : oj := nth i p None.
Definition pgetj (p : pool) (i : nat) : json :=
  match pget p i with Some j => j | None => JNull end.

Record fut_row := { f_inputs : nat; f_resource : nat; f_raised : bool;
                    f_outcome : nat; f_calls : list (option nat) }.   (* None = DELETE *)
Record verdict_row := { v_case : nat; v_outcome : nat; v_mat : nat; v_del : bool;
                        v_pass : option bool }.
Record rov_row := { ov_case : nat; ov_inputs : nat; ov_base : nat; ov_result : option nat }.

(* a prepared case as the harness prints it *)
Record ccase := { cc_variant : bool; cc_skip : bool; cc_overrides : nat; cc_current : nat;
                  cc_overlay : bool }.

Record obs_entry := { ob_start_inputs : nat; ob_start_resource : nat;
                      ob_pass : bool; ob_kind : nat; ob_outcome : nat; ob_fatal : bool;
                      ob_next_inputs : nat; ob_next_resource : nat }.

Record case := {
  c_pool : pool;
  c_healthy : bool;
  c_base_inputs : nat; c_base_resource : nat;
  c_cases : list ccase;
  c_fut : list fut_row; c_verdict : list verdict_row; c_rov : list rov_row;
  c_trace : list obs_entry;           (* one per executed case *)
  c_raised : bool;                    (* run_function_test raised *)
  c_results : list (bool * nat);      (* test_results: pass, kind *)
  c_fatal : bool                      (* fatal_error *)
}.

(* the harness's marker key that makes the (shimmed) inputs overlay fail *)
Definition err_key : string := "__celerr__".

Definition ioverlay_c (b o : json) : option json :=
  match o with
  | JMap kvs => match lookup err_key kvs with Some _ => None | None => Some (deep_overlay b o) end
  | _ => Some (deep_overlay b o)
  end.

Definition call_of (p : pool) (c : option nat) : api_call :=
  match c with
  | None => CDelete
  | Some i => match pget p i with Some (JMap kvs) => CSend kvs | _ => CSend [] end
  end.

(* outcome = option json: None = "the table has no row for this key" *)
Definition fut_c (p : pool) (t : list fut_row) (inputs : json) (r : oj) : fres oj :=
  match find (fun row => json_eqb (pgetj p (f_inputs row)) inputs && oj_eqb (pget p (f_resource row)) r) t with
  | Some row => if f_raised row then FRaised
                else FDone (Some (pgetj p (f_outcome row))) (map (call_of p) (f_calls row))
  | None => FDone None []
  end.

Definition verdict_c (p : pool) (t : list verdict_row) (a : nat) (o : oj) (mat : oj) (del : bool)
  : option bool :=
  match o with
  | None => Some false
  | Some oc =>
      match find (fun row => Nat.eqb (v_case row) a && json_eqb (pgetj p (v_outcome row)) oc &&
                             oj_eqb (pget p (v_mat row)) mat && Bool.eqb (v_del row) del) t with
      | Some row => v_pass row
      | None => None
      end
  end.

Definition roverlay_c (p : pool) (t : list rov_row) (a : nat) (inputs base : json) : option json :=
  match find (fun row => Nat.eqb (ov_case row) a && json_eqb (pgetj p (ov_inputs row)) inputs &&
                         json_eqb (pgetj p (ov_base row)) base) t with
  | Some row => match ov_result row with Some i => pget p i | None => None end
  | None => None
  end.

Fixpoint mk_cases (p : pool) (i : nat) (l : list ccase) : list (tcase nat nat) :=
  match l with
  | [] => []
  | c :: r =>
      {| tc_assertion := i; tc_variant := cc_variant c; tc_skip := cc_skip c;
         tc_overrides := pget p (cc_overrides c); tc_current := pget p (cc_current c);
         tc_overlay := if cc_overlay c then Some i else None |} :: mk_cases p (S i) r
  end.

Definition kind_tag (k : rkind oj) : nat :=
  match k with
  | KSkipped => 0 | KInputsErr => 1 | KSetupErr => 2 | KOverlayErr => 3 | KRan _ => 4 | KCrashed => 5
  end%nat.

Definition kind_outcome (k : rkind oj) : oj :=
  match k with KRan o => o | _ => None end.

Definition entry_matches (p : pool) (e : entry nat nat oj) (o : obs_entry) : bool :=
  oj_eqb (fst (e_start e)) (pget p (ob_start_inputs o)) &&
  oj_eqb (snd (e_start e)) (pget p (ob_start_resource o)) &&
  Bool.eqb (r_pass (e_result e)) (ob_pass o) &&
  Nat.eqb (kind_tag (r_kind (e_result e))) (ob_kind o) &&
  (match r_kind (e_result e) with
   | KRan None => false                                   (* no table row: the model went elsewhere *)
   | KRan (Some oc) => oj_eqb (Some oc) (pget p (ob_outcome o))
   | _ => true
   end) &&
  Bool.eqb (e_fatal e) (ob_fatal o) &&
  oj_eqb (fst (e_next e)) (pget p (ob_next_inputs o)) &&
  oj_eqb (snd (e_next e)) (pget p (ob_next_resource o)).

Definition model_trace (c : case) : list (entry nat nat oj) :=
  let p := c_pool c in
  run_cases (fut_c p (c_fut c)) (verdict_c p (c_verdict c)) ioverlay_c (roverlay_c p (c_rov c))
            (pget p (c_base_inputs c), pget p (c_base_resource c))
            (mk_cases p 0 (c_cases c)).

Definition model_result (c : case) : runres oj :=
  let p := c_pool c in
  run_function_test (fut_c p (c_fut c)) (verdict_c p (c_verdict c)) ioverlay_c (roverlay_c p (c_rov c))
            (c_healthy c)
            (pget p (c_base_inputs c), pget p (c_base_resource c))
            (mk_cases p 0 (c_cases c)).

Fixpoint all2 {A B} (f : A -> B -> bool) (a : list A) (b : list B) : bool :=
  match a, b with
  | [], [] => true
  | x :: a', y :: b' => f x y && all2 f a' b'
  | _, _ => false
  end.

Definition result_matches (r : cresult oj) (o : bool * nat) : bool :=
  Bool.eqb (r_pass r) (fst o) && Nat.eqb (kind_tag (r_kind r)) (snd o).

Definition check_case (c : case) : bool :=
  (if c_healthy c then all2 (entry_matches (c_pool c)) (model_trace c) (c_trace c) else true) &&
  match model_result c with
  | RunRaised => c_raised c
  | RunDone rs f => negb (c_raised c) && all2 result_matches rs (c_results c) && Bool.eqb f (c_fatal c)
  end.

(* the concrete inputs overlay against cel.functions._overlay on its own *)
Record ov_case_t := { oc_base : json; oc_overlay : json; oc_result : json }.
Definition check_overlay (c : ov_case_t) : bool :=
  json_eqb (deep_overlay (oc_base c) (oc_overlay c)) (oc_result c).

(* the concrete MockApi fold against the real MockApi on its own *)
Record api_case_t := { ac_current : oj; ac_calls : list (option (list (string * json)));
                       ac_mat : oj; ac_called : bool; ac_deleted : bool }.
Definition check_api (c : api_case_t) : bool :=
  let a := api_run (ac_current c)
                   (map (fun x => match x with None => CDelete | Some d => CSend d end) (ac_calls c)) in
  oj_eqb (a_mat a) (ac_mat c) && Bool.eqb (a_called a) (ac_called c) &&
  Bool.eqb (a_deleted a) (ac_deleted c).
