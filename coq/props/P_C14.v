From Koreo Require Import Tree Extract Extract_proofs.
