(* P_C14.v — property C14: static reference analysis finds every named dependency.
   Statements only; proofs are in proofs/Extract_proofs.v.
   Models: model/Tree.v (lark trees, the grammar of cel.lark), model/Extract.v
   (structure_extractor.py, the dependency / ordering / watch-list logic of
   workflow/prepare.py, the steps_ready gate of workflow/reconcile.py, the watch lists of
   resource_function/prepare.py and function_test/prepare.py). *)
From Koreo Require Import Tree Extract Extract_proofs.
Local Open Scope string_scope.
Local Open Scope list_scope.
Local Open Scope nat_scope.

(* ---------------------------------------------------------------------------
   "For every expression in a definition, each statically named reference to a prior step
   (steps.NAME or steps['NAME'], at any depth, inside macros, calls or literals) is
   recorded as a dependency of that step"                                                  *)

(* the extractor returns a set and raises nothing on every tree of the CEL grammar
   (any syntactic shape) - also the extractor part of C20 *)
Theorem C14_extract_total : forall t, cel_tree_wf t = true -> exists S, extract t = Done S.
Proof. exact extract_total. Qed.

(* [occurs_steps_ref name t]: somewhere in t (any depth, any context) there is the node
   steps.name, or steps['name'] / steps["name"] / the triple-quoted forms with a plain
   string literal.  [needed_steps S]: the names STEPS_NAME_PATTERN derives from the keys S,
   exactly as _load_step does.  [name_ok]: non-empty, no '.', no '['. *)
Theorem C14_steps_ref_found : forall t name,
  cel_tree_wf t = true -> name_ok name = true -> occurs_steps_ref name t ->
  exists S, extract t = Done S /\ In (Some name) (needed_steps S).
Proof. exact steps_ref_found. Qed.

(* the same without any assumption on the tree: whenever the extractor returns, nothing is missed *)
Theorem C14_steps_ref_in_result : forall t S name,
  extract t = Done S -> name_ok name = true -> occurs_steps_ref name t ->
  In (Some name) (needed_steps S).
Proof. exact steps_ref_in_result. Qed.

(* every valid step label ([[:word:]]+ in the CRD) is covered in every written form,
   with no side condition *)
Theorem C14_label_forms : forall name, label_ok name = true ->
  name_ok name = true /\
  direct_ref name (N "member_dot" [steps_member; Tok "IDENT" name]) /\
  forall q, q = "'"%char \/ q = """"%char ->
    direct_ref name (N "member_index" [steps_member; lit_expr "STRING_LIT" (quote1 q +++ name +++ quote1 q)]) /\
    direct_ref name (N "member_index" [steps_member; lit_expr "MLSTRING_LIT" (quote3 q +++ name +++ quote3 q)]).
Proof. exact label_forms. Qed.

(* which names the regular expression covers: exactly those without '.' and '[' (and not empty);
   longer access paths on the same step give the same name *)
Theorem C14_regex_exact : forall name,
  steps_name ("steps." +++ name) = Some (Some name) <-> name_ok name = true.
Proof. exact steps_name_exact. Qed.

Theorem C14_regex_path : forall name rest, name_ok name = true ->
  steps_name ("steps." +++ name +++ "." +++ rest) = Some (Some name).
Proof. exact steps_name_path. Qed.

(* workflow level: in a Workflow reported ready every step was prepared as a Step whose
   dependency set contains every statically named reference of each of its expressions
   (refSwitch.switchOn, skipIf, forEach.itemIn, inputs, state) and holds only labels of
   EARLIER steps (so reconcile's task_map[dependency] lookup always succeeds) *)
Theorem C14_ready_deps_complete_and_earlier : forall steps w pre st post,
  prepare_workflow steps = Done w -> pw_ready w = COk -> steps = pre ++ st :: post ->
  exists deps,
    nth_error (pw_steps w) (List.length pre) = Some (SStep (st_label st) deps) /\
    (forall t name, In t (step_trees st) -> name_ok name = true -> occurs_steps_ref name t -> In name deps) /\
    (forall d, In d deps -> In d (map st_label pre)).
Proof. exact ready_deps_complete_and_earlier. Qed.

(* ---------------------------------------------------------------------------
   "a Workflow in which a step names a later, unknown or its own label is reported not
   ready instead of being run"                                                              *)

(* [~ In name (map st_label pre)]: name is not the label of an earlier step, i.e. it is a
   later label, the step's own label, or no label at all *)
Theorem C14_bad_order_rejected : forall steps w pre st post t name,
  prepare_workflow steps = Done w -> steps = pre ++ st :: post ->
  In t (step_trees st) -> name_ok name = true -> occurs_steps_ref name t ->
  ~ In name (map st_label pre) ->
  pw_ready w <> COk.
Proof. exact bad_order_rejected. Qed.

Theorem C14_duplicate_label_rejected : forall steps w pre st post,
  prepare_workflow steps = Done w -> steps = pre ++ st :: post ->
  In (st_label st) (map st_label pre) -> pw_ready w <> COk.
Proof. exact duplicate_label_rejected. Qed.

(* reconcile_workflow starts no step of a Workflow that is not ready *)
Theorem C14_not_ready_runs_nothing : forall w, pw_ready w <> COk -> started_steps w = [].
Proof. exact not_ready_runs_nothing. Qed.

(* prepare_workflow returns for every Workflow whose expressions come from the CEL grammar
   (it never raises; errors live in steps_ready) - since repair 2f140bc; before it a key that
   matches STEPS_NAME_PATTERN without a name raised TypeError out of the order check *)
Theorem C14_prepare_workflow_total : forall steps,
  Forall (fun st => trees_wf (step_trees st)) steps -> exists w, prepare_workflow steps = Done w.
Proof. exact prepare_workflow_total. Qed.

(* the sentence in one statement: prepare returns, the Workflow is not ready, nothing is started *)
Theorem C14_bad_order_reported : forall steps pre st post t name,
  Forall (fun st => trees_wf (step_trees st)) steps -> steps = pre ++ st :: post ->
  In t (step_trees st) -> name_ok name = true -> occurs_steps_ref name t ->
  ~ In name (map st_label pre) ->
  exists w, prepare_workflow steps = Done w /\ pw_ready w <> COk /\ started_steps w = [].
Proof. exact bad_order_reported. Qed.

(* references without a usable name (`stepsX.foo`, `steps['.a']`, `steps['[a']`: the key matches
   STEPS_NAME_PATTERN but its group `name` is None) are reported not ready as well *)
Theorem C14_nameless_ref_rejected : forall steps w pre st post t S k,
  prepare_workflow steps = Done w -> steps = pre ++ st :: post ->
  In t (step_trees st) -> extract t = Done S -> In k S -> steps_name k = Some None ->
  pw_ready w <> COk.
Proof. exact nameless_ref_rejected. Qed.

Example C14_nameless_examples :
  cel_expr_wf tree_stepsX_foo = true /\ cel_expr_wf tree_steps_dot_a = true /\
  extract tree_stepsX_foo = Done ["stepsX.foo"] /\ steps_name "stepsX.foo" = Some None /\
  extract tree_steps_dot_a = Done ["steps..a"] /\ steps_name "steps..a" = Some None /\
  (exists w, prepare_workflow (one_step tree_stepsX_foo) = Done w /\ pw_ready w = CPermFail /\
             pw_steps w = [SErr "aaa" CPermFail] /\ started_steps w = []) /\
  (exists w, prepare_workflow (one_step tree_steps_dot_a) = Done w /\ pw_ready w = CPermFail /\
             pw_steps w = [SErr "aaa" CPermFail] /\ started_steps w = []).
Proof. exact nameless_examples. Qed.

(* ---------------------------------------------------------------------------
   "Every Function or Workflow a definition names (step Logic including every refSwitch
   case, overlay functions, a FunctionTest's function under test) is reported as watched"   *)

(* [names_logic st r]: r is the step's ref, or a case of its refSwitch (switchOn compiles, at
   most one default case), with a valid kind and a non-empty name - whether or not the cache
   holds it.  The step's label must not repeat an earlier one (such a step is rejected
   before its Logic is looked at). *)
Theorem C14_watched_complete_workflow : forall steps w pre st post r,
  prepare_workflow steps = Done w -> steps = pre ++ st :: post ->
  ~ In (st_label st) (map st_label pre) ->
  names_logic st r -> In r (pw_watched w).
Proof. exact watched_complete_workflow. Qed.

(* straight-line models, tied to the code by the correspondence check only *)
Theorem C14_watched_complete_rf : forall ovs W o name,
  rf_watched true ovs = Some W -> In o ovs -> ov_skip_if o <> FFail -> ov_body o = ORef name ->
  In name W.
Proof. exact watched_complete_rf. Qed.

Theorem C14_watched_complete_ft : forall kind name,
  (kind = "ValueFunction" \/ kind = "ResourceFunction") -> name <> "" ->
  ft_watched_head kind name true true = Some (kind, name).
Proof. exact ft_watched_some. Qed.

(* ---------------------------------------------------------------------------
   non-vacuity: the parse tree (as built by the real celpy) of
     has(steps.aaa.b) ? [steps['bbb'], x.f().y] : {'k': inputs.l[size(inputs.l) - 1].map(i, i + steps.d_2.n)}
   is a grammar tree; it holds references to aaa, bbb and d_2 at depth (call argument,
   list literal under a conditional, macro body inside a map literal); a receiver the
   extractor cannot turn into a path (x.f().y, l[size(l) - 1]) is skipped without harm *)
Definition ex_tree : node := Eval cbv [ch chain levels skipn firstn Nat.sub fold_right] in
  (N "expr" [(ch 1 8 (N "ident_arg" [(Tok "IDENT" "has"); (N "exprlist" [(ch 0 7 (N "member_dot" [(N "member" [(N "member_dot" [(N "member" [(N "primary" [(N "ident" [(Tok "IDENT" "steps")])])]); (Tok "IDENT" "aaa")])]); (Tok "IDENT" "b")]))])])); (ch 1 8 (N "list_lit" [(N "exprlist" [(ch 0 7 (N "member_index" [(N "member" [(N "primary" [(N "ident" [(Tok "IDENT" "steps")])])]); (ch 0 8 (N "literal" [(Tok "STRING_LIT" "'bbb'")]))])); (ch 0 7 (N "member_dot" [(N "member" [(N "member_dot_arg" [(N "member" [(N "primary" [(N "ident" [(Tok "IDENT" "x")])])]); (Tok "IDENT" "f")])]); (Tok "IDENT" "y")]))])])); (ch 0 8 (N "map_lit" [(N "mapinits" [(ch 0 8 (N "literal" [(Tok "STRING_LIT" "'k'")])); (ch 0 7 (N "member_dot_arg" [(N "member" [(N "member_index" [(N "member" [(N "member_dot" [(N "member" [(N "primary" [(N "ident" [(Tok "IDENT" "inputs")])])]); (Tok "IDENT" "l")])]); (ch 0 3 (N "addition" [(N "addition_sub" [(ch 4 8 (N "ident_arg" [(Tok "IDENT" "size"); (N "exprlist" [(ch 0 7 (N "member_dot" [(N "member" [(N "primary" [(N "ident" [(Tok "IDENT" "inputs")])])]); (Tok "IDENT" "l")]))])]))]); (ch 5 8 (N "literal" [(Tok "INT_LIT" "1")]))]))])]); (Tok "IDENT" "map"); (N "exprlist" [(ch 0 8 (N "ident" [(Tok "IDENT" "i")])); (ch 0 3 (N "addition" [(N "addition_add" [(ch 4 8 (N "ident" [(Tok "IDENT" "i")]))]); (ch 5 7 (N "member_dot" [(N "member" [(N "member_dot" [(N "member" [(N "primary" [(N "ident" [(Tok "IDENT" "steps")])])]); (Tok "IDENT" "d_2")])]); (Tok "IDENT" "n")]))]))])]))])]))]).

Tactic Notation "go" integer(i) := eapply occ_child; [do i right; left; reflexivity|].

Example C14_nonvacuous_tree :
  cel_expr_wf ex_tree = true /\
  occurs_steps_ref "aaa" ex_tree /\ occurs_steps_ref "bbb" ex_tree /\ occurs_steps_ref "d_2" ex_tree /\
  extract ex_tree = Done ["steps.aaa.b"; "steps.aaa"; "steps.bbb"; "inputs.l"; "inputs.l"; "steps.d_2.n"; "steps.d_2"] /\
  needed_steps ["steps.aaa.b"; "steps.aaa"; "steps.bbb"; "inputs.l"; "inputs.l"; "steps.d_2.n"; "steps.d_2"] =
    [Some "aaa"; Some "aaa"; Some "bbb"; Some "d_2"; Some "d_2"].
Proof.
  split; [vm_compute; reflexivity|]. split; [|split; [|split]].
  - unfold ex_tree. go 0. go 0. go 0. go 0. go 0. go 0. go 0. go 0. go 0. go 1. go 0. go 0. go 0. go 0. go 0. go 0. go 0. go 0. go 0. go 0. go 0. apply occ_here. constructor.
  - unfold ex_tree. go 1. go 0. go 0. go 0. go 0. go 0. go 0. go 0. go 0. go 0. go 0. go 0. go 0. go 0. go 0. go 0. go 0. go 0. go 0. apply occ_here.
    apply (dr_index "bbb" "'"%char (quote1 "'"%char) "STRING_LIT");
      [now left|left; split; reflexivity|reflexivity|reflexivity].
  - unfold ex_tree. go 2. go 0. go 0. go 0. go 0. go 0. go 0. go 0. go 0. go 0. go 0. go 1. go 0. go 0. go 0. go 0. go 0. go 0. go 0. go 0. go 2. go 1. go 0. go 0. go 0. go 0. go 1. go 0. go 0. go 0. go 0. go 0. apply occ_here. constructor.
  - split; vm_compute; reflexivity.
Qed.

(* non-vacuity at workflow level: step b refers to step a (earlier): ready, dependency
   recorded, both functions watched; the same reference in step a itself: not ready *)
Definition ex_ref (name : string) : node :=
  ch 0 7 (N "member_dot" [N "member" [N "member_dot" [steps_member; Tok "IDENT" name]]; Tok "IDENT" "out"]).
Definition ex_step (label fn : string) (c : cstat) (inputs : field) : step_spec :=
  {| st_label := label; st_ref := Some {| rf_kind := "ValueFunction"; rf_name := fn; rf_cache := c |};
     st_switch := None; st_skip_if := FNone; st_for_each := FENone; st_inputs := inputs; st_state := FNone |}.

Example C14_nonvacuous_workflow :
  (exists w, prepare_workflow [ex_step "a" "f" CHealthy FNone; ex_step "b" "g" CHealthy (FExpr (ex_ref "a"))] = Done w /\
             pw_ready w = COk /\ pw_steps w = [SStep "a" []; SStep "b" ["a"; "a"]] /\
             pw_watched w = [("ValueFunction", "f"); ("ValueFunction", "g")]) /\
  (exists w, prepare_workflow [ex_step "a" "f" CHealthy (FExpr (ex_ref "a")); ex_step "b" "g" CMissing FNone] = Done w /\
             pw_ready w = CPermFail /\ started_steps w = [] /\
             pw_watched w = [("ValueFunction", "f"); ("ValueFunction", "g")]).
Proof. split; eexists; vm_compute; repeat split; reflexivity. Qed.

Print Assumptions C14_extract_total.
Print Assumptions C14_steps_ref_found.
Print Assumptions C14_steps_ref_in_result.
Print Assumptions C14_label_forms.
Print Assumptions C14_regex_exact.
Print Assumptions C14_regex_path.
Print Assumptions C14_ready_deps_complete_and_earlier.
Print Assumptions C14_bad_order_rejected.
Print Assumptions C14_duplicate_label_rejected.
Print Assumptions C14_not_ready_runs_nothing.
Print Assumptions C14_prepare_workflow_total.
Print Assumptions C14_bad_order_reported.
Print Assumptions C14_nameless_ref_rejected.
Print Assumptions C14_watched_complete_workflow.
Print Assumptions C14_watched_complete_rf.
Print Assumptions C14_watched_complete_ft.
