From Koreo Require Import Registry Registry_proofs.
Example stub : run [] empty = empty.
Proof. reflexivity. Qed.
Print Assumptions stub.
