(* P_C17.v — property C17: the subscription registry stays consistent and
   acyclic, refuses cycle-closing subscriptions without side effects, delivers
   notifications exactly, and deregistering releases the resource's queue.
   Statements only; proofs are in proofs/Registry_proofs.v.
   Model: model/Registry.v (src/koreo/registry.py).

   [run ops empty] is the registry after the operation sequence [ops], started
   from the empty registry; every theorem is for ALL sequences [ops] over the
   operations register / subscribe / subscribe_only_to / unsubscribe /
   notify_subscribers / kill_resource / deregister / get_subscribers /
   get_subscriptions and consumer-side get_nowait[+task_done] on any queue.
   [ORegister r t c]: c = 0 registers with the default unbounded queue, c > 0
   with the caller's own fresh bounded queue asyncio.LifoQueue(maxsize=c). *)
From Koreo Require Import Registry Registry_proofs.
From Coq Require Import Relations.
Local Open Scope nat_scope.
Local Open Scope list_scope.

(* "who watches whom" as a relation: a watches b *)
Definition watches_rel (s : state) : relation nat := fun a b => In (a, b) (watches s).

(* "After any sequence of registry operations the 'who watches whom' and 'who
   is watched by whom' views are exact inverses" *)
Theorem C17_views_inverse : forall ops a b,
  In (a, b) (subs (run ops empty)) <-> In (b, a) (watches (run ops empty)).
Proof. exact views_inverse. Qed.

(* (the views are sets: no pair is listed twice) *)
Theorem C17_views_are_sets : forall ops,
  NoDup (subs (run ops empty)) /\ NoDup (watches (run ops empty)).
Proof. exact views_are_sets. Qed.

(* "... and the subscription graph has no cycle" *)
Theorem C17_acyclic : forall ops x,
  ~ clos_trans nat (watches_rel (run ops empty)) x x.
Proof. exact graph_acyclic. Qed.

(* "a subscription that would close a cycle is refused and leaves the registry
   unchanged" — subscribe: if the graph with the new edge has a cycle, the
   operation raises SubscriptionCycle and the state is the same state *)
Theorem C17_subscribe_cycle_refused : forall ops sb r x,
  let s := run ops empty in
  clos_trans nat (fun a b => In (a, b) (dadd sb r (watches s))) x x ->
  step (OSubscribe sb r) s = (s, Raised Cycle).
Proof. exact subscribe_cycle_refused. Qed.

(* ... subscribe_only_to: if the graph in which sb's watch set is REPLACED by
   rs has a cycle, the operation raises and the state is the same state (no
   partial edges) *)
Theorem C17_subscribe_only_cycle_refused : forall ops sb rs x,
  let s := run ops empty in
  clos_trans nat (fun a b => In (a, b) (dassign sb rs (watches s))) x x ->
  step (OSubscribeOnly sb rs) s = (s, Raised Cycle).
Proof. exact subscribe_only_cycle_refused. Qed.

(* ... whatever operation reports a cycle, in whatever state: nothing changed *)
Theorem C17_refused_unchanged : forall o s s',
  step o s = (s', Raised Cycle) -> s' = s.
Proof. exact refused_unchanged. Qed.

(* (and the check is not over-cautious: it refuses only real cycles) *)
Theorem C17_subscribe_refused_only_if_cycle : forall sb r s s',
  step (OSubscribe sb r) s = (s', Raised Cycle) ->
  clos_trans nat (fun a b => In (a, b) (dadd sb r (watches s))) sb sb.
Proof. exact subscribe_refused_only_if_cycle. Qed.

Theorem C17_subscribe_only_refused_only_if_cycle : forall sb rs s s',
  step (OSubscribeOnly sb rs) s = (s', Raised Cycle) ->
  clos_trans nat (fun a b => In (a, b) (dassign sb rs (watches s))) sb sb.
Proof. exact subscribe_only_refused_only_if_cycle. Qed.

(* termination of _check_for_cycles: its `while to_check` loop is modelled with
   fuel = number of resources in the graph + 2; on every reachable state the
   fuel is never exhausted (acyclicity is the termination argument) *)
Theorem C17_check_terminates : forall ops sb rs,
  check_for_cycles (watches (run ops empty)) sb rs <> OutOfFuel.
Proof. exact check_terminates. Qed.

(* no operation fails in an unexpected way on a reachable state: no fuel
   exhaustion, no ValueError from task_done, and KeyError only from
   unsubscribe of an edge that is not there (which then changes nothing) *)
Theorem C17_step_results : forall ops o,
  let s := run ops empty in
  snd (step o s) <> ROutOfFuel /\ snd (step o s) <> Raised ValueError /\
  snd (step o s) <> Raised OtherExn /\
  (snd (step o s) = Raised KeyError ->
     exists u r, o = OUnsubscribe u r /\ ~ In (r, u) (subs s) /\ fst (step o s) = s).
Proof. exact step_results. Qed.

(* "A notification is delivered exactly once to each current subscriber that
   has a live queue and to nobody else, notifying never fails because some
   subscriber was killed or deregistered":
   notify returns normally; both views and the queue dict are unchanged; a
   queue object that belongs to a current subscriber of n, is not shut down
   and (if bounded) not full — [live_target] — gains exactly the one event
   (n, t) on top; every other queue object ever created (killed, deregistered,
   full, or not a subscriber's) is unchanged.  A "live queue" is one that can
   take the event: put_nowait on a full bounded queue raises QueueFull, which
   notify_subscribers swallows for that subscriber only. *)
Theorem C17_notify_exact : forall ops n t,
  let s := run ops empty in
  let s' := fst (step (ONotify n t) s) in
  snd (step (ONotify n t) s) = RNone /\
  subs s' = subs s /\ watches s' = watches s /\ queues s' = queues s /\
  List.length (heap s') = List.length (heap s) /\
  forall q qu, nth_error (heap s) q = Some qu ->
    (live_target s n q -> nth_error (heap s') q = Some (push (ERes n t) qu)) /\
    (~ live_target s n q -> nth_error (heap s') q = Some qu).
Proof. exact notify_exact. Qed.

(* the full-queue case spelled out: a subscriber whose bounded queue is full gets
   nothing from this notification (and, by C17_notify_exact, all others still
   get theirs) *)
Theorem C17_notify_full_skipped : forall ops n t q qu,
  let s := run ops empty in
  nth_error (heap s) q = Some qu -> full qu = true ->
  nth_error (heap (fst (step (ONotify n t) s))) q = Some qu.
Proof. exact notify_full_skipped. Qed.

(* kill_resource always leaves the queue shut down: the Kill marker is put on
   top when there is room; when the queue is full (QueueFull swallowed) or
   already shut down the items are left alone — but it IS shut down *)
Theorem C17_kill_shuts_down : forall r s q qu,
  lookup r (queues s) = Some q -> nth_error (heap s) q = Some qu ->
  let s' := fst (step (OKill r) s) in
  snd (step (OKill r) s) = RNone /\
  nth_error (heap s') q = Some (kill_q qu) /\ shut (kill_q qu) = true /\
  items (kill_q qu) = (if shut qu || full qu then items qu else EKill :: items qu) /\
  (forall q', q' <> q -> nth_error (heap s') q' = nth_error (heap s) q') /\
  subs s' = subs s /\ watches s' = watches s /\ queues s' = queues s.
Proof. exact kill_shuts_down. Qed.

(* every resource has its own queue object, so "once per queue" is "once per subscriber" *)
Theorem C17_queues_private : forall ops a b q,
  let s := run ops empty in
  lookup a (queues s) = Some q -> lookup b (queues s) = Some q -> a = b.
Proof. exact queues_private. Qed.

(* "deregistering releases everything waiting on that resource's queue":
   deregister returns normally; the resource has no queue entry and watches
   nothing afterwards (in either view); its old queue object is shut down,
   empty, and no undelivered item is left counted as unfinished ([released]);
   its subscribers are notified exactly as by notify; all other queues are
   unchanged *)
Theorem C17_deregister_releases : forall ops r t,
  let s := run ops empty in
  let s' := fst (step (ODeregister r t) s) in
  snd (step (ODeregister r t) s) = RNone /\
  lookup r (queues s') = None /\
  (forall b, ~ In (r, b) (watches s')) /\ (forall a, ~ In (a, r) (subs s')) /\
  List.length (heap s') = List.length (heap s) /\
  (forall q qu, lookup r (queues s) = Some q -> nth_error (heap s) q = Some qu ->
     nth_error (heap s') q = Some (released qu)) /\
  (forall q qu, lookup r (queues s) <> Some q -> nth_error (heap s) q = Some qu ->
     (live_target s r q -> nth_error (heap s') q = Some (push (ERes r t) qu)) /\
     (~ live_target s r q -> nth_error (heap s') q = Some qu)).
Proof. exact deregister_releases. Qed.

(* the full-queue case spelled out: deregistering a resource whose own bounded
   queue is FULL still shuts it down and drains it, and a later get raises *)
Theorem C17_deregister_full_released : forall ops r t q qu,
  let s := run ops empty in
  lookup r (queues s) = Some q -> nth_error (heap s) q = Some qu -> full qu = true ->
  let s' := fst (step (ODeregister r t) s) in
  nth_error (heap s') q = Some (Q [] true (unfinished qu - List.length (items qu)) (cap qu)) /\
  step (OGet q) s' = (s', Raised QueueShutDown).
Proof. exact deregister_full_released. Qed.

(* ... so a consumer that is (or goes) waiting on the old queue gets QueueShutDown *)
Theorem C17_released_get_raises : forall s q qu (d : bool),
  nth_error (heap s) q = Some (released qu) ->
  step (if d then OGetDone q else OGet q) s = (s, Raised QueueShutDown).
Proof. exact released_get_raises. Qed.

(* registering an already registered resource returns its queue and notifies nobody *)
Theorem C17_register_again : forall r t c s q,
  lookup r (queues s) = Some q -> step (ORegister r t c) s = (s, RQueue q).
Proof. exact register_again. Qed.

(* registering a new resource creates its queue and notifies its subscribers
   like notify does; it cannot fail (C17_step_results), whatever state the
   subscribers' queues are in *)
Theorem C17_register_fresh : forall r t c s,
  lookup r (queues s) = None ->
  step (ORegister r t c) s =
  (notify r t (St (subs s) (watches s) ((r, List.length (heap s)) :: queues s)
                  (heap s ++ [new_queue c])),
   RQueue (List.length (heap s))).
Proof. exact register_fresh. Qed.

(* non-vacuity: a history with a chain 0 -> 2, 1 -> 2, a killed subscriber and
   a live one.  The cycle-closing subscriptions are refused, the notification
   reaches resource 0's queue only, and deregistering 0 empties and shuts its
   queue and clears its edges. *)
Example C17_nonvacuous :
  let ops := [ORegister 0 1 0; ORegister 1 2 0; ORegister 2 3 0; OSubscribe 0 2; OSubscribe 1 2;
              ONotify 2 4; OKill 1] in
  let s := run ops empty in
  watches s = [(1, 2); (0, 2)] /\ subs s = [(2, 1); (2, 0)] /\
  step (OSubscribe 2 0) s = (s, Raised Cycle) /\
  step (OSubscribeOnly 2 [1; 2]) s = (s, Raised Cycle) /\
  live_target s 2 0 /\ ~ live_target s 2 1 /\
  heap (fst (step (ONotify 2 5) s)) =
    [Q [ERes 2 5; ERes 2 4] false 2 0; Q [EKill; ERes 2 4] true 2 0; Q [] false 0 0] /\
  (let s' := fst (step (ODeregister 0 6) s) in
   watches s' = [(1, 2)] /\ subs s' = [(2, 1)] /\ queues s' = [(2, 2); (1, 1)] /\
   nth_error (heap s') 0 = Some (Q [] true 0 0)).
Proof.
  vm_compute. repeat split.
  - exists 0, (Q [ERes 2 4] false 1 0). vm_compute. auto.
  - intros (r & qu & Hr & L & Hq & Sh & _). vm_compute in Hr, L, Hq.
    destruct Hr as [Hr|[Hr|[]]]; injection Hr as <-; vm_compute in L; try discriminate.
    injection Hq as <-. discriminate.
Qed.

(* non-vacuity, bounded queues: resource 0 registers with its own queue of
   capacity 1 and watches 2, as does resource 1 with the default queue.  After
   one notification 0's queue is full: the next one reaches 1 only; killing 0
   cannot enqueue the marker but shuts the queue down; deregistering 0 while
   full leaves its queue shut down and empty. *)
Example C17_nonvacuous_bounded :
  let ops := [ORegister 0 1 1; ORegister 1 2 0; OSubscribe 0 2; OSubscribe 1 2; ONotify 2 3] in
  let s := run ops empty in
  heap s = [Q [ERes 2 3] false 1 1; Q [ERes 2 3] false 1 0] /\
  heap (fst (step (ONotify 2 4) s)) = [Q [ERes 2 3] false 1 1; Q [ERes 2 4; ERes 2 3] false 2 0] /\
  heap (fst (step (OKill 0) s)) = [Q [ERes 2 3] true 1 1; Q [ERes 2 3] false 1 0] /\
  heap (fst (step (ODeregister 0 5) s)) = [Q [] true 0 1; Q [ERes 2 3] false 1 0] /\
  snd (step (ORegister 2 6 0) (fst (step (OSubscribe 0 2) s))) = RQueue 2.
Proof. vm_compute. repeat split. Qed.

Print Assumptions C17_views_inverse.
Print Assumptions C17_views_are_sets.
Print Assumptions C17_acyclic.
Print Assumptions C17_subscribe_cycle_refused.
Print Assumptions C17_subscribe_only_cycle_refused.
Print Assumptions C17_refused_unchanged.
Print Assumptions C17_subscribe_refused_only_if_cycle.
Print Assumptions C17_subscribe_only_refused_only_if_cycle.
Print Assumptions C17_check_terminates.
Print Assumptions C17_step_results.
Print Assumptions C17_notify_exact.
Print Assumptions C17_queues_private.
Print Assumptions C17_deregister_releases.
Print Assumptions C17_released_get_raises.
Print Assumptions C17_register_again.
Print Assumptions C17_notify_full_skipped.
Print Assumptions C17_kill_shuts_down.
Print Assumptions C17_deregister_full_released.
Print Assumptions C17_register_fresh.
