(* P_C19.v — property C19: FunctionTest verdicts are sound — a test case passes
   iff its assertion holds for what the Function did.  Statements only; proofs
   are in proofs/FnTestMatch_proofs.v.  Model: model/FnTestMatch.v
   (src/koreo/function_test/run.py as repaired by 58c8051 and 87fca03, prepare.py).

   Vocabulary (defined in FnTestMatch_proofs.v, independently of the algorithm):
     equiv s t a       "the actual value a is what the expectation t describes":
                       equal, nothing missing, nothing extra, modulo the
                       x-koreo-compare-as-set / -as-map directives of t.  Members of a
                       set-compared list are equal under Python == with a boolean only
                       equal to a boolean (strict_eq); a map-directed value is a list
                       of objects read as the collection keyed by the fields (keyed_list)
     apart x y         the two documents differ somewhere (declarative)
     deviates1 x y     y is x with ONE deviation at any depth: changed / retyped
                       leaf, missing key, extra key, list length change, reorder of
                       distinct elements
     dfree t           t has no directive-named key anywhere
     regular t         every directive value in t has the documented shape
     outcome_holds e a same class, message contained case-insensitively ('' matches
                       anything), non-zero delay equal; None = "ok" = a plain value *)
From Koreo Require Import Json Outcome FnTestMatch FnTestMatch_proofs.
From Coq Require Import Permutation.
Local Open Scope list_scope.

Section C19.
  (* f"{obj.get(field)}".strip() — the theorems hold for every such function *)
  Variable key_text : json -> string.

  Notation tmatch := (tmatch key_text).
  Notation equiv := (equiv key_text).

  (* the comparator always has enough fuel: MFuel is never its answer *)
  Theorem C19_fuel : forall t a, tmatch t a <> MFuel.
  Proof. exact (tmatch_never_out_of_fuel key_text). Qed.

  (* tmatch_iff — "the object ... equals the expected object exactly (nothing
     missing, nothing extra, modulo compare directives)": the comparator passes
     EXACTLY when the actual value is what the expectation describes — for every
     expectation and every actual value, directives included, no side condition *)
  Theorem C19_tmatch_iff : forall t a, tmatch t a = MDone true <-> equiv false t a.
  Proof. exact (tmatch_exact key_text). Qed.

  (* "an assertion derived from the Function's actual behaviour passes" *)
  Theorem C19_tmatch_complete : forall t a, equiv false t a -> tmatch t a = MDone true.
  Proof. intros t a. apply (tmatch_exact key_text). Qed.

  (* the comparator yields a verdict (never raises), whatever the actual value,
     for every expectation whose directive values have the documented shape *)
  Theorem C19_tmatch_total : forall t a,
    regular key_text t = true -> exists b, tmatch t a = MDone b.
  Proof. exact (regular_total key_text). Qed.

  (* the three repaired defects, as positive statements: a boolean and the equal
     number are kept apart in a set-compared list; under a map directive a value
     that is not a list of objects — null, a list holding a scalar, '' for [] —
     fails (no raise, no false pass) *)
  Theorem C19_set_bool_number_kept_apart :
    tmatch (JMap [("l"%string, JList [JBool true; JStr "z"]); (K_SET, JList [JStr "l"])])
           (JMap [("l"%string, JList [JStr "z"; JInt 1])]) = MDone false.
  Proof. exact (set_bool_number_kept_apart key_text). Qed.

  Theorem C19_map_actual_not_a_list_fails :
    tmatch (JMap [("items"%string, JList [JMap [("name"%string, JStr "a")]]);
                  (K_MAP, JMap [("items"%string, JList [JStr "name"])])])
           (JMap [("items"%string, JNull)]) = MDone false.
  Proof. exact (map_actual_not_a_list_fails key_text). Qed.

  Theorem C19_map_empty_string_is_not_the_empty_list :
    tmatch (JMap [("items"%string, JList []); (K_MAP, JMap [("items"%string, JList [JStr "name"])])])
           (JMap [("items"%string, JStr "")]) = MDone false.
  Proof. exact (map_empty_string_is_not_the_empty_list key_text). Qed.

  (* "any single deviation from it fails": the actual value deviates ... *)
  Theorem C19_single_deviation_fails : forall t a a',
    dfree t = true -> equiv false t a -> deviates1 a a' -> tmatch t a' = MDone false.
  Proof. exact (single_deviation_fails key_text). Qed.

  (* ... or (the property's own quantifier) the ASSERTION is perturbed *)
  Theorem C19_single_deviation_of_assertion_fails : forall t t' a,
    dfree t = true -> dfree t' = true -> equiv false t a -> deviates1 t t' ->
    tmatch t' a = MDone false.
  Proof. exact (single_deviation_of_assertion_fails key_text). Qed.

  (* not only single deviations: any two documents that differ somewhere *)
  Theorem C19_apart_fails : forall t a a',
    dfree t = true -> equiv false t a -> apart a a' -> tmatch t a' = MDone false.
  Proof. exact (apart_actual_fails key_text). Qed.

  (* "expectOutcome only for the same outcome class with the message contained
     and, if non-zero, the delay equal" *)
  Theorem C19_outcome_match_iff : forall e a,
    preparable e -> (outcome_match key_text e a = MDone true <-> outcome_holds e a).
  Proof. exact (outcome_match_iff key_text). Qed.

  (* every ExpectOutcome that prepare builds is in the theorem's domain *)
  Theorem C19_prepared_outcomes_preparable : forall spec e,
    expect_outcome_of spec = PExpect e -> preparable e.
  Proof. exact expect_outcome_preparable. Qed.

  (* "expectReturn only for an Ok result equal to the expected value" *)
  Theorem C19_verdict_return_iff : forall e a,
    verdict_return key_text e a = MDone true <-> exists v, a = UVal v /\ equiv false e v.
  Proof. exact (verdict_return_iff key_text). Qed.

  (* "expectResource only when a create or patch was attempted and the object
     sent equals the expected object exactly" *)
  Theorem C19_verdict_resource_iff : forall e mat a,
    e <> JNull ->
    (verdict_resource key_text e mat a = MDone true <->
     exists m m' d msg loc, mat = Some m /\ a = UOut (Retry d msg loc) /\
                            strip_last_applied m = Some m' /\ equiv false e m').
  Proof. exact (verdict_resource_iff key_text). Qed.

  (* ... "a create or patch": the last call sent a body, provided the expectation
     names at least one ordinary key (an expectation of directive keys only also
     passes on the {} materialised for a DELETE: see the refuted lemma) *)
  Theorem C19_resource_pass_needs_send : forall cur cs m ek a k,
    mock_calls (mock_init cur) cs = Some m -> In k (plain_keys ek) ->
    verdict_resource key_text (JMap ek) (m_mat m) a = MDone true ->
    exists cs' body, cs = cs' ++ [CallSend body].
  Proof. exact (resource_pass_needs_send key_text). Qed.

  Theorem C19_resource_directive_only_refuted :
    exists m, (mock_calls (mock_init (Some (JMap [("kind"%string, JStr "K"%string)]))) [CallDelete] = Some m) /\
      (verdict_resource key_text (JMap [(K_SET, JList [])]) (m_mat m)
                        (UOut (Retry 15%Z (Some "Deleting"%string) None)) = MDone true).
  Proof. exact (resource_directive_only_passes_on_delete key_text). Qed.

  (* "expectDelete only when a delete was (or was not) issued as stated" *)
  Theorem C19_verdict_delete_iff : forall b o,
    verdict key_text (ExpectDelete b) o = MDone true <-> ob_deleted o = b.
  Proof. exact (verdict_delete_iff key_text). Qed.

  Theorem C19_verdict_outcome_iff : forall e o,
    preparable e ->
    (verdict key_text (ExpectOutcome e) o = MDone true <-> outcome_holds e (ob_actual o)).
  Proof. exact (verdict_outcome_iff key_text). Qed.
End C19.

(* the flag expectDelete reads is set iff a DELETE was issued *)
Theorem C19_mock_deleted_iff : forall cur cs m,
  mock_calls (mock_init cur) cs = Some m -> (m_deleted m = true <-> In CallDelete cs).
Proof. exact mock_deleted_iff. Qed.

(* "the object sent" for a patch: what the mock materialises — every top-level key
   of the body replaces the current one, the other top-level keys stay *)
Theorem C19_merge_overlay_toplevel : forall b o,
  NoDup (map fst o) ->
  exists m, merge_overlay (JMap b) (JMap o) = Some (JMap m) /\
            forall k, lookup k m = match lookup k o with Some v => Some v | None => lookup k b end.
Proof. exact merge_overlay_toplevel. Qed.

(* the last-applied annotation koreo adds to everything it sends is removed
   before the comparison (and `annotations` with it when it was the only one) *)
Theorem C19_strip_last_applied_sent : forall kvs md an v,
  lookup "metadata"%string kvs = Some (JMap md) -> lookup "annotations"%string md = Some (JMap an) ->
  lookup LAST_APPLIED an = Some v ->
  strip_last_applied (JMap kvs) =
  Some (JMap (set_key "metadata"%string
                (JMap (if Nat.eqb (List.length an) 1 then del_key "annotations"%string md
                       else set_key "annotations"%string (JMap (del_key LAST_APPLIED an)) md)) kvs)).
Proof. exact strip_last_applied_sent. Qed.

(* non-vacuity: a nested expectation, the value it describes (1 vs 1.0 is not a
   deviation), a single deviation three levels down, and the verdicts *)
Example C19_nonvacuous :
  let t := JMap [("spec"%string, JMap [("ports"%string, JList [JInt 80; JInt 443]);
                                       ("on"%string, JBool true); ("n"%string, JInt 1)])] in
  let a := JMap [("spec"%string, JMap [("n"%string, JFloat 1 0); ("on"%string, JBool true);
                                       ("ports"%string, JList [JInt 80; JInt 443])])] in
  let a' := JMap [("spec"%string, JMap [("n"%string, JFloat 1 0); ("on"%string, JInt 1);
                                        ("ports"%string, JList [JInt 80; JInt 443])])] in
  dfree t = true /\ tmatch py_key_text t a = MDone true /\ deviates1 a a' /\
  tmatch py_key_text t a' = MDone false.
Proof.
  cbv zeta. repeat split; try reflexivity.
  set (inner := [("n"%string, JFloat 1 0); ("on"%string, JBool true);
                 ("ports"%string, JList [JInt 80; JInt 443])]).
  refine (D_val [("spec"%string, JMap inner)] "spec"%string (JMap inner)
                (JMap (set_key "on"%string (JInt 1) inner)) eq_refl eq_refl _).
  refine (D_val inner "on"%string (JBool true) (JInt 1) eq_refl eq_refl _).
  apply D_here, DR_kind. discriminate.
Qed.

(* non-vacuity of C19_tmatch_total / C19_tmatch_iff with directives: an expectation
   with both directives that is [regular], the shuffled value it describes, and a
   value with one member changed *)
Example C19_nonvacuous_directives :
  let t := JMap [("tags"%string, JList [JStr "b"; JStr "a"; JInt 3]);
                 (K_SET, JList [JStr "tags"]);
                 ("ports"%string, JList [JMap [("name"%string, JStr "https"); ("port"%string, JInt 443)];
                                         JMap [("name"%string, JStr "http"); ("port"%string, JInt 80)]]);
                 (K_MAP, JMap [("ports"%string, JList [JStr "name"])])] in
  let a := JMap [("ports"%string, JList [JMap [("name"%string, JStr "http"); ("port"%string, JInt 80)];
                                         JMap [("name"%string, JStr "https"); ("port"%string, JInt 443)]]);
                 ("tags"%string, JList [JInt 3; JStr "a"; JStr "b"])] in
  let a' := JMap [("ports"%string, JList [JMap [("name"%string, JStr "http"); ("port"%string, JInt 81)];
                                          JMap [("name"%string, JStr "https"); ("port"%string, JInt 443)]]);
                  ("tags"%string, JList [JInt 3; JStr "a"; JStr "b"])] in
  regular py_key_text t = true /\
  tmatch py_key_text t a = MDone true /\ tmatch py_key_text t a' = MDone false.
Proof. cbv zeta. repeat split; vm_compute; reflexivity. Qed.

Print Assumptions C19_fuel.
Print Assumptions C19_tmatch_complete.
Print Assumptions C19_tmatch_iff.
Print Assumptions C19_tmatch_total.
Print Assumptions C19_set_bool_number_kept_apart.
Print Assumptions C19_map_actual_not_a_list_fails.
Print Assumptions C19_map_empty_string_is_not_the_empty_list.
Print Assumptions C19_single_deviation_fails.
Print Assumptions C19_single_deviation_of_assertion_fails.
Print Assumptions C19_apart_fails.
Print Assumptions C19_outcome_match_iff.
Print Assumptions C19_prepared_outcomes_preparable.
Print Assumptions C19_verdict_return_iff.
Print Assumptions C19_verdict_resource_iff.
Print Assumptions C19_resource_pass_needs_send.
Print Assumptions C19_resource_directive_only_refuted.
Print Assumptions C19_verdict_delete_iff.
Print Assumptions C19_verdict_outcome_iff.
Print Assumptions C19_mock_deleted_iff.
Print Assumptions C19_merge_overlay_toplevel.
Print Assumptions C19_strip_last_applied_sent.
