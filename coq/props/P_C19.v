From Koreo Require Import Json Outcome FnTestMatch FnTestMatch_proofs.
Theorem C19_placeholder : forall x y, mand x y = MDone true <-> x = MDone true /\ y = MDone true.
Proof. exact mand_true. Qed.
Print Assumptions C19_placeholder.
