(* P_C18.v — property C18: FunctionTest cases chain sequentially; variant and
   skipped cases leave no trace.  Statements only; proofs are in
   proofs/FnTestRun_proofs.v.  Model: model/FnTestRun.v
   (src/koreo/function_test/run.py: run_function_test, _run_test_cases,
   _run_test_case, MockApi, _merge_overlay).

   Everything is stated for EVERY function under test [fut] (any function of the
   inputs and resource it is handed), every verdict function, every inputs /
   resource overlay function, every base state and every list of cases (no
   bound on its length).  [run_cases base cs] is the trace of executed cases:
   for each one the state (inputs, resource) it started from, the case, and
   what came out (next state, pass flag, kind, abort flag).

   NOT covered here (no heap in Gallina): "no case can modify the Function
   under test or the base fixtures" — a snapshot monitor in harness/props/C18.py. *)
From Koreo Require Import Json FnTestRun FnTestRun_proofs.
Local Open Scope nat_scope.
Local Open Scope list_scope.

Section C18.
  Variables assertion overlay outcome : Type.
  Variable fut : json -> option json -> fres outcome.
  Variable verdict : assertion -> outcome -> option json -> bool -> option bool.
  Variable ioverlay : json -> json -> option json.
  Variable roverlay : overlay -> json -> json -> option json.

  Notation tcase := (tcase assertion overlay).
  Notation entry := (entry assertion overlay outcome).
  Notation run_case := (run_case fut verdict ioverlay roverlay).
  Notation run_cases := (run_cases fut verdict ioverlay roverlay).
  Notation thread := (thread fut verdict ioverlay roverlay).
  Notation run_function_test := (run_function_test fut verdict ioverlay roverlay).

  (* ---- "the inputs and resource state produced by each passing non-variant
          case are exactly what the next case starts from" ---- *)

  (* the first case starts from the base fixtures *)
  Theorem C18_first_starts_from_base : forall cs (base : state) (e : entry),
    nth_error (run_cases base cs) 0 = Some e -> e_start e = base.
  Proof. exact (chain_head _ _ _ fut verdict ioverlay roverlay). Qed.

  (* case k+1 starts from exactly what case k returned (and is reached only if
     case k did not abort the run) *)
  Theorem C18_next_starts_from_previous : forall cs (base : state) k (e e' : entry),
    nth_error (run_cases base cs) k = Some e ->
    nth_error (run_cases base cs) (S k) = Some e' ->
    e_start e' = e_next e /\ e_fatal e = false.
  Proof. exact (chain_step _ _ _ fut verdict ioverlay roverlay). Qed.

  (* what a (non-aborting, i.e. passing) non-variant, non-skipped case returns:
     the inputs it ran with (base inputs overlaid with its inputOverrides) and
     the resource the mock API materialised from the function's calls — or the
     resource it ran against when the function made no call *)
  Theorem C18_passing_case_produces : forall (bi cr : option json) (c : tcase),
    carries c = true -> o_fatal (run_case (bi, cr) c) = false ->
    r_pass (o_result (run_case (bi, cr) c)) = true /\
    exists inputs resource o calls,
      case_inputs ioverlay bi (tc_overrides c) = Some inputs /\
      case_resource roverlay c inputs cr = RRes resource /\
      fut inputs resource = FDone o calls /\
      r_kind (o_result (run_case (bi, cr) c)) = KRan o /\
      o_next (run_case (bi, cr) c) =
        (Some inputs, produced_resource resource (api_run resource calls)).
  Proof. exact (carrying_produces _ _ _ fut verdict ioverlay roverlay). Qed.

  (* a variant or skipped case returns the state it was given, whatever happened in it *)
  Theorem C18_variant_skip_return_state_unchanged : forall (st : state) (c : tcase),
    carries c = false -> o_next (run_case st c) = st.
  Proof. exact (noncarrying_keeps_state _ _ _ fut verdict ioverlay roverlay). Qed.

  (* [state_threading] case k starts from the state obtained by threading the
     base state through ONLY the non-variant, non-skipped cases before it ... *)
  Theorem C18_state_threading : forall cs (base : state) k (e : entry),
    nth_error (run_cases base cs) k = Some e ->
    e_start e = thread base (filter carries (firstn k cs)).
  Proof. exact (state_threading _ _ _ fut verdict ioverlay roverlay). Qed.

  (* ... i.e. from what the LAST non-variant, non-skipped case before it
     returned (the base fixtures if there is none) ... *)
  Theorem C18_starts_from_last_carrying_case : forall k cs (base : state) (e : entry),
    nth_error (run_cases base cs) k = Some e ->
    e_start e = last_carried base (firstn k (run_cases base cs)).
  Proof. exact (start_is_last_carried _ _ _ fut verdict ioverlay roverlay). Qed.

  (* ... and each of those cases had passed *)
  Theorem C18_cases_run_past_had_passed : forall cs (base : state) k j (e e' : entry),
    nth_error (run_cases base cs) k = Some e -> j < k ->
    nth_error (run_cases base cs) j = Some e' -> carries (e_case e') = true ->
    r_pass (e_result e') = true.
  Proof. exact (passed_over_cases_passed _ _ _ fut verdict ioverlay roverlay). Qed.

  (* ---- "so a case's result depends only on the base inputs/resource and the
          non-variant cases before it" ---- *)
  (* the whole entry of case k (start state, outcome, verdict, abort flag, next
     state) is reproduced by running just the non-variant non-skipped cases
     before it followed by the case itself *)
  Theorem C18_result_depends_only_on_nonvariant_prefix : forall cs (base : state) k (e : entry),
    nth_error (run_cases base cs) k = Some e ->
    nth_error (run_cases base (filter carries (firstn k cs) ++ [e_case e]))
              (List.length (filter carries (firstn k cs))) = Some e.
  Proof. exact (depends_only_on_carrying_prefix _ _ _ fut verdict ioverlay roverlay). Qed.

  (* ---- "the runner stops at the first failing non-variant case by design" ---- *)
  Theorem C18_nonvariant_aborts_iff_fails : forall (st : state) (c : tcase),
    carries c = true ->
    o_fatal (run_case st c) = negb (r_pass (o_result (run_case st c))).
  Proof. exact (carrying_fatal_iff_fail _ _ _ fut verdict ioverlay roverlay). Qed.

  Theorem C18_stops_after_abort : forall cs (base : state) k (e : entry),
    nth_error (run_cases base cs) k = Some e -> e_fatal e = true ->
    List.length (run_cases base cs) = S k.
  Proof. exact (stops_after_fatal _ _ _ fut verdict ioverlay roverlay). Qed.

  Theorem C18_runs_all_without_abort : forall cs (base : state),
    (forall e : entry, In e (run_cases base cs) -> e_fatal e = false) ->
    List.length (run_cases base cs) = List.length cs.
  Proof. exact (runs_all_when_no_fatal _ _ _ fut verdict ioverlay roverlay). Qed.

  (* a variant case can abort the run only as a setup error (overlayResource
     with no current resource: excluded by the property) or by raising *)
  Theorem C18_variant_abort_is_setup_error : forall (st : state) (c : tcase),
    tc_variant c = true -> o_fatal (run_case st c) = true ->
    r_kind (o_result (run_case st c)) = KSetupErr \/
    r_kind (o_result (run_case st c)) = KCrashed.
  Proof. exact (variant_fatal_kind _ _ _ fut verdict ioverlay roverlay). Qed.

  (* ---- "Removing, adding or reordering variant cases ... never changes the
          result of any other case" ---- *)

  (* [variant_invisible], by position: drop any set of positions holding
     variant (or skipped) cases none of which aborted the run (setup errors are
     excluded by the property).  The trace of the shorter test is the trace of
     the longer one with those positions dropped: every other case starts from
     the same state, gets the same outcome and verdict, and the run stops at
     the same case.  Read right to left this is ADDING variant cases. *)
  Theorem C18_variant_invisible : forall cs m (base : state),
    dropped m cs (fun c : tcase => carries c = false) ->
    dropped m (run_cases base cs) (fun e : entry => e_fatal e = false) ->
    run_cases base (mfilter m cs) = mfilter m (run_cases base cs).
  Proof. exact (run_cases_mask _ _ _ fut verdict ioverlay roverlay). Qed.

  (* all variant cases removed *)
  Theorem C18_variants_removed : forall cs (base : state),
    (forall e : entry, In e (run_cases base cs) -> tc_variant (e_case e) = true -> e_fatal e = false) ->
    run_cases base (filter nonvariant cs) =
    filter (fun e : entry => nonvariant (e_case e)) (run_cases base cs).
  Proof. exact (variants_removed _ _ _ fut verdict ioverlay roverlay). Qed.

  (* reordered (also: duplicated, replaced by other variants): two tests with
     the same non-variant cases in the same order *)
  Theorem C18_variants_reordered : forall cs cs' (base : state),
    filter nonvariant cs = filter nonvariant cs' ->
    (forall e : entry, In e (run_cases base cs) -> tc_variant (e_case e) = true -> e_fatal e = false) ->
    (forall e : entry, In e (run_cases base cs') -> tc_variant (e_case e) = true -> e_fatal e = false) ->
    filter (fun e : entry => nonvariant (e_case e)) (run_cases base cs) =
    filter (fun e : entry => nonvariant (e_case e)) (run_cases base cs').
  Proof. exact (variants_reordered _ _ _ fut verdict ioverlay roverlay). Qed.

  (* as seen by the caller of run_function_test: test_results and fatal_error *)
  Theorem C18_run_function_test_variants_removed : forall (base : state) cs rs f,
    run_function_test true base cs = RunDone rs f ->
    (forall e : entry, In e (run_cases base cs) -> tc_variant (e_case e) = true -> e_fatal e = false) ->
    run_function_test true base (filter nonvariant cs) =
    RunDone (mfilter (map nonvariant cs) rs) f.
  Proof. exact (rft_variants_removed _ _ _ fut verdict ioverlay roverlay). Qed.

  (* ---- "... or removing cases marked skip" (no side condition) ---- *)

  (* [skip_invisible] by position *)
  Theorem C18_skip_invisible : forall cs m (base : state),
    dropped m cs (fun c : tcase => tc_skip c = true) ->
    run_cases base (mfilter m cs) = mfilter m (run_cases base cs).
  Proof. exact (skips_removed_mask _ _ _ fut verdict ioverlay roverlay). Qed.

  Theorem C18_skips_removed : forall cs (base : state),
    run_cases base (filter nonskip cs) =
    filter (fun e : entry => nonskip (e_case e)) (run_cases base cs).
  Proof. exact (skips_removed _ _ _ fut verdict ioverlay roverlay). Qed.

  Theorem C18_run_function_test_skips_removed : forall (base : state) cs rs f,
    run_function_test true base cs = RunDone rs f ->
    run_function_test true base (filter nonskip cs) =
    RunDone (mfilter (map nonskip cs) rs) f.
  Proof. exact (rft_skips_removed _ _ _ fut verdict ioverlay roverlay). Qed.

  (* a skipped case is reported as a passing "skipped" result and changes nothing *)
  Theorem C18_skipped_reported : forall cs (base : state) k (e : entry),
    nth_error (run_cases base cs) k = Some e -> tc_skip (e_case e) = true ->
    e_result e = {| r_pass := true; r_kind := KSkipped |} /\ e_next e = e_start e.
  Proof. exact (skipped_reported _ _ _ fut verdict ioverlay roverlay). Qed.
End C18.

(* ---------- non-vacuity ---------- *)
(* A toy function under test: creates {"v": inputs.v} when there is no
   resource, patches when spec differs, otherwise returns 2.  Assertions are the
   expected outcome number.  The test mixes a passing create, a variant with
   overrides, a skipped case, a non-variant override (patch), a variant whose
   assertion is false, and a final no-op check. *)
Module Demo.
  Definition want (inputs : json) : json :=
    match inputs with JMap kvs => match lookup "v" kvs with Some v => v | None => JNull end | _ => JNull end.
  Definition fut (inputs : json) (r : option json) : fres nat :=
    match r with
    | Some (JMap kvs) =>
        match kvs with
        | [] => FDone 0 [CSend [("v", want inputs)]]
        | _ => if json_eqb (match lookup "v" kvs with Some v => v | None => JNull end) (want inputs)
               then FDone 2 [] else FDone 1 [CSend [("v", want inputs)]]
        end
    | _ => FDone 0 [CSend [("v", want inputs)]]
    end.
  Definition verdict (a o : nat) (_ : option json) (_ : bool) : option bool := Some (Nat.eqb a o).
  Definition iov (b o : json) : option json := Some (deep_overlay b o).
  Definition rov (_ : unit) (_ r : json) : option json := Some r.
  Definition mk a v s ov : tcase nat unit :=
    Build_tcase a v s ov None None.
  Definition cs : list (tcase nat unit) :=
    [ mk 0 false false None;
      mk 1 true false (Some (JMap [("v", JInt 7)]));
      mk 9 false true None;
      mk 1 false false (Some (JMap [("v", JInt 5)]));
      mk 0 true false None;
      mk 2 false false None ].
  Definition base : state := (Some (JMap [("v", JInt 1)]), None).
  Definition tr := run_cases fut verdict iov rov base cs.

  (* the hypotheses of the theorems hold for it, all six cases run, the false
     variant assertion is reported, and the last case sees v = 5 (from the
     non-variant override) and not 7 (from the variant) *)
  Example C18_nonvacuous :
    List.length tr = 6 /\
    (forall e, In e tr -> tc_variant (e_case e) = true -> e_fatal e = false) /\
    map (fun e => r_pass (e_result e)) tr = [true; true; true; true; false; true] /\
    option_map e_start (nth_error tr 5) =
      Some (Some (JMap [("v", JInt 5)]), Some (JMap [("v", JInt 5)])) /\
    run_function_test fut verdict iov rov true base (filter nonvariant cs) =
      RunDone (mfilter (map nonvariant cs) (map e_result tr)) false.
  Proof.
    repeat split; try (vm_compute; reflexivity).
    intros e He Hv. vm_compute in He.
    repeat (destruct He as [He|He]; [subst e; vm_compute in *; try reflexivity; try discriminate|]).
    contradiction.
  Qed.

  (* why setup errors have to be excluded: a VARIANT case that overlays a
     resource that does not exist yet aborts the whole run *)
  Example C18_setup_error_aborts :
    let cs' := [Build_tcase 0 true false None None (Some tt); mk 0 false false None] in
    map (fun e => (r_kind (e_result e), e_fatal e)) (run_cases fut verdict iov rov base cs')
      = [(KSetupErr, true)] /\
    List.length (run_cases fut verdict iov rov base (filter nonvariant cs')) = 1.
  Proof. vm_compute. split; reflexivity. Qed.
End Demo.

Print Assumptions C18_first_starts_from_base.
Print Assumptions C18_next_starts_from_previous.
Print Assumptions C18_passing_case_produces.
Print Assumptions C18_variant_skip_return_state_unchanged.
Print Assumptions C18_state_threading.
Print Assumptions C18_starts_from_last_carrying_case.
Print Assumptions C18_cases_run_past_had_passed.
Print Assumptions C18_result_depends_only_on_nonvariant_prefix.
Print Assumptions C18_nonvariant_aborts_iff_fails.
Print Assumptions C18_stops_after_abort.
Print Assumptions C18_runs_all_without_abort.
Print Assumptions C18_variant_abort_is_setup_error.
Print Assumptions C18_variant_invisible.
Print Assumptions C18_variants_removed.
Print Assumptions C18_variants_reordered.
Print Assumptions C18_run_function_test_variants_removed.
Print Assumptions C18_skip_invisible.
Print Assumptions C18_skips_removed.
Print Assumptions C18_run_function_test_skips_removed.
Print Assumptions C18_skipped_reported.
