From Koreo Require Import Json Overlay Overlay_proofs.
Theorem C12_eval_deterministic : forall en ov base, evaluate_overlay en ov base = evaluate_overlay en ov base.
Proof. exact eval_deterministic. Qed.
Print Assumptions C12_eval_deterministic.
