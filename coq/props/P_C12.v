(* P_C12.v — property C12: targets and returns are ordered deep merges;
   evaluation is pure.  Statements only; proofs are in proofs/Overlay_proofs.v.
   Model: model/Overlay.v (cel/prepare.py, cel/evaluation.py, cel/functions.py,
   value_function/reconcile.py, resource_function/reconcile/__init__.py).

   Every theorem assumes well-formed documents (wf / wf_doc: map keys unique,
   which Python dicts guarantee).  Leaf evaluation is abstract in the index
   theorems ([ev : doc -> option json], None = the expression fails) and is the
   mini expression language of the model in the pipeline theorems.

   PURITY.  "never modifies the inputs, the base, a cached template or the
   function itself" cannot be stated in this heap-free model: all values are
   immutable terms.  What can be stated is determinism (C12_eval_deterministic),
   which is trivial.  The no-mutation clause is checked by the harness's
   snapshot monitor on the real code (a test, not a proof). *)
From Koreo Require Import Json Overlay Overlay_proofs.
From Koreo Require ResourceFn FnTestRun CrossModel_proofs DeepOverlay_gen DeepOverlay_sync.
Local Open Scope list_scope.
Local Open Scope nat_scope.

(* ---- what "deep merge" means -------------------------------------------- *)

(* "every other value (lists, scalars, empty maps) replaces": a leaf of the
   evaluated overlay — anything but a non-empty map written in the overlay,
   including a COMPUTED value that happens to be a map — is the result *)
Theorem C12_leaf_replaces : forall v basev, merge_doc (OLeaf v) basev = v.
Proof. exact merge_doc_leaf. Qed.

(* … and those are exactly the documents the indexer does not descend into *)
Theorem C12_what_is_a_leaf : forall ev d,
  is_node d = false -> ev_tree ev d = option_map OLeaf (ev d).
Proof. exact ev_tree_leaf. Qed.

(* "maps merge key by key": under key k of the merged map one finds … *)
Theorem C12_maps_merge_key_by_key : forall k m basev,
  lookup k (as_map (merge_doc (ONode m) basev)) =
  match lookup k m, lookup k (as_map basev) with
  | Some t, Some bv => Some (merge_doc t bv)   (* in both: merged recursively *)
  | Some t, None => Some (merge_doc t JNull)  (* only in the overlay *)
  | None, other => other                      (* not in the overlay: untouched *)
  end.
Proof. exact lookup_merge_doc. Qed.

(* … and the merged map has the base's keys, then the overlay's new keys *)
Theorem C12_merge_keys : forall b fs,
  keys (merge_keys b fs) = keys b ++ filter (fun k => negb (mem_str k (keys b))) (keys fs).
Proof. exact keys_merge_keys. Qed.

(* ---- the index arithmetic ------------------------------------------------ *)

(* indexer_dense: the indexer numbers the leaf expressions b, b+1, … in
   depth-first order, without gaps or repeats, whatever the running offset *)
Theorem C12_indexer_dense : forall d b,
  positions (fst (indexer d b)) = seq b (List.length (snd (indexer d b))).
Proof. exact indexer_dense. Qed.

(* indexer_applier_is_merge: for every document, running offset b, and
   whatever other values surround this document's in the shared value list,
   re-applying the index over ANY base gives the reference deep merge; no
   IndexError/AttributeError is possible *)
Theorem C12_indexer_applier_is_merge :
  forall (ev : doc -> option json) d b pre vs post basev,
    wf_doc d = true -> wf basev = true ->
    List.length pre = b ->
    mapM ev (snd (indexer d b)) = Some vs ->
    exists t, ev_tree ev d = Some t /\
              apply_index (fst (indexer d b)) basev (pre ++ vs ++ post) = Done (merge_doc t basev).
Proof. exact indexer_applier_is_merge. Qed.

(* a leaf expression fails to evaluate iff the reference cannot evaluate the document *)
Theorem C12_indexer_eval_fails : forall (ev : doc -> option json) d b,
  mapM ev (snd (indexer d b)) = None -> ev_tree ev d = None.
Proof. exact indexer_eval_fails. Qed.

(* prepare + evaluate_overlay = deep merge of the document over the base, its
   leaves seeing the base as `resource`; PermFail iff a leaf fails *)
Theorem C12_evaluate_overlay_is_merge : forall en spec ov base,
  wf_doc (DMap spec) = true -> wf (JMap base) = true ->
  prepare_overlay spec = Some ov ->
  evaluate_overlay en ov base =
  match ev_tree (eval_doc (set_key "resource" (JMap base) en)) (DMap spec) with
  | Some t => Done (merge_doc t (JMap base))
  | None => PermFail
  end.
Proof. exact evaluate_overlay_is_merge. Qed.

(* ---- overlay() / the forced overlay -------------------------------------- *)

(* deep_overlay_is_merge_val: functions._overlay is the value-level deep merge *)
Theorem C12_deep_overlay_is_merge_val : forall ov resource,
  wf (JMap ov) = true -> wf (JMap resource) = true ->
  JMap (deep_overlay ov resource) = merge_val (JMap ov) (JMap resource).
Proof. exact deep_overlay_is_merge_val. Qed.

Theorem C12_merge_val_key_by_key : forall k om b,
  lookup k (as_map (merge_val (JMap om) (JMap b))) =
  match lookup k om, lookup k b with
  | Some v, Some bv => Some (merge_val v bv)
  | Some v, None => Some v
  | None, other => other
  end.
Proof. exact lookup_merge_val. Qed.

Theorem C12_merge_val_replaces : forall v b,
  (forall m, v <> JMap m) \/ (forall m, b <> JMap m) -> merge_val v b = v.
Proof. exact merge_val_replaces. Qed.

(* ---- "a ValueFunction's return merges the same way over its base" -------- *)

Theorem C12_vf_return_is_merge : forall f inputs vb,
  wf_doc (DMap (sv_return f)) = true -> wf (JMap (base_of vb)) = true ->
  sv_return f <> [] ->
  reconcile_vf (prepare_vf f) inputs vb =
  match vf_env (pv_locals (prepare_vf f)) inputs vb with
  | None => PermFail
  | Some full => ref_overlay full (sv_return f) (JMap (base_of vb))
  end.
Proof. exact vf_return_is_merge. Qed.

(* ---- "the materialised Target Resource Specification equals the base with
        each non-skipped overlay deep-merged in listed order" ---------------- *)

(* [ref_step] = "unless skipIf is true, deep-merge this overlay (inline
   document, or the overlayRef function's return) over the accumulated target";
   [forced_merge forced] is the identity overlay of apiConfig (property C06),
   applied to the template and once more after the overlays *)
Theorem C12_target_is_fold : forall en tc t ss ps forced,
  wf_env en = true -> wf_tcache tc -> wf_template t -> Forall wf_sstep ss ->
  wf (JMap forced) = true ->
  mapM prepare_step ss = Some ps ->
  target en tc t ps forced =
  rbind (template_value en tc t) (fun base =>
    let start := forced_merge forced base in
    match ss with
    | [] => Done start
    | _ => rmap (forced_merge forced) (fold_left (ref_step en) ss (Done start))
    end).
Proof. exact target_is_fold. Qed.

(* the forced overlay is applied to the template, again after the overlays and
   once more on create: re-applying it changes nothing (so the [] case above is
   the same formula as the general one) *)
Theorem C12_forced_overlay_idempotent : forall forced m,
  wf (JMap forced) = true -> wf (JMap m) = true ->
  forced_merge forced (forced_merge forced m) = forced_merge forced m.
Proof. exact forced_merge_idem. Qed.

(* the loop alone, without the forced overlay *)
Theorem C12_overlays_fold_in_listed_order : forall en ss ps cur,
  mapM prepare_step ss = Some ps -> Forall wf_sstep ss ->
  wf_env en = true -> wf (JMap cur) = true ->
  materialize_steps en ps cur = fold_left (ref_step en) ss (Done cur).
Proof. exact materialize_steps_is_fold. Qed.

(* a skipped overlay contributes nothing; a non-skipped inline overlay is one deep merge *)
Theorem C12_step : forall en cur s,
  ref_step en (Done cur) s =
  rbind (skip_decision en (sstep_skip s)) (fun skip => if skip then Done cur else ref_apply en cur s).
Proof. exact ref_step_done. Qed.

(* create.overlay merges the same way over the target *)
Theorem C12_create_is_merge : forall en spec view forced,
  wf_env en = true -> wf_doc (DMap spec) = true -> wf (JMap view) = true -> wf (JMap forced) = true ->
  create_view en (prepare_overlay spec) view forced =
  rmap (forced_merge forced)
    (match spec with
     | [] => Done view
     | _ => rbind (ref_overlay en spec (JMap view)) to_map
     end).
Proof. exact create_is_merge. Qed.

(* ---- purity: only determinism is expressible ------------------------------ *)

Theorem C12_eval_deterministic : forall en ov base r1 r2,
  evaluate_overlay en ov base = r1 -> evaluate_overlay en ov base = r2 -> r1 = r2.
Proof. exact eval_deterministic. Qed.

Theorem C12_no_raise : forall en spec ov base e,
  wf_doc (DMap spec) = true -> wf (JMap base) = true -> prepare_overlay spec = Some ov ->
  evaluate_overlay en ov base <> Raised e.
Proof. exact evaluate_overlay_no_raise. Qed.

(* ---- non-vacuity ----------------------------------------------------------- *)

(* a three-level overlay with siblings before and after a nested map (the
   shape in which a wrong offset shows), an empty map, a list and a computed
   map, over a base with every overlap pattern: hypotheses hold, the index is
   the expected one and the result is the expected merge *)
Example C12_nonvacuous :
  let spec := [("a", DLeaf (EConst (JInt 1)));
               ("b", DMap [("c", DLeaf (EPath "inputs" ["x"]));
                           ("d", DMap [("e", DLeaf (EConst (JInt 2))); ("f", DMap [])]);
                           ("g", DList [DMap [("h", DLeaf (EPath "resource" ["s"]))]])]);
               ("s", DMap [("t", DLeaf (EPath "inputs" ["m"]))]);
               ("z", DLeaf (EConst (JInt 3)))] in
  let base := [("b", JMap [("c", JInt 0); ("d", JMap [("keep", JInt 9); ("f", JMap [("gone", JInt 1)])])]);
               ("s", JStr "scalar"); ("a", JMap [("gone", JInt 1)])] in
  let en := [("inputs", JMap [("x", JInt 7); ("m", JMap [("q", JInt 1)])])] in
  wf_doc (DMap spec) = true /\ wf (JMap base) = true /\
  exists ov, prepare_overlay spec = Some ov /\
    ov_index ov = INode [("a", IPos 0);
                         ("b", INode [("c", IPos 1); ("d", INode [("e", IPos 2); ("f", IPos 3)]); ("g", IPos 4)]);
                         ("s", INode [("t", IPos 5)]); ("z", IPos 6)] /\
    evaluate_overlay en ov base =
    Done (JMap [("b", JMap [("c", JInt 7);
                            ("d", JMap [("keep", JInt 9); ("f", JMap []); ("e", JInt 2)]);
                            ("g", JList [JMap [("h", JStr "scalar")]])]);
                ("s", JMap [("t", JMap [("q", JInt 1)])]);
                ("a", JInt 1); ("z", JInt 3)]).
Proof. vm_compute. repeat split. eexists. repeat split. Qed.

(* the pipeline: template, forced overlay, one applied and one skipped overlay, forced overlay *)
Example C12_nonvacuous_target :
  let forced := [("kind", JStr "K"); ("metadata", JMap [("name", JStr "n")])] in
  let ss := [SInline [("metadata", DMap [("name", DLeaf (EConst (JStr "other")));
                                         ("labels", DMap [("l", DLeaf (EPath "resource" ["kind"]))])])] None;
             SInline [("spec", DLeaf (EConst (JInt 1)))] (Some (EPath "inputs" ["skip"]))] in
  let en := [("inputs", JMap [("skip", JBool true)])] in
  Forall wf_sstep ss /\
  exists ps, mapM prepare_step ss = Some ps /\
    target en [] (STInline [("kind", DLeaf (EConst (JStr "Wrong"))); ("data", DLeaf (EConst (JInt 5)))]) ps forced =
    Done [("kind", JStr "K"); ("data", JInt 5);
          ("metadata", JMap [("name", JStr "n"); ("labels", JMap [("l", JStr "K")])])].
Proof.
  split; [repeat constructor|]. eexists. split; [reflexivity|]. vm_compute. reflexivity.
Qed.

(* ---- the other properties' models of the same code agree with this one ----
   functions._deep_overlay is also modelled as ResourceFn.merge_val (C06, C07,
   C09) and FnTestRun.deep_overlay (C18); evaluation._overlay_applier over an
   evaluated overlay document is also modelled as ResourceFn.overlay_doc.  They
   compute exactly the merges characterised above, so the statements of this
   file are statements about the ResourceFunction model as well. *)
Theorem C12_models_of_deep_overlay_agree : forall om rkvs,
  ResourceFn.merge_val (JMap rkvs) (JMap om) = JMap (deep_overlay om rkvs) /\
  FnTestRun.deep_overlay (JMap rkvs) (JMap om) = JMap (deep_overlay om rkvs).
Proof. exact CrossModel_proofs.deep_overlay_three_models_agree. Qed.

Theorem C12_resourcefn_overlay_is_merge_doc : forall d,
  CrossModel_proofs.odoc_wf d = true -> forall base, wf (JMap base) = true ->
  ResourceFn.overlay_doc base d = merge_doc (CrossModel_proofs.conv d) (JMap base).
Proof. exact CrossModel_proofs.overlay_doc_is_merge_doc. Qed.

(* The tie to the code as a proof obligation: the transcription of cel/functions._deep_overlay
   regenerated from the current source on every run (gen/DeepOverlay_gen.v) computes, with fuel
   covering the overlay's nesting depth, exactly the model (hence all three models). *)
Theorem C12_deep_overlay_is_transcription_of_code : forall res ov : list (string * json),
  option_map JMap (DeepOverlay_gen.deep_overlay_gen (DeepOverlay_sync.mdepth (JMap ov)) res ov) =
  Some (ResourceFn.merge_val (JMap res) (JMap ov)).
Proof. exact DeepOverlay_sync.deep_overlay_gen_is_merge_val. Qed.

Print Assumptions C12_leaf_replaces.
Print Assumptions C12_what_is_a_leaf.
Print Assumptions C12_maps_merge_key_by_key.
Print Assumptions C12_merge_keys.
Print Assumptions C12_indexer_dense.
Print Assumptions C12_indexer_applier_is_merge.
Print Assumptions C12_indexer_eval_fails.
Print Assumptions C12_evaluate_overlay_is_merge.
Print Assumptions C12_deep_overlay_is_merge_val.
Print Assumptions C12_merge_val_key_by_key.
Print Assumptions C12_merge_val_replaces.
Print Assumptions C12_vf_return_is_merge.
Print Assumptions C12_target_is_fold.
Print Assumptions C12_forced_overlay_idempotent.
Print Assumptions C12_overlays_fold_in_listed_order.
Print Assumptions C12_step.
Print Assumptions C12_create_is_merge.
Print Assumptions C12_eval_deterministic.
Print Assumptions C12_no_raise.
Print Assumptions C12_models_of_deep_overlay_agree.
Print Assumptions C12_resourcefn_overlay_is_merge_doc.
Print Assumptions C12_deep_overlay_is_transcription_of_code.
