(* P_C09.v — property C09: "Whatever an API call inside a step does - raise any
   exception, return a server error, or never answer - a Workflow reconcile pass
   returns normally within the step timeout: the affected step is reported as
   Retry or PermFail, steps that need it are not run, the overall outcome is not
   Ok, and no condition it emits claims readiness for a step that did not
   succeed.  Once the faults stop, further passes converge to the same cluster
   contents and result as a run that never saw a fault."

   Statements only; proofs are in proofs/Faults_proofs.v; model: model/Faults.v
   (src/koreo/workflow/reconcile.py, src/koreo/resource_function/reconcile/__init__.py).

   PARTIAL.  Proved here, for the model:
     - classification / totality / truthfulness of the workflow layer for EVERY
       assignment of end states (finished r | cancelled | raised) to the step
       tasks and every plan of task-group aborts (C09_pass_total,
       C09_faulted_step_error, C09_dependents_not_run, C09_overall_not_ok,
       C09_conditions_truthful, the C09_foreach theorems),
     - for ONE ResourceFunction: the result and the cluster content after a pass
       under every fault plan (the C09_rf theorems), and convergence after any prefix of
       faulty passes (C09_recover_rf_partial, C09_recover_rf_met).
   NOT proved (observed by the harness under a virtual-time event loop only):
     - that asyncio.timeout / TaskGroup really cancel a hung task and that
       reconcile_workflow returns within STEP_TIMEOUT,
     - convergence of a WHOLE workflow after faults stop (full statement:
       forall workflow, cluster, fault plans fps: passes (fps ++ no-faults^n)
       reach the cluster content and Result of passes (no-faults^(n+k))).
   (An earlier version of the code tested the TRUTH VALUE of task.exception(); an
   exception object with bool(exc) = False then escaped reconcile_workflow.
   Repaired in /repo by "fix: a step that raises an exception object with a false
   truth value is reported as Retry"; the model follows the repaired code and
   the truth value no longer matters.  Regression: corpus/C09/02, 04.
   Likewise the Retry message of a crashed step used to be an f-string containing
   the exception, built after the TaskGroup and outside any try, so an exception
   object whose __str__ raises escaped; repaired by "fix: an exception whose
   __str__ raises no longer escapes reconcile_workflow" (_error_text).
   Regression: corpus/C09/11, 12.)  C09_pass_total is unconditional. *)
From Koreo Require Import Json Outcome Outcome_proofs Payload ResourceFn Faults Faults_proofs.
From Coq Require Import Lia.
Local Open Scope nat_scope.
Local Open Scope list_scope.

(* ---------------- the workflow layer ---------------- *)

(* "a Workflow reconcile pass returns normally": whatever way the step tasks
   ended (returned anything / cancelled / raised ANY exception object — falsy,
   without args, with a raising __str__ ...), classification yields a Result —
   nothing is raised: the only raising operation, task.result(), is reached only
   for a task that returned, and messages are built by _error_text *)
Theorem C09_pass_total : forall ws ends, exists r, reconcile_workflow_m ws ends = WDone r.
Proof. exact reconcile_workflow_total. Qed.

(* the same for a whole pass: every plan of aborts and of ways the steps' own
   work ends (returned / cancelled / raised), propagated through the
   dependency gates *)
Theorem C09_pass_total_plan : forall ws ps, exists r, fst (run_workflow ws ps) = WDone r.
Proof. exact run_workflow_total. Qed.

(* "the affected step is reported as Retry": a step whose task was cancelled
   (timeout) or raised is reported Retry with the timeout / unknown-error delay
   — never Ok or Skip *)
Theorem C09_faulted_step_error : forall ws ends r k e,
  List.length ends = List.length ws ->
  reconcile_workflow_m ws ends = WDone r ->
  nth_error ends k = Some e -> is_fault_end e = true ->
  exists d m l, nth_error (wr_outcomes r) k = Some (UOut (Retry d m l)) /\
                (e = Cancelled -> d = TIMEOUT_RETRY_DELAY) /\
                (e = Excepted -> d = UNKNOWN_ERROR_RETRY_DELAY).
Proof. exact faulted_step_error. Qed.

(* "steps that need it are not run": a step that needs — directly or through
   other steps — a step that did not end Ok never invokes its Logic, and does
   not end Ok itself *)
Theorem C09_dependents_not_run : forall ws ps ends tr,
  wf_steps ws -> List.length ps = List.length ws ->
  run_steps ws ps = (ends, tr) ->
  forall i j, needs ws i j -> end_ok (nth j ends Cancelled) = false ->
  ~ In i tr /\ end_ok (nth i ends Cancelled) = false.
Proof. exact dependents_not_run. Qed.

(* conversely: Logic is invoked only when every dependency ended Ok *)
Theorem C09_invoked_only_on_ok_deps : forall ws ps ends tr i w,
  wf_steps ws -> List.length ps = List.length ws ->
  run_steps ws ps = (ends, tr) ->
  nth_error ws i = Some w -> In i tr ->
  forall j, In j (w_deps w) -> end_ok (nth j ends Cancelled) = true.
Proof. exact invoked_deps_ok. Qed.

(* "the overall outcome is not Ok": Retry or PermFail whenever some step task
   was cancelled or raised (by C03: unwrapped_combine is severity-maximal) *)
Theorem C09_overall_not_ok : forall ws ends r k e,
  List.length ends = List.length ws ->
  Forall raw_end ends ->
  reconcile_workflow_m ws ends = WDone r ->
  nth_error ends k = Some e -> is_fault_end e = true ->
  exists o, wr_overall r = UOut o /\ is_error o = true.
Proof. exact overall_not_ok. Qed.

(* "no condition it emits claims readiness for a step that did not succeed":
   every emitted condition with reason "Ready" is about a step whose reported
   outcome is Ok, or about the workflow when the overall outcome is Ok *)
Theorem C09_conditions_truthful : forall ws ends r,
  List.length ends = List.length ws ->
  reconcile_workflow_m ws ends = WDone r ->
  forall src c, In (src, c) (wr_conditions r) -> cd_reason c = "Ready"%string ->
  match src with
  | CStep i => exists o, nth_error (wr_outcomes r) i = Some o /\ sres_ok o = true
  | CWorkflow => sres_ok (wr_overall r) = true
  end.
Proof. exact conditions_truthful. Qed.

(* ... through condition_helper, for every outcome class *)
Theorem C09_condition_ready_iff_ok : forall ty o,
  cd_reason (condition_helper ty o) = "Ready"%string <-> sres_ok o = true.
Proof. exact condition_helper_ready_iff. Qed.

(* forEach: the classification of the iteration tasks never raises, and one
   cancelled / crashed iteration makes the whole step Retry or PermFail *)
Theorem C09_foreach_total : forall ends, exists o, foreach_result ends = WDone o.
Proof. exact foreach_total. Qed.

Theorem C09_foreach_fault_error : forall ends e,
  In e ends -> is_fault_end e = true ->
  exists o, foreach_result ends = WDone (UOut o) /\ is_error o = true.
Proof. exact foreach_fault_error. Qed.

Theorem C09_foreach_error_item : forall ends r,
  In (Finished r) ends -> sres_error r = true ->
  exists o, foreach_result ends = WDone (UOut o) /\ is_error o = true.
Proof. exact foreach_error_item. Qed.

(* ---------------- one ResourceFunction, faulty API ---------------- *)

(* a pass that consumed an injected fault (exception before / after the effect,
   HTTP error, hang, on the GET or on the POST / PATCH / DELETE) is Retry,
   PermFail, an exception escaping the function, or stuck — never a value; the
   one exception is a 404 on the GET, the API's ordinary "absent" answer *)
Theorem C09_rf_fault_is_error : forall s fp,
  fault_fired s fp = true -> (forall a, fp_get fp <> FSrv 404 a) ->
  is_fault_error (result_of s fp) = true.
Proof. exact fault_is_error. Qed.

(* ... which the workflow layer reports as Retry or PermFail for that step *)
Theorem C09_rf_fault_step_error : forall r,
  is_fault_error r = true ->
  exists o, classify (tend_of r) = WDone (UOut o) /\ is_error o = true.
Proof. exact fault_error_classified. Qed.

(* "exception / HTTP error before the effect leaves the cluster unchanged" *)
Theorem C09_rf_fault_before_unchanged : forall s fp,
  before_fault (fp_mut fp) = true -> cluster_after s fp = s_live s.
Proof. exact fault_before_unchanged. Qed.

Theorem C09_rf_get_fault_unchanged : forall s fp,
  (forall a, fp_get fp <> FSrv 404 a) -> fp_get fp <> FNone -> cluster_after s fp = s_live s.
Proof. exact get_fault_unchanged. Qed.

(* "exception after the effect = the effect happened" *)
Theorem C09_rf_fault_after_applied : forall s fp,
  fp_get fp = FNone -> after_fault (fp_mut fp) = true ->
  cluster_after s fp = snd (pass_ok s).
Proof. exact fault_after_applied. Qed.

(* every fault plan: the cluster is left as it was or as the fault-free pass
   would have left it (each call applied fully or not at all) *)
Theorem C09_rf_faulty_state : forall s fp,
  cluster_after s fp = s_live s \/ cluster_after s fp = snd (pass_ok s).
Proof. exact faulty_state_cases. Qed.

(* "Once the faults stop, further passes converge to the same cluster contents
   and result as a run that never saw a fault" — for ONE ResourceFunction, any
   configuration / update policy / comparator [mf], any start content c0, any
   prefix [fps] of passes in which faults occur: if the never-faulted run is
   quiescent from pass N on (content cstar, result rstar), so is the run after the
   faulty prefix. *)
Theorem C09_recover_rf_partial : forall s mf c0 N cstar rstar,
  quiescent s mf c0 N cstar rstar ->
  forall fps n, N <= n ->
    state_after s mf n (faulty_prefix s mf fps c0) = cstar /\
    result_at s mf n (faulty_prefix s mf fps c0) = rstar.
Proof. exact recover_rf. Qed.

(* the hypothesis is met as soon as the never-faulted run reaches an object
   that meets the target and carries the owner reference (C04: after one pass
   for update policy `patch` and for a creation, under C04's hypotheses on the
   target — no nulls, simple sets) *)
Theorem C09_recover_rf_met : forall s mf c0 N l,
  c_delete_if_exists (s_cfg s) = false ->
  state_after s mf N c0 = Some l -> mf (Some l) = true -> owner_ok s l = true ->
  forall fps n, N <= n ->
    state_after s mf n (faulty_prefix s mf fps c0) = Some l /\
    result_at s mf n (faulty_prefix s mf fps c0) = fst (pass_at s mf (Some l)).
Proof. exact recover_rf_met. Qed.

(* the cluster after a faulty prefix lies on the never-faulted trajectory *)
Theorem C09_faulty_prefix_on_trajectory : forall s mf fps c,
  exists k, k <= List.length fps /\ faulty_prefix s mf fps c = state_after s mf k c.
Proof. exact faulty_prefix_on_trajectory. Qed.

(* ---------------- non-vacuity ---------------- *)

(* a 4-step workflow: s0 ; s1 needs s0 ; s2 needs s1 ; s3 independent.
   s0's own work raises; the group then cancels s3 while it runs. *)
Definition ex_ws : list wstep :=
  [ {| w_deps := []; w_cond := Some "AReady"%string |};
    {| w_deps := [0]; w_cond := Some "BReady"%string |};
    {| w_deps := [1]; w_cond := None |};
    {| w_deps := []; w_cond := None |} ].
Definition ex_ps : list splan :=
  [ {| p_abort := false; p_logic := Excepted |};
    {| p_abort := false; p_logic := Finished (UVal (JInt 1)) |};
    {| p_abort := false; p_logic := Finished (UVal (JInt 2)) |};
    {| p_abort := false; p_logic := Cancelled |} ].

Example C09_nonvacuous_workflow :
  run_steps ex_ws ex_ps = ([Excepted; Excepted; Excepted; Cancelled], [0; 3]) /\
  wf_steps ex_ws /\ needs ex_ws 2 0 /\
  exists r, fst (run_workflow ex_ws ex_ps) = WDone r /\
    map reason_of (wr_outcomes r) = ["Wait"; "Wait"; "Wait"; "Wait"]%string /\
    map (fun sc => cd_reason (snd sc)) (wr_conditions r) = ["Wait"; "Wait"; "Wait"; "Wait"; "Wait"]%string /\
    reason_of (wr_overall r) = "Wait"%string.
Proof.
  split; [reflexivity|]. split.
  { intros i w d Hw Hd. do 4 (destruct i as [|i]; [cbn in Hw; inversion Hw; subst; cbn in Hd;
      repeat (destruct Hd as [<-|Hd]; [lia|]); contradiction|]). destruct i; discriminate Hw. }
  split.
  { eapply needs_trans; [eapply (needs_direct ex_ws 2 _ 1); [reflexivity|now left]
                        |eapply (needs_direct ex_ws 1 _ 0); [reflexivity|now left]]. }
  eexists. split; [reflexivity|]. repeat split.
Qed.

(* regression of the two repaired escapes: a lone step whose task raised — whatever
   the exception object — is classified, not re-raised *)
Example C09_crashed_step_is_classified :
  exists r, reconcile_workflow_m [{| w_deps := []; w_cond := None |}] [Excepted] = WDone r /\
            wr_outcomes r = [error_outcome] /\ wr_overall r = error_outcome.
Proof. eexists. repeat split. Qed.

(* a dependent of a step that merely REPORTS Retry is DepSkip and not run *)
Example C09_nonvacuous_depskip :
  run_steps ex_ws [ {| p_abort := false; p_logic := Finished timeout_outcome |};
                    {| p_abort := false; p_logic := Finished (UVal (JInt 1)) |};
                    {| p_abort := false; p_logic := Finished (UVal (JInt 2)) |};
                    {| p_abort := false; p_logic := Finished (UVal (JInt 3)) |} ]
  = ([Finished timeout_outcome; Finished depskip_result; Finished depskip_result; Finished (UVal (JInt 3))], [0; 3]).
Proof. reflexivity. Qed.

(* one ResourceFunction: creation with an exception after the POST took effect *)
Definition ex_cfg9 : cfg :=
  {| c_version := "v1"; c_kind := "Widget"; c_plural := Some "widgets"; c_namespaced := true;
     c_owned := false; c_readonly := false; c_delete_if_exists := false; c_create_enabled := true;
     c_create_delay := 7; c_update := UPatch 9 |}.
Definition ex_s9 (live : option json) : scenario :=
  {| s_cfg := ex_cfg9; s_pre := None; s_locals_err := false;
     s_name := NameOk "w" (Some "ns"); s_lookup := None; s_live := live;
     s_template := TInline (Some (JMap [("spec", JInt 1)])); s_overlays := OvNone;
     s_create_overlay := CNone; s_owner_ns := None; s_owner_ref := JMap [];
     s_match := false; s_post := None; s_return := Some (JBool true) |}.
(* a comparator that accepts exactly the objects carrying spec = 1 *)
Definition ex_mf (c : option json) : bool :=
  match c with
  | Some (JMap kvs) => match lookup "spec" kvs with Some (JInt 1) => true | _ => false end
  | _ => false
  end.

Example C09_nonvacuous_rf :
  (* POST raises after the object was stored: PermFail, object present *)
  (exists o, reconcile_rf_faulty (ex_s9 None) {| fp_get := FNone; fp_mut := FExc true |}
             = (FRes (FStop (StopPermFail "spec.create")), snd (reconcile_rf (ex_s9 None)), Some o)
             /\ cluster_after (ex_s9 None) {| fp_get := FNone; fp_mut := FExc true |} = snd (pass_ok (ex_s9 None))) /\
  (* GET answers 500: Retry 30, nothing else called, cluster unchanged *)
  reconcile_rf_faulty (ex_s9 None) {| fp_get := FSrv 500 false; fp_mut := FNone |}
    = (FRes load_retry, [CGet "widgets" (Some "ns") "w"], None) /\
  (* PATCH raises: the exception leaves the function; the workflow reports Retry 60 *)
  (let live := JMap [("spec", JInt 2); ("metadata", JMap [("name", JStr "w")])] in
   result_of (ex_s9 (Some live)) {| fp_get := FNone; fp_mut := FExc false |} = FRes FRaise /\
   classify (tend_of (FRes FRaise)) = WDone error_outcome) /\
  (* recovery: from absent, the never-faulted run is quiescent from pass 1 on,
     and so is the run after [hang on GET; exception after POST; 500 on GET] *)
  (exists l, state_after (ex_s9 None) ex_mf 1 None = Some l /\ ex_mf (Some l) = true /\
             owner_ok (ex_s9 None) l = true /\
             faulty_prefix (ex_s9 None) ex_mf
               [ {| fp_get := FHang; fp_mut := FNone |}; {| fp_get := FNone; fp_mut := FExc true |};
                 {| fp_get := FSrv 500 false; fp_mut := FNone |} ] None = Some l /\
             result_at (ex_s9 None) ex_mf 1 None = FValue (Some (JBool true))).
Proof.
  split; [eexists; split; vm_compute; reflexivity|].
  split; [vm_compute; reflexivity|].
  split; [split; vm_compute; reflexivity|].
  eexists. repeat split; vm_compute; reflexivity.
Qed.

Print Assumptions C09_pass_total.
Print Assumptions C09_pass_total_plan.
Print Assumptions C09_faulted_step_error.
Print Assumptions C09_dependents_not_run.
Print Assumptions C09_invoked_only_on_ok_deps.
Print Assumptions C09_overall_not_ok.
Print Assumptions C09_conditions_truthful.
Print Assumptions C09_condition_ready_iff_ok.
Print Assumptions C09_foreach_total.
Print Assumptions C09_foreach_fault_error.
Print Assumptions C09_foreach_error_item.
Print Assumptions C09_rf_fault_is_error.
Print Assumptions C09_rf_fault_step_error.
Print Assumptions C09_rf_fault_before_unchanged.
Print Assumptions C09_rf_get_fault_unchanged.
Print Assumptions C09_rf_fault_after_applied.
Print Assumptions C09_rf_faulty_state.
Print Assumptions C09_recover_rf_partial.
Print Assumptions C09_recover_rf_met.
Print Assumptions C09_faulty_prefix_on_trajectory.
