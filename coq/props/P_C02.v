(* P_C02.v — property C02: the workflow result is independent of step
   completion order.  Statements only; proofs in proofs/Sched_proofs.v.
   Models: model/Sched.v (completion-order semantics of _reconcile_steps /
   _for_each_reconciler) over model/Workflow.v.

   A schedule is a list of completion events [EvStep l] (the task of step l
   finishes; for a forEach step: it is joined) / [EvItem l k] (the task of item k
   of forEach step l finishes).  [exec_all … sched = Some st] says the events
   can happen in that order: a step / item completes only after all the step's
   dependencies have; a forEach step is joined only after all its items have.
   [sched_result … sched] is the Result assembled the way the code does after
   all tasks finished: outcomes, conditions, state read from task_map in LISTED
   order, forEach results from `tasks` in SOURCE order.

   Hypotheses of the property, as they appear here:
   * "the calls themselves succeed within the step timeout": every task
     finishes, i.e. schedules are complete ([complete]); timeouts are C09;
   * "steps act on pairwise distinct objects": what an evaluation of Logic
     returns is a function of what the step passes to it ([fn_sem f inputs]) and
     not of what other evaluations did before — see the header of Sched.v. *)
From Koreo Require Import Json Outcome Workflow Workflow_proofs Sched Sched_proofs.
Local Open Scope list_scope.

Section C02.
  Variable fn_sem : fid -> json -> fres.
  Notation rl := (run_logic fn_sem).

  (* every complete schedule ends with the same per-step results: those of the
     sequential run (confluence) *)
  Theorem C02_complete_unique : forall steps trigger sched st,
    well_formed steps ->
    exec_all rl steps trigger st_init sched = Some st -> complete steps st = true ->
    listed steps (st_done st) = Some (run_steps fn_sem steps trigger []) /\
    (forall s, In s steps ->
       lookup (s_label s) (st_done st) =
       Some (run_step fn_sem s trigger (run_steps fn_sem steps trigger []))).
  Proof. exact (complete_unique_run fn_sem). Qed.

  (* "one reconcile pass returns the same result - per-step outcomes, overall
     outcome, state, conditions and managed-resource ids - for every completion
     order": the whole Result record (and the trace of evaluations) of any
     complete schedule is the sequential one *)
  Theorem C02_result_schedule_independent : forall name steps trigger sched w,
    well_formed steps ->
    sched_result rl steps trigger name sched = Some w ->
    w = run_workflow fn_sem name None steps trigger.
  Proof. exact (result_schedule_independent_thm fn_sem). Qed.

  Theorem C02_two_schedules : forall name steps trigger s1 s2 w1 w2,
    well_formed steps ->
    sched_result rl steps trigger name s1 = Some w1 ->
    sched_result rl steps trigger name s2 = Some w2 -> w1 = w2.
  Proof. exact (two_schedules_thm fn_sem). Qed.

  (* the quantifier is not empty: every well-formed workflow has a complete
     schedule (listed order, items in source order) *)
  Theorem C02_schedule_exists : forall name steps trigger,
    well_formed steps ->
    sched_result rl steps trigger name (listed_schedule rl trigger steps []) =
    Some (run_workflow fn_sem name None steps trigger).
  Proof. exact (schedule_exists_thm fn_sem). Qed.

  (* ... at every nesting depth: let sub-workflows complete THEIR steps in orders
     of their own, chosen per evaluation ([sched_closed rl']: rl' follows
     _reconcile_step_logic, a sub-workflow's Result being that of SOME schedule
     of its steps under rl' again).  Then every evaluation of Logic still
     returns what the sequential model computes, and so does the whole pass.
     [deep_nodup]: labels distinct in every sub-workflow (prepare's guarantee). *)
  Theorem C02_nested_schedules : forall rl',
    sched_closed fn_sem rl' ->
    forall lg, deep_nodup lg = true ->
    forall inputs en, rl' lg inputs en = run_logic fn_sem lg inputs en.
  Proof. exact (nested_schedules_thm fn_sem). Qed.

  Theorem C02_nested_result : forall rl' name steps trigger sched w,
    sched_closed fn_sem rl' -> well_formed steps ->
    Forall (fun s => deep_nodup (s_logic s) = true) steps ->
    sched_result rl' steps trigger name sched = Some w ->
    w = run_workflow fn_sem name None steps trigger.
  Proof. exact (nested_result_thm fn_sem). Qed.

  (* (the sequential evaluator is itself such an evaluator) *)
  Theorem C02_sched_closed_inhabited : sched_closed fn_sem (run_logic fn_sem).
  Proof. exact (run_logic_sched_closed fn_sem). Qed.

  (* "A forEach step returns its results in source-list order, each invocation
     having received exactly its own item": under any schedule the step's
     outcome is assembled from the evaluations on item 0, item 1, … in that
     order, and evaluation k received item k under inputKey *)
  Theorem C02_foreach_order_and_items : forall name steps trigger sched w,
    well_formed steps -> sched_result rl steps trigger name sched = Some w ->
    forall s base it key items,
      In s steps -> gate_open_o s trigger (w_outcomes w) base -> s_foreach s = Some (it, key) ->
      eval it (step_env_o s trigger (w_outcomes w)) = Some (JList items) ->
      let en := step_env_o s trigger (w_outcomes w) in
      let rs := map (fun item => rl (s_logic s) (set_input key item base) en) items in
      lookup (s_label s) (w_outcomes w) =
        Some (match items with [] => SVal (JList []) | _ => r_out (foreach_assemble rs) end) /\
      filter (head_is (s_label s)) (w_trace w) =
        List.concat (mapi (fun k item =>
                             map (push (s_label s, Some k))
                                 (r_trace (rl (s_logic s) (set_input key item base) en))) items).
  Proof. exact (foreach_sched_thm fn_sem). Qed.

  (* ... where [foreach_assemble] of per-item results without a failure is the
     list of their (encoded) outcomes in the same order, *)
  Theorem C02_foreach_values_in_source_order : forall rs,
    Forall (fun r => sout_error (r_out r) = false) rs ->
    r_out (foreach_assemble rs) = SVal (JList (map (fun r => encode_outcome (r_out r)) rs)).
  Proof. exact foreach_value_ok. Qed.

  (* ... and with a failed item it is an error *)
  Theorem C02_foreach_failure_is_error : forall rs,
    Exists (fun r => sout_error (r_out r) = true) rs ->
    sout_error (r_out (foreach_assemble rs)) = true.
  Proof. exact foreach_value_err. Qed.

  (* "state published by several steps is merged in listed step order": under
     any schedule the state is the fold, over the steps in LISTED order, of
     dict.update with what each Ok step publishes *)
  Theorem C02_state_merge_listed_order : forall name steps trigger sched w,
    well_formed steps -> sched_result rl steps trigger name sched = Some w ->
    w_state w = fold_left update_state
                          (pubs (List.combine steps (map snd (run_steps fn_sem steps trigger [])))) [].
  Proof. exact (state_sched_thm fn_sem). Qed.

  (* ... so for a key published by several steps the last LISTED one wins *)
  Theorem C02_state_last_listed_wins : forall l1 s r l2 m k v st errs,
    published s r = Some m -> lookup k (rev m) = Some v ->
    Forall (fun m' => lookup k (rev m') = None) (pubs l2) ->
    lookup k (fst (collect_state (l1 ++ (s, r) :: l2) st errs)) = Some v.
  Proof. exact state_last_listed_wins. Qed.
End C02.

(* non-vacuity: two different complete schedules of a workflow with two
   independent steps, a dependent one and a forEach whose items complete in
   reverse order; both yield the sequential result *)
Definition ex2_fn (f : fid) (i : json) : fres :=
  {| f_out := SVal (JMap [("got", i)]); f_rid := None; f_calls := [("GET", f)] |}.

Definition ex2_steps : list step :=
  [ mkStep "aaa" [] (Some [("x", EConst (JInt 1))]) None None (LFn "f") None (Some [("k", EValue ["got"; "x"])]);
    mkStep "bbb" [] (Some [("x", EConst (JInt 2))]) None None (LFn "g") None (Some [("k", EValue ["got"; "x"])]);
    mkStep "ccc" ["aaa"; "bbb"] (Some [("a", EStep "aaa" ["got"; "x"]); ("b", EStep "bbb" ["got"; "x"])])
           None None (LFn "h") None None;
    mkStep "ddd" ["aaa"] None None (Some (EConst (JList [JInt 10; JInt 20; JInt 30]), "item")) (LFn "e") None None ].

Definition ex2_sched1 : list event :=
  [EvStep "aaa"; EvStep "bbb"; EvStep "ccc"; EvItem "ddd" 0; EvItem "ddd" 1; EvItem "ddd" 2; EvStep "ddd"].
Definition ex2_sched2 : list event :=
  [EvStep "bbb"; EvStep "aaa"; EvItem "ddd" 2; EvItem "ddd" 0; EvStep "ccc"; EvItem "ddd" 1; EvStep "ddd"].

Example C02_nonvacuous :
  well_formed ex2_steps /\
  sched_result (run_logic ex2_fn) ex2_steps JNull "wf" ex2_sched1 =
    Some (run_workflow ex2_fn "wf" None ex2_steps JNull) /\
  sched_result (run_logic ex2_fn) ex2_steps JNull "wf" ex2_sched2 =
    Some (run_workflow ex2_fn "wf" None ex2_steps JNull) /\
  (* a step cannot complete before its dependency, a forEach cannot be joined early *)
  exec_all (run_logic ex2_fn) ex2_steps JNull st_init [EvStep "ccc"] = None /\
  exec_all (run_logic ex2_fn) ex2_steps JNull st_init [EvStep "aaa"; EvItem "ddd" 0; EvStep "ddd"] = None /\
  (* state: both publish key k; the later LISTED step (bbb) wins although it completed first *)
  lookup "k" (w_state (run_workflow ex2_fn "wf" None ex2_steps JNull)) = Some (JInt 2).
Proof.
  split.
  - split; [reflexivity|]. repeat constructor; cbn; intuition discriminate.
  - vm_compute. repeat split; reflexivity.
Qed.

Print Assumptions C02_complete_unique.
Print Assumptions C02_result_schedule_independent.
Print Assumptions C02_two_schedules.
Print Assumptions C02_schedule_exists.
Print Assumptions C02_nested_schedules.
Print Assumptions C02_nested_result.
Print Assumptions C02_sched_closed_inhabited.
Print Assumptions C02_foreach_order_and_items.
Print Assumptions C02_foreach_values_in_source_order.
Print Assumptions C02_foreach_failure_is_error.
Print Assumptions C02_state_merge_listed_order.
Print Assumptions C02_state_last_listed_wins.
