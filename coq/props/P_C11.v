(* P_C11.v — property C11: a value written literally in a definition reaches
   the evaluated result exactly as written (same structure, strings character
   for character, same numbers, booleans, nulls); the only exception is that a
   string which is itself a decimal numeral is delivered as that number.

   Statements only; proofs are in proofs/Encode_proofs.v.
   Models: model/Encode.v  (koreo.cel.encoder.encode_cel, _encode_str, _encode_plain),
           model/CelLit.v  (lark + celpy on the encoded text: lexer, parser,
                            literal evaluation, convert_bools being the identity
                            on JSON-shaped values).
   Strings are UTF-8 byte strings.  eval_lit t = ROk v  means: compiling and
   evaluating text t gives the JSON value v (no parse error, no evaluation
   error, nothing outside the modelled CEL fragment). *)
From Koreo Require Import Json Encode CelLit Encode_proofs.
Local Open Scope list_scope.

(* ---- strings: the heart of the property ---- *)

(* celpy's un-escaping inverts the encoder's escaping, for every byte string *)
Theorem C11_unescape_escape : forall s : text, unescape (escape s) = UOk s.
Proof. exact unescape_escape. Qed.

(* "same strings character for character": any text whatsoever (quotes,
   backslashes, newlines, tabs, controls, blanks, inf/nan, any UTF-8), once
   encoded by _encode_str -- the form used for string values that are not
   numerals and for every map key -- lexes, parses and evaluates to exactly
   that text *)
Theorem C11_string_roundtrip : forall t : text, eval_lit (encode_str t) = ROk (JStr (str t)).
Proof. exact string_roundtrip. Qed.

(* the documented exception, and only it: norm changes a string iff it is a
   decimal numeral  -?[0-9]+(\.[0-9]+)?([eE][+-]?[0-9]+)?  (numeral_kind is that
   grammar as an explicit matcher); then it is that number *)
Theorem C11_norm_other_strings : forall s, numeral_kind (txt s) = None -> norm_str s = JStr s.
Proof. exact norm_str_nonnumeral. Qed.

Theorem C11_norm_int_numeral :
  forall s, numeral_kind (txt s) = Some KInt -> norm_str s = JInt (int_of_text (txt s)).
Proof. exact norm_str_int. Qed.

Theorem C11_norm_float_numeral :
  forall s m e, numeral_kind (txt s) = Some KFloat -> fparse (txt s) = Some (m, e) ->
                norm_str s = JFloat m e.
Proof. exact norm_str_float. Qed.

(* the matcher numeral_kind accepts exactly "digits with optional leading minus,
   fraction and exponent, nothing else" (numeral_spec: optional minus, one or
   more ASCII digits, optionally a dot and one or more digits, optionally e or
   E with optional sign and one or more digits), and says KInt exactly when
   neither fraction nor exponent is present *)
Theorem C11_numeral_grammar : forall t k, numeral_kind t = Some k <-> numeral_spec t k.
Proof. exact numeral_kind_iff. Qed.

(* "same numbers": an integer is printed as a numeral that reads back as itself *)
Theorem C11_int_text : forall z, numeral_kind (print_Z z) = Some KInt /\ int_of_text (print_Z z) = z.
Proof. intro z. split; [apply print_Z_numeral|apply print_Z_value]. Qed.

Section C11.
  (* repr(float): not modelled.  Assumed of CPython, and re-checked by the
     correspondence check on every float text a run produces. *)
  Variable fprint : Z -> Z -> text.
  Hypothesis fprint_numeral :
    forall m e, float_ok m e = true -> numeral_kind (fprint m e) = Some KFloat.
  Hypothesis fprint_parse :
    forall m e, float_ok m e = true -> fparse (fprint m e) = Some (m, e).

  (* the encoded text of a value in range, followed by a delimiter or nothing,
     lexes to exactly the value's token sequence *)
  Theorem C11_lex_encode : forall v,
    in_range v = true -> no_leading_eq v = true ->
    forall r, delim_start r = true ->
    lex 0 (encode fprint v ++ r) = lapp (tokens fprint v) (lex 0 r).
  Proof. exact (lex_encode_ok fprint fprint_numeral). Qed.

  (* the token sequence parses to exactly the value's tree, in any context *)
  Theorem C11_parse_tokens_encode : forall v stk st r,
    want st -> run stk st (tokens fprint v ++ r) = after stk (ast_of fprint v) r.
  Proof. exact (parse_tokens_encode fprint). Qed.

  (* main theorem.  For every JSON value (nested maps and lists, any text, 64-bit
     integers, finite floats, booleans, null -- in_range; unique keys -- wf; no
     string VALUE starting with the CEL prefix -- no_leading_eq; keys may):
     compile + evaluate of encode_cel(v) yields norm v, i.e. v itself with
     numeral strings delivered as numbers *)
  Theorem C11_roundtrip : forall v,
    wf v = true -> in_range v = true -> no_leading_eq v = true ->
    eval_lit (encode fprint v) = ROk (norm v).
  Proof. exact (roundtrip_ok fprint fprint_numeral fprint_parse). Qed.

  (* map keys (also keys that look like numbers or start with the CEL prefix)
     come back unchanged, all of them, in order *)
  Theorem C11_keys : forall kvs,
    wf (JMap kvs) = true -> in_range (JMap kvs) = true -> no_leading_eq (JMap kvs) = true ->
    exists kvs', eval_lit (encode fprint (JMap kvs)) = ROk (JMap kvs') /\ map fst kvs' = map fst kvs.
  Proof. exact (keys_roundtrip_ok fprint fprint_numeral fprint_parse). Qed.
End C11.

(* the same with nothing assumed: repr(float) given as a table of texts (this
   is how the correspondence check runs the model on what CPython printed);
   ftable_ok DECIDES the two facts assumed above for the table's entries, and
   every float of the value must be in the table *)
Theorem C11_roundtrip_table : forall tb v,
  ftable_ok tb = true -> floats_all (in_table tb) v = true ->
  wf v = true -> in_range v = true -> no_leading_eq v = true ->
  eval_lit (encode (fprint_of tb) v) = ROk (norm v).
Proof. exact roundtrip_table. Qed.

(* non-vacuity: a nested value full of the hard cases meets the hypotheses, and
   the model really computes the round trip on it (no float inside, so the
   parameter fprint is irrelevant here) *)
Example C11_nonvacuous :
  let v := JMap [ ("a\nb", JStr "a\nb");
                  ("q""k", JList [JStr "say ""hi"""; JStr "inf"; JStr " 12"; JStr "5."; JStr "1_000"]);
                  ("=key", JStr (bs [97; 10; 34; 34; 34; 92; 0; 127; 9; 13; 195; 169]%N));
                  ("n", JList [JStr "12"; JStr "-0"; JStr "007"; JInt (-9223372036854775808);
                               JBool true; JNull; JStr ""; JList []; JMap []]) ] in
  wf v = true /\ in_range v = true /\ no_leading_eq v = true /\
  eval_lit (encode (fun _ _ => []) v) = ROk (norm v) /\
  norm v <> v.
Proof. vm_compute. repeat split; discriminate. Qed.

(* ... with floats, through the table version: hypotheses all decided by computation *)
Example C11_nonvacuous_floats :
  let tb := [((1, -1), "0.5"); ((-5, -1), "-2.5"); ((3602879701896397, -55), "0.1");
             ((1, 1074 - 2148), "5e-324"); ((2220446049250313, 3), "1.7763568394002504e+16")]%Z in
  let v := JMap [("f", JList [JFloat 1 (-1); JFloat (-5) (-1); JFloat 3602879701896397 (-55)]);
                 ("g", JMap [("tiny", JFloat 1 (-1074)); ("big", JFloat 2220446049250313 3)])] in
  ftable_ok tb = true /\ floats_all (in_table tb) v = true /\
  wf v = true /\ in_range v = true /\ no_leading_eq v = true /\
  eval_lit (encode (fprint_of tb) v) = ROk v.
Proof. vm_compute. repeat split. Qed.

(* ... and a numeral with fraction / exponent is delivered as the double it denotes *)
Example C11_float_numeral :
  eval_lit (encode (fun _ _ => []) (JList [JStr "1.5e3"; JStr "0.1"])) =
  ROk (JList [JFloat 375 2; JFloat 3602879701896397 (-55)]).
Proof. vm_compute. reflexivity. Qed.

Print Assumptions C11_unescape_escape.
Print Assumptions C11_string_roundtrip.
Print Assumptions C11_norm_other_strings.
Print Assumptions C11_norm_int_numeral.
Print Assumptions C11_norm_float_numeral.
Print Assumptions C11_numeral_grammar.
Print Assumptions C11_int_text.
Print Assumptions C11_lex_encode.
Print Assumptions C11_parse_tokens_encode.
Print Assumptions C11_roundtrip.
Print Assumptions C11_keys.
Print Assumptions C11_roundtrip_table.
