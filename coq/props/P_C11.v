(* P_C11.v — placeholder while the model is being validated. *)
From Koreo Require Import Json Encode CelLit Encode_proofs.
Example C11_placeholder : numeral_kind (txt "1.5e3") = Some KFloat.
Proof. reflexivity. Qed.
Print Assumptions C11_placeholder.
