(* P_C13.v — property C13: the first false assertion decides the outcome;
   unevaluable ones fail safe.  Statements only; proofs are in
   proofs/Predicates_proofs.v (and proofs/ErrScan_proofs.v).
   Model: model/Predicates.v (predicate_helpers.py, cel/evaluation.py
   evaluate_predicates, value_function/reconcile.py, the head and tail of
   resource_function/reconcile/__init__.py reconcile_resource_function) on top
   of model/ErrScan.v.

   Vocabulary (Predicates_proofs.v):
     [es]            the evaluated elements of the predicate list, in listed order
                     (what celpy builds for each {assert: .., <kind>: {..}} literal;
                     a failing message/delay is an embedded error object [VErr]);
     [is_pred e a k] element [e] has assertion value [a] and exactly the outcome kind
                     [k] (with its evaluated message / delay), any key order;
     [specs_of es specs]  element-wise [is_pred e (VBool b) k] for specs = [(b, k); ..]:
                     "every assertion evaluates to a boolean";
     [kind_result loc k]  the outcome the text prescribes for a false assertion of kind
                     [k]: DepSkip/Skip/Retry/PermFail with message and delay, [None]
                     (= continue) for the ok kind;
     [evaluate_predicates es loc]  what the code returns, [None] = continue. *)
From Koreo Require Import Json Outcome ErrScan Predicates ErrScan_proofs Predicates_proofs.
From Koreo Require Import Predicates_gen Predicates_sync.
Local Open Scope list_scope.

(* "when every assertion evaluates to a boolean, the first false one alone decides - its
   skip, depSkip, retry or permFail outcome is returned with its message and delay, or, for
   the ok kind, checking stops and evaluation continues - and if none is false evaluation
   continues."  Side condition (second sentence of the property): whatever belongs to a
   FALSE assertion (message, delay) evaluated; messages of passing assertions are
   unconstrained. *)
Theorem C13_first_false_decides : forall loc es specs,
  specs_of es specs ->
  (forall e, In e es -> assert_of e = Some false -> err_free e) ->
  evaluate_predicates es loc =
    match find (fun s => negb (fst s)) specs with
    | None => None
    | Some s => kind_result loc (snd s)
    end.
Proof. exact first_false_decides. Qed.

(* the same, positionally: everything before position |pre| is true, that one is false *)
Theorem C13_first_false_at : forall loc es specs pre k post,
  specs_of es specs ->
  (forall e, In e es -> assert_of e = Some false -> err_free e) ->
  specs = pre ++ (false, k) :: post -> Forall (fun s => fst s = true) pre ->
  evaluate_predicates es loc = kind_result loc k.
Proof. exact first_false_at. Qed.

(* "... and if none is false evaluation continues" *)
Theorem C13_none_false_continues : forall loc es specs,
  specs_of es specs -> Forall (fun s => fst s = true) specs ->
  evaluate_predicates es loc = None.
Proof. exact none_false_continues. Qed.

(* "with its message and delay": a string message is returned verbatim, an integer delay
   as that integer, a delay that is not an integer is a PermFail *)
Theorem C13_message_and_delay : forall loc s z,
  kind_result loc (KSkip (VStr s)) = Some (Skip (Some s) (Some loc)) /\
  kind_result loc (KDepSkip (VStr s)) = Some (DepSkip (Some s) (Some loc)) /\
  kind_result loc (KPermFail (VStr s)) = Some (PermFail (Some s) (Some loc)) /\
  kind_result loc (KRetry (VStr s) (VInt z)) = Some (Retry z (Some s) (Some loc)) /\
  kind_result loc KOk = None.
Proof. intros; cbn; repeat split. Qed.

Theorem C13_retry_bad_delay : forall loc m d,
  delay_of d = None -> is_permfail (kind_result loc (KRetry m d)).
Proof. exact retry_bad_delay_permfail. Qed.

(* "If an assertion ... cannot be evaluated or is not a boolean, the outcome is PermFail":
   at any position, whatever the other assertions are *)
Theorem C13_nonbool_permfail : forall loc es e,
  In e es -> ~ bool_assert e -> is_permfail (evaluate_predicates es loc).
Proof. exact nonbool_permfail. Qed.

(* "If ... a message cannot be evaluated ..., the outcome is PermFail": the deciding
   (first false) assertion's message or delay holds an error *)
Theorem C13_deciding_msg_err_permfail : forall loc es pre e post,
  Forall bool_assert es ->
  es = pre ++ e :: post -> Forall (fun x => assert_of x = Some true) pre ->
  assert_of e = Some false -> occurs_err e ->
  is_permfail (evaluate_predicates es loc).
Proof. exact deciding_msg_err_permfail. Qed.

(* "Whenever the outcome is not to continue, the body is not evaluated": ValueFunction —
   the precondition outcome is the result and neither locals nor return reached celpy *)
Theorem C13_vf_body_not_evaluated : forall f base loc o,
  evaluate_predicates_opt (vf_pre f) (sloc loc "preconditions") = Some o ->
  fst (reconcile_vf f base loc) = Done (UOut o) /\
  ~ In SLocals (snd (reconcile_vf f base loc)) /\ ~ In SReturn (snd (reconcile_vf f base loc)).
Proof. exact vf_precondition_body_not_evaluated. Qed.

(* "... and, for preconditions, the cluster is not touched": ResourceFunction — for ANY
   behaviour of reconcile_krm_resource, a precondition outcome means an empty API call log
   (reads included) and nothing but the preconditions evaluated *)
Theorem C13_rf_cluster_not_touched : forall (call : Type) krm f loc o,
  evaluate_predicates_opt (rf_pre f) (sloc loc "preconditions") = Some o ->
  reconcile_rf call krm f loc = (Some (UOut o), trace_of SPre (rf_pre f), []).
Proof. exact rf_precondition_stops. Qed.

(* postconditions: the outcome is returned and `return` is not evaluated *)
Theorem C13_rf_post_body_not_evaluated : forall (call : Type) krm f loc o,
  evaluate_predicates_opt (rf_post f) (sloc loc "postconditions") = Some o ->
  forall r t calls, reconcile_rf call krm f loc = (r, t, calls) ->
  ~ In SReturn t /\ (In SPost t -> r = Some (UOut o)).
Proof. exact rf_postcondition_stops. Qed.

(* "If an assertion or a message cannot be evaluated ... the outcome is PermFail", at the level of
   what celpy hands to evaluate_predicates: WHATEVER celpy does — raises a CELEvalError (also one
   whose tree celpy's tree_dump cannot print: the except handler no longer raises since /repo
   4ee1f6b), raises anything else, or returns a value with an error object anywhere — the result
   is a PermFail naming the location.  evaluate_predicates is a total function into
   [option outcome]: no exception escapes. *)
Theorem C13_unevaluable_is_permfail : forall r loc,
  ErrScan_proofs.failed r ->
  exists o, evaluate_predicates_raw r loc = Some o /\ ErrScan_proofs.names_loc loc o.
Proof. exact ErrScan_proofs.evaluate_predicates_failed. Qed.

(* The tie to the code, as a proof obligation: the model of predicate_to_koreo_result ([p2k], the
   function every theorem above reasons about through [evaluate_predicates]) is equal to the
   transcription of that function regenerated from src/koreo/predicate_helpers.py on every run
   (gen/Predicates_gen.v, harness/translate_predicates.py): same case order, same keys, same outcome
   class, message, delay and location in every arm, every arm returns. *)
Theorem C13_p2k_is_transcription_of_code : forall loc ps,
  p2k loc ps = p2k_gen loc ps.
Proof. exact p2k_is_transcription. Qed.

(* non-vacuity: a 4-element list (a passing skip whose message FAILS, a false retry, a false
   permFail, a passing ok) meets the hypotheses of C13_first_false_decides and the result is
   the retry; a function with these preconditions returns it without evaluating locals or
   return; a false ok-kind assertion stops the checking; a non-boolean assertion after a
   false one still gives PermFail *)
Example C13_nonvacuous :
  let es := [elem (VBool true) (KSkip VErr);
             elem (VBool false) (KRetry (VStr "wait") (VInt 7));
             elem (VBool false) (KPermFail (VStr "boom"));
             elem (VBool true) KOk] in
  let specs := [(true, KSkip VErr); (false, KRetry (VStr "wait") (VInt 7));
                (false, KPermFail (VStr "boom")); (true, KOk)] in
  specs_of es specs /\
  (forall e, In e es -> assert_of e = Some false -> err_free e) /\
  evaluate_predicates es "L" = Some (Retry 7 (Some "wait") (Some "L")) /\
  reconcile_vf {| vf_pre := Some (cel_filter es); vf_locals := Some RRaise;
                  vf_return := Some (ISub [("x", IAt 0)], RRaise) |} None "f"
    = (Done (UOut (Retry 7 (Some "wait") (Some "f:spec.preconditions"))), [SPre]) /\
  evaluate_predicates [elem (VBool false) KOk; elem (VBool false) (KSkip (VStr "s"))] "L" = None /\
  is_permfail (evaluate_predicates [elem (VBool false) (KSkip (VStr "s")); elem (VInt 5) KOk] "L").
Proof.
  cbn zeta. split; [|split; [|split; [|split; [|split]]]].
  - repeat constructor; apply elem_is_pred.
  - intros e [<-|[<-|[<-|[<-|[]]]]]; cbn; intros H; try discriminate;
      apply scan_false_err_free; reflexivity.
  - reflexivity.
  - reflexivity.
  - reflexivity.
  - red. do 2 eexists. reflexivity.
Qed.

Print Assumptions C13_first_false_decides.
Print Assumptions C13_first_false_at.
Print Assumptions C13_none_false_continues.
Print Assumptions C13_message_and_delay.
Print Assumptions C13_retry_bad_delay.
Print Assumptions C13_nonbool_permfail.
Print Assumptions C13_deciding_msg_err_permfail.
Print Assumptions C13_vf_body_not_evaluated.
Print Assumptions C13_rf_cluster_not_touched.
Print Assumptions C13_rf_post_body_not_evaluated.
Print Assumptions C13_unevaluable_is_permfail.
Print Assumptions C13_p2k_is_transcription_of_code.
