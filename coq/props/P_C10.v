(* P_C10.v — property C10: expression failures surface as PermFail, never as
   crashes or leaked error objects.  Statements only; proofs are in
   proofs/ErrScan_proofs.v.  Model: model/ErrScan.v (cel/evaluation.py:
   check_for_celevalerror, evaluate, evaluate_overlay, _overlay_applier) and
   model/Predicates.v (evaluate_predicates, reconcile_value_function, the sites of
   reconcile_resource_function).

   CEL is not modelled: what celpy's Runner.evaluate did at an evaluation site is
   a [raw] value — it raised ([RRaise] a CELEvalError, [RRaiseOther] anything
   else) or returned a value tree that may hold error objects ([VErr]) anywhere.
   The theorems quantify over ALL raw results at all sites; the harness records
   the real raw results and checks that the real functions do what the model does.

   Vocabulary (ErrScan_proofs.v):
     [occurs_err v]   an error object occurs in v (list/tuple item, dict key, dict value, any depth);
     [err_free v]     := ~ occurs_err v;
     [failed r]       celpy reported a failure: it raised, or returned a value in which an
                      error object occurs ("the expression failed to evaluate, wherever it sits");
     [names_loc L o]  o is a PermFail whose message contains L or whose location is L. *)
From Koreo Require Import Json Outcome ErrScan Predicates ErrScan_proofs.
From Koreo Require Import ErrScan_gen ErrScan_sync.
Local Open Scope list_scope.

(* the recursive scan finds an error object iff there is one — "wherever it sits in a
   nested map or list" *)
Theorem C10_check_complete : forall v, scan v = false <-> err_free v.
Proof. exact scan_false_err_free. Qed.

Theorem C10_check_finds : forall v, scan v = true <-> occurs_err v.
Proof. exact scan_complete. Qed.

(* evaluate: returns None only when there is no expression; a value only if it is the
   error-free value celpy returned; otherwise (celpy failed) a PermFail naming the location.
   It is total: no exception escapes. *)
Theorem C10_evaluate_sound : forall e loc,
  match evaluate e loc with
  | ENone => e = None
  | EVal v => e = Some (RVal v) /\ err_free v
  | EFail o => (exists r, e = Some r /\ failed r) /\ names_loc loc o
  end.
Proof. exact evaluate_cases. Qed.

Theorem C10_evaluate_failure_is_permfail : forall r loc,
  failed r -> exists o, evaluate (Some r) loc = EFail o /\ names_loc loc o.
Proof. exact evaluate_failed. Qed.

(* evaluate_overlay (given an error-free base): a value only if celpy did not fail, and then
   an error-free one; any outcome is a PermFail naming the location; the only exception that
   can escape is the applier's IndexError when the index does not fit the value list *)
Theorem C10_evaluate_overlay_sound : forall idx r base loc,
  err_free (VMap base) ->
  match evaluate_overlay idx r base loc with
  | Done (UVal v) => ~ failed r /\ err_free v
  | Done (UOut o) => names_loc loc o
  | Raised _ => exists l, r = RVal (VList l) /\ idx_in_range idx (List.length l) = false
  end.
Proof. exact evaluate_overlay_cases. Qed.

Theorem C10_evaluate_overlay_failure_is_permfail : forall idx r base loc,
  failed r -> exists o, evaluate_overlay idx r base loc = Done (UOut o) /\ names_loc loc o.
Proof. exact evaluate_overlay_failed. Qed.

(* evaluate_predicates: celpy failed => PermFail naming the location; the result never is an
   Ok (it carries no data); any other outcome was computed from an error-free list, so no
   message is the text of an error object *)
Theorem C10_evaluate_predicates_failure_is_permfail : forall r loc,
  failed r -> exists o, evaluate_predicates_raw r loc = Some o /\ names_loc loc o.
Proof. exact evaluate_predicates_failed. Qed.

Theorem C10_evaluate_predicates_no_data : forall r loc o,
  evaluate_predicates_raw r loc = Some o -> is_ok o = false.
Proof. exact evaluate_predicates_not_ok. Qed.

Theorem C10_evaluate_predicates_from_clean : forall v loc o,
  evaluate_predicates_raw (RVal v) loc = Some o -> o <> fail_eval loc -> err_free v.
Proof. exact evaluate_predicates_from_clean. Qed.

(* ValueFunction: for EVERY assignment of raw results to its sites (preconditions, locals,
   return) and every error-free value_base:
   1. a returned value never contains an error object;
   2. if celpy reported a failure at a site that was reached, the outcome is a PermFail naming
      that site's location;
   3. nothing raises (given that the return overlay's index fits the value list, which
      prepare guarantees). *)
Theorem C10_vf_no_leak : forall f base loc,
  err_free (VMap (base_map base)) ->
  (forall v, fst (reconcile_vf f base loc) = Done (UVal v) -> err_free v) /\
  (forall s rw, In s (snd (reconcile_vf f base loc)) -> vf_raw_at f s = Some rw -> failed rw ->
     exists o, fst (reconcile_vf f base loc) = Done (UOut o) /\ names_loc (sloc loc (part s)) o) /\
  (vf_ret_fits f -> exists u, fst (reconcile_vf f base loc) = Done u).
Proof. exact vf_no_leak. Qed.

(* "No exception escapes" for the three wrappers is carried by their types: [evaluate] and
   [evaluate_predicates_raw] are total functions into outcome-or-value types for EVERY raw
   result (both except clauses of the Python are modelled, and since /repo 4ee1f6b the
   CELEvalError handler cannot raise: see the regression cases corpus/C10/01, 10 and
   corpus/C13/11, 12); [evaluate_overlay] and [reconcile_vf] can only return [Raised] through
   the applier's IndexError, excluded by [vf_ret_fits] (clause 3 above). *)
Theorem C10_no_exception_escapes : forall f base loc,
  vf_ret_fits f -> exists u, fst (reconcile_vf f base loc) = Done u.
Proof. exact vf_no_exception. Qed.

(* ResourceFunction — PARTIAL.  Full statement: the same three clauses for all sites of a
   ResourceFunction (apiConfig name, template name, resource, every overlay / skipIf / inputs,
   the forced-overlay re-scans, create overlay) plus "no POST/PATCH body contains an error
   object".  Proved here: the four sites of reconcile_resource_function itself
   (preconditions, locals, postconditions, return), for every behaviour [krm] of
   reconcile_krm_resource (the value returned by the function is the `return` expression's
   value only).  Missing: a model of
   reconcile_krm_resource (resource_function/reconcile/__init__.py:127-700). *)
Theorem C10_rf_no_leak_partial : forall (call : Type) krm f loc r t (calls : list call),
  reconcile_rf call krm f loc = (r, t, calls) ->
  (forall v, r = Some (UVal v) -> err_free v) /\
  (forall s rw, In s t -> rf_raw_at f s = Some rw -> failed rw ->
     exists o, r = Some (UOut o) /\ names_loc (sloc loc (part s)) o).
Proof. exact rf_no_leak_partial. Qed.

(* The tie to the code, as a proof obligation: the model of check_for_celevalerror ([scan]: true = a
   PermFail is returned), which every theorem above uses to say "an error object anywhere in the value is
   found", is equal to the transcription of that function regenerated from src/koreo/cel/evaluation.py
   on every run (gen/ErrScan_gen.v, harness/translate_errscan.py): for every value there is a fuel from
   which on the transcription answers exactly [scan v], and whenever it answers at all it answers
   [scan v].  A container the scan no longer descends into, keys no longer scanned or an early exit
   that skips later elements breaks this. *)
Theorem C10_scan_is_transcription_of_code : forall v,
  exists n0, forall n, (n0 <= n)%nat -> scan_gen n v = Some (scan v).
Proof. exact scan_is_transcription. Qed.

Theorem C10_scan_transcription_sound : forall n v b, scan_gen n v = Some b -> b = scan v.
Proof. exact scan_gen_sound. Qed.

(* non-vacuity: an error buried in a list inside a map inside a list is found; a function whose
   locals hold such a value PermFails at spec.locals although the return expression would
   succeed; a clean function returns an error-free merge *)
Example C10_nonvacuous :
  let deep := VMap [(VStr "a", VList [VMap [(VStr "b", VInt 1); (VStr "c", VList [VStr "x"; VErr])]])] in
  occurs_err deep /\ scan deep = true /\
  failed (RVal deep) /\
  (exists o, fst (reconcile_vf {| vf_pre := None; vf_locals := Some (RVal deep);
                                  vf_return := Some (ISub [("r", IAt 0)], RVal (VList [VInt 1])) |}
                               None "f") = Done (UOut o) /\ names_loc "f:spec.locals" o) /\
  reconcile_vf {| vf_pre := None; vf_locals := None;
                  vf_return := Some (ISub [("r", IAt 0); ("n", ISub [("k", IAt 1)])],
                                     RVal (VList [VInt 1; VStr "v"])) |}
               (Some [(VStr "n", VMap [(VStr "z", VNull)])]) "f"
    = (Done (UVal (VMap [(VStr "n", VMap [(VStr "z", VNull); (VStr "k", VStr "v")]); (VStr "r", VInt 1)])),
       [SReturn]).
Proof.
  cbn zeta.
  assert (S : scan (VMap [(VStr "a", VList [VMap [(VStr "b", VInt 1); (VStr "c", VList [VStr "x"; VErr])]])]) = true)
    by reflexivity.
  split; [now apply scan_complete|]. split; [exact S|]. split; [now apply scan_complete|]. split.
  - eexists. split; [reflexivity|]. apply names_loc_fail_eval.
  - reflexivity.
Qed.

Print Assumptions C10_check_complete.
Print Assumptions C10_check_finds.
Print Assumptions C10_evaluate_sound.
Print Assumptions C10_evaluate_failure_is_permfail.
Print Assumptions C10_evaluate_overlay_sound.
Print Assumptions C10_evaluate_overlay_failure_is_permfail.
Print Assumptions C10_evaluate_predicates_failure_is_permfail.
Print Assumptions C10_evaluate_predicates_no_data.
Print Assumptions C10_evaluate_predicates_from_clean.
Print Assumptions C10_vf_no_leak.
Print Assumptions C10_no_exception_escapes.
Print Assumptions C10_rf_no_leak_partial.
Print Assumptions C10_scan_is_transcription_of_code.
Print Assumptions C10_scan_transcription_sound.
