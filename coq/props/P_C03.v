(* P_C03.v — property C03: outcome aggregation is severity-maximal,
   order-insensitive and lossless.  Statements only; proofs are in
   proofs/Outcome_proofs.v.  Model: model/Outcome.v (src/koreo/result.py). *)
From Koreo Require Import Json Outcome Outcome_proofs Outcome_gen Outcome_sync.
From Coq Require Import Permutation.
Local Open Scope nat_scope.
Local Open Scope list_scope.

Section C03.
  Variable V : Type.
  Notation outcome := (outcome V).
  Notation Raw := (Forall (fun o : outcome => raw o = true)).

  (* severity order used by the property text: PermFail > Retry > Ok > Skip > DepSkip *)
  Example sev_order :
    sev (@DepSkip V None None) < sev (@Skip V None None) /\
    sev (@Skip V None None) < 2 /\ (forall d l, sev (@Ok V d l) = 2) /\
    (forall d m l, sev (@Retry V d m l) = 3) /\ (forall m l, sev (@PermFail V m l) = 4).
  Proof. cbn. repeat split; auto. Qed.

  (* the empty sequence combines to Skip *)
  Theorem C03_empty : combine (@nil outcome) = Skip None None.
  Proof. exact (combine_nil V). Qed.

  (* the class of the combination is the most severe class present *)
  Theorem C03_class : forall xs : list outcome,
    Raw xs -> xs <> [] -> sev (combine xs) = maxsev V xs.
  Proof. exact (combine_class V). Qed.

  (* ... whatever the order; the longest delay too *)
  Theorem C03_perm : forall xs ys : list outcome,
    Raw xs -> Permutation xs ys ->
    sev (combine xs) = sev (combine ys) /\ delay (combine xs) = delay (combine ys).
  Proof. exact (combine_class_perm V). Qed.

  (* ... and the messages kept (see C03_retry / C03_permfail) form the same
     multiset for every order *)
  Theorem C03_msgs_perm : forall (xs ys : list outcome) sel f,
    Permutation xs ys -> Permutation (texts V sel f xs) (texts V sel f ys).
  Proof. exact (combine_msgs_perm V). Qed.

  (* Ok wins: every Ok value, in sequence order, nothing else; locations joined *)
  Theorem C03_ok_lossless : forall xs : list outcome,
    Raw xs -> maxsev V xs = 2 ->
    exists l, combine xs = Ok (Many (all_okvalues V xs)) l /\
              opt_text l = join ", " (texts V is_ok loc xs).
  Proof. exact (combine_ok_lossless V). Qed.

  (* Retry wins: longest delay, every non-empty Retry message in order *)
  Theorem C03_retry : forall xs : list outcome,
    Raw xs -> maxsev V xs = 3 ->
    exists d m l, combine xs = Retry d m l /\
      Some d = zmax_list (delays V xs) /\
      opt_text m = join ", " (texts V (is_retry V) msg xs) /\
      opt_text l = join ", " (texts V (is_retry V) loc xs).
  Proof. exact (combine_retry V). Qed.

  (* PermFail wins: every non-empty PermFail message in order *)
  Theorem C03_permfail : forall xs : list outcome,
    Raw xs -> maxsev V xs = 4 ->
    exists m l, combine xs = PermFail m l /\
      opt_text m = join ", " (texts V (is_pf V) msg xs) /\
      opt_text l = join ", " (texts V (is_pf V) loc xs).
  Proof. exact (combine_permfail V). Qed.

  (* only skips present: the result is one of the given skips, unchanged *)
  Theorem C03_skip_member : forall xs : list outcome,
    Raw xs -> xs <> [] -> maxsev V xs < 2 -> In (combine xs) xs.
  Proof. exact (combine_skip_member V). Qed.

  (* "a Workflow reports Ok only if none of its steps is waiting or failed" *)
  Theorem C03_ok_only_if_no_error : forall xs : list outcome,
    Raw xs -> is_ok (combine xs) = true -> Forall (fun o => is_error o = false) xs.
  Proof. exact (ok_only_if_no_error V). Qed.

  (* the same for unwrapped_combine (bare values in, bare list out) *)
  Theorem C03_unwrapped : forall us : list (uoutcome V),
    Forall (fun u => uraw V u = true) us -> us <> [] ->
    usev V (unwrapped_combine us) = maxsev V (map wrap us) /\
    (maxsev V (map wrap us) = 2 ->
       unwrapped_combine us = UList (all_okvalues V (map wrap us))) /\
    (maxsev V (map wrap us) <> 2 ->
       unwrapped_combine us = UNon (combine (map wrap us))).
  Proof. exact (unwrapped_combine_class V). Qed.
End C03.

(* The tie to the code, as a proof obligation: the model's [combine2] (what
   self.combine(other) computes) is equal to the transcription of the five
   `combine` methods regenerated from src/koreo/result.py on every run. *)
Theorem C03_model_is_transcription_of_code : forall (V : Type) (a b : outcome V),
  combine2_gen V a b = combine2 a b.
Proof. exact combine2_gen_eq. Qed.

(* ... and the module-level functions: the transcriptions of result.combine and
   result.unwrapped_combine (with the predicates they call) never fail on the inputs the
   functions are specified for, and return what the model returns. *)
Theorem C03_combine_is_transcription_of_code : forall (V : Type) (xs : list (outcome V)),
  combine_gen V xs = Some (combine xs).
Proof. exact combine_gen_eq. Qed.

Theorem C03_unwrapped_is_transcription_of_code : forall (V : Type) (us : list (uoutcome V)),
  forallb uraw_b us = true -> unwrapped_combine_gen V us = Some (unwrapped_combine us).
Proof. exact unwrapped_combine_gen_eq. Qed.

(* non-vacuity: a mixed raw sequence meets the hypotheses, and the theorems say
   something definite about it *)
Example C03_nonvacuous :
  let xs := [Skip None None; Ok (Single 1%Z) (Some "a"); Retry 5 (Some "r1") None;
             Ok (Single 2%Z) None; Retry 9 None (Some "l"); DepSkip (Some "d") None] in
  Forall (fun o : outcome Z => raw o = true) xs /\ xs <> [] /\ maxsev Z xs = 3 /\
  combine xs = Retry 9 (Some "r1") (Some "l").
Proof. cbn. repeat split; try discriminate; repeat constructor. Qed.

Print Assumptions C03_empty.
Print Assumptions C03_class.
Print Assumptions C03_perm.
Print Assumptions C03_msgs_perm.
Print Assumptions C03_ok_lossless.
Print Assumptions C03_retry.
Print Assumptions C03_permfail.
Print Assumptions C03_skip_member.
Print Assumptions C03_ok_only_if_no_error.
Print Assumptions C03_unwrapped.
Print Assumptions C03_model_is_transcription_of_code.
Print Assumptions C03_combine_is_transcription_of_code.
Print Assumptions C03_unwrapped_is_transcription_of_code.
