(* P_C08.v — property C08: payloads are clean: no directives, truthful
   last-applied, owners preserved.  Statements only; proofs are in
   proofs/Payload_proofs.v.  Model: model/Payload.v
   (src/koreo/resource_function/reconcile/__init__.py, helpers 742-870 and
   their call sites 315-365, 663-683; src/koreo/constants.py). *)
From Koreo Require Import Json Payload Payload_proofs.
Local Open Scope list_scope.

(* the constants that define the property, spelled out *)
Example C08_constants :
  directive_keys = ["x-koreo-compare-as-set"; "x-koreo-compare-as-map";
                    "x-koreo-compare-last-applied"] /\
  last_applied_key = "koreo.dev/last-applied-configuration".
Proof. split; reflexivity. Qed.

(* ---- "No object sent to the API server contains a Koreo comparison directive
        key at any depth" ---------------------------------------------------- *)

(* stripping leaves no directive key in any map, through lists, at any depth *)
Theorem C08_strip_no_directive : forall j, has_directive (strip j) = false.
Proof. exact strip_no_directive. Qed.

(* every body that _prepare_for_api hands to the API is directive-free (and so
   is the document recorded in its annotation) *)
Theorem C08_body_no_directive : forall obj p,
  prepare_for_api obj = Done p ->
  has_directive (body p) = false /\ has_directive (recorded p) = false.
Proof. exact body_recorded_no_directive. Qed.

(* ... and stripping removes ONLY directive entries: strip j is the unique
   document related to j by "directive entries deleted at any depth, scalars,
   list positions, other keys, their order and their (pruned) values kept" *)
Theorem C08_strip_only_removes : forall j j', prunes j j' <-> j' = strip j.
Proof. exact strip_only_removes. Qed.

(* the same in equations: directive-free documents are untouched, stripping is
   idempotent, kept keys keep their order and their (stripped) values *)
Theorem C08_strip_clean_id : forall j, has_directive j = false -> strip j = j.
Proof. exact strip_clean_id. Qed.

Theorem C08_strip_idempotent : forall j, strip (strip j) = strip j.
Proof. exact strip_idempotent. Qed.

Theorem C08_strip_map_entries : forall kvs,
  exists kvs', strip (JMap kvs) = JMap kvs' /\
    map fst kvs' = filter (fun k => negb (is_directive k)) (map fst kvs) /\
    forall k, lookup k kvs' =
              if is_directive k then None else option_map strip (lookup k kvs).
Proof. exact strip_map_entries. Qed.

Theorem C08_strip_list_items : forall l,
  exists l', strip (JList l) = JList l' /\ List.length l' = List.length l /\
    forall n, nth_error l' n = option_map strip (nth_error l n).
Proof. exact strip_list_items. Qed.

(* ---- "its last-applied annotation is exactly the JSON of the object as sent
        without that annotation" --------------------------------------------- *)

(* Hypothesis: the target does not itself carry the annotation key.  The
   document recorded in the annotation is the stripped target; the body carries
   the annotation; the body with the annotation entry deleted is the stripped
   target with `metadata` / `metadata.annotations` defaulted to {} — equal to the
   recorded document outright when the target already has an annotations map,
   and otherwise equal up to those EMPTY holder maps. *)
Theorem C08_last_applied_truthful : forall obj p,
  prepare_for_api obj = Done p ->
  annotation_of (strip obj) = None ->
  recorded p = strip obj /\
  annotation_of (body p) = Some annotation_placeholder /\
  remove_annotation (body p) = ensure_holders (recorded p) /\
  drop_empty_holders (remove_annotation (body p)) = drop_empty_holders (recorded p).
Proof. exact last_applied_truthful. Qed.

(* "defaulted to {}" adds nothing but empty holder maps *)
Theorem C08_holders_exact : forall top md a,
  lookup "metadata" top = Some (JMap md) -> lookup "annotations" md = Some a ->
  ensure_holders (JMap top) = JMap top.
Proof. exact ensure_holders_id. Qed.

Theorem C08_holders_only_empty_maps : forall j,
  (forall k, String.eqb k "metadata" = false ->
             top_lookup k (ensure_holders j) = top_lookup k j) /\
  (forall k, String.eqb k "annotations" = false ->
             meta_lookup k (ensure_holders j) = meta_lookup k j) /\
  (forall a, meta_lookup "annotations" j = Some a ->
             meta_lookup "annotations" (ensure_holders j) = Some a) /\
  (meta_lookup "annotations" j = None ->
             ensure_holders j = j \/ meta_lookup "annotations" (ensure_holders j) = Some (JMap [])).
Proof. exact ensure_holders_spec. Qed.

(* _prepare_for_api succeeds exactly when the target is a map whose metadata /
   metadata.annotations, if present, are maps; otherwise it raises TypeError
   (which reconcile_krm_resource does not catch — see notes/C08.md) *)
Theorem C08_prepare_total : forall obj,
  holders_ok (strip obj) = true <-> exists p, prepare_for_api obj = Done p.
Proof. exact prepare_total. Qed.

Theorem C08_prepare_raises_TypeError_only : forall obj e,
  prepare_for_api obj = Raised e -> e = ExTypeError.
Proof. exact prepare_raises_only_TypeError. Qed.

(* what kr8s adds before POSTing (kind, apiVersion, metadata.namespace) is
   already in a body built from a target carrying the forced overlay, so "the
   object as sent" is the prepared body *)
Theorem C08_sent_is_prepared : forall ns kind version b,
  top_lookup "kind" b = Some (JStr kind) ->
  top_lookup "apiVersion" b = Some (JStr version) ->
  (forall n, ns = Some n -> meta_lookup "namespace" b = Some (JStr n)) ->
  kr8s_post ns kind version b = b.
Proof. exact kr8s_post_id. Qed.

(* ---- "A created object carries the parent's owner reference if and only if
        the function is owning and parent and object share a namespace" ------- *)

(* Hypotheses: the view has a metadata map (the forced name/namespace overlay
   guarantees it) and the target does not itself specify
   metadata.ownerReferences.  [strip o = o] for any real owner reference. *)
Theorem C08_create_owner_iff : forall owned owner_ns ns view o p,
  has_meta_map view = true ->
  meta_lookup "ownerReferences" view = None ->
  create_payload owned owner_ns ns view o = Done (Sent p) ->
  meta_lookup "ownerReferences" (body p) =
    if owned && opt_str_eqb owner_ns ns then Some (JList [strip o]) else None.
Proof. exact create_owner_iff. Qed.

(* ... and under these hypotheses the create path does send a body whenever
   _prepare_for_api can (no PermFail, nothing raised) *)
Theorem C08_create_total : forall owned owner_ns ns view o,
  has_meta_map view = true ->
  meta_lookup "ownerReferences" view = None ->
  holders_ok (strip view) = true ->
  exists p, create_payload owned owner_ns ns view o = Done (Sent p).
Proof. exact create_total. Qed.

(* without the hypothesis: references the target specifies itself are kept, and
   the parent's is among them (or one with the parent's uid already was) *)
Theorem C08_create_keeps_existing : forall owned owner_ns ns view o p,
  create_payload owned owner_ns ns view o = Done (Sent p) ->
  if should_own owned owner_ns ns then
    exists L', meta_lookup "ownerReferences" (body p) = Some (JList (map strip L')) /\
               incl (owner_refs_of view) L' /\
               (In o L' \/ exists r, In r (owner_refs_of view) /\ same_uid r o = true)
  else meta_lookup "ownerReferences" (body p) =
       option_map strip (meta_lookup "ownerReferences" view).
Proof. exact create_keeps_existing. Qed.

(* ---- "and a patch adds it under the same condition when the live object
        lacks it" ------------------------------------------------------------ *)

(* a lacking reference always forces the update branch, whatever the match *)
Theorem C08_lacking_forces_update : forall matched,
  needs_update matched (Reffed false) = true.
Proof. exact needs_update_when_lacking. Qed.

(* owning + same namespace + live object lacks the parent's uid: the PATCH body
   carries the live references followed by the parent's *)
Theorem C08_patch_owner_added : forall owned owner_ns ns live target o p,
  should_own owned owner_ns ns = true ->
  validate_owner_reffed_r live o = Done (Reffed false) ->
  patch_payload owned owner_ns ns live target o = Done (Sent p) ->
  meta_lookup "ownerReferences" (body p) =
    Some (JList (map strip (owner_refs_of live ++ [o]))).
Proof. exact patch_owner_added. Qed.

(* otherwise (not owning / other namespace / already referenced / live metadata
   so corrupt that the check itself returned a PermFail object) the PATCH body
   is the prepared target, with no ownerReferences unless the target has some *)
Theorem C08_patch_owner_not_added : forall owned owner_ns ns live target o rr p,
  owner_reffed_r owned owner_ns ns live o = Done rr ->
  should_own owned owner_ns ns && negb (reffed_truthy rr) = false ->
  patch_payload owned owner_ns ns live target o = Done (Sent p) ->
  prepare_for_api target = Done p /\
  meta_lookup "ownerReferences" (body p) =
    option_map strip (meta_lookup "ownerReferences" target).
Proof. exact patch_owner_untouched. Qed.

(* ---- "owner references already present on the live object are never dropped
        by a patch" ---------------------------------------------------------- *)

(* Hypotheses: the target (a Python dict: unique keys) does not itself specify
   metadata.ownerReferences; the live references carry no koreo directive keys
   (they are API-server objects).  After the cluster applied the PATCH body with
   RFC 7386 merge-patch, every reference of the live list L is still there. *)
Theorem C08_patch_preserves_owners : forall owned owner_ns ns live target o s L,
  wf target = true ->
  meta_lookup "ownerReferences" live = Some (JList L) ->
  meta_lookup "ownerReferences" target = None ->
  has_directive (JList L) = false ->
  patch_payload owned owner_ns ns live target o = Done s ->
  incl L (owner_refs_of (apply_patch live s)).
Proof. exact patch_preserves_owners. Qed.

(* without the last hypothesis: the list is L itself or L with directive keys
   stripped followed by the parent *)
Theorem C08_patch_preserves_owners_gen : forall owned owner_ns ns live target o s L,
  wf target = true ->
  meta_lookup "ownerReferences" live = Some (JList L) ->
  meta_lookup "ownerReferences" target = None ->
  patch_payload owned owner_ns ns live target o = Done s ->
  exists p, s = Sent p /\
    (owner_refs_of (apply_patch live s) = L \/
     owner_refs_of (apply_patch live s) = map strip L ++ [strip o]).
Proof. exact patch_preserves_owners_gen. Qed.

(* exactly: the stored list is L, plus the parent iff it was owed and lacking *)
Theorem C08_patch_result_refs : forall owned owner_ns ns live target o s L,
  wf target = true ->
  meta_lookup "ownerReferences" live = Some (JList L) ->
  meta_lookup "ownerReferences" target = None ->
  has_directive (JList L) = false -> has_directive o = false ->
  patch_payload owned owner_ns ns live target o = Done s ->
  owner_refs_of (apply_patch live s) =
    match owner_reffed_r owned owner_ns ns live o with
    | Done (Reffed false) => L ++ [o]
    | _ => L
    end.
Proof. exact patch_result_refs. Qed.

(* ---- the exception-free views other models use agree with the line-by-line
        ones wherever those return ------------------------------------------- *)
Theorem C08_views_agree : forall view o,
  (forall r, updated_owner_refs_r view o = Done r -> updated_owner_refs view o = r) /\
  (forall r, validate_owner_reffed_r view o = Done r -> validate_owner_reffed view o = r) /\
  (forall ann r, extract_last_applied_r view ann = Done r -> extract_last_applied view ann = r) /\
  (forall e, updated_owner_refs_r view o = Raised e -> e = ExAttributeError) /\
  (forall e, validate_owner_reffed_r view o = Raised e -> e = ExAttributeError).
Proof. exact views_agree. Qed.

(* _extract_last_applied (as repaired by /repo 69b5a7d): a truthy live object
   that is not a map raises AttributeError; on a map only json.loads can raise
   (non-str annotation: TypeError; text that does not parse: ValueError); a
   non-map metadata / annotations reads as "no last-applied" *)
Theorem C08_extract_raises_cases : forall live ann e,
  extract_last_applied_r live ann = Raised e ->
  (is_map live = false /\ e = ExAttributeError) \/
  (is_map live = true /\ (e = ExTypeError \/ (e = ExValueError /\ ann = None))).
Proof. exact extract_raises_cases. Qed.

Theorem C08_extract_nonmap_holder_none : forall top ann,
  (forall md, lookup "metadata" top = Some md -> is_map md = false \/
     exists mkvs, md = JMap mkvs /\
       forall an, lookup "annotations" mkvs = Some an -> is_map an = false) ->
  extract_last_applied_r (JMap top) ann = Done None.
Proof. exact extract_nonmap_holder_none. Qed.

(* ---- non-vacuity and necessity of the hypotheses -------------------------- *)

Definition ex_owner : json :=
  JMap [("apiVersion", JStr "v1"); ("kind", JStr "Parent"); ("name", JStr "p"); ("uid", JStr "uid-p")].

Definition ex_target : json :=
  JMap [("apiVersion", JStr "v1"); ("kind", JStr "Widget");
        ("metadata", JMap [("name", JStr "w"); ("namespace", JStr "ns");
                           ("x-koreo-compare-as-set", JList [JStr "finalizers"])]);
        ("spec", JMap [("items", JList [JMap [("name", JStr "a");
                                               ("x-koreo-compare-as-map", JMap [("k", JList [JStr "name"])])]]);
                       ("x-koreo-compare-last-applied", JList [JStr "items"])])].

Definition ex_live : json :=
  JMap [("apiVersion", JStr "v1"); ("kind", JStr "Widget");
        ("metadata", JMap [("name", JStr "w"); ("namespace", JStr "ns");
                           ("ownerReferences", JList [JMap [("uid", JStr "other")]])]);
        ("spec", JMap [("items", JList [])])].

(* a target with directives in metadata, inside a list item and next to it: the
   create and patch paths send bodies meeting every hypothesis above *)
Example C08_nonvacuous :
  has_directive ex_target = true /\ wf ex_target = true /\
  has_meta_map ex_target = true /\ meta_lookup "ownerReferences" ex_target = None /\
  annotation_of (strip ex_target) = None /\
  (exists p, create_payload true (Some "ns") (Some "ns") ex_target ex_owner = Done (Sent p) /\
             meta_lookup "ownerReferences" (body p) = Some (JList [ex_owner]) /\
             has_directive (body p) = false /\
             drop_empty_holders (remove_annotation (body p)) = recorded p) /\
  (exists p, create_payload true (Some "other") (Some "ns") ex_target ex_owner = Done (Sent p) /\
             meta_lookup "ownerReferences" (body p) = None) /\
  validate_owner_reffed_r ex_live ex_owner = Done (Reffed false) /\
  (exists p, patch_payload true (Some "ns") (Some "ns") ex_live ex_target ex_owner = Done (Sent p) /\
             owner_refs_of (apply_patch ex_live (Sent p)) = [JMap [("uid", JStr "other")]; ex_owner]).
Proof.
  vm_compute. repeat split; try reflexivity; eexists; repeat split; reflexivity.
Qed.

(* the hypothesis "the target does not itself carry the annotation key" is
   needed: such a target's entry is recorded but overwritten in the body *)
Example C08_annotation_hypothesis_needed :
  let t := JMap [("metadata", JMap [("annotations",
             JMap [("koreo.dev/last-applied-configuration", JStr "mine")])])] in
  exists p, prepare_for_api t = Done p /\
            remove_annotation (body p) <> ensure_holders (recorded p).
Proof. vm_compute. eexists. split; [reflexivity|discriminate]. Qed.

(* the hypothesis "the target does not itself specify metadata.ownerReferences"
   is needed: merge-patch replaces the live list by the target's *)
Example C08_owner_hypothesis_needed :
  let t := JMap [("metadata", JMap [("name", JStr "w"); ("ownerReferences", JList [])])] in
  exists p, patch_payload false None None ex_live t ex_owner = Done (Sent p) /\
            owner_refs_of (apply_patch ex_live (Sent p)) = [].
Proof. vm_compute. eexists. split; reflexivity. Qed.

(* live metadata so corrupt that _validate_owner_reffed returns a PermFail
   OBJECT: the caller treats it as truthy, so the patch goes out without the
   parent's reference (outside the property's quantifier: ownerReferences is
   not a list here; recorded as an observation in notes/C08.md) *)
Example C08_permfail_is_truthy :
  let live := JMap [("metadata", JMap [("name", JStr "w"); ("ownerReferences", JStr "corrupt")])] in
  validate_owner_reffed_r live ex_owner = Done ReffedPermFail /\
  exists p, patch_payload true None None live ex_target ex_owner = Done (Sent p) /\
            meta_lookup "ownerReferences" (body p) = None.
Proof. vm_compute. split; [reflexivity|]. eexists. split; reflexivity. Qed.

(* references that are not maps make the owner check raise AttributeError, which
   reconcile_krm_resource does not catch (outside the quantifier as well) *)
Example C08_nonmap_ref_raises :
  let live := JMap [("metadata", JMap [("name", JStr "w"); ("ownerReferences", JList [JStr "x"])])] in
  patch_payload true None None live ex_target ex_owner = Raised ExAttributeError.
Proof. vm_compute. reflexivity. Qed.

Print Assumptions C08_strip_no_directive.
Print Assumptions C08_body_no_directive.
Print Assumptions C08_strip_only_removes.
Print Assumptions C08_strip_clean_id.
Print Assumptions C08_strip_idempotent.
Print Assumptions C08_strip_map_entries.
Print Assumptions C08_strip_list_items.
Print Assumptions C08_last_applied_truthful.
Print Assumptions C08_holders_exact.
Print Assumptions C08_holders_only_empty_maps.
Print Assumptions C08_prepare_total.
Print Assumptions C08_prepare_raises_TypeError_only.
Print Assumptions C08_sent_is_prepared.
Print Assumptions C08_create_owner_iff.
Print Assumptions C08_create_total.
Print Assumptions C08_create_keeps_existing.
Print Assumptions C08_lacking_forces_update.
Print Assumptions C08_patch_owner_added.
Print Assumptions C08_patch_owner_not_added.
Print Assumptions C08_patch_preserves_owners.
Print Assumptions C08_patch_preserves_owners_gen.
Print Assumptions C08_patch_result_refs.
Print Assumptions C08_views_agree.
Print Assumptions C08_extract_raises_cases.
Print Assumptions C08_extract_nonmap_holder_none.
