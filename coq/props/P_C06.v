(* P_C06.v — property C06: managed object identity is pinned to apiConfig.
   Model: model/ResourceFn.v; proofs in proofs/Identity_proofs.v.
   [ident c name ns j] says: j.apiVersion = c_version c, j.kind = c_kind c,
   j.metadata.name = name and, when apiConfig yields a namespace n,
   j.metadata.namespace = n. *)
From Koreo Require Import Json Payload ResourceFn ResourceFn_proofs Identity_proofs RfFaults RfFaults_proofs.
Local Open Scope list_scope.

(* "Every object a ResourceFunction creates or patches carries exactly the
   apiVersion, kind, metadata.name and (for namespaced kinds)
   metadata.namespace that its apiConfig evaluates to, and the call is
   addressed to that same name and namespace" — for EVERY scenario: every
   template document (inline or ResourceTemplate), every list of inline and
   function overlays, every create overlay (all of them arbitrary documents:
   they may set or replace — also with non-maps — apiVersion, kind, metadata,
   metadata.name, metadata.namespace), every live object and every input. *)
Theorem C06_identity_pinned : forall s name ns,
  s_name s = NameOk name ns ->
  forall c, In c (calls_of s) ->
  match c with
  | CPost pl nsx p =>
      ident (s_cfg s) name ns (body p) /\ nsx = call_ns (s_cfg s) (body p) /\
      (c_plural (s_cfg s) = Some pl \/ c_plural (s_cfg s) = None /\ s_lookup s = Some pl)
  | CPatch pl nsx nm p =>
      ident (s_cfg s) name ns (body p) /\ nm = name /\
      (forall live, s_live s = Some live -> nsx = call_ns (s_cfg s) live) /\
      (c_plural (s_cfg s) = Some pl \/ c_plural (s_cfg s) = None /\ s_lookup s = Some pl)
  | CGet pl nsx nm | CDelete pl nsx nm =>
      nm = name /\
      (c_plural (s_cfg s) = Some pl \/ c_plural (s_cfg s) = None /\ s_lookup s = Some pl)
  end.
Proof. exact krm_identity. Qed.

(* ... and under EVERY answer of the API to the read and to the write (model/RfFaults.v: the read
   may say "not found" although the object is there, the read or the write may fail): every call
   that is made still carries / addresses the apiConfig identity.  [seen s ag] is the scenario as
   the code sees it after the read. *)
Theorem C06f_identity_pinned_under_faults : forall s name ns ag am,
  s_name s = NameOk name ns ->
  forall c, In c (calls_f s ag am) ->
  match c with
  | CPost pl nsx p =>
      ident (s_cfg s) name ns (body p) /\ nsx = call_ns (s_cfg s) (body p) /\
      (c_plural (s_cfg s) = Some pl \/ c_plural (s_cfg s) = None /\ s_lookup s = Some pl)
  | CPatch pl nsx nm p =>
      ident (s_cfg s) name ns (body p) /\ nm = name /\
      (forall live, s_live (seen s ag) = Some live -> nsx = call_ns (s_cfg s) live) /\
      (c_plural (s_cfg s) = Some pl \/ c_plural (s_cfg s) = None /\ s_lookup s = Some pl)
  | CGet pl nsx nm | CDelete pl nsx nm =>
      nm = name /\
      (c_plural (s_cfg s) = Some pl \/ c_plural (s_cfg s) = None /\ s_lookup s = Some pl)
  end.
Proof.
  intros s name ns ag am Hn c Hc.
  assert (Hseen : s_name (seen s ag) = NameOk name ns) by (destruct ag; exact Hn).
  assert (Hcfg : s_cfg (seen s ag) = s_cfg s) by (destruct ag; reflexivity).
  assert (Hlk : s_lookup (seen s ag) = s_lookup s) by (destruct ag; reflexivity).
  destruct (calls_f_incl s ag am c Hc) as [H|H].
  - pose proof (krm_identity s name ns Hn c H) as K.
    destruct c as [pl nsx nm|pl nsx p|pl nsx nm p|pl nsx nm]; try exact K.
    (* a PATCH is only ever made by the pass on the scenario as seen *)
    destruct K as [K1 [K2 [K3 K4]]]. split; [exact K1|]. split; [exact K2|]. split; [|exact K4].
    intros live Hl. destruct ag; cbn [seen] in Hl; try (apply K3; exact Hl). discriminate Hl.
  - pose proof (krm_identity (seen s ag) name ns Hseen c H) as K.
    rewrite Hcfg, Hlk in K. exact K.
Qed.

(* for a namespaced kind the POST is addressed to the apiConfig namespace *)
Theorem C06_post_namespace : forall c name n j,
  c_namespaced c = true -> ident c name (Some n) j -> call_ns c j = Some n.
Proof. exact call_ns_ident. Qed.

(* the mechanism: the forced overlay pins the identity over ANY document *)
Theorem C06_forced_overlay_pins : forall c name ns r,
  ident c name ns (merge_val r (forced_overlay c name ns)).
Proof. exact ident_merge_forced. Qed.

(* when no name can be evaluated, nothing is called at all *)
Theorem C06_no_name_no_call : forall s,
  (s_name s = NameErr \/ s_name s = NameNull \/ s_name s = NameBad) -> calls_of s = [].
Proof.
  intros s H. unfold calls_of, reconcile_krm.
  destruct H as [-> | [-> | ->]]; reflexivity.
Qed.

(* non-vacuity: a template + overlay + create overlay that all try to redirect the object *)
Definition evil : json :=
  JMap [("apiVersion", JStr "evil/v1"); ("kind", JInt 3);
        ("metadata", JMap [("name", JStr "other"); ("namespace", JList [])])].
Definition evil_doc : odoc :=
  ONode [("kind", OLeaf (JStr "Other")); ("metadata", OLeaf (JStr "not-a-map"))].
Definition ex_s : scenario :=
  {| s_cfg := {| c_version := "v1"; c_kind := "Widget"; c_plural := Some "widgets"; c_namespaced := true;
                 c_owned := false; c_readonly := false; c_delete_if_exists := false;
                 c_create_enabled := true; c_create_delay := 30; c_update := UPatch 9 |};
     s_pre := None; s_locals_err := false; s_name := NameOk "w" (Some "ns"); s_lookup := None;
     s_live := None; s_template := TRef evil;
     s_overlays := OvList [{| o_skip := SNone; o_body := OInline evil_doc |};
                           {| o_skip := SBool false; o_body := OFn evil_doc |}];
     s_create_overlay := CDoc evil_doc; s_owner_ns := None; s_owner_ref := JMap [];
     s_match := false; s_post := None; s_return := None |}.
Example C06_nonvacuous :
  exists p, calls_of ex_s = [CGet "widgets" (Some "ns") "w"; CPost "widgets" (Some "ns") p] /\
            top_lookup "kind" (body p) = Some (JStr "Widget") /\
            meta_lookup "name" (body p) = Some (JStr "w") /\
            meta_lookup "namespace" (body p) = Some (JStr "ns").
Proof. eexists. vm_compute. repeat split; reflexivity. Qed.

Print Assumptions C06_identity_pinned.
Print Assumptions C06_post_namespace.
Print Assumptions C06_forced_overlay_pins.
Print Assumptions C06_no_name_no_call.
Print Assumptions C06f_identity_pinned_under_faults.
