(* P_C15.v — property C15: the cache is keyed by resourceVersion: prepare once
   per version, latest wins.  Statements only; proofs are in
   proofs/Cache_proofs.v.  Model: model/Cache.v (src/koreo/cache.py).

   [prep k spec n] is what the preparer does on its n-th invocation overall
   (returns an Ok tuple, returns a failure outcome, or raises); every theorem
   holds for every preparer.  [preps s] is the log of preparer invocations
   (most recent first), so "does not prepare again" is [preps] unchanged and
   "prepares exactly once" is one new head.  [extract_meta m = inl (name, ver)]
   says the metadata carries a non-empty name and resourceVersion. *)
From Koreo Require Import Json Cache Cache_proofs.
Local Open Scope list_scope.
Local Open Scope nat_scope.

Section C15.
  Variable prep : key -> json -> nat -> presult.
  Notation step := (step prep).
  Notation run := (run prep).

  (* "Offering a resource with the name and resourceVersion already cached
     returns the cached result without preparing again" — in any state, the
     whole state (cache, clock, preparer log) is untouched *)
  Theorem C15_offer_same_version : forall cls m spec sys s name ver e,
    extract_meta m = inl (name, ver) ->
    lookup (cls, name) (cache s) = Some e -> e_version e = ver ->
    step (Offer cls m spec sys) s = (s, RValue (e_value e)).
  Proof. exact (offer_cached prep). Qed.

  (* "offering a different resourceVersion always prepares again ... (including
     a failed preparation, which is cached as such)" — exactly one preparer
     call; the entry becomes (offered version, that result) whether the
     preparer returned an Ok tuple or a failure outcome; no other key changes.
     (A preparer that RAISES is outside the property; the model says the
     exception propagates and the cache keeps what it had.) *)
  Theorem C15_offer_new_version : forall cls m spec sys s name ver,
    extract_meta m = inl (name, ver) ->
    (forall e, lookup (cls, name) (cache s) = Some e -> e_version e <> ver) ->
    let k := (cls, name) in
    let s' := fst (step (Offer cls m spec sys) s) in
    let r := snd (step (Offer cls m spec sys) s) in
    preps s' = k :: preps s /\
    (forall k', k' <> k -> lookup k' (cache s') = lookup k' (cache s)) /\
    match prep k spec (List.length (preps s)) with
    | POk id _ => r = RValue (VOk id) /\
                  lookup k (cache s') = Some (Entry spec (VOk id) ver (clock s) sys)
    | PErr id => r = RValue (VErr id) /\
                 lookup k (cache s') = Some (Entry spec (VErr id) ver (clock s) sys)
    | PRaise => r = Raised PreparerError /\ cache s' = cache s
    end.
  Proof. exact (offer_prepares prep). Qed.

  (* metadata without a name or resourceVersion: TypeError, nothing happens *)
  Theorem C15_offer_bad_metadata : forall cls m spec sys s x,
    extract_meta m = inr x -> step (Offer cls m spec sys) s = (s, Raised x).
  Proof. exact (offer_bad_meta prep). Qed.

  (* "... and lookups then return the result for the most recently offered
     version" — for every history [before], an offer that returns v, and every
     continuation [after] that does not name that key (other keys' offers and
     deletes, lookups, rejected offers): the cache holds (offered version, v)
     and get_resource_from_cache returns v *)
  Theorem C15_latest_wins : forall before after cls m spec sys name ver v,
    extract_meta m = inl (name, ver) ->
    snd (step (Offer cls m spec sys) (run before init)) = RValue v ->
    (forall o, In o after -> touches o (cls, name) = false) ->
    let s := run (before ++ Offer cls m spec sys :: after) init in
    exists e, lookup (cls, name) (cache s) = Some e /\ e_version e = ver /\ e_value e = v /\
              step (Lookup cls name) s = (s, RValue v).
  Proof. exact (latest_wins prep). Qed.

  (* "Deleting by name removes the entry" (also: naming the cached version, or
     an empty version) — and nothing else; the preparer is not called *)
  Theorem C15_delete_removes : forall cls name ver s e,
    lookup (cls, name) (cache s) = Some e ->
    (ver = None \/ ver = Some "" \/ ver = Some (e_version e)) ->
    let s' := fst (step (Delete cls name ver) s) in
    snd (step (Delete cls name ver) s) = RNone /\
    lookup (cls, name) (cache s') = None /\
    (forall k', k' <> (cls, name) -> lookup k' (cache s') = lookup k' (cache s)) /\
    preps s' = preps s.
  Proof. exact (delete_removes prep). Qed.

  (* "while a delete that names a stale version leaves a newer entry untouched"
     — it is the identity on the whole state *)
  Theorem C15_delete_stale_version : forall cls name v s e,
    lookup (cls, name) (cache s) = Some e -> v <> "" -> v <> e_version e ->
    step (Delete cls name (Some v)) s = (s, RNone).
  Proof. exact (delete_stale prep). Qed.

  Theorem C15_delete_absent : forall cls name ver s,
    lookup (cls, name) (cache s) = None -> step (Delete cls name ver) s = (s, RNone).
  Proof. exact (delete_absent prep). Qed.

  (* delete_resource_from_cache(metadata) is delete by NAME: the metadata's
     resourceVersion is required but not compared *)
  Theorem C15_delete_resource_by_name : forall cls m s name ver,
    extract_meta m = inl (name, ver) ->
    step (DeleteRes cls m) s = step (Delete cls name None) s.
  Proof. exact (delete_resource_is_delete prep). Qed.

  (* an operation only affects the key it names *)
  Theorem C15_frame : forall o s k,
    touches o k = false -> lookup k (cache (fst (step o s))) = lookup k (cache s).
  Proof. exact (step_frame prep). Qed.

  (* the cache is a dict: one entry per (kind, name) after every history *)
  Theorem C15_keys_unique : forall ops, NoDup (map fst (cache (run ops init))).
  Proof. exact (keys_unique prep). Qed.

  (* "agreement with a simple map model after every prefix": for every history
     the cache, projected to key -> (version, result) plus the preparer log,
     is exactly the state of the plain-map specification [astep] (offer:
     cached version ? cached result : prepare and remember; delete: by name, or
     only if the version matches), and every offer / delete / lookup returns
     what the specification returns *)
  Theorem C15_refines_map : forall ops s, abs (run ops s) = arun prep ops (abs s).
  Proof. exact (run_refines prep). Qed.

  Theorem C15_results_refine : forall before o,
    match o with LookupSys _ _ => True
    | _ => snd (step o (run before init)) = snd (astep prep o (arun prep before (abs init))) end.
  Proof. exact (results_refine prep). Qed.
End C15.

(* A background re-prepare that OVERLAPS other operations (outside the sequential
   histories above; cache._reprepare_and_update_cache as repaired by 033ed5d —
   before that commit it stored the entry it had read before awaiting the
   preparer, and an offer of a newer version completing in between was lost:
   found by the harness's concurrent stream, see notes/C15.md).
   [rp_begin] is the function up to its await (reads the entry, calls the
   preparer), [rp_end] the rest; [ops] is whatever runs while the preparer is
   suspended; [stamped s0] (every cached entry carries a clock reading older
   than the clock) holds in every reachable state ([C15_stamped]). *)
Section C15_reprepare.
  Variable prep : key -> json -> nat -> presult.

  Theorem C15_stamped : forall ops, stamped (run prep ops init).
  Proof. intros ops. apply run_stamped, init_stamped. Qed.

  (* if the key's entry is no longer exactly the entry that was read — offered
     again or deleted meanwhile — finishing the re-prepare changes neither the
     cache nor the preparer log: "latest wins" survives the overlap *)
  Theorem C15_reprepare_respects_newer_state : forall k s0 read p started s1 ops,
    stamped s0 ->
    rp_begin prep k s0 = Some (read, p, started, s1) ->
    let s2 := run prep ops s1 in
    lookup k (cache s2) <> Some read ->
    cache (rp_end k read p started s2) = cache s2 /\ preps (rp_end k read p started s2) = preps s2.
  Proof. exact (reprepare_respects_newer_state prep). Qed.

  (* a newer version offered meanwhile stays *)
  Theorem C15_reprepare_keeps_newer_version : forall k s0 read p started s1 ops e,
    stamped s0 -> rp_begin prep k s0 = Some (read, p, started, s1) ->
    lookup k (cache (run prep ops s1)) = Some e -> e_version e <> e_version read ->
    lookup k (cache (rp_end k read p started (run prep ops s1))) = Some e.
  Proof. exact (reprepare_keeps_newer_version prep). Qed.

  (* an entry deleted meanwhile is not resurrected *)
  Theorem C15_reprepare_does_not_resurrect : forall k s0 read p started s1 ops,
    stamped s0 -> rp_begin prep k s0 = Some (read, p, started, s1) ->
    lookup k (cache (run prep ops s1)) = None ->
    lookup k (cache (rp_end k read p started (run prep ops s1))) = None.
  Proof. exact (reprepare_does_not_resurrect prep). Qed.

  (* otherwise the re-prepared result replaces the old one under the SAME version and spec *)
  Theorem C15_reprepare_updates_same_version : forall k s0 read p started s1 ops v,
    rp_begin prep k s0 = Some (read, p, started, s1) ->
    lookup k (cache (run prep ops s1)) = Some read -> value_of_presult p = Some v ->
    lookup k (cache (rp_end k read p started (run prep ops s1))) =
      Some (Entry (e_spec read) v (e_version read) started (e_sysdata read)).
  Proof. exact (reprepare_updates_same_version prep). Qed.
End C15_reprepare.

(* regression for the repaired defect: the interleaving that used to leave
   version "1" (and a deleted entry resurrected) now leaves "2" / nothing *)
Example C15_reprepare_race_regression :
  let prep := fun (_ : key) (_ : json) (n : nat) => POk n false in
  let m v := Meta (Some "x") (Some v) true in
  let s1 := fst (step prep (Offer 0 (m "1") (JStr "spec-v1") None) init) in
  exists read p started s2,
    rp_begin prep (0, "x") s1 = Some (read, p, started, s2) /\
    let s3 := fst (step prep (Offer 0 (m "2") (JStr "spec-v2") None) s2) in
    let s4 := rp_end (0, "x") read p started s3 in
    option_map e_version (lookup (0, "x") (cache s4)) = Some "2" /\
    option_map e_spec (lookup (0, "x") (cache s4)) = Some (JStr "spec-v2") /\
    let s3' := fst (step prep (Delete 0 "x" None) s2) in
    lookup (0, "x") (cache (rp_end (0, "x") read p started s3')) = None.
Proof. exact reprepare_race_regression. Qed.

(* non-vacuity: a preparer that succeeds on even invocations and fails on odd
   ones; versions go v1 -> v1 -> v2 (failure cached) -> v1 (prepared again),
   a stale delete is ignored, a delete by name removes *)
Example C15_nonvacuous :
  let prep := fun (_ : key) (_ : json) (n : nat) => if Nat.even n then POk n false else PErr n in
  let m v := Meta (Some "a") (Some v) true in
  let ops := [Offer 0 (m "1") JNull None; Offer 0 (m "1") JNull None;
              Offer 0 (m "2") JNull None; Offer 1 (m "1") JNull None] in
  let s := run prep ops init in
  option_map (fun e => (e_version e, e_value e)) (lookup (0, "a") (cache s)) = Some ("2", VErr 1) /\
  option_map (fun e => (e_version e, e_value e)) (lookup (1, "a") (cache s)) = Some ("1", VOk 2) /\
  preps s = [(1, "a"); (0, "a"); (0, "a")] /\
  step prep (Offer 0 (m "2") JNull None) s = (s, RValue (VErr 1)) /\
  snd (step prep (Offer 0 (m "1") JNull None) s) = RValue (VErr 3) /\
  step prep (Delete 0 "a" (Some "1")) s = (s, RNone) /\
  lookup (0, "a") (cache (fst (step prep (Delete 0 "a" None) s))) = None /\
  step prep (Offer 0 (Meta (Some "a") None true) JNull None) s = (s, Raised TypeError).
Proof. vm_compute. repeat split. Qed.

Print Assumptions C15_offer_same_version.
Print Assumptions C15_offer_new_version.
Print Assumptions C15_offer_bad_metadata.
Print Assumptions C15_latest_wins.
Print Assumptions C15_delete_removes.
Print Assumptions C15_delete_stale_version.
Print Assumptions C15_delete_absent.
Print Assumptions C15_delete_resource_by_name.
Print Assumptions C15_frame.
Print Assumptions C15_keys_unique.
Print Assumptions C15_refines_map.
Print Assumptions C15_results_refine.
Print Assumptions C15_stamped.
Print Assumptions C15_reprepare_respects_newer_state.
Print Assumptions C15_reprepare_keeps_newer_version.
Print Assumptions C15_reprepare_does_not_resurrect.
Print Assumptions C15_reprepare_updates_same_version.
