(* P_C16.v — property C16: hot reload is coherent (dependents are re-prepared
   after every change).  Statements only; proofs are in proofs/Loop_proofs.v.
   Model: model/Loop.v (src/koreo/cache.py + the part of src/koreo/registry.py
   it uses + the asyncio ready queue / tasks / LifoQueue underneath).

   Everything is stated for EVERY history [ops] of the driver (Offer / Delete /
   Yield in any order, i.e. every placement of the operations relative to
   event-loop turns) run from the empty system, and for EVERY iteration order
   [ord] of the subscriber sets.

   Hypotheses (also listed in the evidence file):
   - [wf_op]: declared dependencies are acyclic — a resource only declares
     resources with a larger index (so SubscriptionCycle is never raised);
   - built into the model: time.monotonic() is strictly increasing ([tick]);
     preparers are atomic and do not raise. *)
From Coq Require Import List Permutation Lia.
From Koreo Require Import Loop Loop_proofs.
Import ListNotations.
Local Open Scope nat_scope.
Local Open Scope list_scope.

(* notify_subscribers iterates over a set: any order, but each member once *)
Definition set_order (ord : nat -> list nat -> list nat) : Prop :=
  forall t l, Permutation (ord t l) l.

(* the histories the property quantifies over *)
Definition history (ops : list op) : Prop := Forall wf_op ops.

(* ---- watch_inv, cached half: "a re-offered one is watched again".
   In every reachable state a cached entry is subscribed to exactly its declared
   dependencies (both dicts agree), has a registered queue that is not shut down
   and holds no Kill, and — when it declares dependencies — has a re-prepare
   task in _REPREPARE_TASKS that is not finished, not cancelled, and is either
   about to start (start handle pending), suspended in queue.get() on the
   entry's CURRENT queue with that queue empty, or woken with its wake-up
   handle pending ([watched]). *)
Theorem C16_watch_cached : forall ord, set_order ord -> forall ops, history ops ->
  forall k e, cache (run ord ops) k = Some e ->
  subs (run ord ops) k = dedup (c_deps e) /\
  (forall d, In d (c_deps e) <-> In k (rsubs (run ord ops) d)) /\
  (exists q, queues (run ord ops) k = Some q /\ q_shut (heap (run ord ops) q) = false /\
             ~ In EKill (q_items (heap (run ord ops) q))) /\
  (c_deps e <> [] -> exists tid, watched (run ord ops) k tid).
Proof. exact watch_cached_thm. Qed.

(* ---- watch_inv, other half: "a deleted resource leaves no watcher behind".
   A key that is not cached has no subscriptions (in either dict), no
   registered queue and no entry in _REPREPARE_TASKS — in every reachable state,
   not only once the ready queue has drained. *)
Theorem C16_watch_uncached : forall ord, set_order ord -> forall ops, history ops ->
  forall k, cache (run ord ops) k = None ->
  subs (run ord ops) k = [] /\ (forall d, ~ In k (rsubs (run ord ops) d)) /\
  queues (run ord ops) k = None /\ rtasks (run ord ops) k = None.
Proof. exact watch_uncached_thm. Qed.

(* ... and every task that is not the current re-preparer of its resource is
   finished, or was cancelled and only has its last step left in the ready
   queue (so once the ready queue has drained, all such tasks are finished) *)
Theorem C16_no_stale_watcher : forall ord, set_order ord -> forall ops, history ops ->
  forall tid, rtasks (run ord ops) (t_key (tasks (run ord ops) tid)) <> Some tid ->
  t_status (tasks (run ord ops) tid) = TDone \/
  (t_cancel (tasks (run ord ops) tid) = true /\
   ((t_status (tasks (run ord ops) tid) = TNew /\ In (HStart tid) (ready (run ord ops))) \/
    (t_status (tasks (run ord ops) tid) = TWoken /\ In (HWake tid) (ready (run ord ops))))).
Proof. exact no_stale_watcher_thm. Qed.

(* no exception escapes an operation or a task, no fuel runs out, no handle
   meets a task in an impossible state *)
Theorem C16_no_error : forall ord, set_order ord -> forall ops, history ops ->
  err (run ord ops) = None.
Proof. exact no_error_thm. Qed.

(* ---- pending_inv: "every cached resource that declared a dependency on it is
   prepared again afterwards".  For a cached R and a declared dependency d,
   either R saw the current generation of d, or R's registered queue holds an
   event newer than R's prepare time AND R's live monitor has its start or
   wake-up handle in the ready queue (it will take that event at the next
   turn). *)
Theorem C16_pending : forall ord, set_order ord -> forall ops, history ops ->
  forall R e d g, cache (run ord ops) R = Some e -> In (d, g) (c_seen e) ->
  g = gens (run ord ops) d \/
  (newer (run ord ops) R /\
   exists tid, watched (run ord ops) R tid /\
               (In (HStart tid) (ready (run ord ops)) \/ In (HWake tid) (ready (run ord ops)))).
Proof. exact pending_thm. Qed.

(* the generations an entry recorded are those of exactly its declared dependencies *)
Theorem C16_seen_covers_deps : forall ord, set_order ord -> forall ops, history ops ->
  forall R e, cache (run ord ops) R = Some e -> map fst (c_seen e) = c_deps e.
Proof. exact seen_covers_deps_thm. Qed.

(* ---- idle_coherent (THE PROPERTY): "once the system is idle each cached entry
   was built from the current state of everything it depends on".  Idle = the
   ready queue is empty and no registered queue holds an event newer than its
   owner's prepare time.  Since EVERY cached entry is coherent with its direct
   dependencies, each is transitively built from the current state of
   everything it depends on. *)
Theorem C16_idle_coherent : forall ord, set_order ord -> forall ops, history ops ->
  ready (run ord ops) = [] -> (forall R, ~ newer (run ord ops) R) ->
  coherent (run ord ops).
Proof. exact idle_coherent_thm. Qed.

(* stronger: an empty ready queue is enough (a newer event in the queue of an
   entry with dependencies always comes with a scheduled monitor step) *)
Theorem C16_quiescent_coherent : forall ord, set_order ord -> forall ops, history ops ->
  ready (run ord ops) = [] -> coherent (run ord ops).
Proof. exact quiescent_coherent_thm. Qed.

(* ---- non-vacuity: the delete-and-re-offer history that was incoherent before
   the repair (offer D; offer R(deps=[D]); delete R; one turn; offer R; offer
   D(new)), followed by three turns: it is a [history], it reaches an empty
   ready queue, R (= 0) is cached, watched and saw D's (= 1) current
   generation, which is its second. *)
Definition id_order (t : nat) (l : list nat) : list nat := l.

Example C16_nonvacuous :
  let ops := [Offer 1 1 []; Offer 0 1 [1]; Delete 0; Yield; Offer 0 2 [1]; Offer 1 2 [];
              Yield; Yield; Yield] in
  let s := run id_order ops in
  set_order id_order /\ history ops /\ ready s = [] /\
  (exists e, cache s 0 = Some e /\ c_deps e = [1] /\ c_seen e = [(1, 2)]) /\
  gens s 1 = 2 /\ subs s 0 = [1] /\ rsubs s 1 = [0] /\
  (exists tid, rtasks s 0 = Some tid /\ t_status (tasks s tid) = TWaiting) /\
  err s = None.
Proof.
  cbv zeta. split; [intros t l; apply Permutation_refl | ].
  split; [unfold history; repeat (apply Forall_cons;
            [simpl; unfold upward_deps; simpl; intros; intuition lia | ]); apply Forall_nil | ].
  vm_compute. repeat split; eauto.
Qed.

(* ... and one turn earlier the entry is stale but pending: the hypothesis of
   C16_idle_coherent does not hold vacuously *)
Example C16_nonvacuous_pending :
  let ops := [Offer 1 1 []; Offer 0 1 [1]; Yield; Offer 1 2 []] in
  let s := run id_order ops in
  (exists e, cache s 0 = Some e /\ c_seen e = [(1, 1)]) /\ gens s 1 = 2 /\
  ready s <> [] /\ newer s 0.
Proof.
  cbv zeta. split; [vm_compute; eauto | ]. split; [vm_compute; reflexivity | ].
  split; [vm_compute; discriminate | ].
  exists 1, 4, 1, 8. vm_compute. repeat split; auto.
Qed.


(* ---- yield_progress: "every cached resource that declared a dependency ... is
   prepared again AFTERWARDS": the cascade terminates.  After any history, a
   bounded number of further event-loop turns empties the ready queue, and the
   system is then coherent.  The bound is the weight of the heaviest handle that
   is ready ([maxw]; a done-callback weighs 1, the last step of a cancelled task
   2, a step of the live monitor of resource k weighs k+3: what a handle leaves
   behind is strictly lighter, because a monitor only wakes monitors of its
   subscribers, which have smaller indices). *)
Theorem C16_yield_progress : forall ord, set_order ord -> forall ops n, history ops ->
  maxw (run ord ops) <= n ->
  ready (run ord (ops ++ repeat Yield n)) = [] /\ coherent (run ord (ops ++ repeat Yield n)).
Proof. exact yield_progress_thm. Qed.

(* ... in closed form: if the history only offers resources with index < N,
   N+2 turns after the last Offer/Delete are always enough *)
Theorem C16_yield_progress_N : forall ord, set_order ord -> forall ops N, 0 < N -> history ops ->
  Forall (op_below N) ops ->
  ready (run ord (ops ++ repeat Yield (N + 2))) = [] /\
  coherent (run ord (ops ++ repeat Yield (N + 2))).
Proof. exact yield_progress_N_thm. Qed.

(* non-vacuity of the bound: a chain 0 -> 1 -> 2 whose bottom changes needs
   several turns; the bound (5) is not far off *)
Example C16_progress_example :
  let ops := [Offer 2 1 []; Offer 1 1 [2]; Offer 0 1 [1]; Yield; Offer 2 2 []] in
  maxw (run id_order ops) = 4 /\
  ready (run id_order (ops ++ [Yield])) <> [] /\
  ready (run id_order (ops ++ [Yield; Yield])) = [].
Proof. vm_compute. repeat split; discriminate. Qed.

Print Assumptions C16_watch_cached.
Print Assumptions C16_watch_uncached.
Print Assumptions C16_no_stale_watcher.
Print Assumptions C16_no_error.
Print Assumptions C16_pending.
Print Assumptions C16_seen_covers_deps.
Print Assumptions C16_idle_coherent.
Print Assumptions C16_quiescent_coherent.
Print Assumptions C16_yield_progress.
Print Assumptions C16_yield_progress_N.
