(* P_C16.v — placeholder while the model is validated *)
From Koreo Require Import Loop Loop_proofs.
