(* P_C05.v — property C05: drift in any target-specified field triggers the
   configured correction.  Statements only; proofs are in
   proofs/Validate_proofs.v and proofs/Fixpoint_proofs.v.
   Model: model/Validate.v (validate.py; the comparison/dispatch tail of
   reconcile_krm_resource), model/Payload.v (payload helpers, RFC 7386).

   Reading of the verdicts: [vmatch t l la s] is the SET of non-matching
   outcomes validate_match can produce (the iteration order of a Python set of
   keys is not modelled); [O_match] = `match=True` whatever the order,
   [O_false] = `match=False` whatever the order (no exception possible). *)
From Koreo Require Import Json Payload Validate Validate_proofs Fixpoint_proofs.
Local Open Scope list_scope.

Section Comparator.
  (* "If the live object differs from the Target Resource Specification in any
     field the target specifies - a changed or retyped leaf, a removed key, a
     list of different length or content, a missing or extra member of a
     set-directed list -" ... the comparison reports a mismatch.
     [deviates t s p l l'] (Validate.v) is the inductive union of exactly those
     kinds at a target-specified path p (leaf replaced by a value that is not
     the same leaf — incl. bool<->int, null, container —; container replaced
     by another kind; key removed; ordered list length changed; list element
     deviates; set-directed list gains/loses a member (membership tells a
     bool from the int it equals); element of a compare-as-map list deviates
     / is lost; a compare-as-map value that is no longer null or a list of
     maps), l being a live object that
     matched.  [wf t]: the target's maps have unique keys (Python dicts). *)
  Theorem C05_drift_detected : forall t s p l l' la,
    wf t = true -> vmatch t l la s = O_match -> deviates t s p l l' ->
    vmatch t l' la s = O_false.
  Proof. exact drift_detected_thm. Qed.

  (* the same for every amount of fuel of the underlying recursion *)
  Theorem C05_drift_detected_fuel : forall t s p l l',
    deviates t s p l l' ->
    forall n la, wf t = true ->
      vmatch_f n t l la s = O_match -> vmatch_f n t l' la s = O_false.
  Proof. exact drift_detected_f. Qed.

  (* the fuel [vmatch] runs with (the target's depth + 1) is enough: with any
     larger fuel the recursion gives the same verdict *)
  Theorem C05_fuel_irrelevant : forall n m t a la s,
    (jdepth t < n)%nat -> (jdepth t < m)%nat -> vmatch_f n t a la s = vmatch_f m t a la s.
  Proof. exact vmatch_fuel_irrelevant. Qed.

  (* the quantifier: deviations live at paths that never go through a
     directive key, an ownerReferences key or a key compared against
     last-applied ("which the comparison deliberately ignores") *)
  Theorem C05_deviation_at_specified_path : forall t s p l l',
    deviates t s p l l' -> specified_path t s p.
  Proof. exact deviates_specified. Qed.
End Comparator.

(* Two defects found by this check were repaired in /repo (b382e54, d125f7c);
   the model follows the repaired code and [deviates] carries no side
   condition any more:

   (a) membership in a set-directed list compares (is_bool, value) pairs, so a
       member retyped between bool and int IS a lost member and is detected
       (1 and 1.0 are still the same member); *)
Theorem C05_set_member_retype_detected :
  exists t l l',
    vmatch t l None false = O_match /\
    (* l' = l with the member 1 of the set-directed list "s" retyped to true *)
    l = JMap [("s", JList [JStr "a"; JInt 1])] /\
    l' = JMap [("s", JList [JStr "a"; JBool true])] /\
    deviates t false [SKey "s"] l l' /\
    vmatch t l' None false = O_false /\
    vmatch t (JMap [("s", JList [JFloat 1 0; JStr "a"])]) None false = O_match.
Proof.
  exists wa_target, wa_live, wa_live'.
  destruct set_boolint_detected as [A [B [C D]]]. repeat split; auto.
Qed.

(* in general: a bool is never a member of a list without bools *)
Theorem C05_set_membership_tells_bool_from_int : forall b l,
  (forall y, In y l -> forall c, y <> JBool c) -> set_mem (JBool b) l = false.
Proof. exact set_mem_bool_int. Qed.

(* (b) under x-koreo-compare-as-map a live value that is neither null nor a
       list of maps is reported as a mismatch ([dev_key_as_map_retyped] is one
       of the deviation kinds of C05_drift_detected; here on concrete values) *)
Theorem C05_as_map_retype_detected :
  exists t l,
    vmatch t l None false = O_match /\
    vmatch t (JMap [("m", JStr "str")]) None false = O_false /\
    vmatch t (JMap [("m", JList [JInt 1])]) None false = O_false /\
    vmatch t (JMap [("m", JInt 5)]) None false = O_false /\
    vmatch t (JMap [("m", JMap [("name", JStr "a")])]) None false = O_false.
Proof. exists wb_target, wb_live. exact as_map_retype_detected. Qed.

(* ... and the tail then performs the policy's action *)
Theorem C05_as_map_retype_corrected : forall cfg tk ak k tv v' sk lk cfg' fields ann ann' rr' la,
  wf (JMap tk) = true ->
  extract_last_applied_r (JMap ak) ann = Done la -> vmatch (JMap tk) (JMap ak) la false = O_match ->
  dirs_of tk = Some (sk, lk, cfg') -> lookup k tk = Some tv -> specified_key lk k = true ->
  lookup k cfg' = Some fields -> shape_ok v' = false ->
  let l' := JMap (set_key k v' ak) in
  extract_last_applied_r l' ann' = Done la ->
  (if tc_should_own cfg then validate_owner_reffed_r l' (tc_owner_ref cfg) else Done (Reffed true)) = Done rr' ->
  tail cfg (JMap tk) l' ann' =
    Some (match tc_update cfg with
          | PNever => (TLive l', [])
          | PRecreate d => (TRetry d "spec.update.recreate", [CDelete])
          | PPatch d => patch_branch cfg (JMap tk) l' rr' d
          end).
Proof.
  intros cfg tk ak k tv v' sk lk cfg' fields ann ann' rr' la W E M D Lk Sp C Sh l' E' R.
  eapply (drift_corrected_thm cfg (JMap tk) (JMap ak) l' [SKey k]); eauto.
  eapply dev_key_as_map_retyped; eauto.
Qed.

(* (c) a third defect found by this check was repaired too (69b5a7d): a live
   `metadata` / `metadata.annotations` that is not a map used to make
   `_extract_last_applied` raise before the comparator ran; it now reads as
   "no last-applied annotation".  Drift is still detected when a deviation
   makes the annotation unreadable in that way: *)
Theorem C05_drift_detected_annotation_lost : forall t s p l l' la,
  wf t = true -> vmatch t l la s = O_match -> deviates t s p l l' ->
  vmatch t l' None s = O_false.
Proof. exact drift_detected_drop_thm. Qed.

(* (d) two more defects of the same check's stream were repaired (58b6399,
   34ca0d2): a last-applied annotation recorded for an EARLIER, differently
   shaped target (a list or scalar where the target has a map, a map or scalar
   where it has a list, anything but a list of maps at a compare-as-map key)
   used to make the comparison raise on every pass.  Such a recorded value now
   counts as absent: the look-up in the recorded document cannot fail, *)
Theorem C05_last_applied_probe_total : forall la k, exists v, probe_la la k = LaVal v.
Proof. exact probe_la_total. Qed.

(* ... and drift is detected whatever kind of value was recorded where the
   target has a map / a list (nested positions: by the same two lemmas at
   every level of the recursion, and by the correspondence) *)
Theorem C05_drift_detected_ill_shaped_last_applied : forall t s p l l' la la',
  wf t = true -> vmatch t l la s = O_match -> deviates t s p l l' ->
  (match t with
   | JMap _ => forall m, la' <> JMap m
   | JList _ => forall x, la' <> JList x
   | _ => True
   end) ->
  vmatch t l' (Some la') s = O_false.
Proof. exact drift_detected_ill_shaped_la. Qed.

(* the reproducers of both repairs: mismatch reported / match kept, no exception *)
Example C05_last_applied_shape_examples :
  vmatch (JMap [("spec", JMap [("a", JInt 1)])]) (JMap [("spec", JMap [("a", JInt 2)])])
         (Some (JMap [("spec", JList [JMap []])])) false = O_false /\
  vmatch (JMap [("spec", JList [JInt 1; JInt 2])]) (JMap [("spec", JList [JInt 1; JInt 2])])
         (Some (JMap [("spec", JMap [("0", JInt 1)])])) false = O_match /\
  (forall la, In la [JStr "str"; JList [JInt 1]; JMap [("name", JStr "a")]; JList [JList [JStr "x"]]; JInt 5; JBool true] ->
     vmatch wb_target (JMap [("m", JList [JMap [("name", JStr "a")]])]) (Some (JMap [("m", la)])) false = O_match /\
     vmatch wb_target (JMap [("m", JList [JMap [("name", JStr "b")]])]) (Some (JMap [("m", la)])) false = O_false).
Proof. exact la_shape_examples. Qed.

Section Dispatch.
  (* "... a managing ResourceFunction performs exactly the action its update
     policy prescribes: one patch carrying the full target (patch), one delete
     (recreate), or nothing (never), and reports Retry for the first two."
     [dispatch] is lines 331-376 of reconcile_krm_resource on the comparator's
     verdict; [patch_branch] is the UpdatePatch arm. *)
  Theorem C05_dispatch : forall cfg t live rr,
    dispatch cfg t live rr (Done false) =
      match tc_update cfg with
      | PNever => (TLive live, [])
      | PRecreate d => (TRetry d "spec.update.recreate", [CDelete])
      | PPatch d => patch_branch cfg t live rr d
      end.
  Proof. exact dispatch_mismatch. Qed.

  (* the patch carries the prepared full target: [recorded p] is the
     directive-free target, [body p] the same with the last-applied annotation *)
  Theorem C05_patch_payload : forall cfg t live rr d,
    tc_should_own cfg && negb (reffed_truthy rr) = false ->
    patch_branch cfg t live rr d =
      match prepare_for_api t with
      | Done p => (TRetry d "spec.update.patch", [CPatch p])
      | Raised e => (TRaised e, [])
      end.
  Proof. exact patch_branch_plain. Qed.

  (* ... with the parent's owner reference added when ownership applies and
     the live object lacks it *)
  Theorem C05_patch_payload_owner : forall cfg t live rr d refs t',
    tc_should_own cfg && negb (reffed_truthy rr) = true ->
    updated_owner_refs_r live (tc_owner_ref cfg) = Done (OwnerRefs refs) ->
    set_owner_refs t refs = Done t' ->
    patch_branch cfg t live rr d =
      match prepare_for_api t' with
      | Done p => (TRetry d "spec.update.patch", [CPatch p])
      | Raised e => (TRaised e, [])
      end.
  Proof. exact patch_branch_owner. Qed.

  (* never more than the one call of the policy; any call => Retry(delay) *)
  Theorem C05_one_call : forall cfg t live rr v r calls,
    dispatch cfg t live rr v = (r, calls) ->
    calls = [] \/ (exists p, calls = [CPatch p] /\ exists d, tc_update cfg = PPatch d) \/
    (calls = [CDelete] /\ exists d, tc_update cfg = PRecreate d).
  Proof. exact dispatch_calls. Qed.

  Theorem C05_mutation_is_retry : forall cfg t live rr v r calls,
    dispatch cfg t live rr v = (r, calls) -> calls <> [] ->
    exists d loc, r = TRetry d loc /\ (tc_update cfg = PPatch d \/ tc_update cfg = PRecreate d).
  Proof. exact dispatch_mutation_is_retry. Qed.

  (* the two halves together, on the whole tail (owner check, last-applied
     extraction, comparison, dispatch): the live object matched, then deviates
     at a specified path => exactly the policy's action.  What is left of the
     old "the annotation still reads the same" hypothesis: the extraction on
     the deviated object returns ([Done]) either the same document or None.
     With the repaired code it can fail to return only when (i) the LIVE OBJECT
     itself is a truthy non-dict — which cannot come back from the API — or
     (ii) the VALUE of the koreo.dev/last-applied-configuration annotation is
     not a string / not parseable — which no target specifies ([ann_free]); a
     deviation below metadata / metadata.annotations leaves that value alone
     or makes the annotation read as None (next two theorems). *)
  Theorem C05_drift_corrected : forall cfg t l l' p ann ann' rr' la la',
    wf t = true ->
    extract_last_applied_r l ann = Done la -> vmatch t l la false = O_match ->
    deviates t false p l l' ->
    extract_last_applied_r l' ann' = Done la' -> (la' = la \/ la' = None) ->
    (if tc_should_own cfg then validate_owner_reffed_r l' (tc_owner_ref cfg) else Done (Reffed true)) = Done rr' ->
    tail cfg t l' ann' =
      Some (match tc_update cfg with
            | PNever => (TLive l', [])
            | PRecreate d => (TRetry d "spec.update.recreate", [CDelete])
            | PPatch d => patch_branch cfg t l' rr' d
            end).
  Proof. exact drift_corrected_gen. Qed.

  (* the repaired case, positively and for every target: live metadata
     replaced by a non-map (anything: "x", a list, a number, null) is reported
     as drift and the policy's action is taken ... *)
  Theorem C05_metadata_retype_corrected : forall cfg tk ak tmd v v' sk lk cfg' ann ann' rr' la,
    wf (JMap tk) = true ->
    extract_last_applied_r (JMap ak) ann = Done la -> vmatch (JMap tk) (JMap ak) la false = O_match ->
    dirs_of tk = Some (sk, lk, cfg') -> lookup "metadata" tk = Some (JMap tmd) ->
    specified_key lk "metadata" = true -> lookup "metadata" cfg' = None ->
    lookup "metadata" ak = Some v -> (forall m, v' <> JMap m) ->
    let l' := JMap (set_key "metadata" v' ak) in
    (if tc_should_own cfg then validate_owner_reffed_r l' (tc_owner_ref cfg) else Done (Reffed true)) = Done rr' ->
    tail cfg (JMap tk) l' ann' =
      Some (match tc_update cfg with
            | PNever => (TLive l', [])
            | PRecreate d => (TRetry d "spec.update.recreate", [CDelete])
            | PPatch d => patch_branch cfg (JMap tk) l' rr' d
            end).
  Proof. exact metadata_retype_corrected. Qed.

  (* ... and so is a target-specified metadata.annotations replaced by a non-map *)
  Theorem C05_annotations_retype_corrected :
    forall cfg tk ak tmd tan md a a' sk lk cfg' sk2 lk2 cfg2 ann ann' rr' la,
    wf (JMap tk) = true ->
    extract_last_applied_r (JMap ak) ann = Done la -> vmatch (JMap tk) (JMap ak) la false = O_match ->
    dirs_of tk = Some (sk, lk, cfg') -> lookup "metadata" tk = Some (JMap tmd) ->
    specified_key lk "metadata" = true -> lookup "metadata" cfg' = None ->
    dirs_of tmd = Some (sk2, lk2, cfg2) -> lookup "annotations" tmd = Some (JMap tan) ->
    specified_key lk2 "annotations" = true -> lookup "annotations" cfg2 = None ->
    lookup "metadata" ak = Some (JMap md) -> lookup "annotations" md = Some a ->
    (forall m, a' <> JMap m) ->
    let l' := JMap (set_key "metadata" (JMap (set_key "annotations" a' md)) ak) in
    (if tc_should_own cfg then validate_owner_reffed_r l' (tc_owner_ref cfg) else Done (Reffed true)) = Done rr' ->
    tail cfg (JMap tk) l' ann' =
      Some (match tc_update cfg with
            | PNever => (TLive l', [])
            | PRecreate d => (TRetry d "spec.update.recreate", [CDelete])
            | PPatch d => patch_branch cfg (JMap tk) l' rr' d
            end).
  Proof. exact annotations_retype_corrected. Qed.

  (* the former _refuted witness, now with every policy acting and the patch restoring the match *)
  Example C05_annotations_retype_example :
    vmatch wg_target wg_live None false = O_match /\
    deviates wg_target false [SKey "metadata"; SKey "annotations"] wg_live wg_live' /\
    tail (wg_cfg PNever) wg_target wg_live' None = Some (TLive wg_live', []) /\
    tail (wg_cfg (PRecreate 3)) wg_target wg_live' None = Some (TRetry 3 "spec.update.recreate", [CDelete]) /\
    exists p, prepare_for_api wg_target = Done p /\
      tail (wg_cfg (PPatch 5)) wg_target wg_live' None = Some (TRetry 5 "spec.update.patch", [CPatch p]) /\
      vmatch wg_target (merge_patch wg_live' (body p)) (Some (recorded p)) false = O_match.
  Proof. exact annotations_retype_example. Qed.
End Dispatch.

(* "After a patch the object meets the target again": whatever the live object
   l was, once the API server has applied the PATCH body by RFC 7386 the result
   matches the target (with the last-applied document the patch recorded).
   Hypotheses: [good t] (unique keys, readable directives, set-directed lists
   hold scalars, compare-as-map lists hold maps with scalar key fields),
   no explicit nulls (a null in a merge-patch deletes the key), the target does
   not itself specify the last-applied annotation.  t' is the target as sent:
   t, or t with the owner references added. *)
Theorem C05_patch_restores : forall t t' p l,
  good t = true -> no_nulls t = true -> ann_free t = true ->
  (t' = t \/ exists refs, set_owner_refs t refs = Done t') ->
  prepare_for_api t' = Done p ->
  vmatch t (merge_patch l (body p)) (Some (recorded p)) false = O_match.
Proof. exact patch_reaches_target_thm. Qed.

(* ---- non-vacuity ---------------------------------------------------------- *)

Definition ex_target : json :=
  JMap [("metadata", JMap [("name", JStr "w"); ("labels", JMap [("app", JStr "x")])]);
        ("spec", JMap [(K_SET, JList [JStr "tags"]);
                       (K_MAP, JMap [("ports", JList [JStr "name"])]);
                       (K_LA, JList [JStr "secret"]);
                       ("replicas", JInt 0);
                       ("tags", JList [JStr "a"; JInt 2]);
                       ("ports", JList [JMap [("name", JStr "http"); ("port", JInt 80)];
                                        JMap [("name", JStr "admin"); ("port", JInt 81)]]);
                       ("secret", JStr "s3");
                       ("args", JList [JStr "x"; JBool false])])].

(* a server-decorated live object: extra keys, reordered set / keyed lists, an extra element *)
Definition ex_live_spec : list (string * json) :=
  [("tags", JList [JInt 2; JStr "a"]);
   ("ports", JList [JMap [("name", JStr "extra")];
                    JMap [("name", JStr "admin"); ("port", JInt 81); ("proto", JStr "TCP")];
                    JMap [("name", JStr "http"); ("port", JInt 80)]]);
   ("secret", JStr "rotated-by-someone");
   ("replicas", JInt 0);
   ("args", JList [JStr "x"; JBool false])].

Definition ex_live_top : list (string * json) :=
  [("status", JMap [("ready", JBool true)]);
   ("metadata", JMap [("uid", JStr "u"); ("labels", JMap [("app", JStr "x"); ("z", JStr "y")]);
                      ("name", JStr "w")]);
   ("spec", JMap ex_live_spec)].

Definition ex_live : json := JMap ex_live_top.

Definition ex_la : json := strip ex_target.

(* the falsy leaf spec.replicas = 0 turned null *)
Definition ex_live_dev : json :=
  JMap (set_key "spec" (JMap (set_key "replicas" JNull ex_live_spec)) ex_live_top).

Example C05_nonvacuous :
  wf ex_target = true /\ good ex_target = true /\ no_nulls ex_target = true /\ ann_free ex_target = true /\
  vmatch ex_target ex_live (Some ex_la) false = O_match /\
  deviates ex_target false [SKey "spec"; SKey "replicas"] ex_live ex_live_dev /\
  vmatch ex_target ex_live_dev (Some ex_la) false = O_false /\
  (exists p, prepare_for_api ex_target = Done p /\
     vmatch ex_target (merge_patch ex_live_dev (body p)) (Some (recorded p)) false = O_match).
Proof.
  split; [vm_compute; reflexivity|].
  split; [vm_compute; reflexivity|].
  split; [vm_compute; reflexivity|].
  split; [vm_compute; reflexivity|].
  split; [vm_compute; reflexivity|].
  split.
  { unfold ex_live_dev, ex_live, ex_target.
    eapply (dev_key _ _ _ "spec" _ _ _ _ [] [] []); try (vm_compute; reflexivity).
    eapply (dev_key _ _ _ "replicas" (JInt 0) (JInt 0) JNull []); try (vm_compute; reflexivity).
    apply dev_leaf; reflexivity. }
  split; [vm_compute; reflexivity|].
  eexists. split; [vm_compute; reflexivity | vm_compute; reflexivity].
Qed.

Print Assumptions C05_drift_detected.
Print Assumptions C05_drift_detected_fuel.
Print Assumptions C05_fuel_irrelevant.
Print Assumptions C05_deviation_at_specified_path.
Print Assumptions C05_set_member_retype_detected.
Print Assumptions C05_set_membership_tells_bool_from_int.
Print Assumptions C05_as_map_retype_detected.
Print Assumptions C05_as_map_retype_corrected.
Print Assumptions C05_drift_detected_annotation_lost.
Print Assumptions C05_last_applied_probe_total.
Print Assumptions C05_drift_detected_ill_shaped_last_applied.
Print Assumptions C05_dispatch.
Print Assumptions C05_patch_payload.
Print Assumptions C05_patch_payload_owner.
Print Assumptions C05_one_call.
Print Assumptions C05_mutation_is_retry.
Print Assumptions C05_drift_corrected.
Print Assumptions C05_metadata_retype_corrected.
Print Assumptions C05_annotations_retype_corrected.
Print Assumptions C05_patch_restores.
