(* P_C05.v — property C05 (stub while the harness is brought up). *)
From Koreo Require Import Json Payload Validate Validate_proofs.
Theorem C05_stub : forall o, ounion O_match o = o.
Proof. exact ounion_match_l. Qed.
Print Assumptions C05_stub.
