(* P_C04.v — property C04: a ResourceFunction reaches a fixpoint (no mutation
   once the target is met).  Statements only; proofs are in
   proofs/Fixpoint_proofs.v (and proofs/Validate_proofs.v).
   Model: model/Validate.v (validate.py + the comparison/dispatch tail of
   reconcile_krm_resource), model/Payload.v (payload helpers, RFC 7386).

   [vmatch t l la s = O_match] reads "validate_match returns match=True,
   whatever order the target's keys are visited in" (see P_C05.v). *)
From Koreo Require Import Json Payload Validate Validate_proofs Fixpoint_proofs.
Local Open Scope list_scope.

Section Comparator.
  (* "When the live object already contains every field of the Target Resource
     Specification with an equal value ... whatever else the server or other
     actors added, and with set/map-directed lists in any order ..."

     1. The object exactly as sent matches its own target (with the
        last-applied document koreo wrote).  [good t]: unique keys, readable
        directives, set-directed lists hold scalars (the documented
        restriction), compare-as-map lists hold maps with scalar key fields. *)
  Theorem C04_match_refl_sent : forall t,
    good t = true -> vmatch t (strip t) (Some (strip t)) false = O_match.
  Proof. exact match_refl_sent_thm. Qed.

  (* 1'. more generally every object that CONTAINS what the target specifies
     ([sup]) matches — for every fuel that covers the target's depth *)
  Theorem C04_superset_matches : forall n t x la s,
    (jdepth t < n)%nat -> good t = true -> sup t x -> sup t la -> (s = true -> set_ok t) ->
    vmatch_f n t x la s = O_match.
  Proof. exact sup_match. Qed.

  (* 2. A match survives server-side decoration: keys added at any map depth
     (anything may happen to keys the target does not specify, to
     ownerReferences and to keys compared against last-applied), set-directed
     lists reordered, compare-as-map lists reordered / extended (their keyed
     view keeps the target's entries), ordered lists decorated element-wise.
     No hypothesis on the target at all. *)
  Theorem C04_match_monotone_decoration : forall t s l l' la,
    vmatch t l la s = O_match -> decorates t s l l' -> vmatch t l' la s = O_match.
  Proof. exact match_monotone_decoration_thm. Qed.

  (* "... and with set/map-directed lists in any order": concretely, a
     compare-as-map list whose elements have distinct keys may be permuted and
     extended by further elements with further distinct keys — that is a
     decoration ([ps]: the (key, element) pairs of the live list, [Tk]: the
     keyed view of the target list, whose keys are ordinary) *)
  Theorem C04_as_map_reorder_extend : forall fields ps extra ps' Tk,
    ps <> [] ->
    (forall k o, In (k, o) (ps ++ extra) -> obj_key o fields = Ret k) ->
    nodup_str (map fst (ps ++ extra)) = true ->
    Permutation.Permutation (ps ++ extra) ps' ->
    (forall k v, In (k, v) Tk -> plain_key k = true) ->
    list_to_object (JList (map snd ps)) fields = Ret (JMap ps) /\
    list_to_object (JList (map snd ps')) fields = Ret (JMap ps') /\
    decorates (JMap Tk) false (JMap ps) (JMap ps').
  Proof. exact as_map_reorder_extend_decorates. Qed.

  Theorem C04_match_monotone_decoration_fuel : forall n t s l l' la,
    vmatch_f n t l la s = O_match -> decorates t s l l' -> vmatch_f n t l' la s = O_match.
  Proof. exact decoration_f. Qed.
End Comparator.

Section Tail.
  (* "... a managing ResourceFunction makes no create, patch or delete call
     and goes on to postconditions and return": target met and owner-reffed
     => the tail makes no call and returns the live object. *)
  Theorem C04_met_no_mutation : forall cfg t live ann rr la,
    owner_check cfg live = Done rr -> reffed_truthy rr = true ->
    extract_last_applied_r live ann = Done la ->
    vmatch t live la false = O_match ->
    tail cfg t live ann = Some (TLive live, []).
  Proof. exact met_no_mutation_thm. Qed.

  (* "Any pass that does mutate returns Retry with the configured delay,
     never Ok" (fault-free API) — and it makes exactly one call *)
  Theorem C04_mutation_is_retry : forall cfg t live ann r calls,
    tail cfg t live ann = Some (r, calls) -> calls <> [] ->
    exists d loc, r = TRetry d loc /\ (tc_update cfg = PPatch d \/ tc_update cfg = PRecreate d).
  Proof. exact tail_mutation_is_retry. Qed.

  (* a definite tail prediction is the only outcome any key order allows *)
  Theorem C04_tail_definite : forall cfg t l ann x,
    tail cfg t l ann = Some x -> tail_all cfg t l ann = [x].
  Proof. exact tail_definite. Qed.

  Theorem C04_at_most_one_call : forall cfg t live ann r calls,
    tail cfg t live ann = Some (r, calls) ->
    calls = [] \/ (exists p, calls = [CPatch p] /\ exists d, tc_update cfg = PPatch d) \/
    (calls = [CDelete] /\ exists d, tc_update cfg = PRecreate d).
  Proof. exact tail_calls. Qed.

  (* "immediately after its ... patch is applied the object meets the target":
     for EVERY live object l, the RFC 7386 merge of the patch body matches.
     Hypotheses: good t, no explicit nulls (the property's quantifier), the
     target does not itself specify the last-applied annotation; t' = the
     target as sent (with the owner references when they were added). *)
  Theorem C04_patch_reaches_target : forall t t' p l,
    good t = true -> no_nulls t = true -> ann_free t = true ->
    (t' = t \/ exists refs, set_owner_refs t refs = Done t') ->
    prepare_for_api t' = Done p ->
    vmatch t (merge_patch l (body p)) (Some (recorded p)) false = O_match.
  Proof. exact patch_reaches_target_thm. Qed.

  (* "immediately after its create ...": the payload prepared from a resource
     view that contains what the target specifies (create overlay that does
     not contradict the target) matches *)
  Theorem C04_create_reaches_target : forall t view p top,
    good t = true -> ann_free t = true ->
    strip view = JMap top -> supn t (JMap top) ->
    prepare_for_api view = Done p ->
    vmatch t (body p) (Some (recorded p)) false = O_match.
  Proof. exact create_reaches_target_thm. Qed.

  (* "... so repeated reconciliation with unchanged inputs stops mutating (no
     update loop)": a pass patched, the API server applied the patch by RFC
     7386, the next pass with the same target makes no call and returns the
     object.  Fully composed over the tail model: owner check, last-applied
     extraction, comparison and dispatch of BOTH passes.  Further hypotheses:
     unique keys in target / live object / owner reference (Python dicts), the
     owner reference has a string uid, the target does not itself specify
     metadata.ownerReferences, and the first pass's owner check did not find
     the live metadata corrupt (a PermFail object is truthy in the code: that
     pass patches without adding the owner and the NEXT pass adds it — two
     patches, still no loop; excluded here). *)
  Theorem C04_no_update_loop : forall cfg t live ann r p okvs u,
    good t = true -> no_nulls t = true -> ann_free t = true -> owners_free t = true ->
    wf t = true -> wf live = true ->
    tc_owner_ref cfg = JMap okvs -> wf (JMap okvs) = true -> lookup "uid" okvs = Some (JStr u) ->
    (forall rr, owner_check cfg live = Done rr -> rr <> ReffedPermFail) ->
    tail cfg t live ann = Some (r, [CPatch p]) ->
    let live2 := merge_patch live (body p) in
    tail cfg t live2 (Some (recorded p)) = Some (TLive live2, []).
  Proof. exact no_update_loop_full. Qed.

  (* the modular form: the two payload facts as hypotheses (they are also
     C08's patch_result_refs / last_applied_truthful) *)
  Theorem C04_no_update_loop_modular : forall cfg t live ann r p rr2,
    good t = true -> no_nulls t = true -> ann_free t = true ->
    tail cfg t live ann = Some (r, [CPatch p]) ->
    let live2 := merge_patch live (body p) in
    owner_check cfg live2 = Done rr2 -> reffed_truthy rr2 = true ->
    extract_last_applied_r live2 (Some (recorded p)) = Done (Some (recorded p)) ->
    tail cfg t live2 (Some (recorded p)) = Some (TLive live2, []).
  Proof. exact no_update_loop_thm. Qed.
End Tail.

(* ---- non-vacuity ---------------------------------------------------------- *)

Definition ex4_target : json :=
  JMap [("apiVersion", JStr "v1"); ("kind", JStr "Widget");
        ("metadata", JMap [("name", JStr "w"); ("namespace", JStr "default");
                           ("labels", JMap [("app", JStr "x")])]);
        ("spec", JMap [(K_SET, JList [JStr "tags"]);
                       (K_MAP, JMap [("ports", JList [JStr "name"])]);
                       (K_LA, JList [JStr "secret"]);
                       ("replicas", JInt 0); ("enabled", JBool false); ("note", JStr "");
                       ("tags", JList [JStr "a"; JInt 2]);
                       ("ports", JList [JMap [("name", JStr "http"); ("port", JInt 80)];
                                        JMap [("name", JStr "admin"); ("port", JInt 81)]]);
                       ("secret", JStr "s3");
                       ("args", JList [JStr "x"; JMap [("k", JList [])]])])].

Definition ex4_cfg : tail_cfg :=
  {| tc_should_own := true;
     tc_owner_ref := JMap [("kind", JStr "Parent"); ("uid", JStr "u-1")];
     tc_update := PPatch 7 |}.

(* some live object that has drifted and lost its owner reference *)
Definition ex4_live : json :=
  JMap [("kind", JStr "Widget"); ("metadata", JMap [("name", JStr "w"); ("uid", JStr "x")]);
        ("spec", JMap [("replicas", JInt 3); ("tags", JList []); ("junk", JNull)])].

Example C04_nonvacuous :
  good ex4_target = true /\ no_nulls ex4_target = true /\ ann_free ex4_target = true /\
  owners_free ex4_target = true /\ wf ex4_target = true /\ wf ex4_live = true /\
  (forall rr, owner_check ex4_cfg ex4_live = Done rr -> rr <> ReffedPermFail) /\
  (* pass 1 patches and reports Retry 7 ... *)
  (exists p, tail ex4_cfg ex4_target ex4_live None = Some (TRetry 7%Z "spec.update.patch", [CPatch p]) /\
     let live2 := merge_patch ex4_live (body p) in
     (* ... the hypotheses of the no-update-loop theorem hold for the patched object ... *)
     owner_check ex4_cfg live2 = Done (Reffed true) /\
     extract_last_applied_r live2 (Some (recorded p)) = Done (Some (recorded p)) /\
     (* ... and pass 2 is quiet *)
     tail ex4_cfg ex4_target live2 (Some (recorded p)) = Some (TLive live2, [])).
Proof.
  split; [vm_compute; reflexivity|].
  split; [vm_compute; reflexivity|].
  split; [vm_compute; reflexivity|].
  split; [vm_compute; reflexivity|].
  split; [vm_compute; reflexivity|].
  split; [vm_compute; reflexivity|].
  split; [vm_compute; intros rr H; inversion H; discriminate|].
  eexists. split; [vm_compute; reflexivity|].
  split; [vm_compute; reflexivity|].
  split; [vm_compute; reflexivity|].
  vm_compute; reflexivity.
Qed.

(* a decoration in the sense of [decorates]: keys added, set reordered *)
Example C04_decoration_nonvacuous :
  let t := JMap [(K_SET, JList [JStr "s"]); ("s", JList [JInt 1; JInt 2]); ("a", JMap [("b", JInt 0)])] in
  let l := JMap [("s", JList [JInt 1; JInt 2]); ("a", JMap [("b", JInt 0)])] in
  let l' := JMap [("status", JStr "x"); ("a", JMap [("b", JInt 0); ("c", JNull)]); ("s", JList [JInt 2; JInt 1])] in
  vmatch t l None false = O_match /\ decorates t false l l' /\ vmatch t l' None false = O_match.
Proof.
  cbn zeta. split; [vm_compute; reflexivity|]. split; [|vm_compute; reflexivity].
  eapply (dec_map _ _ _ _ ["s"] [] []); [vm_compute; reflexivity | |].
  - intros k tv v I _ _ L. cbn in I. destruct I as [E|[E|[E|[]]]]; inversion E; subst; cbn in L; inversion L; subst.
    + eexists. split; [reflexivity|]. cbn. apply dec_set. apply Permutation.perm_swap.
    + eexists. split; [reflexivity|]. cbn.
      eapply (dec_map _ _ _ _ [] [] []); [vm_compute; reflexivity | |].
      * intros k2 tv2 v2 I2 _ _ L2. cbn in I2. destruct I2 as [E2|[]]. inversion E2; subst. cbn in L2. inversion L2; subst.
        eexists. split; [reflexivity|]. apply dec_same.
      * intros k2 tv2 v2 fields T A _ _ C. discriminate C.
  - intros k tv v fields T A _ _ C. discriminate C.
Qed.

Print Assumptions C04_match_refl_sent.
Print Assumptions C04_superset_matches.
Print Assumptions C04_match_monotone_decoration.
Print Assumptions C04_as_map_reorder_extend.
Print Assumptions C04_match_monotone_decoration_fuel.
Print Assumptions C04_tail_definite.
Print Assumptions C04_met_no_mutation.
Print Assumptions C04_mutation_is_retry.
Print Assumptions C04_at_most_one_call.
Print Assumptions C04_patch_reaches_target.
Print Assumptions C04_create_reaches_target.
Print Assumptions C04_no_update_loop.
Print Assumptions C04_no_update_loop_modular.
