(* P_C20.v — property C20: preparing any definition never crashes; schema
   violations are rejected.  Statements only; proofs are in
   proofs/Schema_proofs.v (and proofs/Extract_proofs.v for the extractor).

   Model: model/Schema.v — `validate` is fastjsonschema's behaviour on the
   JSON-Schema subset the bundled CRDs use, `prepare_gate` the first statement
   of every prepare_* function.  The schema terms S_<Kind> / schema_of are
   GENERATED from src/koreo/schema/*.yaml on every run (gen/Schemas_gen.v), so
   every theorem below that mentions them is re-checked against the YAML as it
   is now.

   Strength: PARTIAL.  The bodies of the prepare_* functions after the gate are
   not modelled statement by statement; "never raises" for them is the fuzzing
   oracle of harness/props/C20.py.  What is proved here: the gate ordering, the
   rejection clauses of the quantifier ("type-confused at any path, missing
   required parts, oversized lists", non-dict specs), and that every shape fact
   the bodies were read to rely on follows from the schema of the kind. *)
From Koreo Require Import Json Schema Schemas_gen Schema_proofs.
From Koreo Require Tree Extract Extract_proofs.
Local Open Scope list_scope.
Local Open Scope nat_scope.

(* ---- "A spec that violates the bundled CRD schema for its kind is always
        rejected with a PermFail before anything is compiled or looked up." ----
   (the gate is the first statement of the model by construction; its tie to
    the code is the correspondence + the call-counting oracle) *)
Theorem C20_invalid_rejected : forall (k : kind) (spec : json) (rule : string),
  validate (schema_of k) spec = Some rule ->
  prepare_gate (schema_of k) spec = Rejected rule [].
Proof. exact gate_rejects_bundled. Qed.

(* the gate itself is total: every JSON value offered as spec is either
   rejected with an empty compile/look-up log or goes on default-filled *)
Theorem C20_gate_total : forall (k : kind) (spec : json),
  (exists rule, prepare_gate (schema_of k) spec = Rejected rule []) \/
  (validate (schema_of k) spec = None /\
   prepare_gate (schema_of k) spec = Proceeds (fill (schema_of k) spec)).
Proof. exact gate_total_bundled. Qed.

(* ---- quantifier: "every JSON value offered as spec": a spec that is not a
        dict (None, list, str, number, bool) is rejected, for every kind ---- *)
Theorem C20_non_object_spec_rejected : forall (k : kind) (spec : json),
  has_type TObject spec = false -> validate (schema_of k) spec = Some "type"%string.
Proof. exact non_object_rejected. Qed.

(* ---- quantifier: "type-confused at any path": if the schema gives a type
        for the values at a path (through properties / items), a document with
        a value of another type there is rejected — any schema, any depth ---- *)
Theorem C20_type_confusion_rejected : forall (S S' : schema) (p : list pe) (t : jtype) (spec v : json),
  sub_at S p = Some S' -> c_type (s_c S') = Some t ->
  In v (at_path p spec) -> has_type t v = false ->
  validate S spec <> None.
Proof. exact type_confusion_rejected. Qed.

(* ---- quantifier: "missing required parts" ---- *)
Theorem C20_missing_required_rejected : forall (S S' : schema) (p : list pe) (k : string) (spec : json) kvs,
  sub_at S p = Some S' -> In k (c_required (s_c S')) ->
  In (JMap kvs) (at_path p spec) -> has_key kvs k = false ->
  validate S spec <> None.
Proof. exact missing_required_rejected. Qed.

(* ---- quantifier: "oversized lists" (and over-long strings, unknown keys where
        additionalProperties is false) ---- *)
Theorem C20_oversized_list_rejected : forall (S S' : schema) (p : list pe) (n : nat) (spec : json) l,
  sub_at S p = Some S' -> c_maxitems (s_c S') = Some n ->
  In (JList l) (at_path p spec) -> n < List.length l ->
  validate S spec <> None.
Proof. exact oversized_list_rejected. Qed.

Theorem C20_overlong_string_rejected : forall (S S' : schema) (p : list pe) (n : nat) (spec : json) s,
  sub_at S p = Some S' -> c_maxlen (s_c S') = Some n ->
  In (JStr s) (at_path p spec) -> n < py_len s ->
  validate S spec <> None.
Proof. exact overlong_string_rejected. Qed.

Theorem C20_unknown_key_rejected_where_closed : forall (S S' : schema) (p : list pe) (k : string) (spec : json) kvs,
  sub_at S p = Some S' -> c_addl (s_c S') = false ->
  In (JMap kvs) (at_path p spec) -> has_key kvs k = true ->
  match s_props S' with Some ps => has_key ps k | None => false end = false ->
  validate S spec <> None.
Proof. exact unknown_key_rejected_where_closed. Qed.

(* ---- "returns ... never raises" (the part that IS proved): a spec the gate
        lets through has, after default filling — i.e. as the body of
        prepare_<kind> sees it — every shape the body relies on when it calls
        .get / .items() / .pop / .lower(), iterates, or hashes a sub-value
        (facts_of k, read off the five prepare modules; see model/Schema.v).
        Proved from the GENERATED schema terms. ---- *)
Theorem C20_valid_shape : forall (k : kind) (spec : json),
  validate (schema_of k) spec = None ->
  shape_ok (facts_of k) (fill (schema_of k) spec) = true.
Proof. exact valid_shape. Qed.

(* the same, generically: any schema that `guarantees` a list of facts *)
Theorem C20_shape_sound : forall (S : schema) (fs : list fact),
  schema_wf S = true -> forallb (guarantees S) fs = true ->
  forall spec, validate S spec = None -> shape_ok fs (fill S spec) = true.
Proof. exact shape_sound. Qed.

(* ---- refuted: three things the bodies rely on that the schemas do NOT give.
        Each witness is schema-valid and makes the real prepare_* raise (they are
        the probes of the harness and known findings; see notes/C20.md). ---- *)

(* workflow/prepare.py _prepare_for_each: condition_spec.get(...) on
   steps[].forEach.condition, a key the Workflow schema does not mention *)
Theorem C20_foreach_condition_refuted :
  exists spec, validate S_Workflow spec = None /\
               fact_holds fact_foreach_condition (fill S_Workflow spec) = false.
Proof. exact foreach_condition_refuted. Qed.

(* function_test/prepare.py -> predicate_to_koreo_result: int(f"{delay}") needs
   an int, `type: integer` also admits 30.0 *)
Theorem C20_ft_delay_refuted :
  exists spec, validate S_FunctionTest spec = None /\
               forallb strict_int (at_path path_ft_delay (fill S_FunctionTest spec)) = false.
Proof. exact ft_delay_refuted. Qed.

(* celpy.json_to_cel (ResourceTemplate.template/context, FunctionTest inputs,
   inputOverrides, expectOutcome) raises on integers outside int64 *)
Theorem C20_int64_refuted :
  exists spec z, validate S_ResourceTemplate spec = None /\
                 at_path [Key "template"%string; Key "big"%string] (fill S_ResourceTemplate spec) = [JInt z] /\
                 int64 z = false.
Proof. exact int64_refuted. Qed.

(* ---- non-vacuity: a realistic ResourceFunction spec passes the gate, gets
        its defaults (create, update.patch.delay) and satisfies the shape facts;
        a type-confused variant is rejected before anything else happens ---- *)
Example C20_nonvacuous :
  validate S_ResourceFunction rf_example = None /\
  at_path [Key "update"%string; Key "patch"%string; Key "delay"%string]
          (fill S_ResourceFunction rf_example) = [JInt 30] /\
  at_path [Key "create"%string; Key "enabled"%string]
          (fill S_ResourceFunction rf_example) = [JBool true] /\
  shape_ok facts_ResourceFunction (fill S_ResourceFunction rf_example) = true /\
  prepare_gate S_ResourceFunction (JMap [("apiConfig"%string, JList [])]) = Rejected "oneOf" [] /\
  prepare_gate S_ResourceFunction
    (JMap [("apiConfig"%string, JList []); ("resource"%string, JMap [])]) = Rejected "type" [].
Proof. vm_compute. repeat split; reflexivity. Qed.

(* ---- "never raises, including for valid expressions of any syntactic
        shape": the dependency extractor every prepare_* runs on each compiled
        expression (structure_extractor.extract_argument_structure, repaired)
        is total on every well-formed CEL parse tree: it returns a set, it
        raises nothing.  Model and proof are owned by the C14 worker
        (model/Tree.v, model/Extract.v, proofs/Extract_proofs.v); imported,
        not copied. ---- *)
Theorem C20_extract_total : forall t : Tree.node,
  Tree.cel_tree_wf t = true -> exists S, Extract.extract t = Extract.Done S.
Proof. exact Extract_proofs.extract_total. Qed.

Print Assumptions C20_invalid_rejected.
Print Assumptions C20_gate_total.
Print Assumptions C20_non_object_spec_rejected.
Print Assumptions C20_type_confusion_rejected.
Print Assumptions C20_missing_required_rejected.
Print Assumptions C20_oversized_list_rejected.
Print Assumptions C20_overlong_string_rejected.
Print Assumptions C20_unknown_key_rejected_where_closed.
Print Assumptions C20_valid_shape.
Print Assumptions C20_shape_sound.
Print Assumptions C20_foreach_condition_refuted.
Print Assumptions C20_ft_delay_refuted.
Print Assumptions C20_int64_refuted.
Print Assumptions C20_extract_total.
