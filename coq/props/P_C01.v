(* P_C01.v — property C01: steps run only on Ok dependencies and see exactly
   their values.  Statements only; proofs are in proofs/Workflow_proofs.v.
   Model: model/Workflow.v (src/koreo/workflow/reconcile.py).

   Reading guide.  [run_workflow fn_sem name ready steps trigger] is one
   reconcile pass; it returns the Result fields, the per-step outcomes
   [w_outcomes] and the trace [w_trace] of every evaluation of Logic:
   an [inv] has the path of (step label, forEach index) it was made under, the
   Function / sub-workflow evaluated, the inputs it received and the API calls
   it made ([calls_of] attributes those calls to paths).
   * [fn_sem] — what each Function returns / calls on given inputs — is
     universally quantified: "every assignment of outcome classes".
   * [well_formed steps]: labels pairwise distinct and every dependency names
     an earlier step — what prepare_workflow guarantees (anything else becomes
     an ErrorStep and the workflow is not ready, see C01_not_ready).
   * [step_env_o s trigger outs] is the environment {steps ↦ exactly the
     dependencies' Ok values ([out_vals]), parent ↦ trigger}.
   * [gate_open_o s trigger outs base]: s is not an ErrorStep, every dependency
     of s is Ok in [outs], the inputs expression of s evaluates to [base] in
     that environment, and skipIf is absent or evaluates to false. *)
From Koreo Require Import Json Outcome Workflow Workflow_proofs.
Local Open Scope list_scope.

Section C01.
  Variable fn_sem : fid -> json -> fres.
  Notation run name steps trigger := (run_workflow fn_sem name None steps trigger).

  (* "A Workflow step's Logic is evaluated only after every step it references
     has finished with an Ok outcome" (and only if skipIf did not say true) *)
  Theorem C01_gate : forall name steps trigger, well_formed steps ->
    forall i l idx rest,
      In i (w_trace (run name steps trigger)) -> i_path i = (l, idx) :: rest ->
      exists s, In s steps /\ s_label s = l /\ is_error_step s = false /\
        (forall d, In d (s_deps s) ->
                   exists v, lookup d (w_outcomes (run name steps trigger)) = Some (SVal v)) /\
        (eval_skip (s_skip s) (step_env_o s trigger (w_outcomes (run name steps trigger))) = SkNone \/
         eval_skip (s_skip s) (step_env_o s trigger (w_outcomes (run name steps trigger))) = SkBool false).
  Proof. exact (gate_expanded fn_sem). Qed.

  (* "and it receives exactly those steps' return values mapped through its
     inputs" (with the forEach item under inputKey) *)
  Theorem C01_inputs_exact : forall name steps trigger, well_formed steps ->
    forall i l idx,
      In i (w_trace (run name steps trigger)) -> i_path i = [(l, idx)] ->
      exists s base,
        In s steps /\ s_label s = l /\
        gate_open_o s trigger (w_outcomes (run name steps trigger)) base /\
        match s_foreach s, idx with
        | None, None => i_inputs i = base
        | Some (it, key), Some k =>
            exists items item,
              eval it (step_env_o s trigger (w_outcomes (run name steps trigger))) = Some (JList items) /\
              nth_error items k = Some item /\ i_inputs i = set_input key item base
        | _, _ => False
        end.
  Proof. exact (inputs_exact_thm fn_sem). Qed.

  (* "If any referenced step was skipped, is waiting or failed, the step is
     reported as a dependency-skip and its Logic is never evaluated (no API
     call is made on its behalf)" *)
  Theorem C01_depskip : forall name steps trigger, well_formed steps ->
    forall s, In s steps -> is_error_step s = false ->
      (exists d, In d (s_deps s) /\ ~ out_ok (w_outcomes (run name steps trigger)) d) ->
      lookup (s_label s) (w_outcomes (run name steps trigger)) = Some (SNon NDepSkip) /\
      filter (head_is (s_label s)) (w_trace (run name steps trigger)) = [] /\
      (forall pc, In pc (calls_of (w_trace (run name steps trigger))) ->
                  path_head (fst pc) <> Some (s_label s)).
  Proof. exact (depskip_thm fn_sem). Qed.

  (* "a step whose skipIf is true is skipped the same way" *)
  Theorem C01_skip : forall name steps trigger, well_formed steps ->
    forall s base, In s steps -> is_error_step s = false ->
      Forall (out_ok (w_outcomes (run name steps trigger))) (s_deps s) ->
      eval_inputs (s_inputs s) (step_env_o s trigger (w_outcomes (run name steps trigger))) = Some base ->
      eval_skip (s_skip s) (step_env_o s trigger (w_outcomes (run name steps trigger))) = SkBool true ->
      lookup (s_label s) (w_outcomes (run name steps trigger)) = Some (SNon NSkip) /\
      filter (head_is (s_label s)) (w_trace (run name steps trigger)) = [] /\
      (forall pc, In pc (calls_of (w_trace (run name steps trigger))) ->
                  path_head (fst pc) <> Some (s_label s)).
  Proof. exact (skip_thm fn_sem). Qed.

  (* "and a refSwitch evaluates exactly the one selected case": what is recorded
     under the step is the evaluation of [select_case]'s choice and nothing
     else; with no case selected nothing is evaluated (PermFail) *)
  Theorem C01_switch_exactly_one : forall name steps trigger, well_formed steps ->
    forall s base on cases d,
      In s steps -> gate_open_o s trigger (w_outcomes (run name steps trigger)) base ->
      s_foreach s = None -> s_logic s = LSwitch on cases d ->
      match select_case on cases d base (step_env_o s trigger (w_outcomes (run name steps trigger))) with
      | None =>
          lookup (s_label s) (w_outcomes (run name steps trigger)) = Some (SNon NPermFail) /\
          filter (head_is (s_label s)) (w_trace (run name steps trigger)) = []
      | Some lg =>
          let r := run_logic fn_sem lg base (step_env_o s trigger (w_outcomes (run name steps trigger))) in
          lookup (s_label s) (w_outcomes (run name steps trigger)) = Some (r_out r) /\
          filter (head_is (s_label s)) (w_trace (run name steps trigger)) =
            map (push (s_label s, None)) (r_trace r)
      end.
  Proof. exact (switch_thm fn_sem). Qed.

  (* ... and whatever the Logic (nested switches included) at most one
     evaluation is recorded directly for one (step, item) *)
  Theorem C01_at_most_one_direct : forall lg inputs en,
    (List.length (filter (fun i => match i_path i with [] => true | _ => false end)
                         (r_trace (run_logic fn_sem lg inputs en))) <= 1)%nat.
  Proof. exact (direct_at_most_one fn_sem). Qed.

  (* a plain `ref` to a Function: exactly one evaluation, of that Function, on
     exactly the mapped inputs, and the step reports what it returned *)
  Theorem C01_function_step : forall name steps trigger, well_formed steps ->
    forall s base f,
      In s steps -> gate_open_o s trigger (w_outcomes (run name steps trigger)) base ->
      s_foreach s = None -> s_logic s = LFn f ->
      lookup (s_label s) (w_outcomes (run name steps trigger)) = Some (f_out (fn_sem f base)) /\
      filter (head_is (s_label s)) (w_trace (run name steps trigger)) =
        [ {| i_path := [(s_label s, None)]; i_tgt := TgFn f; i_inputs := base;
             i_calls := f_calls (fn_sem f base) |} ].
  Proof. exact (fn_thm fn_sem). Qed.

  (* forEach: one evaluation per item, in source order, item k receiving
     exactly item k under inputKey *)
  Theorem C01_foreach_one_per_item : forall name steps trigger, well_formed steps ->
    forall s base it key items,
      In s steps -> gate_open_o s trigger (w_outcomes (run name steps trigger)) base ->
      s_foreach s = Some (it, key) ->
      eval it (step_env_o s trigger (w_outcomes (run name steps trigger))) = Some (JList items) ->
      filter (head_is (s_label s)) (w_trace (run name steps trigger)) =
        List.concat
          (mapi (fun k item =>
                   map (push (s_label s, Some k))
                       (r_trace (run_logic fn_sem (s_logic s) (set_input key item base)
                                           (step_env_o s trigger (w_outcomes (run name steps trigger))))))
                items).
  Proof. exact (foreach_thm fn_sem). Qed.

  Theorem C01_foreach_function : forall name steps trigger, well_formed steps ->
    forall s base it key items f,
      In s steps -> gate_open_o s trigger (w_outcomes (run name steps trigger)) base ->
      s_foreach s = Some (it, key) ->
      eval it (step_env_o s trigger (w_outcomes (run name steps trigger))) = Some (JList items) ->
      s_logic s = LFn f ->
      filter (head_is (s_label s)) (w_trace (run name steps trigger)) =
        mapi (fun k item => {| i_path := [(s_label s, Some k)]; i_tgt := TgFn f;
                               i_inputs := set_input key item base;
                               i_calls := f_calls (fn_sem f (set_input key item base)) |}) items.
  Proof. exact (foreach_fn_thm fn_sem). Qed.

  (* sub-workflow: it is run with the mapped inputs as its trigger; Ok => the
     step's value is the sub-workflow's STATE, otherwise its outcome *)
  Theorem C01_sub_workflow_value : forall name steps trigger, well_formed steps ->
    forall s base n r sub,
      In s steps -> gate_open_o s trigger (w_outcomes (run name steps trigger)) base ->
      s_foreach s = None -> s_logic s = LSub n r sub ->
      let w := run_workflow fn_sem n r sub base in
      lookup (s_label s) (w_outcomes (run name steps trigger)) =
        Some (match w_result w with
              | UList _ => SVal (JMap (w_state w))
              | UNon o => of_outcome o
              end) /\
      filter (head_is (s_label s)) (w_trace (run name steps trigger)) =
        map (push (s_label s, None))
            ({| i_path := []; i_tgt := TgSub n; i_inputs := base; i_calls := [] |} :: w_trace w).
  Proof. exact (sub_thm fn_sem). Qed.

  (* the statements above hold at every depth: what is recorded deeper under a
     step is the trace of the sub-workflow's own [run_workflow] on the inputs
     of the evaluation recorded at (label, index) *)
  Theorem C01_nested : forall name steps trigger, well_formed steps ->
    forall i l idx seg rest,
      In i (w_trace (run name steps trigger)) -> i_path i = (l, idx) :: seg :: rest ->
      exists n r sub inputs,
        In {| i_path := [(l, idx)]; i_tgt := TgSub n; i_inputs := inputs; i_calls := [] |}
           (w_trace (run name steps trigger)) /\
        In {| i_path := seg :: rest; i_tgt := i_tgt i; i_inputs := i_inputs i; i_calls := i_calls i |}
           (w_trace (run_workflow fn_sem n r sub inputs)).
  Proof. exact (nested_thm fn_sem). Qed.

  (* `steps_ready` not Ok (an ErrorStep: duplicate label, out-of-order
     reference, Logic that did not load): nothing runs *)
  Theorem C01_not_ready : forall name o steps trigger,
    let w := run_workflow fn_sem name (Some o) steps trigger in
    w_trace w = [] /\ w_outcomes w = [] /\ w_result w = UNon (nonok_outcome o) /\
    w_state w = [] /\ w_conds w = [("Ready", reason_of_nonok o)].
  Proof. exact (not_ready_thm fn_sem). Qed.
End C01.

(* non-vacuity: a well-formed workflow in which a step runs on its dependency's
   value, one is dependency-skipped, one is skipped by skipIf, a refSwitch
   selects a case and a forEach evaluates once per item *)
Definition ex_fn (f : fid) (i : json) : fres :=
  if String.eqb f "skipper"
  then {| f_out := SNon NSkip; f_rid := None; f_calls := [] |}
  else {| f_out := SVal (JMap [("got", i)]); f_rid := None; f_calls := [("GET", f)] |}.

Definition ex_steps : list step :=
  [ mkStep "aaa" [] (Some [("x", EParent ["y"]); ("t", EConst (JBool true))]) None None (LFn "echo") None None;
    mkStep "bbb" [] None None None (LFn "skipper") None None;
    mkStep "ccc" ["aaa"] (Some [("v", EStep "aaa" ["got"; "x"])]) None None (LFn "echo") None None;
    mkStep "ddd" ["aaa"; "bbb"] None None None (LFn "echo") None None;
    mkStep "eee" ["aaa"] None (Some (EStep "aaa" ["got"; "t"])) None (LFn "echo") None None;
    mkStep "fff" ["ccc"] (Some [("k", EConst (JStr "one"))]) None None
           (LSwitch (EInputs ["k"]) [("one", LFn "echo"); ("two", LFn "other")] None) None None;
    mkStep "ggg" ["aaa"] None None (Some (EConst (JList [JInt 1; JInt 2]), "item")) (LFn "echo") None None ].

Example C01_nonvacuous :
  well_formed ex_steps /\
  let w := run_workflow ex_fn "wf" None ex_steps (JMap [("y", JInt 5)]) in
  map (fun i => (i_path i, i_tgt i, i_inputs i)) (w_trace w) =
    [ ([("aaa", None)], TgFn "echo", JMap [("x", JInt 5); ("t", JBool true)]);
      ([("bbb", None)], TgFn "skipper", JMap []);
      ([("ccc", None)], TgFn "echo", JMap [("v", JInt 5)]);
      ([("fff", None)], TgFn "echo", JMap [("k", JStr "one")]);
      ([("ggg", Some 0%nat)], TgFn "echo", JMap [("item", JInt 1)]);
      ([("ggg", Some 1%nat)], TgFn "echo", JMap [("item", JInt 2)]) ] /\
  lookup "ddd" (w_outcomes w) = Some (SNon NDepSkip) /\
  lookup "eee" (w_outcomes w) = Some (SNon NSkip).
Proof.
  split.
  - split; [reflexivity|]. repeat constructor; cbn; intuition discriminate.
  - vm_compute. auto.
Qed.

Print Assumptions C01_gate.
Print Assumptions C01_inputs_exact.
Print Assumptions C01_depskip.
Print Assumptions C01_skip.
Print Assumptions C01_switch_exactly_one.
Print Assumptions C01_at_most_one_direct.
Print Assumptions C01_function_step.
Print Assumptions C01_foreach_one_per_item.
Print Assumptions C01_foreach_function.
Print Assumptions C01_sub_workflow_value.
Print Assumptions C01_nested.
Print Assumptions C01_not_ready.
