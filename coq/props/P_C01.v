From Koreo Require Import Json Outcome Workflow Workflow_proofs.
Theorem C01_placeholder : True. Proof. exact placeholder_true. Qed.
Print Assumptions C01_placeholder.
