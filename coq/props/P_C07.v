(* P_C07.v — property C07: management modes bound the API calls a
   ResourceFunction may make.  Model: model/ResourceFn.v
   (reconcile_resource_function / reconcile_krm_resource); proofs in
   proofs/ResourceFn_proofs.v.  Every theorem quantifies over every scenario:
   every flag combination, every evaluation result at every expression site,
   every cluster content (absent / present, matching or not, owner-reffed or
   not — [s_live], [s_match], owner data are arbitrary). *)
From Koreo Require Import Json Payload ResourceFn ResourceFn_proofs RfFaults RfFaults_proofs.
From Koreo Require Faults CrossModel_faults.
Local Open Scope list_scope.

(* "A readonly ResourceFunction never creates or patches" *)
Theorem C07_readonly_never_creates_or_patches : forall s,
  c_readonly (s_cfg s) = true ->
  existsb is_post (calls_of s) = false /\ existsb is_patch (calls_of s) = false.
Proof. exact readonly_no_create_no_patch. Qed.

(* ... and makes no mutating call at all unless delete-if-exists is set *)
Theorem C07_readonly_no_mutation : forall s,
  c_readonly (s_cfg s) = true -> c_delete_if_exists (s_cfg s) = false ->
  filter is_mutation (calls_of s) = [].
Proof. exact readonly_no_mutation_unless_die. Qed.

(* "with create disabled a function never creates" *)
Theorem C07_create_disabled_never_creates : forall s,
  c_create_enabled (s_cfg s) = false -> existsb is_post (calls_of s) = false.
Proof. exact create_disabled_no_post. Qed.

(* "with update policy never it never patches or deletes an existing object" *)
Theorem C07_never_policy : forall s,
  c_update (s_cfg s) = UNever -> c_delete_if_exists (s_cfg s) = false ->
  existsb is_patch (calls_of s) = false /\ existsb is_delete (calls_of s) = false.
Proof. exact never_no_patch_no_delete. Qed.

(* "with policy patch it never deletes" *)
Theorem C07_patch_policy_never_deletes : forall s d,
  c_update (s_cfg s) = UPatch d -> c_delete_if_exists (s_cfg s) = false ->
  existsb is_delete (calls_of s) = false.
Proof. exact patch_policy_no_delete. Qed.

(* "and with recreate it never patches" *)
Theorem C07_recreate_policy_never_patches : forall s d,
  c_update (s_cfg s) = URecreate d -> existsb is_patch (calls_of s) = false.
Proof. exact recreate_policy_no_patch. Qed.

(* "the only exception is the explicit delete-if-exists mode, which only ever deletes" *)
Theorem C07_delete_if_exists_only_deletes : forall s,
  c_delete_if_exists (s_cfg s) = true ->
  existsb is_post (calls_of s) = false /\ existsb is_patch (calls_of s) = false.
Proof. exact delete_if_exists_only_deletes. Qed.

(* "When the object is absent and the function is readonly or may not create,
   it makes no mutating call and reports Retry (waiting) rather than a
   fabricated value" — the only other possible result is the PermFail of an
   unevaluable name / namespace / plural, with no call at all. *)
Theorem C07_absent_cannot_create_waits : forall s,
  s_live s = None -> c_delete_if_exists (s_cfg s) = false ->
  c_readonly (s_cfg s) || negb (c_create_enabled (s_cfg s)) = true ->
  filter is_mutation (calls_of s) = [] /\
  exists st, fst (reconcile_krm s) = KStop st /\
             match st with
             | StopRetry d _ => d = DEFAULT_LOAD_RETRY_DELAY
             | StopPermFail _ => snd (reconcile_krm s) = []
             | _ => False
             end.
Proof. exact absent_cannot_create. Qed.

(* "When preconditions do not pass, no API call is made at all" (reads included) *)
Theorem C07_precondition_stop_no_calls : forall s st,
  s_pre s = Some st -> reconcile_rf s = (FStop st, []).
Proof. exact precondition_stop_no_calls. Qed.

(* the bounds hold for the whole function, not only for its cluster part *)
Theorem C07_function_calls_are_krm_calls : forall s,
  snd (reconcile_rf s) = [] \/ snd (reconcile_rf s) = calls_of s.
Proof. exact rf_calls_sub. Qed.

(* at most one mutating call per pass *)
Theorem C07_at_most_one_mutation : forall s,
  (List.length (filter is_mutation (calls_of s)) <= 1)%nat.
Proof. exact at_most_one_mutation. Qed.

(* ---------- the same bounds under EVERY answer of the API ("crossed with every cluster
   situation": the object may vanish or appear between the read and the write, the read or the
   write may fail).  [reconcile_krm_f s a_get a_mut] (model/RfFaults.v) is the pass in which the
   read is answered a_get and the single write a_mut; AOk AOk is the fault-free pass. ---------- *)

Theorem C07_faultfree_is_a_special_case : forall s,
  reconcile_rf_f s AOk AOk = reconcile_rf s.
Proof. exact faultfree_rf. Qed.

Theorem C07f_readonly_never_creates_or_patches : forall s ag am,
  c_readonly (s_cfg s) = true ->
  existsb is_post (calls_f s ag am) = false /\ existsb is_patch (calls_f s ag am) = false.
Proof. exact f_readonly_no_create_no_patch. Qed.

Theorem C07f_readonly_no_mutation : forall s ag am,
  c_readonly (s_cfg s) = true -> c_delete_if_exists (s_cfg s) = false ->
  filter is_mutation (calls_f s ag am) = [].
Proof. exact f_readonly_no_mutation_unless_die. Qed.

Theorem C07f_create_disabled_never_creates : forall s ag am,
  c_create_enabled (s_cfg s) = false -> existsb is_post (calls_f s ag am) = false.
Proof. exact f_create_disabled_no_post. Qed.

Theorem C07f_never_policy : forall s ag am,
  c_update (s_cfg s) = UNever -> c_delete_if_exists (s_cfg s) = false ->
  existsb is_patch (calls_f s ag am) = false /\ existsb is_delete (calls_f s ag am) = false.
Proof. exact f_never_no_patch_no_delete. Qed.

Theorem C07f_patch_policy_never_deletes : forall s ag am d,
  c_update (s_cfg s) = UPatch d -> c_delete_if_exists (s_cfg s) = false ->
  existsb is_delete (calls_f s ag am) = false.
Proof. exact f_patch_policy_no_delete. Qed.

Theorem C07f_recreate_policy_never_patches : forall s ag am d,
  c_update (s_cfg s) = URecreate d -> existsb is_patch (calls_f s ag am) = false.
Proof. exact f_recreate_policy_no_patch. Qed.

(* in particular: a delete answered "not found" is not followed by a create *)
Theorem C07f_delete_if_exists_only_deletes : forall s ag am,
  c_delete_if_exists (s_cfg s) = true ->
  existsb is_post (calls_f s ag am) = false /\ existsb is_patch (calls_f s ag am) = false.
Proof. exact f_delete_if_exists_only_deletes. Qed.

(* no second mutating call after a failed one *)
Theorem C07f_at_most_one_mutation : forall s ag am,
  (List.length (filter is_mutation (calls_f s ag am)) <= 1)%nat.
Proof. exact f_at_most_one_mutation. Qed.

(* absent — or reported absent by the read — and readonly / may not create: no mutating call,
   Retry (waiting), never an object or a value *)
Theorem C07f_absent_cannot_create_waits : forall s ag am,
  s_live (seen s ag) = None -> c_delete_if_exists (s_cfg s) = false ->
  c_readonly (s_cfg s) || negb (c_create_enabled (s_cfg s)) = true ->
  filter is_mutation (calls_f s ag am) = [] /\
  exists st, fst (reconcile_krm_f s ag am) = KStop st /\
             match st with
             | StopRetry d _ => d = DEFAULT_LOAD_RETRY_DELAY
             | StopPermFail _ => calls_f s ag am = []
             | _ => False
             end.
Proof. exact f_absent_cannot_create. Qed.

Theorem C07f_precondition_stop_no_calls : forall s st ag am,
  s_pre s = Some st -> reconcile_rf_f s ag am = (FStop st, []).
Proof. exact f_precondition_stop_no_calls. Qed.

Theorem C07f_function_calls_are_krm_calls : forall s ag am,
  snd (reconcile_rf_f s ag am) = [] \/ snd (reconcile_rf_f s ag am) = calls_f s ag am.
Proof. exact f_rf_calls_sub. Qed.

(* a write that failed is never reported as success (no fabricated value) *)
Theorem C07f_failed_write_is_not_ok : forall s ag am,
  am <> AOk -> filter is_mutation (calls_f s ag am) <> [] ->
  match fst (reconcile_krm_f s ag am) with KObj _ => False | _ => True end.
Proof. exact f_failed_write_is_not_ok. Qed.

(* the faulted model agrees with the (richer, independently written and independently validated)
   fault-plan model of C09 on every fault both can express: [ans_of_get] reads C09's fault at the
   read as an answer, [eff_answer] gives the effective answer to the write from C09's fault and the
   actual cluster content (the server answers 409 / 404 by itself) *)
Theorem C07_faulted_models_agree : forall (s : scenario) (fp : Faults.fplan) (ag am : answer),
  CrossModel_faults.ans_of_get (Faults.fp_get fp) = Some ag ->
  (forall m, nth_error (snd (reconcile_rf_f s ag AOk)) 1 = Some m ->
             CrossModel_faults.eff_answer m (Faults.fp_mut fp) (s_live s) = Some am) ->
  fst (Faults.reconcile_rf_faulty s fp) =
    (Faults.FRes (fst (reconcile_rf_f s ag am)), snd (reconcile_rf_f s ag am)).
Proof. exact CrossModel_faults.faulted_models_agree. Qed.

(* non-vacuity: a concrete scenario that patches, one that is readonly *)
Definition ex_cfg (ro : bool) : cfg :=
  {| c_version := "v1"; c_kind := "Widget"; c_plural := Some "widgets"; c_namespaced := true;
     c_owned := false; c_readonly := ro; c_delete_if_exists := false; c_create_enabled := true;
     c_create_delay := 30; c_update := UPatch 9 |}.
Definition ex_scenario (ro : bool) : scenario :=
  {| s_cfg := ex_cfg ro; s_pre := None; s_locals_err := false;
     s_name := NameOk "w" (Some "ns"); s_lookup := None;
     s_live := Some (JMap [("metadata", JMap [("name", JStr "w")])]);
     s_template := TInline (Some (JMap [("spec", JInt 1)])); s_overlays := OvNone;
     s_create_overlay := CNone; s_owner_ns := None; s_owner_ref := JMap [];
     s_match := false; s_post := None; s_return := None |}.
Example C07_nonvacuous :
  existsb is_patch (calls_of (ex_scenario false)) = true /\
  calls_of (ex_scenario true) = [CGet "widgets" (Some "ns") "w"].
Proof. vm_compute. split; reflexivity. Qed.

(* non-vacuity of the faulted statements: a delete-if-exists function whose DELETE is answered
   "not found" raises and creates nothing; a create answered 409 waits *)
Definition ex_die : scenario :=
  let s := ex_scenario false in
  {| s_cfg := {| c_version := "v1"; c_kind := "Widget"; c_plural := Some "widgets"; c_namespaced := true;
                 c_owned := false; c_readonly := false; c_delete_if_exists := true; c_create_enabled := true;
                 c_create_delay := 30; c_update := UPatch 9 |};
     s_pre := None; s_locals_err := false; s_name := s_name s; s_lookup := None; s_live := s_live s;
     s_template := s_template s; s_overlays := OvNone; s_create_overlay := CNone; s_owner_ns := None;
     s_owner_ref := JMap []; s_match := false; s_post := None; s_return := None |}.
Example C07f_nonvacuous :
  reconcile_krm_f ex_die AOk ANotFound =
    (KRaise, [CGet "widgets" (Some "ns") "w"; CDelete "widgets" (Some "default") "w"]) /\
  fst (reconcile_krm_f (set_live (ex_scenario false) None) AOk AConflict) =
    KStop (StopRetry 30 "spec.create(contention)") /\
  reconcile_krm_f (ex_scenario false) AServerErr AOk =
    (KStop (StopRetry 30 "load resource"), [CGet "widgets" (Some "ns") "w"]).
Proof. vm_compute. repeat split; reflexivity. Qed.

Example C07_faulted_models_agree_nonvacuous :
  let fp := {| Faults.fp_get := Faults.FNone; Faults.fp_mut := Faults.FSrv 404 false |} in
  CrossModel_faults.ans_of_get (Faults.fp_get fp) = Some AOk /\
  (forall m, nth_error (snd (reconcile_rf_f ex_die AOk AOk)) 1 = Some m ->
             CrossModel_faults.eff_answer m (Faults.fp_mut fp) (s_live ex_die) = Some AExc) /\
  fst (fst (Faults.reconcile_rf_faulty ex_die fp)) = Faults.FRes FRaise.
Proof.
  cbn zeta. split; [reflexivity|]. split.
  - intros m H. vm_compute in H. injection H as <-. reflexivity.
  - vm_compute. reflexivity.
Qed.

Print Assumptions C07_readonly_never_creates_or_patches.
Print Assumptions C07_readonly_no_mutation.
Print Assumptions C07_create_disabled_never_creates.
Print Assumptions C07_never_policy.
Print Assumptions C07_patch_policy_never_deletes.
Print Assumptions C07_recreate_policy_never_patches.
Print Assumptions C07_delete_if_exists_only_deletes.
Print Assumptions C07_absent_cannot_create_waits.
Print Assumptions C07_precondition_stop_no_calls.
Print Assumptions C07_function_calls_are_krm_calls.
Print Assumptions C07_at_most_one_mutation.
Print Assumptions C07_faultfree_is_a_special_case.
Print Assumptions C07f_readonly_never_creates_or_patches.
Print Assumptions C07f_readonly_no_mutation.
Print Assumptions C07f_create_disabled_never_creates.
Print Assumptions C07f_never_policy.
Print Assumptions C07f_patch_policy_never_deletes.
Print Assumptions C07f_recreate_policy_never_patches.
Print Assumptions C07f_delete_if_exists_only_deletes.
Print Assumptions C07f_at_most_one_mutation.
Print Assumptions C07f_absent_cannot_create_waits.
Print Assumptions C07f_precondition_stop_no_calls.
Print Assumptions C07f_function_calls_are_krm_calls.
Print Assumptions C07f_failed_write_is_not_ok.
Print Assumptions C07_faulted_models_agree.
