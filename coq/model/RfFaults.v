(* RfFaults.v — reconcile_krm_resource / reconcile_resource_function when the API answers with
   errors: the read may be answered "not found" although the object is there (or the object may
   vanish / appear between the read and the write), and the read or the (single) write may fail.
   Built ON TOP of the fault-free model (ResourceFn.reconcile_krm), following the code:

     load_api_resource : NotFoundError / ServerError 404 -> absent ; any other error -> Retry
                         (DEFAULT_LOAD_RETRY_DELAY, "load resource"), nothing else is called;
     _create_api_resource : ServerError 409 -> Retry(create.delay, contention) ; any other error
                         -> PermFail "spec.create";
     api_resource.delete() / .patch() : not guarded -> the exception escapes (KRaise).

   Proof-free: see proofs/RfFaults_proofs.v. *)
From Koreo Require Export ResourceFn.
Local Open Scope list_scope.

Inductive answer := AOk | ANotFound | AConflict | AServerErr | AExc.

Definition set_live (s : scenario) (l : option json) : scenario :=
  {| s_cfg := s_cfg s; s_pre := s_pre s; s_locals_err := s_locals_err s; s_name := s_name s;
     s_lookup := s_lookup s; s_live := l; s_template := s_template s; s_overlays := s_overlays s;
     s_create_overlay := s_create_overlay s; s_owner_ns := s_owner_ns s; s_owner_ref := s_owner_ref s;
     s_match := s_match s; s_post := s_post s; s_return := s_return s |}.

(* the read fails (anything but "ok" and "not found") *)
Definition get_fails (a : answer) : bool :=
  match a with AOk | ANotFound => false | _ => true end.

(* what the scenario looks like to the code after the read *)
Definition seen (s : scenario) (a_get : answer) : scenario :=
  match a_get with ANotFound => set_live s None | _ => s end.

(* the result when the single mutating call [m] is answered [a] *)
Definition mut_result (c : cfg) (r : kres) (m : call) (a : answer) : kres :=
  match a with
  | AOk => r
  | _ =>
      match m with
      | CPost _ _ _ =>
          match a with
          | AConflict => KStop (StopRetry (c_create_delay c) "spec.create(contention)")
          | _ => KStop (StopPermFail "spec.create")
          end
      | _ => KRaise
      end
  end.

Definition reconcile_krm_f (s : scenario) (a_get a_mut : answer) : kres * list call :=
  match reconcile_krm s with
  | (r, []) => (r, [])                      (* stopped before the read *)
  | (_, g :: _) =>
      if get_fails a_get
      then (KStop (StopRetry DEFAULT_LOAD_RETRY_DELAY "load resource"), [g])
      else
        match reconcile_krm (seen s a_get) with
        | (r, [g'; m]) => (mut_result (s_cfg s) r m a_mut, [g'; m])
        | other => other
        end
  end.

Definition reconcile_rf_f (s : scenario) (a_get a_mut : answer) : fres * list call :=
  match s_pre s with
  | Some st => (FStop st, [])
  | None =>
      if s_locals_err s then (FStop (StopPermFail "spec.locals"), []) else
      match reconcile_krm_f s a_get a_mut with
      | (KStop st, calls) => (FStop st, calls)
      | (KRaise, calls) => (FRaise, calls)
      | (KObj _, calls) =>
          match s_post s with
          | Some st => (FStop st, calls)
          | None => (FValue (s_return s), calls)
          end
      end
  end.

Definition calls_f (s : scenario) (a_get a_mut : answer) : list call := snd (reconcile_krm_f s a_get a_mut).
