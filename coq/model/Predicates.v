(* Predicates.v — preconditions / postconditions.

     predicate_extractor's expression  "[ {assert: .., <kind>: {..}}, .. ].filter(predicate, !predicate.assert)"
                               (predicate_helpers.py:13-37)  ->  [cel_filter]  (what celpy does with it)
     predicate_to_koreo_result (predicate_helpers.py:40-73)  ->  [p2k]
     evaluate_predicates       (cel/evaluation.py:43-71)     ->  [evaluate_predicates_raw], [evaluate_predicates]
     reconcile_value_function  (value_function/reconcile.py:11-62)            ->  [reconcile_vf]
     reconcile_resource_function (resource_function/reconcile/__init__.py:42-115) -> [reconcile_rf]
                               (the Kubernetes part reconcile_krm_resource is a Section variable)

   A predicate list is given as the list of its *evaluated elements*: the
   [vtree] celpy builds for each map literal {"assert": .., "skip": {"message": ..}}
   (an erroring leaf inside a map literal stays an embedded [VErr]).
   Proof-free; proofs are in proofs/Predicates_proofs.v. *)
From Koreo Require Export ErrScan.
From Coq Require Import DecimalString.
Local Open Scope list_scope.

(* ---------- f"{value}" and int(f"{value}") ---------- *)

Definition z_to_string (z : Z) : string := NilZero.string_of_int (Z.to_int z).

(* f"{v}" : exact for str / int / bool / None; other texts (float repr, container repr)
   are not modelled ([None] = "some text we do not predict") *)
Definition fmt (v : vtree) : option string :=
  match v with
  | VStr s => Some s
  | VInt z => Some (z_to_string z)
  | VBool true => Some "True"
  | VBool false => Some "False"
  | VNull => Some "None"
  | _ => None
  end.

(* Python int(str) on an ASCII string: strip whitespace, optional sign, decimal
   digits with single underscores between digits. *)
Definition is_ws (c : ascii) : bool :=
  let n := nat_of_ascii c in
  (Nat.eqb n 32 || (Nat.leb 9 n && Nat.leb n 13) || (Nat.leb 28 n && Nat.leb n 31))%bool.

Definition digit_of (c : ascii) : option Z :=
  let n := nat_of_ascii c in
  if (Nat.leb 48 n && Nat.leb n 57)%bool then Some (Z.of_nat (n - 48)) else None.

Fixpoint lstrip (s : string) : string :=
  match s with
  | String c r => if is_ws c then lstrip r else s
  | EmptyString => s
  end.

Fixpoint srev_app (s acc : string) : string :=
  match s with
  | EmptyString => acc
  | String c r => srev_app r (String c acc)
  end.
Definition srev (s : string) : string := srev_app s EmptyString.
Definition strip (s : string) : string := srev (lstrip (srev (lstrip s))).

Fixpoint digits_tail (s : string) (acc : Z) (after_us : bool) : option Z :=
  match s with
  | EmptyString => if after_us then None else Some acc
  | String c r =>
      match digit_of c with
      | Some d => digits_tail r (acc * 10 + d) false
      | None =>
          if (Nat.eqb (nat_of_ascii c) 95 && negb after_us)%bool   (* "_" *)
          then digits_tail r acc true else None
      end
  end.

Definition digits (s : string) : option Z :=
  match s with
  | String c r => match digit_of c with Some d => digits_tail r d false | None => None end
  | EmptyString => None
  end.

Definition py_int_of_string (s : string) : option Z :=
  match strip s with
  | String c r =>
      let n := nat_of_ascii c in
      if Nat.eqb n 45 then option_map Z.opp (digits r)          (* "-" *)
      else if Nat.eqb n 43 then digits r                          (* "+" *)
      else digits (String c r)
  | EmptyString => None
  end.

(* int(f"{delay}") : None = ValueError.  A float's repr always contains ".", "e", "inf"
   or "nan"; True/False/None and container reprs are not numerals; other objects
   (VOther) are assumed not to format as a numeral. *)
Definition delay_of (v : vtree) : option Z :=
  match v with
  | VInt z => Some z
  | VStr s => py_int_of_string s
  | _ => None
  end.

(* ---------- celpy on  [e1, .., en].filter(predicate, !predicate.assert) ----------
   [!e.assert]: e must be a map with an "assert" entry whose value is a bool;
   anything else (no such member, error value, non-bool operand of !) makes the
   macro body raise, and the exception leaves Runner.evaluate. *)
Definition assert_of (e : vtree) : option bool :=
  match e with
  | VMap kvs => match vlookup "assert" kvs with Some (VBool b) => Some b | _ => None end
  | _ => None
  end.

Fixpoint filter_false (es : list vtree) : option (list vtree) :=
  match es with
  | [] => Some []
  | e :: r =>
      match assert_of e with
      | None => None
      | Some b =>
          match filter_false r with
          | None => None
          | Some k => Some (if b then k else e :: k)
          end
      end
  end.

Definition cel_filter (es : list vtree) : raw :=
  match filter_false es with
  | None => RRaise
  | Some k => RVal (VList k)
  end.

(* ---------- predicate_to_koreo_result ---------- *)

(* mapping pattern  {"k": {"message": message}}  against the entries of a map *)
Definition sub_map (k : string) (e : list (vtree * vtree)) : option (list (vtree * vtree)) :=
  match vlookup k e with Some (VMap m) => Some m | _ => None end.

Definition msg_in (k : string) (e : list (vtree * vtree)) : option vtree :=
  match sub_map k e with Some m => vlookup "message" m | None => None end.

Definition retry_in (e : list (vtree * vtree)) : option (vtree * vtree) :=
  match sub_map "retry" e with
  | Some m => match vlookup "message" m, vlookup "delay" m with
              | Some msg, Some d => Some (msg, d)
              | _, _ => None
              end
  | None => None
  end.

(* json.dumps(predicate) in the "Unknown predicate type" branch raises TypeError on
   objects that are not JSON serialisable *)
Definition dump_key_ok (k : vtree) : bool :=
  match k with VStr _ | VInt _ | VBool _ | VNull | VFloat _ _ => true | _ => false end.

Fixpoint dumpable (v : vtree) : bool :=
  match v with
  | VOther _ | VErr => false
  | VList l => forallb dumpable l
  | VMap kvs =>
      (fix go (kvs : list (vtree * vtree)) : bool :=
         match kvs with
         | [] => true
         | (k, x) :: r => dump_key_ok k && dumpable x && go r
         end) kvs
  | _ => true
  end.

Definition msg_unknown_pred : string := "Unknown predicate type: ".

(* the match statement on ONE predicate; [None] = "return None" (continue) *)
Definition decide (loc : string) (p : vtree) : res (option outcome) :=
  let unknown :=
    if dumpable p then Done (Some (PermFail (Some msg_unknown_pred) (Some loc)))
    else Raised TypeError in
  match p with
  | VMap e =>
      match vlookup "assert" e with
      | None => unknown
      | Some _ =>
          match sub_map "ok" e with
          | Some _ => Done None
          | None =>
          match msg_in "depSkip" e with
          | Some m => Done (Some (DepSkip (fmt m) (Some loc)))
          | None =>
          match msg_in "skip" e with
          | Some m => Done (Some (Skip (fmt m) (Some loc)))
          | None =>
          match retry_in e with
          | Some (m, d) =>
              match delay_of d with
              | Some z => Done (Some (Retry z (fmt m) (Some loc)))
              | None => Raised ValueError
              end
          | None =>
          match msg_in "permFail" e with
          | Some m => Done (Some (PermFail (fmt m) (Some loc)))
          | None => unknown
          end end end end end
      end
  | _ => unknown
  end.

(* if not predicates: return None; for predicate in predicates: <every arm returns> *)
Definition p2k (loc : string) (ps : list vtree) : res (option outcome) :=
  match ps with
  | [] => Done None
  | p :: _ => decide loc p
  end.

(* ---------- evaluate_predicates ---------- *)
Definition msg_bad_structure (loc : string) : string := "Bad structure for `" ++ loc ++ "`".
Definition msg_eval_exn (loc : string) : string := "Error evaluating `" ++ loc ++ "`: ".

(* on the raw result of the predicates program *)
Definition evaluate_predicates_raw (r : raw) (loc : string) : option outcome :=
  match r with
  | RRaise => Some (fail_eval loc)
  | RRaiseOther => Some (PermFail (Some (msg_eval_exn loc)) (Some loc))
  | RVal v =>
      if scan v then Some (fail_eval loc)
      else match v with
           | VList ps =>
               match p2k loc ps with
               | Done o => o
               | Raised _ => Some (PermFail (Some (msg_eval_exn loc)) (Some loc))
               end
           | _ => Some (PermFail (Some (msg_bad_structure loc)) (Some loc))
           end
  end.

(* [None] predicates: no program was prepared (no conditions in the spec) *)
Definition evaluate_predicates_opt (r : option raw) (loc : string) : option outcome :=
  match r with
  | None => None
  | Some r => evaluate_predicates_raw r loc
  end.

(* the whole pipeline on the evaluated elements of a (non-empty) predicate list *)
Definition evaluate_predicates (es : list vtree) (loc : string) : option outcome :=
  evaluate_predicates_raw (cel_filter es) loc.

(* ---------- reconcile_value_function ---------- *)
Inductive site := SPre | SLocals | SResource | SPost | SReturn.

(* a prepared function, with what celpy does at each of its evaluation sites *)
Record vfn := {
  vf_pre : option raw;               (* function.preconditions *)
  vf_locals : option raw;            (* function.local_values *)
  vf_return : option (index * raw)   (* function.return_value (Overlay) *)
}.

Definition sloc (loc part : string) : string := loc ++ ":spec." ++ part.

Definition msg_bad_locals : string := "Invalid `locals` expression type".

Definition trace_of (s : site) (r : option raw) : list site := match r with None => [] | Some _ => [s] end.

(* result and the list of sites whose expression was handed to celpy, in order.
   [base]: the value_base argument (None or a map). *)
Definition reconcile_vf (f : vfn) (base : option (list (vtree * vtree))) (loc : string)
  : res (uoutcome vtree) * list site :=
  let t0 := trace_of SPre (vf_pre f) in
  match evaluate_predicates_opt (vf_pre f) (sloc loc "preconditions") with
  | Some o => (Done (UOut o), t0)
  | None =>
      match vf_return f with
      | None => (Done (UVal VNull), t0)
      | Some (idx, rr) =>
          let t1 := t0 ++ trace_of SLocals (vf_locals f) in
          let go :=
            (evaluate_overlay idx rr (match base with Some b => b | None => [] end)
                              (sloc loc "return"), t1 ++ [SReturn]) in
          match evaluate (vf_locals f) (sloc loc "locals") with
          | EFail o => (Done (UOut o), t1)
          | EVal (VMap _) => go
          | ENone | EVal VNull => go          (* `case None` also catches a null value *)
          | EVal _ => (Done (UOut (PermFail (Some msg_bad_locals) (Some (sloc loc "locals")))), t1)
          end
      end
  end.

(* ---------- reconcile_resource_function ---------- *)
Section RF.
  (* reconcile_krm_resource: everything that talks to the cluster.  Its result is either a
     non-Ok outcome or the managed object; [call] is an API call (reads included). *)
  Variable call : Type.
  Variable krm : option raw (* locals *) -> uoutcome vtree * list call.

  Record rfn := {
    rf_pre : option raw;
    rf_locals : option raw;
    rf_post : option raw;            (* evaluated with the resource in scope *)
    rf_return : option raw
  }.

  (* outcome, sites evaluated by reconcile_resource_function itself, API calls *)
  Definition reconcile_rf (f : rfn) (loc : string) : option (uoutcome vtree) * list site * list call :=
    let t0 := trace_of SPre (rf_pre f) in
    match evaluate_predicates_opt (rf_pre f) (sloc loc "preconditions") with
    | Some o => (Some (UOut o), t0, [])
    | None =>
        let t1 := t0 ++ trace_of SLocals (rf_locals f) in
        let bad := PermFail (Some msg_bad_locals) (Some (sloc loc "locals")) in
        match
          match evaluate (rf_locals f) (sloc loc "locals") with
          | EFail o => Some o
          | ENone | EVal VNull => None
          | EVal (VMap _) => None
          | EVal _ => Some bad
          end
        with
        | Some o => (Some (UOut o), t1, [])
        | None =>
            let '(r, calls) := krm (rf_locals f) in
            match r with
            | UOut o => (Some (UOut o), t1 ++ [SResource], calls)
            | UVal _ =>
                let t2 := t1 ++ [SResource] ++ trace_of SPost (rf_post f) in
                match evaluate_predicates_opt (rf_post f) (sloc loc "postconditions") with
                | Some o => (Some (UOut o), t2, calls)
                | None =>
                    (match evaluate (rf_return f) (sloc loc "return") with
                     | ENone => None
                     | EVal v => Some (UVal v)
                     | EFail o => Some (UOut o)
                     end, t2 ++ trace_of SReturn (rf_return f), calls)
                end
            end
        end
    end.
End RF.
