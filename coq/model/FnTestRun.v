(* FnTestRun.v — model of the FunctionTest runner's case chaining:
   src/koreo/function_test/run.py
     MockApi (40-97), _merge_overlay (100-111),
     run_function_test (139-161), _run_test_cases (164-193),
     _run_test_case (196-354),
   and cel/functions.py _overlay/_deep_overlay (229-260) for inputOverrides.
   Proof-free: see proofs/FnTestRun_proofs.v.

   ABSTRACT here (Section variables, no law assumed beyond being functions):
     fut      the Function under test run against MockApi(resource): its
              outcome and the list of API calls it made, a function of the
              (inputs, resource) it is handed (reconcile_resource_function /
              reconcile_value_function with the constant prepared function);
     verdict  the per-assertion comparators (property C19, model/FnTestMatch.v);
     ioverlay cel.functions._overlay on the inputs (None = CELEvalError);
     roverlay convert_bools(evaluate_overlay(overlay, inputs, resource))
              (None = PermFail) (property C12).
   [deep_overlay] below is the concrete _overlay used by the correspondence. *)
From Koreo Require Export Json.
Local Open Scope list_scope.

(* ---------- concrete helpers (no Section variables) ---------- *)

(* Python truthiness of an Optional[dict] *)
Definition truthy_o (o : option json) : bool :=
  match o with Some j => py_truthy j | None => false end.

(* cel.functions._deep_overlay: recursive where both sides are maps, else the
   overlay value replaces (or is appended). Never produces an error. *)
Fixpoint deep_overlay (resource overlay : json) {struct overlay} : json :=
  match resource, overlay with
  | JMap r, JMap o =>
      JMap ((fix go (o : list (string * json)) (acc : list (string * json)) {struct o} :=
               match o with
               | [] => acc
               | (k, v) :: rest =>
                   let v' := match lookup k acc with
                             | Some (JMap rv) =>
                                 match v with
                                 | JMap _ => deep_overlay (JMap rv) v
                                 | _ => v
                                 end
                             | _ => v
                             end in
                   go rest (set_key k v' acc)
               end) o r)
  | _, _ => overlay
  end.

(* one request the function under test sent through MockApi.call_api *)
Inductive api_call :=
| CDelete                                   (* "DELETE" in args *)
| CSend (data : list (string * json)).      (* POST / PATCH with a JSON object body *)

(* MockApi's three attributes *)
Record api_state := { a_mat : option json; a_called : bool; a_deleted : bool }.

Definition api0 : api_state := {| a_mat := None; a_called := false; a_deleted := false |}.

(* _merge_overlay: the recursive branch's result is overwritten by the
   unconditional `updated[key] = value`, so it is a top-level replace.
   None = it raises (base is not a dict and there is something to merge). *)
Definition merge_overlay (base : json) (data : list (string * json)) : option json :=
  match base with
  | JMap b => Some (JMap (fold_left (fun acc kv => set_key (fst kv) (snd kv) acc) data b))
  | _ => match data with [] => Some base | _ => None end
  end.

(* MockApi.call_api against MockApi(current_resource = cur) *)
Definition api_step (cur : option json) (a : api_state) (c : api_call) : api_state :=
  match c with
  | CDelete => {| a_mat := Some (JMap []); a_called := true; a_deleted := true |}
  | CSend data =>
      let merged :=
        if truthy_o cur
        then match cur with Some b => merge_overlay b data | None => None end
        else Some (JMap data) in
      match merged with
      | Some m => {| a_mat := Some m; a_called := true; a_deleted := a_deleted a |}
      | None => {| a_mat := a_mat a; a_called := true; a_deleted := a_deleted a |} (* raised inside call_api *)
      end
  end.

Definition api_run (cur : option json) (calls : list api_call) : api_state :=
  fold_left (api_step cur) calls api0.

(* drop the positions whose mask bit is false (used to state removal/insertion
   of cases by POSITION, so that two equal cases can be told apart) *)
Fixpoint mfilter {A} (m : list bool) (l : list A) : list A :=
  match m, l with
  | b :: m', x :: l' => if b then x :: mfilter m' l' else mfilter m' l'
  | _, _ => []
  end.

Section FnTestRun.
  Variable assertion : Type.   (* prepared assertion of a case (opaque: C19) *)
  Variable overlay : Type.     (* prepared overlayResource (cel.prepare.Overlay) *)
  Variable outcome : Type.     (* what reconcile_* returned *)

  (* result of running the function under test *)
  Inductive fres :=
  | FRaised                                           (* an exception escaped reconcile_* *)
  | FDone (o : outcome) (calls : list api_call).

  Variable fut : json -> option json -> fres.
  (* assertion, outcome, api.materialized, api._delete_called; None = comparator raised *)
  Variable verdict : assertion -> outcome -> option json -> bool -> option bool.
  Variable ioverlay : json -> json -> option json.
  Variable roverlay : overlay -> json -> json -> option json.

  (* structure.TestCase (label omitted: it is only copied into the result) *)
  Record tcase := {
    tc_assertion : assertion;
    tc_variant : bool;
    tc_skip : bool;
    tc_overrides : option json;      (* input_overrides: MapType | None *)
    tc_current : option json;        (* current_resource: dict | None *)
    tc_overlay : option overlay      (* resource_overlay: Overlay | None *)
  }.

  (* the state threaded by _run_test_cases: (current_inputs, current_resource) *)
  Definition state := (option json * option json)%type.

  Inductive rkind :=
  | KSkipped                (* "user skipped" *)
  | KInputsErr              (* inputs overlay error *)
  | KSetupErr               (* overlayResource but no current resource *)
  | KOverlayErr             (* overlayResource evaluated to PermFail *)
  | KRan (o : outcome)      (* the function ran; o is TestCaseResult.outcome's source *)
  | KCrashed.               (* an exception propagates out of _run_test_case *)

  Record cresult := { r_pass : bool; r_kind : rkind }.

  (* TestCaseOutcome *)
  Record caseout := { o_next : state; o_result : cresult; o_fatal : bool }.

  Definition mkout (st : state) (p : bool) (k : rkind) (fatal : bool) : caseout :=
    {| o_next := st; o_result := {| r_pass := p; r_kind := k |}; o_fatal := fatal |}.

  (* run.py:219-240 *)
  Definition case_inputs (bi ov : option json) : option json :=
    match bi, ov with
    | Some b, Some o =>
        if py_truthy b && py_truthy o then ioverlay b o
        else if py_truthy b then Some b
        else if py_truthy o then Some o
        else Some (JMap [])
    | Some b, None => if py_truthy b then Some b else Some (JMap [])
    | None, Some o => if py_truthy o then Some o else Some (JMap [])
    | None, None => Some (JMap [])
    end.

  Inductive rres := RSetupErr | ROverlayErr | RRes (r : option json).

  (* run.py:242-282 *)
  Definition case_resource (c : tcase) (inputs : json) (cr : option json) : rres :=
    match tc_overlay c with
    | Some ov =>
        if truthy_o cr
        then match cr with
             | Some base =>
                 match roverlay ov inputs base with
                 | Some r => RRes (Some r)
                 | None => ROverlayErr
                 end
             | None => RSetupErr
             end
        else RSetupErr
    | None =>
        if truthy_o (tc_current c) then RRes (tc_current c) else RRes cr
    end.

  (* new_resource of a non-variant case: api.materialized if api._api_called else resource *)
  Definition produced_resource (resource : option json) (a : api_state) : option json :=
    if a_called a then a_mat a else resource.

  (* _run_test_case *)
  Definition run_case (st : state) (c : tcase) : caseout :=
    let '(bi, cr) := st in
    if tc_skip c then mkout st true KSkipped false
    else
      match case_inputs bi (tc_overrides c) with
      | None => mkout st false KInputsErr (negb (tc_variant c))
      | Some inputs =>
          match case_resource c inputs cr with
          | RSetupErr => mkout st false KSetupErr true
          | ROverlayErr => mkout st false KOverlayErr (negb (tc_variant c))
          | RRes resource =>
              match fut inputs resource with
              | FRaised => mkout st false KCrashed true
              | FDone o calls =>
                  let a := api_run resource calls in
                  match verdict (tc_assertion c) o (a_mat a) (a_deleted a) with
                  | None => mkout st false KCrashed true
                  | Some p =>
                      if tc_variant c then mkout st p (KRan o) false
                      else mkout (Some inputs, produced_resource resource a) p (KRan o) (negb p)
                  end
              end
          end
      end.

  (* one executed case: what it started from, the case, and what came out *)
  Record entry := { e_start : state; e_case : tcase; e_out : caseout }.

  Definition e_next (e : entry) : state := o_next (e_out e).
  Definition e_result (e : entry) : cresult := o_result (e_out e).
  Definition e_fatal (e : entry) : bool := o_fatal (e_out e).

  (* _run_test_cases: the trace of executed cases; stops after the first fatal one *)
  Fixpoint run_cases (st : state) (cs : list tcase) : list entry :=
    match cs with
    | [] => []
    | c :: rest =>
        let o := run_case st c in
        {| e_start := st; e_case := c; e_out := o |} ::
        (if o_fatal o then [] else run_cases (o_next o) rest)
    end.

  Definition is_crash (e : entry) : bool :=
    match r_kind (e_result e) with KCrashed => true | _ => false end.

  Inductive runres :=
  | RunRaised                                           (* exception out of run_function_test *)
  | RunDone (results : list cresult) (fatal_error : bool).

  (* run_function_test; [healthy] = is_unwrapped_ok(function_under_test) *)
  Definition run_function_test (healthy : bool) (base : state) (cs : list tcase) : runres :=
    if negb healthy then RunDone [] true
    else
      let tr := run_cases base cs in
      if existsb is_crash tr then RunRaised
      else RunDone (map e_result tr) (existsb e_fatal tr).

  (* ---------- vocabulary for the theorems ---------- *)

  (* a case that can carry state forward *)
  Definition carries (c : tcase) : bool := negb (tc_variant c) && negb (tc_skip c).
  Definition nonvariant (c : tcase) : bool := negb (tc_variant c).
  Definition nonskip (c : tcase) : bool := negb (tc_skip c).

  (* the state after running all of cs, ignoring aborts *)
  Definition thread (st : state) (cs : list tcase) : state :=
    fold_left (fun s c => o_next (run_case s c)) cs st.

  (* the state left by the last carrying entry of a trace (or st) *)
  Definition last_carried (st : state) (tr : list entry) : state :=
    fold_left (fun s e => if carries (e_case e) then e_next e else s) tr st.
End FnTestRun.

Arguments FRaised {outcome}. Arguments FDone {outcome}.
Arguments KSkipped {outcome}. Arguments KInputsErr {outcome}. Arguments KSetupErr {outcome}.
Arguments KOverlayErr {outcome}. Arguments KRan {outcome}. Arguments KCrashed {outcome}.
Arguments RunRaised {outcome}. Arguments RunDone {outcome}.

Arguments Build_tcase {assertion overlay}.
Arguments tc_assertion {assertion overlay}. Arguments tc_variant {assertion overlay}.
Arguments tc_skip {assertion overlay}. Arguments tc_overrides {assertion overlay}.
Arguments tc_current {assertion overlay}. Arguments tc_overlay {assertion overlay}.
Arguments Build_cresult {outcome}. Arguments r_pass {outcome}. Arguments r_kind {outcome}.
Arguments Build_caseout {outcome}. Arguments o_next {outcome}. Arguments o_result {outcome}.
Arguments o_fatal {outcome}. Arguments mkout {outcome}.
Arguments Build_entry {assertion overlay outcome}.
Arguments e_start {assertion overlay outcome}. Arguments e_case {assertion overlay outcome}.
Arguments e_out {assertion overlay outcome}. Arguments e_next {assertion overlay outcome}.
Arguments e_result {assertion overlay outcome}. Arguments e_fatal {assertion overlay outcome}.
Arguments is_crash {assertion overlay outcome}.
Arguments case_resource {assertion overlay}.
Arguments run_case {assertion overlay outcome}.
Arguments run_cases {assertion overlay outcome}.
Arguments run_function_test {assertion overlay outcome}.
Arguments carries {assertion overlay}. Arguments nonvariant {assertion overlay}.
Arguments nonskip {assertion overlay}.
Arguments thread {assertion overlay outcome}.
Arguments last_carried {assertion overlay outcome}.
